#!/usr/bin/env python3
"""Generates /verif/MANIFEST.json from tools/manifest_table.json (one entry per property)."""
import json, os, sys
here = os.path.dirname(os.path.abspath(__file__))
root = os.path.dirname(here)
table = json.load(open(os.path.join(here, "manifest_table.json")))
props = [json.loads(l)["id"] for l in open(os.path.join(root, "properties.jsonl")) if l.strip()]
checks, na = [], []
for pid in props:
    e = table.get(pid)
    if not e or e.get("not_applicable"):
        na.append({"property_id": pid, "reason": (e or {}).get("not_applicable", "check not built yet")})
        continue
    checks.append({
        "property_id": pid,
        "quick_cmd": "./check %s quick" % pid,
        "thorough_cmd": "./check %s thorough" % pid,
        "evidence_file": "evidence/%s.json" % pid,
        "replay_cmd_template": "./check %s quick  # re-derives all obligations; the one in {path} is identified by rule+construct" % pid,
        "engine": "seatalint",
        "level_claimed": {"category": "other", "text": e["level_text"], "design_ref": e.get("design_ref", "DESIGN.md §2 " + pid)},
        "level_note": e["level_note"],
        "technique": e["technique"],
    })
m = {
    "version": 1,
    "setup_cmd": "sh ./setup.sh",
    "hooks": {
        "guard": "verif",
        "enable": "no hooks: the checks read /repo's source (go/packages) and never build or run it; the guard name is reserved and unused",
        "baseline_off_cmd": "cd /repo && GOFLAGS=-mod=mod go test -vet=off -count=1 -gcflags=all=-l ./...",
        "source_commits": [],
        "add_only": True,
    },
    "engines": [{
        "name": "seatalint",
        "path": "checker/",
        "serves_properties": [c["property_id"] for c in checks],
        "kind_free_text": "repository-specific static analyser (go/packages + go/types + go/cfg): CFG path engine with must/may events, nil/truth branch facts, error-flow (dropped / swallowed errors), bounded callee summaries, table/layout extraction, lockset; decides structural necessary conditions of each property on /repo's current source without running it",
    }],
    "checks": checks,
    "not_applicable": na,
    "notes": "Technique family: static analysis only. Every check loads /repo's working tree afresh, prints what it analysed, fails closed on unresolved anchors / type errors / instance floors, prints KNOWN-FINDING lines for the defects listed in known_findings.json and VIOLATION lines for anything else. See DESIGN.md.",
}
json.dump(m, open(os.path.join(root, "MANIFEST.json"), "w"), indent=1)
print("checks:", len(checks), "not_applicable:", len(na))
