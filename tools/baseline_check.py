#!/usr/bin/env python3
"""Runs the repository's test suite (optionally only some packages) the way BASELINE.json does and
reports stable-pass tests that no longer pass. usage: baseline_check.py [pkg-pattern ...]"""
import json, subprocess, sys, os
base = json.load(open('/root/.vp/BASELINE.json'))
stable = set(base['stable_pass'])
pats = sys.argv[1:] or ['./...']
env = dict(os.environ, GOFLAGS='-mod=mod', GOPROXY='off', GOSUMDB='off', GOTOOLCHAIN='local')
env.pop('GOWORK', None)
p = subprocess.run(['go', 'test', '-mod=mod', '-json', '-vet=off', '-count=1', '-timeout', '25m'] + pats, cwd='/repo', env=env, capture_output=True, text=True)
passed, failed, pkgs = set(), set(), set()
for line in p.stdout.splitlines():
    try:
        ev = json.loads(line)
    except Exception:
        continue
    if 'Package' in ev:
        pkgs.add(ev['Package'])
    if ev.get('Test') and ev.get('Action') in ('pass', 'fail'):
        (passed if ev['Action'] == 'pass' else failed).add(ev['Package'] + '::' + ev['Test'])
want = {t for t in stable if t.split('::')[0] in pkgs}
missing = sorted(want - passed)
print('packages run: %d, stable tests expected: %d, passed: %d, failed: %d' % (len(pkgs), len(want), len(passed), len(failed)))
for t in missing:
    print('NOT PASSING:', t)
if p.returncode != 0 and not missing:
    print('go test exit', p.returncode, '(non-stable tests failing?)', sorted(failed)[:10])
    print(p.stderr[-2000:])
sys.exit(1 if missing else 0)
