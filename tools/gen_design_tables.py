#!/usr/bin/env python3
"""Regenerates the generated parts of DESIGN.md (between <!-- GEN:x --> markers):
 fixes    list of fix: commits in /repo
 variants which rule reports which self-test variant (mutants/)
 seeded   the changes proposed by independent sub-agents and which rules report them (seeded/RESULTS.json)
"""
import json, os, glob, subprocess, re, collections
ROOT = os.path.dirname(os.path.dirname(os.path.abspath(__file__)))
BASE = 'c3b0bd5'

def fixes():
    out = subprocess.run(['git', '-C', '/repo', 'log', '--reverse', '--format=%h %s', BASE + '..HEAD'], capture_output=True, text=True).stdout
    lines = [l for l in out.splitlines() if l.split(' ', 1)[1].startswith('fix:')]
    return '\n'.join('* `%s`' % l for l in lines) + '\n\n(%d `fix:` commits.)' % len(lines)

def variants():
    per = collections.defaultdict(lambda: collections.defaultdict(list))
    n = 0
    for f in sorted(glob.glob(os.path.join(ROOT, 'mutants', '*', '*.json'))):
        m = json.load(open(f)); n += 1
        rule = 'silent (must not fire)' if m.get('silent') else m['expect_rule']
        per[m['property']][rule].append(os.path.basename(f)[:-5])
    out = ['`mutants/` holds %d variants. Per property (rule → variants):\n' % n]
    for p in sorted(per):
        out.append('* **%s** — ' % p + '; '.join('`%s`: %s' % (r, ', '.join(sorted(v))) for r, v in sorted(per[p].items())))
    return '\n'.join(out)

def seeded():
    res = {}
    rp = os.path.join(ROOT, 'seeded', 'RESULTS.json')
    if os.path.exists(rp):
        res = json.load(open(rp))['rules_reporting_each_seeded_change']
    rows = ['| seeded change | property | needs, in order to manifest | first run | reported now by | what was done |', '|---|---|---|---|---|---|']
    names = sorted(n for n in os.listdir(os.path.join(ROOT, 'seeded')) if os.path.isdir(os.path.join(ROOT, 'seeded', n)))
    nm = 0
    for n in sorted(names, key=lambda x: (json.load(open(os.path.join(ROOT, 'seeded', x, 'meta.json'))).get('round', 9), x)):
        m = json.load(open(os.path.join(ROOT, 'seeded', n, 'meta.json')))
        rules = res.get(n, [])
        if m.get('first_run', '').startswith('missed'):
            nm += 1
        rows.append('| `%s` (round %s) | %s | %s | %s | %s | %s |' % (n, m.get('round', '?'), m['property'], m['needs_to_manifest'].replace('|', '/'), m.get('first_run', '?'),
                    ', '.join('`%s`' % r for r in rules) or '**nothing**', m.get('action', '').replace('|', '/')))
    rows.append('')
    unrep = [n for n in names if not res.get(n)]
    rows.append('%d seeded changes confirmed and kept; %d were missed when first run against the checks of that time; %d are reported now%s.' % (
        len(names), nm, len(names) - len(unrep), (', not reported: ' + ', '.join('`%s`' % n for n in unrep)) if unrep else ''))
    return '\n'.join(rows)

def known():
    d = json.load(open(os.path.join(ROOT, 'known_findings.json')))['findings']
    rows = ['| property | rule — construct | what fails, and why it is not repaired |', '|---|---|---|']
    n = 0
    for f in d:
        if f['status'] != 'known':
            continue
        n += 1
        rows.append('| %s | `%s` — %s | %s |' % (f['property'], f['rule'], f['construct'].replace('|', '/')[:110], f['what'].replace('|', '/')))
    rows.append('')
    rows.append('%d known findings; %d entries of the file are `fixed:` records (they suppress nothing).' % (n, len(d) - n))
    return '\n'.join(rows)

def benign():
    res = {}
    rp = os.path.join(ROOT, 'benign', 'RESULTS.json')
    if os.path.exists(rp):
        res = json.load(open(rp))['rules_reporting_each_benign_change']
    rows = ['| benign change | property | what it does | first run | now | what was done |', '|---|---|---|---|---|---|']
    names = sorted((n for n in os.listdir(os.path.join(ROOT, 'benign')) if os.path.isdir(os.path.join(ROOT, 'benign', n))), key=lambda x: (json.load(open(os.path.join(ROOT, 'benign', x, 'meta.json'))).get('round', 1), x))
    nf = 0
    for n in names:
        m = json.load(open(os.path.join(ROOT, 'benign', n, 'meta.json')))
        if not m.get('first_run', 'silent').startswith('silent'):
            nf += 1
        now = res.get(n)
        rows.append('| `%s` (round %s) | %s | %s | %s | %s | %s |' % (n, m.get('round', 1), m['property'], m.get('what', '').replace('|', '/'), m.get('first_run', '?').replace('|', '/'),
                    'silent' if now == [] else ('?' if now is None else '**alarm**: ' + ', '.join(now)), m.get('action', '').replace('|', '/')))
    rows.append('')
    loud = [n for n in names if res.get(n)]
    rows.append('%d behaviour-preserving changes confirmed and kept; %d raised a false alarm when first run; %d are silent now%s.' % (
        len(names), nf, len(names) - len(loud), (', still alarming: ' + ', '.join('`%s`' % n for n in loud)) if loud else ''))
    return '\n'.join(rows)

def main():
    p = os.path.join(ROOT, 'DESIGN.md')
    s = open(p).read()
    for key, fn in (('fixes', fixes), ('variants', variants), ('seeded', seeded), ('known', known), ('benign', benign)):
        a, b = '<!-- GEN:%s -->' % key, '<!-- /GEN:%s -->' % key
        if a not in s:
            print('marker missing:', key); continue
        i, j = s.index(a) + len(a), s.index(b)
        s = s[:i] + '\n' + fn() + '\n' + s[j:]
    open(p, 'w').write(s)

if __name__ == '__main__':
    main()
