#!/usr/bin/env python3
"""Helpers to write self-test variants (mutants) as in-memory overlay edits.
  mm.py add <prop> <name> <expect_rule|SILENT> <file> <<< "old\n=====\nnew"   (several edits: separate with a line '#####' then 'file: <path>')
  mm.py revert <commit> <prop> <name> <expect_rule>     builds the variant that undoes a fix: commit of /repo
"""
import json, os, subprocess, sys, re
ROOT = os.path.dirname(os.path.dirname(os.path.abspath(__file__)))

def write(prop, name, expect, edits, note=""):
    d = os.path.join(ROOT, "mutants", prop)
    os.makedirs(d, exist_ok=True)
    m = {"property": prop, "expect_rule": "" if expect == "SILENT" else expect, "silent": expect == "SILENT", "note": note, "edits": edits}
    json.dump(m, open(os.path.join(d, name + ".json"), "w"), indent=1)
    # sanity: each old text occurs exactly once
    for e in edits:
        if not os.path.exists(os.path.join("/repo", e["file"])):
            continue  # a file the variant adds
        src = open(os.path.join("/repo", e["file"])).read()
        if src.count(e["old"]) != 1 and not e.get("occurrence"):
            print("WARNING: old text occurs %d times in %s" % (src.count(e["old"]), e["file"]))
    print("wrote", os.path.join(d, name + ".json"))

def revert(commit, prop, name, expect):
    diff = subprocess.run(["git", "-C", "/repo", "show", "--format=", "-U3", commit], capture_output=True, text=True).stdout
    edits, f = [], None
    cur_old, cur_new = [], []
    def flush():
        nonlocal cur_old, cur_new
        if f and (cur_old or cur_new) and cur_old != cur_new:
            # reversing: current tree has the '+' side
            edits.append({"file": f, "old": "".join(cur_new), "new": "".join(cur_old)})
        cur_old, cur_new = [], []
    for line in diff.splitlines(keepends=True):
        if line.startswith("+++ b/"):
            flush(); f = line[6:].strip()
        elif line.startswith("@@"):
            flush()
        elif line.startswith("---") or line.startswith("diff ") or line.startswith("index "):
            continue
        elif line.startswith("+"):
            cur_new.append(line[1:])
        elif line.startswith("-"):
            cur_old.append(line[1:])
        elif line.startswith(" "):
            cur_old.append(line[1:]); cur_new.append(line[1:])
    flush()
    msg = subprocess.run(["git", "-C", "/repo", "show", "-s", "--format=%s", commit], capture_output=True, text=True).stdout.strip()
    write(prop, name, expect, edits, "undoes " + commit + ": " + msg)

if __name__ == "__main__":
    if sys.argv[1] == "revert":
        revert(*sys.argv[2:6])
    elif sys.argv[1] == "add":
        prop, name, expect, file = sys.argv[2:6]
        note = sys.argv[6] if len(sys.argv) > 6 else ""
        body = sys.stdin.read()
        edits = []
        for part in body.split("\n#####\n"):
            fl = file
            if part.startswith("file: "):
                first, part = part.split("\n", 1)
                fl = first[6:].strip()
            old, new = part.split("\n=====\n")
            edits.append({"file": fl, "old": old, "new": new.rstrip("\n") if not old.endswith("\n") else new})
        write(prop, name, expect, edits, note)

def from_patch(patch, prop, name, expect, note=""):
    """builds the variant that applies a unified diff (a seeded change) as overlay edits"""
    diff = open(patch).read()
    edits, f = [], None
    cur_old, cur_new = [], []
    start = 0
    def flush():
        nonlocal cur_old, cur_new
        if f and (cur_old or cur_new) and cur_old != cur_new:
            e = {"file": f, "old": "".join(cur_old), "new": "".join(cur_new)}
            try:
                src = open(os.path.join("/repo", f)).read()
                if src.count(e["old"]) > 1:
                    # choose the occurrence nearest to the hunk's line
                    best, bestd, pos, k = 1, None, 0, 0
                    while True:
                        i = src.find(e["old"], pos)
                        if i < 0:
                            break
                        k += 1
                        line_no = src.count("\n", 0, i) + 1
                        d = abs(line_no - start)
                        if bestd is None or d < bestd:
                            best, bestd = k, d
                        pos = i + 1
                    e["occurrence"] = best
            except OSError:
                pass
            edits.append(e)
        cur_old, cur_new = [], []
    for line in diff.splitlines(keepends=True):
        if line.startswith("+++ b/"):
            flush(); f = line[6:].strip()
        elif line.startswith("@@"):
            flush()
            mm_ = re.match(r"@@ -(\d+)", line)
            start = int(mm_.group(1)) if mm_ else 0
        elif line.startswith("---") or line.startswith("diff ") or line.startswith("index ") or line.startswith("\\"):
            continue
        elif line.startswith("+"):
            cur_new.append(line[1:])
        elif line.startswith("-"):
            cur_old.append(line[1:])
        elif line.startswith(" "):
            cur_old.append(line[1:]); cur_new.append(line[1:])
    flush()
    write(prop, name, expect, edits, note)

if __name__ == "__main__" and sys.argv[1] == "seeded":
    # mm.py seeded <seeded-name> <expect_rule>
    sd = os.path.join(ROOT, "seeded", sys.argv[2])
    meta = json.load(open(os.path.join(sd, "meta.json")))
    from_patch(os.path.join(sd, "patch.diff"), meta["property"], "seeded_" + sys.argv[2], sys.argv[3], "seeded change " + sys.argv[2] + ": needs " + meta["needs_to_manifest"])

if __name__ == "__main__" and sys.argv[1] == "benign":
    # mm.py benign <benign-name>   -> a silent variant: the behaviour-preserving change must not be reported
    bd = os.path.join(ROOT, "benign", sys.argv[2])
    meta = json.load(open(os.path.join(bd, "meta.json")))
    from_patch(os.path.join(bd, "patch.diff"), meta["property"], "benign_" + sys.argv[2], "SILENT", "behaviour-preserving change " + sys.argv[2] + ": " + meta.get("what", ""))

if __name__ == "__main__" and sys.argv[1] == "patch":
    # mm.py patch <patch-file> <prop> <name> <expect_rule|SILENT> [note]: a variant from any unified diff against HEAD
    from_patch(sys.argv[2], sys.argv[3], sys.argv[4], sys.argv[5], sys.argv[6] if len(sys.argv) > 6 else "")
