#!/bin/sh
# validates MANIFEST.json and every evidence file against the schemas
cd "$(dirname "$0")/.." && python3-vt - <<'PY'
import json, jsonschema, glob, sys
jsonschema.validate(json.load(open('MANIFEST.json')), json.load(open('/root/.vp/MANIFEST.schema.json')))
es = json.load(open('/root/.vp/EVIDENCE.schema.json'))
bad = 0
for f in sorted(glob.glob('evidence/*.json')):
    try:
        jsonschema.validate(json.load(open(f)), es)
    except Exception as e:
        bad += 1
        print('INVALID', f, str(e)[:200])
print('manifest valid; evidence files:', len(glob.glob('evidence/*.json')), 'invalid:', bad)
sys.exit(1 if bad else 0)
PY
