#!/usr/bin/env python3
"""Handling of seeded changes (/verif/seeded/<name>/: patch.diff, demo test, meta.json).
  seeded.py verify <name>   confirm in a scratch worktree: demo passes without the patch, fails with it,
                            the project builds and the existing tests of the touched packages still pass
  seeded.py check <name> [all]   apply the patch to /repo, run the owning check (or all), undo, report
"""
import json, os, subprocess, sys, shutil, re
ROOT = os.path.dirname(os.path.dirname(os.path.abspath(__file__)))
ENV = dict(os.environ, GOFLAGS='-mod=mod', GOPROXY='off', GOSUMDB='off', GOTOOLCHAIN='local')
ENV.pop('GOWORK', None)

def sh(cmd, cwd=None, timeout=1800):
    p = subprocess.run(cmd, shell=True, cwd=cwd, env=ENV, capture_output=True, text=True, errors='replace', timeout=timeout)
    return p.returncode, p.stdout + p.stderr

def meta(name):
    return json.load(open(os.path.join(ROOT, 'seeded', name, 'meta.json')))

def verify(name):
    d = os.path.join(ROOT, 'seeded', name)
    m = meta(name)
    wt = '/tmp/sv_' + name
    sh('git -C /repo worktree remove --force %s' % wt)
    rc, out = sh('git -C /repo worktree add -q --detach %s %s' % (wt, m.get('base', 'HEAD')))
    if rc != 0:
        print(out); return 1
    try:
        demo_dst = os.path.join(wt, m['demo_dest'])
        shutil.copy(os.path.join(d, m['demo']), demo_dst)
        pkg = './' + os.path.dirname(m['demo_dest']) + '/'
        run = "go test -count=1 -gcflags=all=-l -vet=off %s -run '%s' %s" % (m.get('demo_flags', ''), m['demo_run'], pkg)
        rc0, out0 = sh(run, cwd=wt)
        rc, out = sh('git apply %s' % os.path.join(d, 'patch.diff'), cwd=wt)
        if rc != 0:
            print('patch does not apply:', out); return 1
        rcb, outb = sh('go build ./... ', cwd=wt)
        rc1, out1 = sh(run, cwd=wt)
        os.remove(demo_dst)
        touched = sorted({'./' + os.path.dirname(l[6:]) + '/...' for l in open(os.path.join(d, 'patch.diff')) if l.startswith('+++ b/')})
        rct, outt = sh('go test -count=1 -gcflags=all=-l -vet=off %s' % ' '.join(touched), cwd=wt)
        ok = rc0 == 0 and rcb == 0 and rc1 != 0 and rct == 0
        print('%s: demo without patch %s, build %s, demo with patch %s, existing tests of %s %s => %s' % (
            name, 'PASS' if rc0 == 0 else 'FAIL', 'ok' if rcb == 0 else 'BROKEN', 'FAIL' if rc1 != 0 else 'PASS', ' '.join(touched), 'pass' if rct == 0 else 'FAIL', 'CONFIRMED' if ok else 'REJECTED'))
        if not ok:
            for o in (out0[-800:], outb[-800:], out1[-800:], outt[-1200:]):
                print('---'); print(o)
        return 0 if ok else 1
    finally:
        sh('git -C /repo worktree remove --force %s' % wt)

def check(name, which, root='/repo', verif='/tmp/seeded_verif'):
    d = os.path.join(ROOT, 'seeded', name)
    m = meta(name)
    rc, out = sh('git -C %s status --porcelain' % root)
    if out.strip():
        print(root + ' is not clean'); return 2
    rc, out = sh('git -C %s apply %s' % (root, os.path.join(d, 'patch.diff')))
    if rc != 0:
        # a later fix: commit changed the same lines: take the touched files as they were when the change was seeded
        # (this also undoes that fix in the scratch state, so its own rule may fire as well)
        files = [l[6:].strip() for l in open(os.path.join(d, 'patch.diff')) if l.startswith('+++ b/')]
        rc2, out2 = sh('git -C %s checkout %s -- %s && git -C %s apply %s' % (root, m['base'], ' '.join(files), root, os.path.join(d, 'patch.diff')))
        if rc2 != 0:
            sh('git -C %s checkout HEAD -- . ; git -C %s reset -q' % (root, root))
            print('patch does not apply to /repo:', out, out2); return 2
        print('%s: (applied on the seeded base version of %s: a later fix touched the same lines)' % (name, ' '.join(files)))
    try:
        target = m['property'] if which != 'all' else 'all'
        rc, out = sh('%s/bin/seatalint check %s -root %s -verif %s' % (ROOT, target, root, verif))
        caught = {}
        for l in out.splitlines():
            if l.startswith('VIOLATED') or l.startswith('UNDECIDED'):
                rule = l.split()[1]
                caught.setdefault(rule.split('.')[0], []).append(l)
        if caught:
            for pid in sorted(caught):
                print('%s: CAUGHT by %s' % (name, pid))
                for l in caught[pid][:4]:
                    print('    ' + l[:260])
        else:
            print('%s: NOT caught by %s' % (name, target))
        RESULT[name] = sorted({l.split()[1] for v in caught.values() for l in v})
        return 0
    finally:
        sh('git -C %s reset -q; git -C %s checkout HEAD -- .' % (root, root))
        sh('git -C %s clean -fdq' % root)

RESULT = {}

if __name__ == '__main__':
    os.makedirs('/tmp/seeded_verif', exist_ok=True)
    shutil.copy(os.path.join(ROOT, 'known_findings.json'), '/tmp/seeded_verif/known_findings.json')
    if not os.path.exists('/tmp/seeded_verif/spec'):
        os.symlink(os.path.join(ROOT, 'spec'), '/tmp/seeded_verif/spec')
    if sys.argv[1] == 'checkall':
        # every seeded change against every check; writes seeded/RESULTS.json (input of DESIGN section 13).
        # Runs on scratch worktrees of /repo's HEAD (several at a time) so that /repo itself stays untouched;
        # `seeded.py check <name> [all]` is the variant that patches /repo itself.
        import concurrent.futures, threading
        names = sorted(n for n in os.listdir(os.path.join(ROOT, 'seeded')) if os.path.isdir(os.path.join(ROOT, 'seeded', n)))
        nw = int(sys.argv[2]) if len(sys.argv) > 2 else 4
        only = sys.argv[3:]  # optional: only these changes (RESULTS.json is then left alone)
        if only:
            names = [n for n in names if n in only]
        roots = []
        for k in range(nw):
            wt = '/tmp/sv_root_%d' % k
            sh('git -C /repo worktree remove --force %s' % wt)
            rc, out = sh('git -C /repo worktree add -q --detach %s HEAD' % wt)
            vd = '/tmp/seeded_verif_%d' % k
            os.makedirs(vd, exist_ok=True)
            shutil.copy(os.path.join(ROOT, 'known_findings.json'), vd + '/known_findings.json')
            if not os.path.exists(vd + '/spec'):
                os.symlink(os.path.join(ROOT, 'spec'), vd + '/spec')
            roots.append((wt, vd))
        lock = threading.Lock()
        free = list(roots)
        def job(n):
            with lock:
                wt, vd = free.pop()
            try:
                check(n, 'all', wt, vd)
            finally:
                with lock:
                    free.append((wt, vd))
        with concurrent.futures.ThreadPoolExecutor(max_workers=nw) as ex:
            list(ex.map(job, names))
        for wt, vd in roots:
            sh('git -C /repo worktree remove --force %s' % wt)
            shutil.rmtree(vd, ignore_errors=True)
        if not only:
            json.dump({'rules_reporting_each_seeded_change': RESULT}, open(os.path.join(ROOT, 'seeded', 'RESULTS.json'), 'w'), indent=1, sort_keys=True)
        missed = [n for n in names if not RESULT.get(n)]
        print('seeded changes: %d, reported: %d, not reported: %s' % (len(names), len(names) - len(missed), missed))
        sys.exit(0)
    if sys.argv[1] == 'verify':
        sys.exit(verify(sys.argv[2]))
    sys.exit(check(sys.argv[2], sys.argv[3] if len(sys.argv) > 3 else 'own'))
