#!/usr/bin/env python3
"""Behaviour-preserving changes (/verif/benign/<name>/: patch.diff, test, meta.json) written by sub-agents that saw
only a property text: realistic refactorings of the anchored code. The checks must stay silent on them.
  benign.py import <name> <property> <worktree> <test-run-regex> "<what the change is>"
  benign.py verify <name>      test passes without and with the patch, go build, existing tests of touched packages
  benign.py check <name>       apply on a scratch worktree of /repo's HEAD, run every quick check, expect no report
  benign.py checkall [n]       all of them, n at a time; writes benign/RESULTS.json
"""
import json, os, subprocess, sys, shutil, concurrent.futures, threading
ROOT = os.path.dirname(os.path.dirname(os.path.abspath(__file__)))
ENV = dict(os.environ, GOFLAGS='-mod=mod', GOPROXY='off', GOSUMDB='off', GOTOOLCHAIN='local')
ENV.pop('GOWORK', None)
BD = os.path.join(ROOT, 'benign')

def sh(cmd, cwd=None, timeout=3600):
    p = subprocess.run(cmd, shell=True, cwd=cwd, env=ENV, capture_output=True, text=True, errors='replace', timeout=timeout)
    return p.returncode, p.stdout + p.stderr

def imp(name, prop, wt, run, what):
    d = os.path.join(BD, name); os.makedirs(d, exist_ok=True)
    shutil.copy(os.path.join(wt, 'benign_patch.diff'), os.path.join(d, 'patch.diff'))
    rc, out = sh("git status --porcelain | grep -o '[^ ]*zz_benign_test.go' | head -1", cwd=wt)
    test = out.strip()
    shutil.copy(os.path.join(wt, test), os.path.join(d, os.path.basename(test)))
    rc, base = sh('git rev-parse HEAD', cwd=wt)
    json.dump({'property': prop, 'test': os.path.basename(test), 'test_dest': test, 'test_run': run, 'what': what, 'base': base.strip()}, open(os.path.join(d, 'meta.json'), 'w'), indent=1)
    print('imported', name, test)

def verify(name):
    d = os.path.join(BD, name); m = json.load(open(os.path.join(d, 'meta.json')))
    wt = '/tmp/bv_' + name
    sh('git -C /repo worktree remove --force %s' % wt)
    rc, out = sh('git -C /repo worktree add -q --detach %s %s' % (wt, m['base']))
    try:
        dst = os.path.join(wt, m['test_dest']); shutil.copy(os.path.join(d, m['test']), dst)
        pkg = './' + os.path.dirname(m['test_dest']) + '/'
        run = "go test -count=1 -gcflags=all=-l -vet=off -run '%s' %s" % (m['test_run'], pkg)
        rc0, out0 = sh(run, cwd=wt)
        rca, outa = sh('git apply %s' % os.path.join(d, 'patch.diff'), cwd=wt)
        rcb, outb = sh('go build ./...', cwd=wt)
        rc1, out1 = sh(run, cwd=wt)
        os.remove(dst)
        touched = sorted({'./' + os.path.dirname(l[6:]) + '/...' for l in open(os.path.join(d, 'patch.diff')) if l.startswith('+++ b/')})
        rct, outt = sh('go test -count=1 -gcflags=all=-l -vet=off %s' % ' '.join(touched), cwd=wt)
        ok = rc0 == 0 and rca == 0 and rcb == 0 and rc1 == 0 and rct == 0
        print('%s: test without patch %s, build %s, test with patch %s, existing tests of %s %s => %s' % (name, 'PASS' if rc0 == 0 else 'FAIL', 'ok' if rcb == 0 else 'BROKEN',
              'PASS' if rc1 == 0 else 'FAIL', ' '.join(touched), 'pass' if rct == 0 else 'FAIL', 'CONFIRMED' if ok else 'REJECTED'))
        if not ok:
            for o in (out0[-600:], outa[-300:], outb[-600:], out1[-600:], outt[-900:]):
                print('---'); print(o)
        return ok
    finally:
        sh('git -C /repo worktree remove --force %s' % wt)

RESULT = {}
def check(name, root=None, verif=None):
    d = os.path.join(BD, name)
    own = root is None
    if own:
        root = '/tmp/bc_' + name; verif = '/tmp/bc_verif_' + name
        sh('git -C /repo worktree remove --force %s' % root)
        sh('git -C /repo worktree add -q --detach %s HEAD' % root)
        os.makedirs(verif, exist_ok=True)
        shutil.copy(os.path.join(ROOT, 'known_findings.json'), verif + '/known_findings.json')
        if not os.path.exists(verif + '/spec'):
            os.symlink(os.path.join(ROOT, 'spec'), verif + '/spec')
    try:
        rc, out = sh('git -C %s apply %s' % (root, os.path.join(d, 'patch.diff')))
        if rc != 0:
            print('%s: patch does not apply to HEAD: %s' % (name, out[:300])); RESULT[name] = ['PATCH-DOES-NOT-APPLY']; return
        rc, out = sh('%s/bin/seatalint check all -root %s -verif %s' % (ROOT, root, verif))
        bad = [l for l in out.splitlines() if l.startswith('VIOLATED') or l.startswith('UNDECIDED') or l.startswith('LOADER') or l.startswith('CHECKER-PANIC')]
        RESULT[name] = sorted({l.split()[1] for l in bad if len(l.split()) > 1})
        if bad:
            print('%s: FALSE ALARM' % name)
            for l in bad[:6]:
                print('    ' + l[:300])
        else:
            print('%s: silent (exit %d)' % (name, rc))
    finally:
        sh('git -C %s reset -q; git -C %s checkout HEAD -- .; git -C %s clean -fdq' % (root, root, root))
        if own:
            sh('git -C /repo worktree remove --force %s' % root); shutil.rmtree(verif, ignore_errors=True)

if __name__ == '__main__':
    a = sys.argv
    if a[1] == 'import':
        imp(*a[2:7])
    elif a[1] == 'verify':
        sys.exit(0 if verify(a[2]) else 1)
    elif a[1] == 'check':
        check(a[2])
    elif a[1] == 'checkall':
        names = sorted(n for n in os.listdir(BD) if os.path.isdir(os.path.join(BD, n)))
        nw = int(a[2]) if len(a) > 2 else 4
        only = a[3:]  # optional: only these changes (RESULTS.json is then left alone)
        if only:
            names = [n for n in names if n in only]
        roots = []
        for k in range(nw):
            wt = '/tmp/bc_root_%d' % k; vd = '/tmp/bc_verif_%d' % k
            sh('git -C /repo worktree remove --force %s' % wt); sh('git -C /repo worktree add -q --detach %s HEAD' % wt)
            os.makedirs(vd, exist_ok=True); shutil.copy(os.path.join(ROOT, 'known_findings.json'), vd + '/known_findings.json')
            if not os.path.exists(vd + '/spec'):
                os.symlink(os.path.join(ROOT, 'spec'), vd + '/spec')
            roots.append((wt, vd))
        lock = threading.Lock(); free = list(roots)
        def job(n):
            with lock:
                wt, vd = free.pop()
            try:
                check(n, wt, vd)
            finally:
                with lock:
                    free.append((wt, vd))
        with concurrent.futures.ThreadPoolExecutor(max_workers=nw) as ex:
            list(ex.map(job, names))
        for wt, vd in roots:
            sh('git -C /repo worktree remove --force %s' % wt); shutil.rmtree(vd, ignore_errors=True)
        if not only:
            json.dump({'rules_reporting_each_benign_change': RESULT}, open(os.path.join(BD, 'RESULTS.json'), 'w'), indent=1, sort_keys=True)
        alarms = [n for n in names if RESULT.get(n)]
        print('benign changes: %d, silent: %d, false alarms: %s' % (len(names), len(names) - len(alarms), alarms))
