#!/bin/bash
# seeded_import.sh <name> <property> <worktree> <demo-run-regex> "<needs to manifest>"
set -e
name=$1; prop=$2; wt=$3; run=$4; needs=$5
d=/verif/seeded/$name; mkdir -p $d
cp $wt/seeded_patch.diff $d/patch.diff
demo=$(cd $wt && git status --porcelain | grep -o '[^ ]*zz_seeded_test.go' | head -1)
cp $wt/$demo $d/$(basename $demo)
base=$(git -C $wt rev-parse HEAD)
python3 - "$d" "$prop" "$demo" "$run" "$needs" "$base" <<'PY'
import json,sys,os
d,prop,demo,run,needs,base=sys.argv[1:]
json.dump({"property":prop,"demo":os.path.basename(demo),"demo_dest":demo,"demo_run":run,"needs_to_manifest":needs,"base":base,
 "ran":"tools/seeded.py verify <name> (scratch worktree: demo passes without patch, fails with it; go build ./...; existing tests of touched packages pass); tools/seeded.py check <name> all (git -C /repo apply; every quick check; git -C /repo checkout -- .)"},open(d+"/meta.json","w"),indent=1)
PY
echo imported $name: $demo
