#!/bin/bash
# mkvar.sh <benign-name> <prop> <variant-name> <rule> <python-edit-file> <note>
set -e
B=$1; P=$2; N=$3; R=$4; E=$5; NOTE=$6
WT=/tmp/wtx_$N
git -C /repo worktree add --detach $WT HEAD >/dev/null 2>&1
cd $WT
git apply /verif/benign/$B/patch.diff
python3 $E
export GOFLAGS=-mod=mod GOPROXY=off GOSUMDB=off GOTOOLCHAIN=local; unset GOWORK
go build ./... 
git add -A; git diff --cached > /tmp/$N.diff
cd /verif
python3 tools/mm.py patch /tmp/$N.diff $P $N $R "$NOTE"
git -C /repo worktree remove --force $WT
rm -f /tmp/$N.diff
