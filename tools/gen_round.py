#!/usr/bin/env python3
# gen_round.py seeded <tag> <wtroot> | benign <tag> <wtroot>
import json,os,sys,subprocess,re
kind,tag,wtroot=sys.argv[1:4]
V='/verif'
props={}
for line in open(V+'/properties.jsonl'):
    d=json.loads(line); props[d['id']]=d
def files_of(patch):
    return sorted(set(re.findall(r'^\+\+\+ b/(\S+)',open(patch).read(),re.M)))
for pid in sorted(props):
    wt=f'{wtroot}/{pid}'
    if kind=='seeded':
        t=open(V+'/seeded/AGENT_PROMPT_TEMPLATE.txt').read()
        t=t.replace('__WT__',wt).replace('__PROP__',json.dumps(props[pid],indent=1))
        t=t.replace('/tmp/<your-id>.p',f'/tmp/s{tag}{pid}.p')
        earlier=[]
        for n in sorted(os.listdir(V+'/seeded')):
            mp=f'{V}/seeded/{n}/meta.json'
            if not os.path.exists(mp): continue
            m=json.load(open(mp))
            if m.get('property')!=pid: continue
            fs=', '.join(files_of(f'{V}/seeded/{n}/patch.diff'))
            earlier.append(f"- {n}: touched {fs}; needed: {m.get('needs_to_manifest','')}")
        t+='\n\nEARLIER CHANGES for this property (do NOT repeat their mechanism; pick a different mechanism and preferably different functions/files among the anchors):\n'+'\n'.join(earlier)
        t+='\n\nIdeas for mechanisms not used much so far: a helper that is shared by two callers and is adjusted for one of them; a condition that is weakened or strengthened by one clause; an early return added for a "nothing to do" case that is not really nothing; a loop that stops at the first match where all matches matter; a copy replaced by a reference (slice/map/pointer aliasing) or the reverse; a default/zero value treated as "unset"; state carried in a struct field that should be per call; an error path that skips a cleanup or performs it twice; a change to which of two contexts/transactions/connections an operation runs on; an equality that should be an ordering or the reverse; results of a multi-value helper used in the wrong order; a boundary in time (timeout equals zero, deadline already passed) or size (empty, one element, exactly the limit).'
    else:
        t=open(V+'/seeded/AGENT_PROMPT_BENIGN_TEMPLATE.txt').read()
        t=t.replace('__WT__',wt).replace('__PROP__',json.dumps({k:props[pid][k] for k in props[pid] if k not in ('why_tests_cannot',)},indent=1))
        t=t.replace('/tmp/<your-id>.p',f'/tmp/b{tag}{pid}.p')
        earlier=[]
        for n in sorted(os.listdir(V+'/benign')):
            mp=f'{V}/benign/{n}/meta.json'
            if not os.path.exists(mp): continue
            m=json.load(open(mp))
            if m.get('property')!=pid: continue
            fs=', '.join(files_of(f'{V}/benign/{n}/patch.diff'))
            earlier.append(f"- {m.get('what','')} [files: {fs}]")
        t+='\n\nEARLIER behaviour-preserving changes already made for this property (do something of a DIFFERENT kind, and if possible in different functions among the anchors — the property\'s mechanisms list several places; also the functions those call):\n'+'\n'.join(earlier)
        focus={
 'C01':'the three undo executors ExecuteOn / buildUndoSQL (pkg/datasource/sql/undo/executor/mysql_undo_*_executor.go) and the replay loop of BaseUndoLogManager.Undo',
 'C02':'Tx.register and Tx.report (pkg/datasource/sql/tx.go) and Conn.BeginTx / newTx (conn.go)',
 'C03':'baseExecutor.buildLockKey (base_executor.go), selectForUpdateExecutor.ExecContext / doExecContext, and the join of lock keys in Tx.register',
 'C04':'GlobalTransactionManager.Begin / Commit / Rollback (pkg/tm/global_transaction.go) and commitOrRollback',
 'C05':'TCCServiceProxy.Prepare / registeBranch (pkg/rm/tcc/tcc_service.go) and the parameter/context extraction helpers it uses',
 'C06':'WithFence / DoFence and the fence transaction handling in pkg/rm/tcc/fence (fence_api.go, fence_driver*.go)',
 'C07':'begin() and its propagation switch, beginNewGtx / useExistGtx (pkg/tm/transaction_executor.go) and the grpc / dubbo integrations',
 'C08':'the undo-log parsers (pkg/datasource/sql/undo/parser/*.go) and BaseUndoLogManager.serializeBranchUndoLog / getRollbackInfo / encodeUndoLogCtx / decodeUndoLogCtx',
 'C09':'IsRecordsEquals / compareRows / DeepEqual and the row-key building in pkg/datasource/sql/undo/executor/utils.go and pkg/datasource/sql/datasource/utils.go',
 'C10':'the marker logic of BaseUndoLogManager.Undo (exists / InsertUndoLogWithGlobalFinished / DeleteUndoLog) and InsertUndoLog',
 'C11':'AsyncWorker.dealWithGroupedContexts and BaseUndoLogManager.BatchDeleteUndoLog',
 'C12':'the codecs of BranchRegisterRequest / BranchReportRequest / GlobalStatus / RegisterRM and the helpers in pkg/util/bytes',
 'C13':'RpcPackageHandler.Read / Write / encodeHeapMap / decodeHeapMap (pkg/remoting/getty/readwriter.go)',
 'C14':'GettyRemotingClient.SendSyncRequest / SendAsyncRequest / SendAsyncResponse and GettyRemoting.SendSync / SendAsync / sendAsync',
 'C15':'rmBranchCommitProcessor.Process / rmBranchRollbackProcessor.Process and ResourceManagerCache.GetResourceManager',
 'C16':'ATConn / XAConn ExecContext, QueryContext, PrepareContext and Conn.BeginTx / ResetSession',
 'C17':'XAConn.BeginTx / Commit / Rollback / XaCommit / XaRollback and XAResourceManager.BranchCommit / BranchRollback',
 'C18':'updateExecutor / deleteExecutor buildBeforeImageSQL and baseExecutor.buildSelectArgs / traversalArgs',
 'C19':'LeastActiveLoadBalance / RoundRobinLoadBalance / XidLoadBalance and the listener OnOpen / OnClose',
 'C20':'RegisterTxHook / CleanTxHooks and their readers, SessionManager register/release, AsyncWorker buffer handling',
        }
        if pid in focus:
            t+='\n\nFOR THIS ROUND please work on (one or more of) these functions, which earlier rounds left alone: '+focus[pid]+'. Typical candidates: turn a loop into a helper predicate or the reverse, split a function, merge two early returns, move a clean-up into a defer (or out of one), replace string concatenation by a builder or fmt, hoist a lock/unlock pair into a helper method, turn a closure into a method — exactly behaviour-preserving.'
        t+='\n\nPick whatever a maintainer would most plausibly do to this code next (the list in the task above names typical kinds); it does not have to be exotic, but it must not repeat one of the changes listed above, and it should touch the core of the mechanism, not its fringe. Behaviour must be exactly preserved on every path, including every error path, every lock/unlock and every goroutine.'
    open(f'/tmp/props/prompt_{kind}_{tag}_{pid}.txt','w').write(t)
print('ok')
