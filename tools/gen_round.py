#!/usr/bin/env python3
# gen_round.py seeded <tag> <wtroot> | benign <tag> <wtroot>
import json,os,sys,subprocess,re
kind,tag,wtroot=sys.argv[1:4]
V='/verif'
props={}
for line in open(V+'/properties.jsonl'):
    d=json.loads(line); props[d['id']]=d
def files_of(patch):
    return sorted(set(re.findall(r'^\+\+\+ b/(\S+)',open(patch).read(),re.M)))
for pid in sorted(props):
    wt=f'{wtroot}/{pid}'
    if kind=='seeded':
        t=open(V+'/seeded/AGENT_PROMPT_TEMPLATE.txt').read()
        t=t.replace('__WT__',wt).replace('__PROP__',json.dumps(props[pid],indent=1))
        t=t.replace('/tmp/<your-id>.p',f'/tmp/s{tag}{pid}.p')
        earlier=[]
        for n in sorted(os.listdir(V+'/seeded')):
            mp=f'{V}/seeded/{n}/meta.json'
            if not os.path.exists(mp): continue
            m=json.load(open(mp))
            if m.get('property')!=pid: continue
            fs=', '.join(files_of(f'{V}/seeded/{n}/patch.diff'))
            earlier.append(f"- {n}: touched {fs}; needed: {m.get('needs_to_manifest','')}")
        t+='\n\nEARLIER CHANGES for this property (do NOT repeat their mechanism; pick a different mechanism and preferably different functions/files among the anchors):\n'+'\n'.join(earlier)
        t+='\n\nIdeas for mechanisms not used much so far: a helper that is shared by two callers and is adjusted for one of them; a condition that is weakened or strengthened by one clause; an early return added for a "nothing to do" case that is not really nothing; a loop that stops at the first match where all matches matter; a copy replaced by a reference (slice/map/pointer aliasing) or the reverse; a default/zero value treated as "unset"; state carried in a struct field that should be per call; an error path that skips a cleanup or performs it twice; a change to which of two contexts/transactions/connections an operation runs on; an equality that should be an ordering or the reverse; results of a multi-value helper used in the wrong order; a boundary in time (timeout equals zero, deadline already passed) or size (empty, one element, exactly the limit).'
    else:
        t=open(V+'/seeded/AGENT_PROMPT_BENIGN_TEMPLATE.txt').read()
        t=t.replace('__WT__',wt).replace('__PROP__',json.dumps({k:props[pid][k] for k in props[pid] if k not in ('why_tests_cannot',)},indent=1))
        t=t.replace('/tmp/<your-id>.p',f'/tmp/b{tag}{pid}.p')
        earlier=[]
        for n in sorted(os.listdir(V+'/benign')):
            mp=f'{V}/benign/{n}/meta.json'
            if not os.path.exists(mp): continue
            m=json.load(open(mp))
            if m.get('property')!=pid: continue
            fs=', '.join(files_of(f'{V}/benign/{n}/patch.diff'))
            earlier.append(f"- {m.get('what','')} [files: {fs}]")
        t+='\n\nEARLIER behaviour-preserving changes already made for this property (do something of a DIFFERENT kind, and if possible in different functions among the anchors — the property\'s mechanisms list several places; also the functions those call):\n'+'\n'.join(earlier)
        focus={
 'C01':'BaseUndoLogManager.FlushUndoLog / InsertUndoLog / InsertUndoLogWithSqlConn (pkg/datasource/sql/undo/base/undo.go) and the SQL statement constants they use',
 'C02':'Tx.register and Tx.report (pkg/datasource/sql/tx.go) and Conn.BeginTx / newTx (conn.go)',
 'C03':'BaseTableMetaCache.refresh / GetTableMeta (pkg/datasource/sql/datasource/base/meta_cache.go) and the column-list building of updateExecutor / multiUpdateExecutor buildBeforeImageSQL',
 'C04':'WithGlobalTx / commitOrRollback and the guard that decides whether a scope runs the second phase (pkg/tm/transaction_executor.go)',
 'C05':'the collection of tagged parameters into the action context (getActionContextParameters / getOrCreateBusinessActionContext and the reflect loop, pkg/rm/tcc and pkg/tm/business_action_context helpers)',
 'C06':'WithFence / DoFence and the fence transaction handling in pkg/rm/tcc/fence (fence_api.go, fence_driver*.go)',
 'C07':"WithGlobalTx's second-phase decision (commitOrRollback, the IsGlobalTx / role tests) and the clearing of the context at scope exit in pkg/tm/transaction_executor.go",
 'C08':'pkg/datasource/sql/undo/parser/parser_protobuf.go: convertInterfaceToAny / convertAnyToInterface / ProtobufParser.Encode / Decode and the conversion helpers between the pb and the Go image types',
 'C09':'IsRecordsEquals / compareRows / DeepEqual and the row-key building in pkg/datasource/sql/undo/executor/utils.go and pkg/datasource/sql/datasource/utils.go',
 'C10':'BaseUndoLogManager.InsertUndoLog / InsertUndoLogWithGlobalFinished / insertUndoLog helper and the INSERT statement text they prepare (pkg/datasource/sql/undo/base/undo.go)',
 'C11':'AsyncWorker.dealWithGroupedContexts and BaseUndoLogManager.BatchDeleteUndoLog',
 'C12':'the length-prefixed read/write helpers of pkg/util/bytes/buf_helper.go (ReadString8/16/32/64Length, ReadBytes*, WriteString*Length) ',
 'C13':'the length-prefixed helpers of pkg/util/bytes/buf_helper.go that the frame reader and the head-map decoder use, and decodeHeapMap',
 'C14':'GettyRemoting.sendAsync (the futures table: store, write, delete on failure, hand-over to the callback) in pkg/remoting/getty/getty_remoting.go',
 'C15':'gettyClientHandler.OnMessage / OnOpen / OnClose (pkg/remoting/getty/listener.go) and the processor table lookup',
 'C16':'the ExecContext methods of the AT executors: deleteExecutor, updateExecutor, insertExecutor, multiUpdateExecutor, multiDeleteExecutor, selectForUpdateExecutor, plainExecutor (pkg/datasource/sql/exec/at)',
 'C17':'XAConn.Close / XAConn.createNewTxOnExecIfNeed / the isConnKept handling and DBResource.IsShouldBeHeld (pkg/datasource/sql/conn_xa.go)',
 'C18':'BaseTableMetaCache.refresh / GetTableMeta and mysql tableMetaCache.GetTableMeta / the trigger that loads metadata (pkg/datasource/sql/datasource)',
 'C19':'SessionManager.selectSession and the load-balance table it consults (pkg/remoting/getty/session_manager.go, pkg/remoting/loadbalance/loadbalance.go)',
 'C20':'GettyRemoting.sendAsync / the futures and mergeMsgMap tables, and BaseTableMetaCache (lock, refresh goroutine)',
        }
        if pid in focus:
            t+='\n\nFOR THIS ROUND please work on (one or more of) these functions, which earlier rounds left alone: '+focus[pid]+'. Typical candidates: turn a loop into a helper predicate or the reverse, split a function, merge two early returns, move a clean-up into a defer (or out of one), replace string concatenation by a builder or fmt, hoist a lock/unlock pair into a helper method, turn a closure into a method — exactly behaviour-preserving.'
        t+='\n\nPick whatever a maintainer would most plausibly do to this code next (the list in the task above names typical kinds); it does not have to be exotic, but it must not repeat one of the changes listed above, and it should touch the core of the mechanism, not its fringe. Behaviour must be exactly preserved on every path, including every error path, every lock/unlock and every goroutine.'
    open(f'/tmp/props/prompt_{kind}_{tag}_{pid}.txt','w').write(t)
print('ok')
