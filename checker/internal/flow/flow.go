// Package flow is the CFG path engine (DESIGN §1.4 A/B): a forward data-flow over
// go/cfg blocks with facts keyed by types.Object. It tracks
//   - events (tags attached to calls by a rule-supplied classifier) seen on ALL paths
//     (Must) and on SOME path (May), including derived events ok:T / fail:T (the error
//     returned by a T-call is known nil / non-nil on this path) and true:T / false:T;
//   - nil-ness and truth facts of variables established by branch conditions;
//   - which call produced the current value of a variable (reaching definition);
//   - error values that were never inspected (dropped) or that failed on some path
//     and are followed by a provably-nil error return (swallowed).
//
// Callees declared in the repository are summarised (bounded depth) so wrappers
// are recognised by what they do, not by their names. No repository code is run.
package flow

import (
	"go/ast"
	"go/constant"
	"go/token"
	"go/types"
	"sort"
	"strconv"
	"strings"

	"golang.org/x/tools/go/cfg"
	"golang.org/x/tools/go/packages"

	"seatalint/internal/core"
)

type Tag = string

// Origin is a call whose results were bound to variables (or returned / tested directly).
type Origin struct {
	Call   *ast.CallExpr
	Callee *types.Func
	Tags   []Tag
	Sum    *Summary
	ErrIdx int // index of the error result, -1 if none
	// Inlined: the callee's body was analysed in the caller's context at this call (Sum is that run's summary)
	Inlined bool
	// MayBefore: union, over the visits of this call, of what may have happened before it (context-free summaries)
	MayBefore map[Tag]bool
	// Exits: the exits of the callee's body as analysed in the caller's context at this call (Inlined only)
	Exits []*Exit
}

const (
	isNil    int8 = 1
	isNonNil int8 = 2
	isTrue   int8 = 1
	isFalse  int8 = 2
)

// State is the abstract state at a program point.
type State struct {
	Must   map[Tag]bool
	May    map[Tag]bool
	Nil    map[types.Object]int8
	Bool   map[types.Object]int8
	Eq     map[types.Object]*types.Const // variable known equal to a named constant
	Def    map[types.Object]*Origin
	DefIdx map[types.Object]int
	Unrep  map[*Origin]bool         // failed on some path, not surfaced yet
	Pend   map[*Origin]types.Object // error result bound, never inspected so far (may)
	// FuncVal: a func-typed parameter of a callee analysed in context is known to be this function / method value
	FuncVal map[types.Object]*types.Func
	// Cond: a bool variable holds the value of this side-effect-free test over variables not assigned since
	// (`awaited := callback != nil`, or the same test handed to a bool parameter of a callee analysed in context)
	Cond map[types.Object]ast.Expr
	// Feas: for a call whose callee was analysed in context, which of the callee's exits are still consistent with
	// what has been learnt about its results since (a bool result tested, its error found nil / non-nil)
	Feas map[*Origin]feas
	// Lit: the variable holds this struct literal (assigned from it, from a package variable that is initialised
	// by it and never written, or handed to a parameter of a callee analysed in context)
	Lit map[types.Object]*ast.CompositeLit
	// Impl: implications between call-free tests left behind by a disjunctive refinement (`!(a && b)`: a => !b,
	// b => !a), kept only until the next statement — they serve the conditions evaluated in sequence with nothing
	// in between (the cases of a tagless switch, an else-if chain)
	Impl []implFact
}

type implFact struct {
	ante    ast.Expr
	anteVal bool
	cons    ast.Expr
	consVal bool
}

type feas struct {
	mask uint64
	n    int
	// the exits of the callee as analysed on the path of this state (the same call site is analysed once per
	// partition / fork, each time with its own exits); nil: those last stored at the origin
	exits []*Exit
	sum   *Summary
}

// sumOf: the summary of the callee analysed in context at o as the path of st saw it
func sumOf(o *Origin, st *State) *Summary {
	if f, ok := st.Feas[o]; ok && f.exits != nil && f.sum != nil {
		return f.sum
	}
	return o.Sum
}

func sameExits(a, b []*Exit) bool {
	return len(a) == len(b) && (len(a) == 0 || a[0] == b[0])
}

// feasOf: the exits of the callee analysed in context at o as the path of st saw them, and which of them are still
// feasible
func feasOf(o *Origin, st *State) (feas, []*Exit) {
	exits := o.Exits
	f, ok := st.Feas[o]
	if ok && f.exits != nil {
		exits = f.exits
	}
	if !ok || f.n != len(exits) {
		f = feas{mask: ^uint64(0) >> (64 - uint(len(exits))), n: len(exits), exits: f.exits, sum: f.sum}
		if len(exits) == 0 || len(exits) > 64 {
			f.mask = 0
		}
	}
	return f, exits
}

func newState() *State {
	return &State{Must: map[Tag]bool{}, May: map[Tag]bool{}, Nil: map[types.Object]int8{}, Bool: map[types.Object]int8{},
		Eq: map[types.Object]*types.Const{}, Def: map[types.Object]*Origin{}, DefIdx: map[types.Object]int{},
		Unrep: map[*Origin]bool{}, Pend: map[*Origin]types.Object{}, FuncVal: map[types.Object]*types.Func{}, Cond: map[types.Object]ast.Expr{}, Feas: map[*Origin]feas{}, Lit: map[types.Object]*ast.CompositeLit{}}
}

func (s *State) copy() *State {
	n := newState()
	for k, v := range s.Must {
		n.Must[k] = v
	}
	for k, v := range s.May {
		n.May[k] = v
	}
	for k, v := range s.Nil {
		n.Nil[k] = v
	}
	for k, v := range s.Bool {
		n.Bool[k] = v
	}
	for k, v := range s.Eq {
		n.Eq[k] = v
	}
	for k, v := range s.Def {
		n.Def[k] = v
	}
	for k, v := range s.DefIdx {
		n.DefIdx[k] = v
	}
	for k, v := range s.Unrep {
		n.Unrep[k] = v
	}
	for k, v := range s.Pend {
		n.Pend[k] = v
	}
	for k, v := range s.FuncVal {
		n.FuncVal[k] = v
	}
	for k, v := range s.Cond {
		n.Cond[k] = v
	}
	for k, v := range s.Feas {
		n.Feas[k] = v
	}
	for k, v := range s.Lit {
		n.Lit[k] = v
	}
	n.Impl = append([]implFact(nil), s.Impl...)
	return n
}

// join merges o into s; reports whether s changed.
func (s *State) join(o *State) bool {
	ch := false
	for k := range s.Must {
		if !o.Must[k] {
			delete(s.Must, k)
			ch = true
		}
	}
	for k := range o.May {
		if !s.May[k] {
			s.May[k] = true
			ch = true
		}
	}
	for k, v := range s.Nil {
		if o.Nil[k] != v {
			delete(s.Nil, k)
			ch = true
		}
	}
	for k, v := range s.Bool {
		if o.Bool[k] != v {
			delete(s.Bool, k)
			ch = true
		}
	}
	for k, v := range s.Eq {
		if o.Eq[k] != v {
			delete(s.Eq, k)
			ch = true
		}
	}
	for k, v := range s.Def {
		if o.Def[k] != v || o.DefIdx[k] != s.DefIdx[k] {
			delete(s.Def, k)
			delete(s.DefIdx, k)
			ch = true
		}
	}
	for k, v := range s.FuncVal {
		if o.FuncVal[k] != v {
			delete(s.FuncVal, k)
			ch = true
		}
	}
	for k, v := range s.Cond {
		if o.Cond[k] != v {
			delete(s.Cond, k)
			ch = true
		}
	}
	for k, v := range s.Lit {
		if o.Lit[k] != v {
			delete(s.Lit, k)
			ch = true
		}
	}
	for k, v := range s.Feas {
		ov, ok := o.Feas[k]
		if !ok || ov.n != v.n || !sameExits(v.exits, ov.exits) {
			delete(s.Feas, k)
			ch = true
		} else if v.mask|ov.mask != v.mask {
			s.Feas[k] = feas{v.mask | ov.mask, v.n, v.exits, v.sum}
			ch = true
		}
	}
	if len(s.Impl) > 0 {
		var keep []implFact
		for _, a := range s.Impl {
			for _, b := range o.Impl {
				if a == b {
					keep = append(keep, a)
					break
				}
			}
		}
		if len(keep) != len(s.Impl) {
			ch = true
		}
		s.Impl = keep
	}
	for k := range o.Unrep {
		if !s.Unrep[k] {
			s.Unrep[k] = true
			ch = true
		}
	}
	for k, v := range o.Pend {
		if _, ok := s.Pend[k]; !ok {
			s.Pend[k] = v
			ch = true
		}
	}
	return ch
}

// Has reports whether tag is established on all paths.
func (s *State) Has(t Tag) bool { return s.Must[t] }

// HasAny reports whether one of the tags is established on all paths.
func (s *State) HasAny(ts ...Tag) bool {
	for _, t := range ts {
		if s.Must[t] {
			return true
		}
	}
	return false
}

// Maybe reports whether tag is established on some path.
func (s *State) Maybe(t Tag) bool { return s.May[t] }

// MustTags returns the sorted must-set (for reports).
func (s *State) MustTags() []string {
	var out []string
	for k := range s.Must {
		out = append(out, k)
	}
	sort.Strings(out)
	return out
}

// Exit classes.
const (
	ExitOK     = "nil-error"
	ExitErr    = "non-nil-error"
	ExitEither = "either"
	ExitNoErr  = "no-error-result"
)

// Exit is one return of the analysed function.
type Exit struct {
	Stmt    *ast.ReturnStmt // nil for falling off the end
	Pos     token.Pos
	St      *State
	Results []ast.Expr
	Class   string
	BoolRes int8
	// PreClass: with Spec.DeferAtExit, the class of the exit before the deferred literals ran ("" otherwise)
	PreClass  string  // value of the function's only bool result at this exit (isTrue/isFalse, 0 unknown)
	Via       *Origin // non-nil: an exit of a helper the function returns through (`return helper(..)`)
	ErrOrigin *Origin // the call whose error is returned directly (return f() / return err with err := f())
	OkImplies map[Tag]bool
	FailImpl  map[Tag]bool
}

// ResultConst returns the named constant returned at result index i (nil if not a constant).
func (e *Exit) ResultConst(info *types.Info, i int) *types.Const {
	if i < 0 || i >= len(e.Results) {
		return nil
	}
	if c := core.ConstObj(info, e.Results[i]); c != nil {
		return c
	}
	if o := core.ObjOf(info, e.Results[i]); o != nil {
		return e.St.Eq[o]
	}
	return nil
}

// CallPoint is a classified call with the state just before it.
type CallPoint struct {
	Call   *ast.CallExpr
	Callee *types.Func
	Tags   []Tag
	Before *State
	InLoop bool
	Defer  bool
	Fn     *core.FuncInfo // the declared function whose body contains the call (the analysed one, or an inlined callee)
	// ArgBool: for bool-typed arguments whose value is known on this path: 1 = true, 2 = false
	ArgBool map[int]int8
}

// Drop is an error result that is discarded.
type Drop struct {
	Origin *Origin
	Kind   string // blank | unused | overwritten | unchecked-at-exit
	Pos    token.Pos
}

// Swallow is a provably-nil error return reachable after a call failed.
type Swallow struct {
	Origin *Origin
	Exit   *Exit
}

// Summary of a callee.
type Summary struct {
	AlwaysErr bool // every exit returns a provably non-nil error
	MustAll   map[Tag]bool
	MustOk    map[Tag]bool
	MustFail  map[Tag]bool
	May       map[Tag]bool
	HasOk     bool
	HasFail   bool
	// BoolIdx: index of the function's only bool result (-1: none). MustTrue / MustFalse: what holds on every
	// exit that may return true / false there (an exit whose value is not known counts for both).
	BoolIdx   int
	MustTrue  map[Tag]bool
	MustFalse map[Tag]bool
	// MayOk / MayFail: what may have happened on some exit that can return a nil / a non-nil error
	MayOk   map[Tag]bool
	MayFail map[Tag]bool
	// ConstRes: the named constant every exit returns as result 0 (nil if they differ or it is not one)
	ConstRes *types.Const
}

// AssignPoint is a classified assignment with the state before it.
type AssignPoint struct {
	Stmt   *ast.AssignStmt
	Tags   []Tag
	Before *State
	InLoop bool
	Fn     *core.FuncInfo
}

// Result of analysing one function body.
type Result struct {
	Exits    []*Exit
	Calls    []*CallPoint
	Assigns  []*AssignPoint
	Drops    []Drop
	Swallows []Swallow
	Sum      *Summary
}

// Spec parameterises an analysis.
type Spec struct {
	W *core.World
	// Classify returns event tags for a call; a tag starting with '-' kills that tag.
	Classify func(pkg *packages.Package, call *ast.CallExpr, callee *types.Func) []Tag
	// CondTags optionally returns tags established on the given branch of a condition.
	CondTags func(pkg *packages.Package, cond ast.Expr, branch bool) []Tag
	// AssignTags optionally returns tags for an assignment statement (stores into fields / map elements).
	AssignTags func(pkg *packages.Package, as *ast.AssignStmt) []Tag
	// Visit, when set, is called in the recording pass for every CFG node with the state before it.
	Visit func(pkg *packages.Package, n ast.Node, st *State)
	// AssumeCond, when set, is asked about a branch condition before the engine's own facts: known=true fixes its
	// value for this analysis (an entry assumption such as "*errp != nil" that the fact domain cannot express).
	AssumeCond func(pkg *packages.Package, cond ast.Expr) (known, val bool)
	// Effect, when set, is a rule-defined transfer function: called in every pass (fixpoint and recording) for
	// every CFG node with the state before it, which it may update (tags that depend on the facts of the state,
	// e.g. "the status field now holds the constant this variable is known to equal").
	Effect func(pkg *packages.Package, n ast.Node, st *State)
	// AssumeNonNil marks calls whose (single) result is to be assumed non-nil ("what if this failed / panicked").
	AssumeNonNil func(pkg *packages.Package, call *ast.CallExpr) bool
	// AssumeNil marks calls whose (single) result is to be assumed nil ("what if nothing was recovered").
	AssumeNil func(pkg *packages.Package, call *ast.CallExpr) bool
	// LoopTags optionally returns tags that hold once a range loop has completed (the rule inspects the
	// loop's shape, e.g. "every element is re-sent"); they are added on the loop's exit edge.
	LoopTags func(pkg *packages.Package, rs *ast.RangeStmt) []Tag
	// StmtTags optionally returns tags for send statements.
	StmtTags func(pkg *packages.Package, s ast.Stmt) []Tag
	// Contradict lists pairs of tags that cannot both hold: a state establishing both on every path is infeasible.
	Contradict [][2]Tag
	// Split lists tags on which states are partitioned (trace partitioning): paths that differ in
	// whether such a tag is established are analysed separately instead of being merged at joins.
	Split []Tag
	// Depth is the number of callee frames summarised below the analysed function.
	Depth int
	// NoDescend prevents summarising a callee (its own tags still apply).
	NoDescend func(f *types.Func) bool
	// Inline is the number of frames of same-package, statically resolved callees that are analysed *in the
	// caller's context*: the callee's body is run from the state at the call site (must/may tags and facts about
	// the arguments), the call points and assignments met inside are recorded with that context, and the
	// caller continues with what holds on the callee's exits. This is what keeps the rules indifferent to
	// extract-method refactorings. 0 means the default (2 frames); negative switches it off.
	Inline int
	// Fork: a callee analysed in context whose exits differ on a Split tag is not merged at the call: the rest of
	// the caller is analysed once per group of exits that agree on the Split tags (the decision a helper took —
	// which mode, which case — stays known in the caller, e.g. when it is handed back as a struct of flags).
	Fork bool
	// DeferAtExit: a deferred function literal is not summarised where it is registered but run where the function
	// leaves — after the returned values were bound to the named results, from the state of that exit (so a clean-up
	// that depends on flags and on the error being returned is followed per exit); the closure's own exits become
	// the function's. Literals registered on some paths only keep the registration-time treatment.
	DeferAtExit bool

	nextInline int
	// fieldObjs: stand-in objects for `x.f` with x a local variable or parameter of struct (pointer) type: facts about
	// the field are kept under them like facts about a variable (State.Nil / Bool / Eq / Def)
	fieldObjs map[fieldKey]*types.Var
	paramRoot map[types.Object]types.Object // parameter of a callee being analysed in context -> the caller's variable it stands for
	nextFn    *core.FuncInfo                // function the next run analyses (CallPoint.Fn)
	litOwner  *core.FuncInfo                // declared function enclosing the literal the next runLit analyses
	inlining  map[*types.Func]bool
	ctxErr    map[string]bool

	cache map[sumKey]*Summary
	busy  map[*types.Func]bool
	lits  map[litKey]*Result
}

type litKey struct {
	l *ast.FuncLit
	d int
	q bool
}

// runLit analyses a function literal. quiet runs are the engine's own nested analyses (a literal met while
// analysing its enclosing function): they do not call the rule's Visit hook, which would otherwise see the
// literal's nodes with an empty initial state.
func (sp *Spec) runLit(pkg *packages.Package, lit *ast.FuncLit, depth int, quiet ...bool) *Result {
	if sp.lits == nil {
		sp.lits = map[litKey]*Result{}
	}
	q := len(quiet) > 0 && quiet[0]
	k := litKey{lit, depth, q}
	if r, ok := sp.lits[k]; ok {
		return r
	}
	saved := sp.Visit
	if q {
		sp.Visit = nil
	}
	sp.nextFn = sp.litOwner
	r := sp.run(pkg, lit.Type, lit.Body, sp.W.LitCFG(pkg, lit), depth, nil)
	sp.Visit = saved
	sp.lits[k] = r
	return r
}

type fieldKey struct {
	root  types.Object
	field *types.Var
}

// FieldObj: the stand-in object under which facts about root.field are kept (root: a local variable or parameter
// holding a struct or a pointer to one). Rules use it to seed facts about a field.
func (sp *Spec) FieldObj(root types.Object, field *types.Var) types.Object {
	if sp.fieldObjs == nil {
		sp.fieldObjs = map[fieldKey]*types.Var{}
	}
	k := fieldKey{sp.RootOf(root), field}
	if v, ok := sp.fieldObjs[k]; ok {
		return v
	}
	v := types.NewVar(field.Pos(), field.Pkg(), k.root.Name()+"."+field.Name(), field.Type())
	sp.fieldObjs[k] = v
	return v
}

// ObjOfExpr: the object facts about e are kept under — a variable, or the stand-in of a field selection x.f.
func (sp *Spec) ObjOfExpr(info *types.Info, e ast.Expr) types.Object {
	switch x := ast.Unparen(e).(type) {
	case *ast.Ident:
		if o := info.Defs[x]; o != nil {
			return o
		}
		return info.Uses[x]
	case *ast.SelectorExpr:
		id, ok := ast.Unparen(x.X).(*ast.Ident)
		if !ok {
			return nil
		}
		root, ok := info.Uses[id].(*types.Var)
		fld, ok2 := info.Uses[x.Sel].(*types.Var)
		if !ok || !ok2 || !fld.IsField() || root.IsField() || root.Pkg() == nil || root.Parent() == root.Pkg().Scope() {
			return nil
		}
		t := root.Type()
		if p, isP := t.Underlying().(*types.Pointer); isP {
			t = p.Elem()
		}
		if _, isS := t.Underlying().(*types.Struct); !isS {
			return nil
		}
		return sp.FieldObj(root, fld)
	}
	return nil
}

func isAddrOf(e ast.Expr) bool {
	u, ok := ast.Unparen(e).(*ast.UnaryExpr)
	return ok && u.Op == token.AND
}

// boolOf: the value of a bool expression on this path (isTrue / isFalse / 0): what the facts decide, or — for a call
// of a function analysed in context — what every exit still possible returns
func (r *runner) boolOf(e ast.Expr, st *State) int8 {
	if k, v := r.condValue(e, st); k {
		if v {
			return isTrue
		}
		return isFalse
	}
	if c, ok := ast.Unparen(e).(*ast.CallExpr); ok {
		if or := r.origins[c]; or != nil && or.Inlined && len(or.Exits) > 0 && len(or.Exits) <= 64 && or.Sum != nil && or.Sum.BoolIdx == 0 {
			f, exits := feasOf(or, st)
			var v int8
			for i, ex := range exits {
				if f.mask&(1<<uint(i)) == 0 {
					continue
				}
				if ex.BoolRes == 0 || (v != 0 && v != ex.BoolRes) {
					return 0
				}
				v = ex.BoolRes
			}
			return v
		}
	}
	return 0
}

func recvExprOf(c *ast.CallExpr) ast.Expr {
	if sel, ok := ast.Unparen(c.Fun).(*ast.SelectorExpr); ok {
		return sel.X
	}
	return nil
}

// structRoot: e is x or &x with x a local variable / parameter holding a struct or a pointer to one
func (r *runner) structRoot(e ast.Expr) types.Object {
	if e == nil {
		return nil
	}
	e = ast.Unparen(e)
	if u, ok := e.(*ast.UnaryExpr); ok && u.Op == token.AND {
		e = ast.Unparen(u.X)
	}
	id, ok := e.(*ast.Ident)
	if !ok {
		return nil
	}
	v, ok := r.info.Uses[id].(*types.Var)
	if !ok || v.IsField() || v.Pkg() == nil || v.Parent() == v.Pkg().Scope() {
		return nil
	}
	t := v.Type()
	if p, isP := t.Underlying().(*types.Pointer); isP {
		t = p.Elem()
	}
	if _, isS := t.Underlying().(*types.Struct); !isS {
		return nil
	}
	return v
}

func identOf(e ast.Expr) *ast.Ident {
	id, _ := ast.Unparen(e).(*ast.Ident)
	return id
}

// fieldObj: the stand-in of x.f (nil when x is not a local struct variable)
func (r *runner) fieldObj(x *ast.SelectorExpr) types.Object {
	return r.sp.ObjOfExpr(r.info, x)
}

// killFieldsOf forgets what is known about the fields of root (it was handed to code that was not analysed)
func (r *runner) killFieldsOf(root types.Object, st *State) {
	root = r.sp.RootOf(root)
	for k, v := range r.sp.fieldObjs {
		if k.root == root {
			r.killVar(v, st, token.NoPos)
		}
	}
}

type sumKey struct {
	f *types.Func
	d int
}

// RootOf: while a callee is analysed in its caller's context, the caller's variable that parameter o stands for
// (o itself otherwise). For rules that identify "the context of this call", "the data slice", ... by object.
func (sp *Spec) RootOf(o types.Object) types.Object {
	for i := 0; i < 8; i++ {
		r, ok := sp.paramRoot[o]
		if !ok || r == o {
			return o
		}
		o = r
	}
	return o
}

// Analyze runs the engine over a declared function.
func (sp *Spec) Analyze(f *core.FuncInfo) *Result {
	sp.armInline()
	sp.nextFn = f
	return sp.run(f.Pkg, f.Decl.Type, f.Decl.Body, sp.W.CFG(f), sp.Depth, nil)
}

func (sp *Spec) armInline() {
	switch {
	case sp.Inline < 0:
		sp.nextInline = 0
	case sp.Inline == 0:
		sp.nextInline = 2
	default:
		sp.nextInline = sp.Inline
	}
}

// AnalyzeLit runs the engine over a function literal (free variables are unknown).
func (sp *Spec) AnalyzeLit(pkg *packages.Package, lit *ast.FuncLit) *Result {
	sp.armInline()
	return sp.runLit(pkg, lit, sp.Depth)
}

// Summary returns the (cached) summary of a repo function at the given remaining depth.
func (sp *Spec) summary(fn *types.Func, depth int) *Summary {
	fi := sp.W.Info(fn)
	if fi == nil || depth < 0 {
		return nil
	}
	if sp.NoDescend != nil && sp.NoDescend(fn) {
		return nil
	}
	if sp.cache == nil {
		sp.cache = map[sumKey]*Summary{}
		sp.busy = map[*types.Func]bool{}
	}
	k := sumKey{fn, depth}
	if s, ok := sp.cache[k]; ok {
		return s
	}
	if sp.busy[fn] {
		return nil
	}
	sp.busy[fn] = true
	sp.nextFn = fi
	r := sp.run(fi.Pkg, fi.Decl.Type, fi.Decl.Body, sp.W.CFG(fi), depth, nil)
	delete(sp.busy, fn)
	sp.cache[k] = r.Sum
	return r.Sum
}

// combined summary over the possible callees of a call (must = intersection, may = union).
func (sp *Spec) calleeSummary(callees []*types.Func, depth int) *Summary {
	var out *Summary
	n := 0
	for _, c := range callees {
		if sp.W.Info(c) == nil {
			continue
		}
		s := sp.summary(c, depth)
		if s == nil {
			// unknown repo callee: nothing is guaranteed
			s = &Summary{MustAll: map[Tag]bool{}, MustOk: map[Tag]bool{}, MustFail: map[Tag]bool{}, May: map[Tag]bool{}, HasOk: true, HasFail: true, BoolIdx: -1}
		}
		n++
		if out == nil {
			out = &Summary{MustAll: cp(s.MustAll), MustOk: cp(s.MustOk), MustFail: cp(s.MustFail), May: cp(s.May), HasOk: s.HasOk, HasFail: s.HasFail, BoolIdx: -1}
			if s.MayOk != nil && s.MayFail != nil {
				out.MayOk, out.MayFail = cp(s.MayOk), cp(s.MayFail)
			}
			continue
		}
		if out.MayOk != nil && s.MayOk != nil && s.MayFail != nil {
			for k := range s.MayOk {
				out.MayOk[k] = true
			}
			for k := range s.MayFail {
				out.MayFail[k] = true
			}
		} else {
			out.MayOk, out.MayFail = nil, nil // an unknown callee: no refinement
		}
		out.MustAll = inter(out.MustAll, s.MustAll)
		if s.HasOk {
			if out.HasOk {
				out.MustOk = inter(out.MustOk, s.MustOk)
			} else {
				out.MustOk = cp(s.MustOk)
			}
		}
		if s.HasFail {
			if out.HasFail {
				out.MustFail = inter(out.MustFail, s.MustFail)
			} else {
				out.MustFail = cp(s.MustFail)
			}
		}
		out.HasOk = out.HasOk || s.HasOk
		out.HasFail = out.HasFail || s.HasFail
		for k := range s.May {
			out.May[k] = true
		}
	}
	return out
}

func cp(m map[Tag]bool) map[Tag]bool {
	n := map[Tag]bool{}
	for k := range m {
		n[k] = true
	}
	return n
}
func inter(a, b map[Tag]bool) map[Tag]bool {
	n := map[Tag]bool{}
	for k := range a {
		if b[k] {
			n[k] = true
		}
	}
	return n
}

type runner struct {
	sp         *Spec
	pkg        *packages.Package
	info       *types.Info
	ftype      *ast.FuncType
	depth      int
	results    []types.Object // named results (nil entries when unnamed)
	nres       int
	errIdx     int
	boolIdx    int
	fi         *core.FuncInfo
	caseTag    map[ast.Expr]ast.Expr // case value -> switch tag (nil tag: boolean switch)
	selectComm map[ast.Stmt]bool     // communication statements of select clauses (conditional)
	loops      map[ast.Node]bool
	origins    map[*ast.CallExpr]*Origin
	record     bool
	res        *Result
	inLoop     map[*cfg.Block]bool
	inline     int
	body       *ast.BlockStmt
	// forking at calls analysed in context (Spec.Fork)
	deferLits  map[Tag]*ast.FuncLit
	deferCalls map[Tag]*Origin // `defer f(..)()`: the call whose result is the deferred function
	deferOrder []Tag
	inDefers   bool
	probing    bool
	forkReq    *forkReq
	force      map[*ast.CallExpr][]int
	forkDepth  int
}

type forkReq struct {
	call   *ast.CallExpr
	groups [][]int
}

func (sp *Spec) run(pkg *packages.Package, ft *ast.FuncType, body *ast.BlockStmt, g *cfg.CFG, depth int, init *State) *Result {
	r := &runner{sp: sp, pkg: pkg, info: pkg.TypesInfo, ftype: ft, depth: depth, caseTag: map[ast.Expr]ast.Expr{}, selectComm: map[ast.Stmt]bool{}, origins: map[*ast.CallExpr]*Origin{}, res: &Result{}, errIdx: -1, boolIdx: -1}
	r.inline = sp.nextInline
	r.body = body
	r.force = map[*ast.CallExpr][]int{}
	r.fi, sp.nextFn = sp.nextFn, nil
	sp.nextInline = 0 // nested runs (summaries, literals) are context-free unless the caller arms it again
	if ft.Results != nil {
		i := 0
		for _, fld := range ft.Results.List {
			n := len(fld.Names)
			if n == 0 {
				n = 1
			}
			for j := 0; j < n; j++ {
				var obj types.Object
				if len(fld.Names) > 0 {
					obj = r.info.Defs[fld.Names[j]]
				}
				r.results = append(r.results, obj)
				if t := r.info.TypeOf(fld.Type); t != nil && types.Identical(t, types.Universe.Lookup("error").Type()) {
					r.errIdx = i
				}
				if t := r.info.TypeOf(fld.Type); t != nil {
					if bt, ok := t.Underlying().(*types.Basic); ok && bt.Kind() == types.Bool {
						if r.boolIdx == -1 {
							r.boolIdx = i
						} else {
							r.boolIdx = -2 // more than one
						}
					}
				}
				i++
			}
		}
		r.nres = i
	}
	ast.Inspect(body, func(n ast.Node) bool {
		switch x := n.(type) {
		case *ast.FuncLit:
			return false
		case *ast.SwitchStmt:
			for _, c := range x.Body.List {
				for _, e := range c.(*ast.CaseClause).List {
					r.caseTag[e] = x.Tag
				}
			}
		case *ast.SelectStmt:
			for _, c := range x.Body.List {
				if cc := c.(*ast.CommClause); cc.Comm != nil {
					r.selectComm[cc.Comm] = true
				}
			}
		}
		return true
	})
	r.inLoop = loopBlocks(g)
	in := make([]map[string]*State, len(g.Blocks))
	if len(g.Blocks) == 0 {
		r.res.Sum = &Summary{MustAll: map[Tag]bool{}, MustOk: map[Tag]bool{}, MustFail: map[Tag]bool{}, May: map[Tag]bool{}}
		return r.res
	}
	start := init
	if start == nil {
		start = newState()
	}
	// named results start as zero values
	for _, o := range r.results {
		if o != nil && nillable(o.Type()) {
			start.Nil[o] = isNil
		}
	}
	// trace partitioning: states that differ on a split tag are kept apart at joins
	pkey := func(st *State) string {
		if len(sp.Split) == 0 {
			return ""
		}
		var k []string
		for _, t := range sp.Split {
			if st.Must[t] {
				k = append(k, t)
			}
		}
		return strings.Join(k, "|")
	}
	in[0] = map[string]*State{pkey(start): start}
	work := []*cfg.Block{g.Blocks[0]}
	queued := map[*cfg.Block]bool{g.Blocks[0]: true}
	steps := 0
	sortedKeys := func(m map[string]*State) []string {
		var ks []string
		for k := range m {
			ks = append(ks, k)
		}
		sort.Strings(ks)
		return ks
	}
	for len(work) > 0 && steps < 20000 {
		steps++
		b := work[0]
		work = work[1:]
		queued[b] = false
		for _, pk := range sortedKeys(in[b.Index]) {
			outs := r.block(b, in[b.Index][pk].copy())
			for i, s := range b.Succs {
				for _, o := range outs[i] {
					k := pkey(o)
					if in[s.Index] == nil {
						in[s.Index] = map[string]*State{}
					}
					if cur := in[s.Index][k]; cur == nil {
						in[s.Index][k] = o.copy()
					} else if !cur.join(o) {
						continue
					}
					if !queued[s] {
						queued[s] = true
						work = append(work, s)
					}
				}
			}
		}
	}
	// final recording pass
	r.record = true
	for _, b := range g.Blocks {
		if in[b.Index] == nil || !b.Live {
			continue
		}
		for _, pk := range sortedKeys(in[b.Index]) {
			outs := r.block(b, in[b.Index][pk].copy())
			if len(b.Succs) == 0 && outs != nil {
				// fell off the end or panicked: a block that ends without return in a function
				// that has no results is an implicit return.
				if endsWithReturn(b) || r.endsInNoReturn(b) || b.Kind == cfg.KindSelectAfterCase || b.Kind == cfg.KindUnreachable {
					// the block after the last case of a select without default is never executed
					continue
				}
				for _, o := range outs[0] {
					r.exit(nil, body.Rbrace, o)
				}
			}
		}
	}
	r.res.Sum = r.summarise()
	return r.res
}

func endsWithReturn(b *cfg.Block) bool {
	if len(b.Nodes) == 0 {
		return false
	}
	_, ok := b.Nodes[len(b.Nodes)-1].(*ast.ReturnStmt)
	return ok
}

func (r *runner) endsInNoReturn(b *cfg.Block) bool {
	if len(b.Nodes) == 0 {
		return false
	}
	es, ok := b.Nodes[len(b.Nodes)-1].(*ast.ExprStmt)
	if !ok {
		return false
	}
	c, ok := es.X.(*ast.CallExpr)
	if !ok {
		return false
	}
	if id, ok := c.Fun.(*ast.Ident); ok && id.Name == "panic" {
		return true
	}
	return false
}

func loopBlocks(g *cfg.CFG) map[*cfg.Block]bool {
	// a block is in a loop if it can reach itself
	out := map[*cfg.Block]bool{}
	for _, b := range g.Blocks {
		seen := map[*cfg.Block]bool{}
		var st []*cfg.Block
		st = append(st, b.Succs...)
		for len(st) > 0 {
			x := st[len(st)-1]
			st = st[:len(st)-1]
			if x == b {
				out[b] = true
				break
			}
			if seen[x] {
				continue
			}
			seen[x] = true
			st = append(st, x.Succs...)
		}
	}
	return out
}

func nillable(t types.Type) bool {
	switch t.Underlying().(type) {
	case *types.Pointer, *types.Interface, *types.Map, *types.Slice, *types.Chan, *types.Signature:
		return true
	}
	return false
}

// block applies the transfer functions of b and returns the out-states per successor (one, unless a call analysed
// in context forked the analysis: Spec.Fork).
func (r *runner) block(b *cfg.Block, st *State) [][]*State {
	n := len(b.Nodes)
	var cond ast.Expr
	if len(b.Succs) == 2 && n > 0 {
		if e, ok := b.Nodes[n-1].(ast.Expr); ok {
			cond = e
			n--
		}
	}
	if b.Kind == cfg.KindSelectCaseBody {
		// go/cfg evaluates every communication before the bodies; which arm was taken is known only here:
		// the classified calls of the chosen communication are recorded as arm:<tag>
		if cc, ok := b.Stmt.(*ast.CommClause); ok && cc.Comm != nil {
			// the send of the taken arm has happened
			if ss, ok := cc.Comm.(*ast.SendStmt); ok && r.sp.StmtTags != nil {
				for _, t := range r.sp.StmtTags(r.pkg, ss) {
					r.addTag(st, t)
				}
			}
			ast.Inspect(cc.Comm, func(m ast.Node) bool {
				if _, isLit := m.(*ast.FuncLit); isLit {
					return false
				}
				if c, ok := m.(*ast.CallExpr); ok {
					for _, t := range r.classify(c, core.Callee(r.info, c)) {
						if !strings.HasPrefix(t, "-") && !strings.HasPrefix(t, "#") {
							r.addTag(st, "arm:"+t)
						}
					}
				}
				// a channel obtained earlier from a classified call (timeout := After(d); case <-timeout:)
				if id, ok := m.(*ast.Ident); ok {
					if o := r.info.Uses[id]; o != nil {
						if or := st.Def[o]; or != nil {
							for _, t := range or.Tags {
								if !strings.HasPrefix(t, "-") && !strings.HasPrefix(t, "#") {
									r.addTag(st, "arm:"+t)
								}
							}
						}
					}
				}
				return true
			})
		}
	}
	if b.Kind == cfg.KindSelectCaseBody && r.contradictory(st) {
		// the rule has stated that this arm cannot be the one taken
		return make([][]*State, max(len(b.Succs), 1))
	}
	outs := make([][]*State, max(len(b.Succs), 1))
	for _, f := range r.nodesFrom(b, 0, n, st) {
		r.branchFork(b, cond, f, outs)
	}
	return outs
}

// branchFork: branch, with the analysis forked first when the condition itself holds a call analysed in context
// whose exits differ on a partition tag (`if c.install(ctx) { defer .. }`)
func (r *runner) branchFork(b *cfg.Block, cond ast.Expr, st *State, outs [][]*State) {
	if cond != nil && r.sp.Fork && len(r.sp.Split) > 0 && r.inline > 0 && !r.probing && r.forkDepth < 4 && hasCall(cond) {
		savedRec, savedVisit := r.record, r.sp.Visit
		r.record, r.sp.Visit, r.probing, r.forkReq = false, nil, true, nil
		r.evalExpr(b, cond, st.copy())
		r.record, r.sp.Visit, r.probing = savedRec, savedVisit, false
		fr := r.forkReq
		r.forkReq = nil
		if fr != nil {
			for _, g := range fr.groups {
				r.force[fr.call] = g
				r.forkDepth++
				r.branchFork(b, cond, st.copy(), outs)
				r.forkDepth--
				delete(r.force, fr.call)
			}
			return
		}
	}
	for i, o := range r.branch(b, cond, st) {
		if o != nil {
			outs[i] = append(outs[i], o)
		}
	}
}

// nodesFrom applies the nodes i..n-1 of b to st and returns the resulting state(s).
func (r *runner) nodesFrom(b *cfg.Block, i, n int, st *State) []*State {
	for ; i < n; i++ {
		if r.sp.Fork && len(r.sp.Split) > 0 && r.inline > 0 && !r.probing && r.forkDepth < 4 && hasCall(b.Nodes[i]) {
			if fr := r.probe(b, b.Nodes[i], st); fr != nil {
				var out []*State
				for _, g := range fr.groups {
					r.force[fr.call] = g
					r.forkDepth++
					out = append(out, r.nodesFrom(b, i, n, st.copy())...)
					r.forkDepth--
					delete(r.force, fr.call)
				}
				return out
			}
		}
		if r.record && r.sp.Visit != nil {
			r.sp.Visit(r.pkg, b.Nodes[i], st)
		}
		if r.sp.Effect != nil {
			r.sp.Effect(r.pkg, b.Nodes[i], st)
		}
		r.node(b, b.Nodes[i], st)
	}
	return []*State{st}
}

func hasCall(n ast.Node) bool {
	found := false
	ast.Inspect(n, func(m ast.Node) bool {
		switch m.(type) {
		case *ast.FuncLit:
			return false
		case *ast.CallExpr:
			found = true
		}
		return !found
	})
	return found
}

// probe runs node n on a copy of st without recording anything and reports whether a callee analysed in context
// left through exits that differ on a Split tag.
func (r *runner) probe(b *cfg.Block, n ast.Node, st *State) *forkReq {
	savedRec, savedVisit := r.record, r.sp.Visit
	r.record, r.sp.Visit, r.probing, r.forkReq = false, nil, true, nil
	tmp := st.copy()
	if r.sp.Effect != nil {
		r.sp.Effect(r.pkg, n, tmp)
	}
	r.node(b, n, tmp)
	r.record, r.sp.Visit, r.probing = savedRec, savedVisit, false
	fr := r.forkReq
	r.forkReq = nil
	return fr
}

// branch: the state(s) on the successor edges of b after its nodes (one per successor, nil = infeasible)
func (r *runner) branch(b *cfg.Block, cond ast.Expr, st *State) []*State {
	if cond != nil && r.record && r.sp.Visit != nil {
		r.sp.Visit(r.pkg, cond, st)
	}
	switch len(b.Succs) {
	case 0:
		return []*State{st}
	case 1:
		return []*State{st}
	}
	if cond == nil {
		done := st.copy()
		if b.Kind == cfg.KindRangeLoop && r.sp.LoopTags != nil {
			if rs, ok := b.Stmt.(*ast.RangeStmt); ok {
				for _, t := range r.sp.LoopTags(r.pkg, rs) {
					r.addTag(done, t)
				}
			}
		}
		if b.Kind == cfg.KindRangeLoop {
			// a loop over a local collection: its body has run (the collection is not empty) / the loop is behind us
			if rs, ok := b.Stmt.(*ast.RangeStmt); ok {
				if o := r.rangedLocal(rs.X); o != nil {
					t := RangedTag(o)
					// what an earlier len test established about the collection decides which edge is possible
					enter, leave := st, done
					if st.Must["empty:"+t] {
						enter = nil
					}
					if done.Must["nonempty:"+t] && !done.May[t] {
						leave = nil // known non-empty, yet the body never ran
					}
					if enter != nil {
						enter.Must[t] = true
						enter.May[t] = true
					}
					if leave != nil {
						leave.Must["past:"+t] = true
						leave.May["past:"+t] = true
					}
					return []*State{enter, leave}
				}
			}
		}
		return []*State{st, done}
	}
	r.evalExpr(b, cond, st)
	if _, isCase := r.caseTag[cond]; !isCase {
		if known, val := r.condValue(cond, st); known {
			// the other branch is infeasible under the facts established on every path to here
			if val {
				r.refine(cond, true, st)
				return []*State{st, nil}
			}
			r.refine(cond, false, st)
			return []*State{nil, st}
		}
	}
	t, f := st.copy(), st
	tag, isCase := r.caseTag[cond]
	if isCase && tag != nil {
		r.refineEq(tag, cond, true, t)
		r.refineEq(tag, cond, false, f)
	} else {
		r.refine(cond, true, t)
		r.refine(cond, false, f)
	}
	if t.Must[deadTag] || r.contradictory(t) {
		t = nil
	}
	if f.Must[deadTag] || r.contradictory(f) {
		f = nil
	}
	return []*State{t, f}
}

func (r *runner) contradictory(st *State) bool {
	for _, c := range r.sp.Contradict {
		if st.Must[c[0]] && st.Must[c[1]] {
			return true
		}
	}
	return false
}

// deadTag marks a state as infeasible: a CondTags result "#not:X" on an edge where X is established
// on every path (the rule states that X and this edge contradict each other).
const deadTag = "#dead"

// Dead can be returned by CondTags to mark the branch as infeasible under a stated assumption of the rule.
const Dead = deadTag

func (r *runner) addTag(st *State, t Tag) {
	if t == "" {
		return
	}
	if strings.HasPrefix(t, "#not:") {
		if st.Must[t[5:]] {
			st.Must[deadTag] = true
		}
		return
	}
	if strings.HasPrefix(t, "-") {
		k := t[1:]
		delete(st.Must, k)
		delete(st.May, k)
		return
	}
	st.Must[t] = true
	st.May[t] = true
}

func (r *runner) originOK(st *State, o *Origin) {
	if o.ErrIdx >= 0 {
		r.narrow(o, st, func(ex *Exit) bool { return ex.Class != ExitErr })
	}
	for _, t := range o.Tags {
		if !strings.HasPrefix(t, "-") {
			r.addTag(st, "ok:"+t)
		}
	}
	if sum := sumOf(o, st); sum != nil {
		for t := range sum.MustOk {
			r.addTag(st, t)
		}
		if (o.Inlined || o.MayBefore != nil) && sum.MayOk != nil {
			// what only a failing exit of the callee may have done has not happened
			for t := range sum.May {
				if !sum.MayOk[t] && !o.MayBefore[t] {
					delete(st.May, t)
				}
			}
			for t := range sum.MayFail {
				if !sum.MayOk[t] && !st.Must[t] && !o.MayBefore[t] {
					delete(st.May, t)
				}
			}
		}
	}
	delete(st.Unrep, o)
}

func (r *runner) originFail(st *State, o *Origin) {
	if o.ErrIdx >= 0 {
		r.narrow(o, st, func(ex *Exit) bool { return ex.Class != ExitOK })
	}
	for _, t := range o.Tags {
		if !strings.HasPrefix(t, "-") {
			r.addTag(st, "fail:"+t)
		}
	}
	if sum := sumOf(o, st); sum != nil {
		for t := range sum.MustFail {
			r.addTag(st, t)
		}
		if (o.Inlined || o.MayBefore != nil) && sum.MayFail != nil {
			for t := range sum.May {
				if !sum.MayFail[t] && !o.MayBefore[t] {
					delete(st.May, t)
				}
			}
			for t := range sum.MayFail {
				st.May[t] = true
			}
		}
	}
	if o.ErrIdx >= 0 {
		st.Unrep[o] = true
	}
}

func (r *runner) refine(cond ast.Expr, branch bool, st *State) {
	cond = ast.Unparen(cond)
	if len(st.Impl) > 0 && !hasCall(cond) {
		txt := types.ExprString(cond)
		impl := st.Impl
		st.Impl = nil
		var rest []implFact
		for _, f := range impl {
			if f.anteVal == branch && types.ExprString(f.ante) == txt {
				r.refine(f.cons, f.consVal, st)
			} else {
				rest = append(rest, f)
			}
		}
		st.Impl = rest
	}
	if o, empty, ok := r.lenTest(cond, branch); ok {
		// the body of a loop over the collection has run: it is not empty; the loop is behind us and its body never
		// ran: it is empty
		t := RangedTag(o)
		if empty && st.Must[t] {
			st.Must[deadTag] = true
		}
		if !empty && st.Must["past:"+t] && !st.May[t] {
			st.Must[deadTag] = true
		}
		// remembered for a loop over the collection that comes later
		if empty {
			st.Must["empty:"+t], st.May["empty:"+t] = true, true
		} else {
			st.Must["nonempty:"+t], st.May["nonempty:"+t] = true, true
		}
	}
	if r.sp.CondTags != nil {
		for _, t := range r.sp.CondTags(r.pkg, cond, branch) {
			r.addTag(st, t)
		}
	}
	switch x := cond.(type) {
	case *ast.UnaryExpr:
		if x.Op == token.NOT {
			r.refine(x.X, !branch, st)
		}
	case *ast.BinaryExpr:
		switch x.Op {
		case token.EQL, token.NEQ:
			eq := (x.Op == token.EQL) == branch
			a, b := ast.Unparen(x.X), ast.Unparen(x.Y)
			if isNilExpr(r.info, b) {
				r.setNil(a, eq, st)
			} else if isNilExpr(r.info, a) {
				r.setNil(b, eq, st)
			} else {
				if c := core.ConstObj(r.info, b); c != nil {
					r.setEq(a, c, eq, st)
				} else if c := core.ConstObj(r.info, a); c != nil {
					r.setEq(b, c, eq, st)
				}
				if v := core.ConstVal(r.info, b); v != nil && v.Kind() == constant.Bool {
					r.refine(a, constant.BoolVal(v) == eq, st)
				}
			}
		case token.LAND:
			// go/cfg keeps a && b and a || b as one condition
			if branch {
				r.refine(x.X, true, st)
				r.refine(x.Y, true, st)
			} else {
				r.refineEither(x.X, x.Y, false, st)
			}
		case token.LOR:
			if !branch {
				r.refine(x.X, false, st)
				r.refine(x.Y, false, st)
			} else {
				r.refineEither(x.X, x.Y, true, st)
			}
		}
	case *ast.Ident:
		if o := r.info.Uses[x]; o != nil {
			if branch {
				st.Bool[o] = isTrue
			} else {
				st.Bool[o] = isFalse
			}
			// a parameter of a callee analysed in context that stands for the caller's variable: the test is a
			// test of that variable
			if root := r.sp.RootOf(o); root != o {
				st.Bool[root] = st.Bool[o]
			}
			if or := st.Def[o]; or != nil {
				r.boolEvent(or, branch, st)
				r.boolSum(or, st.DefIdx[o], branch, st)
			}
			if ce := st.Cond[o]; ce != nil {
				r.refine(ce, branch, st)
				if r.outcomeTest(ce) {
					r.settleOutcomes(ce, st)
				}
			}
		}
	case *ast.SelectorExpr:
		if e, zero, ok := r.fieldValue(x, st); ok {
			if zero {
				if branch {
					st.Must[deadTag] = true
				}
			} else {
				r.refine(e, branch, st)
			}
		} else if fo := r.fieldObj(x); fo != nil && st.Def[r.info.Uses[identOf(x.X)]] == nil {
			if branch {
				st.Bool[fo] = isTrue
			} else {
				st.Bool[fo] = isFalse
			}
		} else if or, idx, fld := r.fieldOfResult(x, st); or != nil {
			// a bool field of a struct a callee analysed in context handed back: only the exits whose literal can
			// give the field this value remain possible
			r.narrow(or, st, func(ex *Exit) bool {
				if idx >= len(ex.Results) {
					return true
				}
				v, zero, known := exitLitField(ex.Results[idx], fld)
				if !known {
					return true
				}
				if zero {
					return !branch
				}
				if c := core.ConstVal(r.info, v); c != nil && c.Kind() == constant.Bool {
					return constant.BoolVal(c) == branch
				}
				if k, val := r.condValue(v, ex.St); k {
					return val == branch
				}
				return true
			})
		}
	case *ast.CallExpr:
		if or := r.origins[x]; or != nil {
			r.boolEvent(or, branch, st)
			r.boolSum(or, 0, branch, st)
		}
		// errors.Is / errors.As matched: the failure is recognised as a specific condition and handled
		if f := core.Callee(r.info, x); branch && f != nil && f.Pkg() != nil && (f.Pkg().Path() == "errors" || f.Pkg().Path() == "github.com/pkg/errors") && (f.Name() == "Is" || f.Name() == "As") && len(x.Args) == 2 {
			if o := core.ObjOf(r.info, x.Args[0]); o != nil {
				if or := st.Def[o]; or != nil {
					delete(st.Unrep, or)
					for _, t := range or.Tags {
						r.addTag(st, "matched:"+t)
					}
				}
			}
		}
	}
}

// refineEither: `a || b` is true (v) or `a && b` is false (!v): either a has the value v, or a has the other value
// and b has v. The state is the join of the two feasible alternatives (what holds on both; what may hold on one).
func (r *runner) refineEither(a, b ast.Expr, v bool, st *State) {
	s1 := st.copy()
	r.refine(a, v, s1)
	s2 := st.copy()
	r.refine(a, !v, s2)
	r.refine(b, v, s2)
	d1 := s1.Must[deadTag] || r.contradictory(s1)
	d2 := s2.Must[deadTag] || r.contradictory(s2)
	switch {
	case d1 && d2:
		st.Must[deadTag] = true
		return
	case d1:
		*st = *s2
	case d2:
		*st = *s1
	default:
		s1.join(s2)
		*st = *s1
		// !(a && b) (v false): a => !b, b => !a;  a || b (v true): !a => b, !b => a
		if !hasCall(a) && !hasCall(b) && len(st.Impl) < 8 {
			st.Impl = append(st.Impl, implFact{a, !v, b, v}, implFact{b, !v, a, v})
		}
	}
}

func (r *runner) boolEvent(o *Origin, v bool, st *State) {
	p := "false:"
	if v {
		p = "true:"
	}
	for _, t := range o.Tags {
		if !strings.HasPrefix(t, "-") {
			r.addTag(st, p+t)
		}
	}
}

// narrow keeps, of the exits of the callee analysed in context at o, those for which keep holds (among those still
// feasible in st), and establishes what all of the remaining ones have established.
func (r *runner) narrow(o *Origin, st *State, keep func(*Exit) bool) {
	if !o.Inlined || len(o.Exits) == 0 || len(o.Exits) > 64 {
		return
	}
	f, exits := feasOf(o, st)
	if len(exits) == 0 || len(exits) > 64 {
		return
	}
	for i, ex := range exits {
		if f.mask&(1<<uint(i)) != 0 && !keep(ex) {
			f.mask &^= 1 << uint(i)
		}
	}
	st.Feas[o] = f
	if f.mask == 0 {
		// no way out of the callee agrees with what this path has learnt about its results
		st.Must[deadTag] = true
		return
	}
	for t := range r.feasMust(exits, f, nil) {
		st.Must[t] = true
		st.May[t] = true
	}
	// what only the exits ruled out may have done has not happened on this path (as for the nil / non-nil edge of an
	// error result): `done, err := step(); if !done { undo() }` — undo is not "after the commit inside step"
	feasMay, otherMay := map[Tag]bool{}, map[Tag]bool{}
	for i, ex := range exits {
		m := otherMay
		if f.mask&(1<<uint(i)) != 0 {
			m = feasMay
		}
		for t := range ex.St.May {
			m[t] = true
		}
	}
	for t := range otherMay {
		if !feasMay[t] && !st.Must[t] {
			delete(st.May, t)
		}
	}
}

// feasMust: the tags every feasible exit (that also satisfies also, if given) has established; nil if there is none
func (r *runner) feasMust(exits []*Exit, f feas, also func(*Exit) bool) map[Tag]bool {
	var inter map[Tag]bool
	for i, ex := range exits {
		if f.mask&(1<<uint(i)) == 0 || (also != nil && !also(ex)) {
			continue
		}
		if inter == nil {
			inter = map[Tag]bool{}
			for t := range ex.St.Must {
				if t != deadTag {
					inter[t] = true
				}
			}
			continue
		}
		for t := range inter {
			if !ex.St.Must[t] {
				delete(inter, t)
			}
		}
	}
	return inter
}

// boolSum: the condition tests the bool result of a call whose body was analysed: what every exit returning
// that value has established holds from here on.
func (r *runner) boolSum(o *Origin, idx int, v bool, st *State) {
	sum := sumOf(o, st)
	if sum == nil || sum.BoolIdx != idx {
		return
	}
	want := isFalse
	if v {
		want = isTrue
	}
	r.narrow(o, st, func(ex *Exit) bool { return ex.BoolRes == 0 || ex.BoolRes == want })
	m := sum.MustFalse
	if v {
		m = sum.MustTrue
	}
	for t := range m {
		r.addTag(st, t)
	}
}

func (r *runner) refineEq(tag, val ast.Expr, branch bool, st *State) {
	if r.sp.CondTags != nil {
		be := &ast.BinaryExpr{X: tag, Op: token.EQL, Y: val}
		for _, t := range r.sp.CondTags(r.pkg, be, branch) {
			r.addTag(st, t)
		}
	}
	if c := core.ConstObj(r.info, val); c != nil {
		r.setEq(ast.Unparen(tag), c, branch, st)
		// the tested variable holds a result of a callee analysed in context (a verdict: state, err := classify(..)):
		// only the exits answering that constant (resp. another value) are still possible
		if o := core.ObjOf(r.info, ast.Unparen(tag)); o != nil {
			if or := st.Def[o]; or != nil && or.Inlined && or.Callee != nil {
				if g := r.sp.W.Info(or.Callee); g != nil {
					idx := st.DefIdx[o]
					ginfo := g.Pkg.TypesInfo
					r.narrow(or, st, func(ex *Exit) bool {
						if idx < 0 || idx >= len(ex.Results) {
							return true
						}
						rc := core.ConstObj(ginfo, ex.Results[idx])
						if rc == nil {
							return true // not a named constant: either way
						}
						if branch {
							return rc == c
						}
						return rc != c
					})
				}
			}
		}
	}
}

func (r *runner) setEq(e ast.Expr, c *types.Const, eq bool, st *State) {
	o := core.ObjOf(r.info, e)
	if o == nil {
		return
	}
	if _, isVar := o.(*types.Var); !isVar {
		return
	}
	if eq {
		st.Eq[o] = c
	} else if st.Eq[o] == c {
		delete(st.Eq, o)
	}
}

func isNilExpr(info *types.Info, e ast.Expr) bool {
	if id, ok := e.(*ast.Ident); ok {
		_, isNil := info.Uses[id].(*types.Nil)
		return isNil
	}
	return false
}

func (r *runner) setNil(e ast.Expr, nilv bool, st *State) {
	var o types.Object
	switch x := e.(type) {
	case *ast.Ident:
		o = r.info.Uses[x]
	case *ast.SelectorExpr:
		o = r.fieldObj(x)
	case *ast.CallExpr:
		// if f() != nil
		if or := r.origins[x]; or != nil && or.ErrIdx == 0 {
			if nilv {
				r.originOK(st, or)
			} else {
				r.originFail(st, or)
			}
		}
		return
	}
	if o == nil {
		return
	}
	if nilv {
		st.Nil[o] = isNil
	} else {
		st.Nil[o] = isNonNil
	}
	if or := st.Def[o]; or != nil && st.DefIdx[o] == or.ErrIdx {
		if nilv {
			r.originOK(st, or)
		} else {
			r.originFail(st, or)
		}
	}
}

// node applies one CFG node.
func (r *runner) node(b *cfg.Block, n ast.Node, st *State) {
	if _, isStmt := n.(ast.Stmt); isStmt {
		st.Impl = nil
	}
	switch x := n.(type) {
	case *ast.AssignStmt:
		r.assign(b, x, st)
	case *ast.ExprStmt:
		if c, ok := ast.Unparen(x.X).(*ast.CallExpr); ok {
			or := r.call(b, c, st, false)
			if or != nil && or.ErrIdx >= 0 && r.record {
				r.res.Drops = append(r.res.Drops, Drop{Origin: or, Kind: "unused", Pos: c.Pos()})
			}
			return
		}
		r.evalExpr(b, x.X, st)
	case *ast.ValueSpec:
		r.valueSpec(b, x, st)
	case *ast.DeclStmt:
		if gd, ok := x.Decl.(*ast.GenDecl); ok {
			for _, s := range gd.Specs {
				vs, ok := s.(*ast.ValueSpec)
				if !ok {
					continue
				}
				r.valueSpec(b, vs, st)
			}
		}
	case *ast.ReturnStmt:
		for _, e := range x.Results {
			r.evalExpr(b, e, st)
		}
		r.exit(x, x.Pos(), st)
	case *ast.DeferStmt:
		r.deferOrGo(b, x.Call, st, "defer:")
	case *ast.GoStmt:
		r.deferOrGo(b, x.Call, st, "go:")
	case *ast.IncDecStmt:
		r.evalExpr(b, x.X, st)
	case *ast.SendStmt:
		r.evalExpr(b, x.Chan, st)
		r.evalExpr(b, x.Value, st)
		if r.sp.StmtTags != nil && !r.selectComm[x] {
			for _, t := range r.sp.StmtTags(r.pkg, x) {
				r.addTag(st, t)
			}
		}
	case *ast.RangeStmt, *ast.EmptyStmt, *ast.LabeledStmt, *ast.BranchStmt:
	case ast.Expr:
		r.evalExpr(b, x, st)
	case ast.Stmt:
		// other statements appear decomposed in the CFG
	}
}

func (r *runner) deferOrGo(b *cfg.Block, c *ast.CallExpr, st *State, prefix string) {
	for _, a := range c.Args {
		r.evalExpr(b, a, st)
	}
	// `defer setUp(..)()`: setUp runs now, what it hands back runs at exit
	if inner, ok := ast.Unparen(c.Fun).(*ast.CallExpr); ok {
		r.evalExpr(b, inner, st)
		if prefix == "defer:" && r.sp.DeferAtExit && len(c.Args) == 0 && !r.inLoop[b] {
			if or := r.origins[inner]; or != nil && or.Inlined && len(or.Exits) > 0 {
				t := Tag("defercall:" + strconv.Itoa(int(inner.Pos())))
				st.Must[t] = true
				st.May[t] = true
				if r.deferCalls == nil {
					r.deferCalls = map[Tag]*Origin{}
				}
				if _, seen := r.deferCalls[t]; !seen {
					r.deferOrder = append(r.deferOrder, t)
				}
				r.deferCalls[t] = or
			}
		}
		return
	}
	if lit, ok := ast.Unparen(c.Fun).(*ast.FuncLit); ok && prefix == "defer:" && r.sp.DeferAtExit && len(c.Args) == 0 && !r.inLoop[b] {
		t := deferLitTag(lit)
		st.Must[t] = true
		st.May[t] = true
		if r.deferLits == nil {
			r.deferLits = map[Tag]*ast.FuncLit{}
		}
		if _, seen := r.deferLits[t]; !seen {
			r.deferLits[t] = lit
			r.deferOrder = append(r.deferOrder, t)
		}
		r.useFreeVarsKeep(lit, st)
		return
	}
	if lit, ok := ast.Unparen(c.Fun).(*ast.FuncLit); ok {
		r.sp.litOwner = r.fi
		sub := r.sp.runLit(r.pkg, lit, r.depth, true)
		if prefix == "go:" {
			r.useFreeVars(lit, st)
		}
		for t := range sub.Sum.MustAll {
			r.addTag(st, prefix+t)
		}
		for t := range sub.Sum.May {
			st.May[prefix+t] = true
		}
		return
	}
	callee := core.Callee(r.info, c)
	if sel, ok := c.Fun.(*ast.SelectorExpr); ok {
		r.evalExpr(b, sel.X, st)
	}
	tags := r.classify(c, callee)
	for _, t := range tags {
		if strings.HasPrefix(t, "-") {
			// a deferred release is recorded as an event, it does not kill now
			r.addTag(st, prefix+t[1:])
			continue
		}
		r.addTag(st, prefix+t)
	}
	if fi := r.inlineTarget(callee, tags); fi != nil {
		// `go helper(..)` / `defer helper(..)` with a function of the package: its body is read like the body of a
		// literal written in place (what it does is recorded under the prefix)
		if r.sp.inlining == nil {
			r.sp.inlining = map[*types.Func]bool{}
		}
		r.sp.inlining[callee] = true
		r.sp.nextInline = r.inline - 1
		r.sp.nextFn = fi
		saved := r.sp.Visit
		r.sp.Visit = nil
		sub := r.sp.run(fi.Pkg, fi.Decl.Type, fi.Decl.Body, r.sp.W.CFG(fi), r.depth, nil)
		r.sp.Visit = saved
		delete(r.sp.inlining, callee)
		if sub.Sum != nil {
			for t := range sub.Sum.MustAll {
				r.addTag(st, prefix+t)
			}
			for t := range sub.Sum.May {
				st.May[prefix+t] = true
			}
		}
	} else if callee != nil && r.depth > 0 && !r.foreignIface(callee) {
		_, callees, _ := r.sp.W.Resolve(r.info, c)
		if s := r.sp.calleeSummary(callees, r.depth-1); s != nil {
			for t := range s.MustAll {
				r.addTag(st, prefix+t)
			}
			for t := range s.May {
				st.May[prefix+t] = true
			}
		}
	}
	if r.record && len(tags) > 0 {
		r.res.Calls = append(r.res.Calls, &CallPoint{Call: c, Callee: callee, Tags: tags, Before: st.copy(), InLoop: r.inLoop[b], Defer: true, Fn: r.fi})
	}
}

func (r *runner) classify(c *ast.CallExpr, callee *types.Func) []Tag {
	if r.sp.Classify == nil {
		return nil
	}
	return r.sp.Classify(r.pkg, c, callee)
}

// evalExpr processes the calls inside an expression (arguments before the call) and marks
// variables it reads as inspected.
func (r *runner) evalExpr(b *cfg.Block, e ast.Expr, st *State) {
	if e == nil {
		return
	}
	switch x := e.(type) {
	case *ast.CallExpr:
		r.call(b, x, st, true)
		return
	case *ast.FuncLit:
		// calls inside a function value may happen later: may-events only
		r.sp.litOwner = r.fi
		sub := r.sp.runLit(r.pkg, x, r.depth, true)
		for t := range sub.Sum.May {
			st.May[t] = true
		}
		r.useFreeVars(x, st)
		return
	case *ast.Ident:
		if o := r.info.Uses[x]; o != nil {
			r.use(o, st)
		}
		return
	case *ast.ParenExpr:
		r.evalExpr(b, x.X, st)
	case *ast.SelectorExpr:
		r.evalExpr(b, x.X, st)
	case *ast.StarExpr:
		r.evalExpr(b, x.X, st)
	case *ast.UnaryExpr:
		r.evalExpr(b, x.X, st)
	case *ast.BinaryExpr:
		r.evalExpr(b, x.X, st)
		if x.Op == token.LAND || x.Op == token.LOR {
			if hasCall(x.Y) && r.outcomeTest(x.X) {
				// short circuit with effects on both sides (`failed := step1() != nil || step2() != nil`): the right
				// operand runs exactly where the left one did not decide — after the left calls answered the other
				// way — and the value is decided either by the left operand alone or after the right one ran
				ran := st.copy()
				r.refine(x.X, x.Op == token.LAND, ran)
				skipped := st.copy()
				r.refine(x.X, x.Op == token.LOR, skipped)
				if ran.Must[deadTag] {
					*st = *skipped
				} else {
					r.evalExpr(b, x.Y, ran)
					if skipped.Must[deadTag] {
						*st = *ran
					} else {
						ran.join(skipped)
						*st = *ran
					}
				}
			} else {
				// the right operand is evaluated conditionally: its events are may-events
				saved := cp(st.Must)
				r.evalExpr(b, x.Y, st)
				st.Must = saved
			}
		} else {
			r.evalExpr(b, x.Y, st)
		}
	case *ast.IndexExpr:
		r.evalExpr(b, x.X, st)
		r.evalExpr(b, x.Index, st)
	case *ast.SliceExpr:
		r.evalExpr(b, x.X, st)
		r.evalExpr(b, x.Low, st)
		r.evalExpr(b, x.High, st)
		r.evalExpr(b, x.Max, st)
	case *ast.TypeAssertExpr:
		r.evalExpr(b, x.X, st)
	case *ast.KeyValueExpr:
		r.evalExpr(b, x.Value, st)
	case *ast.CompositeLit:
		for _, el := range x.Elts {
			r.evalExpr(b, el, st)
		}
	}
}

func (r *runner) useFreeVars(lit *ast.FuncLit, st *State) {
	ast.Inspect(lit.Body, func(n ast.Node) bool {
		switch x := n.(type) {
		case *ast.Ident:
			if o := r.info.Uses[x]; o != nil {
				r.use(o, st)
			}
		case *ast.AssignStmt:
			// a captured variable assigned inside the literal: nothing is known about it once the
			// literal may have run
			for _, l := range x.Lhs {
				if id, ok := ast.Unparen(l).(*ast.Ident); ok {
					if o := r.info.Uses[id]; o != nil && (o.Pos() < lit.Pos() || o.Pos() > lit.End()) {
						delete(st.Nil, o)
						delete(st.Bool, o)
						delete(st.Eq, o)
						delete(st.Def, o)
						delete(st.DefIdx, o)
					}
				}
				if sel, ok := ast.Unparen(l).(*ast.SelectorExpr); ok {
					if fo := r.fieldObj(sel); fo != nil {
						r.killVar(fo, st, token.NoPos)
					}
				}
			}
		case *ast.CallExpr:
			// a captured struct variable handed to (or called on by) code of the literal: its fields may change
			for _, a := range append(append([]ast.Expr{}, x.Args...), recvExprOf(x)) {
				if root := r.structRoot(a); root != nil && (root.Pos() < lit.Pos() || root.Pos() > lit.End()) {
					r.killFieldsOf(root, st)
				}
			}
		case *ast.IncDecStmt:
			if id, ok := ast.Unparen(x.X).(*ast.Ident); ok {
				if o := r.info.Uses[id]; o != nil {
					delete(st.Eq, o)
				}
			}
		}
		return true
	})
}

func (r *runner) use(o types.Object, st *State) {
	if or := st.Def[o]; or != nil {
		if v, ok := st.Pend[or]; ok && v == o {
			delete(st.Pend, or)
		}
	}
}

// call processes a call expression: arguments, events, summaries. Returns its origin.
func (r *runner) call(b *cfg.Block, c *ast.CallExpr, st *State, valueUsed bool) *Origin {
	// receiver and arguments first
	switch f := ast.Unparen(c.Fun).(type) {
	case *ast.SelectorExpr:
		r.evalExpr(b, f.X, st)
	case *ast.FuncLit:
		// immediately invoked literal: analyse inline as may/must events
		r.sp.litOwner = r.fi
		sub := r.sp.runLit(r.pkg, f, r.depth, true)
		for t := range sub.Sum.MustAll {
			r.addTag(st, t)
		}
		for t := range sub.Sum.May {
			st.May[t] = true
		}
	case *ast.Ident:
		if o := r.info.Uses[f]; o != nil {
			r.use(o, st)
		}
	}
	for _, a := range c.Args {
		r.evalExpr(b, a, st)
	}
	callee := core.Callee(r.info, c)
	if callee == nil {
		// a call of a func-typed parameter / variable / struct field whose value is known in this context
		if tv, isType := r.info.Types[c.Fun]; !isType || !tv.IsType() {
			fn, lit := r.funcValueOf(c.Fun, st, 0)
			if fn != nil {
				callee = fn
			} else if lit != nil {
				// a literal stored in the field: as if it were invoked in place
				r.sp.litOwner = r.fi
				sub := r.sp.runLit(r.pkg, lit, r.depth, true)
				for t := range sub.Sum.MustAll {
					r.addTag(st, t)
				}
				for t := range sub.Sum.May {
					st.May[t] = true
				}
			}
		}
	}
	or := r.origins[c]
	if or != nil && or.Callee != callee {
		or = nil // the same call expression analysed under another binding of its function value
	}
	if or == nil {
		or = &Origin{Call: c, Callee: callee, ErrIdx: -1}
		if tv, ok := r.info.Types[c.Fun]; ok {
			if sig, ok := tv.Type.Underlying().(*types.Signature); ok {
				if i, ok := core.HasErrorResult(sig); ok {
					or.ErrIdx = i
				}
			}
		}
		r.origins[c] = or
	}
	or.Tags = r.classify(c, callee)
	var someTags []Tag // events of some, not all, possible callees of a table call: may-events, reported to the rule
	if callee == nil && r.fi != nil && len(or.Tags) == 0 {
		// a function value taken out of a dispatch table: an event of every function of the table has happened,
		// an event of some of them may have
		targets := r.sp.W.TableTargets(r.fi, c)
		count := map[Tag]int{}
		var order []Tag
		for _, t := range targets {
			seenTag := map[Tag]bool{}
			for _, tg := range r.classify(c, t) {
				if !seenTag[tg] {
					seenTag[tg] = true
					if count[tg] == 0 {
						order = append(order, tg)
					}
					count[tg]++
				}
			}
		}
		for _, tg := range order {
			if count[tg] == len(targets) {
				or.Tags = append(or.Tags, tg)
			} else {
				someTags = append(someTags, tg)
			}
		}
	}
	if r.record && len(or.Tags)+len(someTags) > 0 {
		cp := &CallPoint{Call: c, Callee: callee, Tags: append(append([]Tag{}, or.Tags...), someTags...), Before: st.copy(), InLoop: r.inLoop[b], Fn: r.fi}
		for i, a := range c.Args {
			t := r.info.TypeOf(a)
			if t == nil {
				continue
			}
			if bt, ok := t.Underlying().(*types.Basic); !ok || bt.Kind() != types.Bool {
				continue
			}
			if v := r.boolOf(a, st); v != 0 {
				if cp.ArgBool == nil {
					cp.ArgBool = map[int]int8{}
				}
				cp.ArgBool[i] = v
			}
		}
		r.res.Calls = append(r.res.Calls, cp)
	}
	for _, t := range someTags {
		if !strings.HasPrefix(t, "-") && !strings.HasPrefix(t, "#") {
			st.May[t] = true
		}
	}
	for _, t := range or.Tags {
		r.addTag(st, t)
	}
	if len(r.sp.fieldObjs) > 0 && r.inlineTarget(callee, or.Tags) == nil {
		// code that is not analysed here is handed a local struct (by pointer, or as the receiver): what was known
		// about its fields is forgotten (value arguments are copies, but a pointer inside may still be shared)
		for _, a := range append(append([]ast.Expr{}, c.Args...), recvExprOf(c)) {
			if root := r.structRoot(a); root != nil {
				if _, isPtr := root.Type().Underlying().(*types.Pointer); isPtr || a != nil && isAddrOf(a) {
					r.killFieldsOf(root, st)
				}
			}
		}
	}
	if fi := r.inlineTarget(callee, or.Tags); fi != nil {
		// the callee in the caller's context
		seed := newState()
		for t := range st.Must {
			seed.Must[t] = true
		}
		for t := range st.May {
			seed.May[t] = true
		}
		// facts about the arguments travel to the parameters
		if sig, ok := callee.Type().(*types.Signature); ok && fi.Decl.Type.Params != nil {
			var params []types.Object
			for _, fld := range fi.Decl.Type.Params.List {
				for _, nm := range fld.Names {
					params = append(params, fi.Pkg.TypesInfo.Defs[nm])
				}
			}
			if !sig.Variadic() {
				for i, a := range c.Args {
					if i >= len(params) || params[i] == nil {
						continue
					}
					if v := r.exprNil(a, st); v != 0 {
						seed.Nil[params[i]] = v
					}
					if cst := core.ConstObj(r.info, a); cst != nil {
						seed.Eq[params[i]] = cst
					}
					if r.pureTest(a) {
						seed.Cond[params[i]] = ast.Unparen(a)
					}
					if bt, isB := params[i].Type().Underlying().(*types.Basic); isB && bt.Kind() == types.Bool {
						if v := r.boolOf(a, st); v != 0 {
							seed.Bool[params[i]] = v
						}
					}
					if l := r.structLit(a, st); l != nil {
						seed.Lit[params[i]] = l
					}
					// the argument is itself a call: the parameter holds that call's (first) result
					if ac, ok := ast.Unparen(a).(*ast.CallExpr); ok {
						if aor := r.origins[ac]; aor != nil {
							seed.Def[params[i]] = aor
							seed.DefIdx[params[i]] = 0
						}
					}
					// a function or method value handed to a func-typed parameter
					if _, isFn := params[i].Type().Underlying().(*types.Signature); isFn {
						switch fx := ast.Unparen(a).(type) {
						case *ast.Ident:
							if f, ok := r.info.Uses[fx].(*types.Func); ok {
								seed.FuncVal[params[i]] = f
							} else if o := r.info.Uses[fx]; o != nil && st.FuncVal[o] != nil {
								seed.FuncVal[params[i]] = st.FuncVal[o]
							}
						case *ast.SelectorExpr:
							if f, ok := r.info.Uses[fx.Sel].(*types.Func); ok {
								seed.FuncVal[params[i]] = f
							}
						}
					}
					if id, ok := ast.Unparen(a).(*ast.Ident); ok {
						if src := r.info.Uses[id]; src != nil {
							if v, ok := st.Bool[src]; ok {
								seed.Bool[params[i]] = v
							}
							if v, ok := st.Eq[src]; ok {
								seed.Eq[params[i]] = v
							}
							if v, ok := st.Cond[src]; ok {
								seed.Cond[params[i]] = v
							}
							// the parameter holds the result of the call the caller's variable holds: a test of
							// it inside the callee is a test of that call's outcome
							if or, ok := st.Def[src]; ok {
								seed.Def[params[i]] = or
								seed.DefIdx[params[i]] = st.DefIdx[src]
							}
							if cst, ok := src.(*types.Const); ok && cst.Val().Kind() == constant.Bool {
								if constant.BoolVal(cst.Val()) {
									seed.Bool[params[i]] = isTrue
								} else {
									seed.Bool[params[i]] = isFalse
								}
							}
						}
					}
				}
			}
		}
		// which exits of earlier calls are still possible stays known (a deferred function handed back by one of
		// them is looked up at the exits, also at those the callee contributes as a tail call)
		for k, v := range st.Feas {
			seed.Feas[k] = v
		}
		// what is known about the fields of local structs travels with them (the stand-ins are keyed by the
		// caller's variable, whatever the callee calls it)
		for _, fo := range r.sp.fieldObjs {
			if v, ok := st.Nil[fo]; ok {
				seed.Nil[fo] = v
			}
			if v, ok := st.Bool[fo]; ok {
				seed.Bool[fo] = v
			}
			if v, ok := st.Eq[fo]; ok {
				seed.Eq[fo] = v
			}
			if v, ok := st.Def[fo]; ok {
				seed.Def[fo] = v
				seed.DefIdx[fo] = st.DefIdx[fo]
			}
		}
		// the receiver: a variable (or package variable) known to hold a struct literal
		if fi.Decl.Recv != nil && len(fi.Decl.Recv.List) == 1 && len(fi.Decl.Recv.List[0].Names) == 1 {
			if sel, ok := ast.Unparen(c.Fun).(*ast.SelectorExpr); ok {
				if ro := fi.Pkg.TypesInfo.Defs[fi.Decl.Recv.List[0].Names[0]]; ro != nil {
					if l := r.structLit(sel.X, st); l != nil {
						seed.Lit[ro] = l
					}
				}
			}
		}
		// parameters that receive one of the caller's variables unchanged (and are never reassigned in the callee)
		// stand for that variable while the callee is analysed: RootOf
		var aliased []types.Object
		if sig, ok := callee.Type().(*types.Signature); ok && fi.Decl.Type.Params != nil && !sig.Variadic() {
			var params []types.Object
			for _, fld := range fi.Decl.Type.Params.List {
				for _, nm := range fld.Names {
					params = append(params, fi.Pkg.TypesInfo.Defs[nm])
				}
			}
			reassigned := map[types.Object]bool{}
			ast.Inspect(fi.Decl.Body, func(n ast.Node) bool {
				switch x := n.(type) {
				case *ast.AssignStmt:
					for _, l := range x.Lhs {
						if id, ok := ast.Unparen(l).(*ast.Ident); ok {
							if o := fi.Pkg.TypesInfo.Uses[id]; o != nil {
								reassigned[o] = true
							}
						}
					}
				case *ast.UnaryExpr:
					if x.Op == token.AND {
						if id, ok := ast.Unparen(x.X).(*ast.Ident); ok {
							if o := fi.Pkg.TypesInfo.Uses[id]; o != nil {
								reassigned[o] = true
							}
						}
					}
				}
				return true
			})
			for i, a := range c.Args {
				if i >= len(params) || params[i] == nil || reassigned[params[i]] {
					continue
				}
				if id, ok := ast.Unparen(a).(*ast.Ident); ok {
					if src := r.info.Uses[id]; src != nil {
						if _, isVar := src.(*types.Var); isVar {
							if r.sp.paramRoot == nil {
								r.sp.paramRoot = map[types.Object]types.Object{}
							}
							r.sp.paramRoot[params[i]] = r.sp.RootOf(src)
							aliased = append(aliased, params[i])
						}
					}
				}
			}
			// the receiver of a method called on a local struct variable stands for that variable
			if fi.Decl.Recv != nil && len(fi.Decl.Recv.List) == 1 && len(fi.Decl.Recv.List[0].Names) == 1 {
				if ro := fi.Pkg.TypesInfo.Defs[fi.Decl.Recv.List[0].Names[0]]; ro != nil && !reassigned[ro] {
					if root := r.structRoot(recvExprOf(c)); root != nil {
						// a value receiver is a copy: it stands for the variable only as long as nothing is written
						if r.sp.paramRoot == nil {
							r.sp.paramRoot = map[types.Object]types.Object{}
						}
						r.sp.paramRoot[ro] = r.sp.RootOf(root)
						aliased = append(aliased, ro)
					}
				}
			}
		}
		defer func() {
			for _, p := range aliased {
				delete(r.sp.paramRoot, p)
			}
		}()
		if r.sp.inlining == nil {
			r.sp.inlining = map[*types.Func]bool{}
		}
		r.sp.inlining[callee] = true
		r.sp.nextInline = r.inline - 1
		r.sp.nextFn = fi
		sub := r.sp.run(fi.Pkg, fi.Decl.Type, fi.Decl.Body, r.sp.W.CFG(fi), r.depth, seed)
		delete(r.sp.inlining, callee)
		if r.record {
			r.res.Calls = append(r.res.Calls, sub.Calls...)
			r.res.Assigns = append(r.res.Assigns, sub.Assigns...)
		}
		if len(sub.Exits) > 0 && sub.Sum != nil && r.sp.Fork && len(r.sp.Split) > 0 && len(sub.Exits) <= 64 {
			if g, forced := r.force[c]; forced {
				or.Sum = sub.Sum
				or.Inlined = true
				or.Exits = sub.Exits
				r.leaveThrough(st, or, g)
				return or
			}
			if r.probing && r.forkReq == nil {
				// do the callee's exits differ on a tag the rule partitions on?
				var keys []string
				groups := map[string][]int{}
				for i, ex := range sub.Exits {
					var k []string
					for _, t := range r.sp.Split {
						if ex.St.Must[t] {
							k = append(k, t)
						}
					}
					ks := strings.Join(k, "|")
					if _, seen := groups[ks]; !seen {
						keys = append(keys, ks)
					}
					groups[ks] = append(groups[ks], i)
				}
				if len(keys) > 1 {
					fr := &forkReq{call: c}
					for _, k := range keys {
						fr.groups = append(fr.groups, groups[k])
					}
					r.forkReq = fr
				}
			}
		}
		if len(sub.Exits) > 0 {
			// fields of local structs: what every exit of the callee agrees on
			for _, fo := range r.sp.fieldObjs {
				nilv, boolv := sub.Exits[0].St.Nil[fo], sub.Exits[0].St.Bool[fo]
				for _, ex := range sub.Exits[1:] {
					if ex.St.Nil[fo] != nilv {
						nilv = 0
					}
					if ex.St.Bool[fo] != boolv {
						boolv = 0
					}
				}
				delete(st.Nil, fo)
				delete(st.Bool, fo)
				delete(st.Eq, fo)
				delete(st.Def, fo)
				delete(st.DefIdx, fo)
				if nilv != 0 {
					st.Nil[fo] = nilv
				}
				if boolv != 0 {
					st.Bool[fo] = boolv
				}
			}
		}
		if len(sub.Exits) > 0 && sub.Sum != nil {
			or.Sum = sub.Sum
			or.Inlined = true
			or.Exits = sub.Exits
			delete(st.Feas, or)
			if len(sub.Exits) <= 64 {
				st.Feas[or] = feas{mask: ^uint64(0) >> (64 - uint(len(sub.Exits))), n: len(sub.Exits), exits: sub.Exits, sum: sub.Sum}
			}
			// what survives every exit of the callee (tags it killed on some path are gone)
			for t := range st.Must {
				if !sub.Sum.MustAll[t] {
					delete(st.Must, t)
				}
			}
			for t := range sub.Sum.MustAll {
				st.Must[t] = true
				st.May[t] = true
			}
			for t := range st.May {
				if !sub.Sum.May[t] {
					delete(st.May, t) // killed on every path through the callee
				}
			}
			for t := range sub.Sum.May {
				st.May[t] = true
			}
		}
		return or
	}
	if callee != nil && r.depth > 0 && !r.foreignIface(callee) {
		_, callees, _ := r.sp.W.Resolve(r.info, c)
		if s := r.sp.calleeSummary(callees, r.depth-1); s != nil {
			or.Sum = s
			if or.MayBefore == nil {
				or.MayBefore = map[Tag]bool{}
			}
			for t := range st.May {
				or.MayBefore[t] = true
			}
			for t := range s.MustAll {
				r.addTag(st, t)
			}
			for t := range s.May {
				st.May[t] = true
			}
		}
	}
	return or
}

// leaveThrough: the caller continues from the exits g of the callee analysed in context at o (and only those)
func (r *runner) leaveThrough(st *State, o *Origin, g []int) {
	var must, may map[Tag]bool
	var mask uint64
	for _, i := range g {
		ex := o.Exits[i]
		mask |= 1 << uint(i)
		if must == nil {
			must, may = cp(ex.St.Must), cp(ex.St.May)
			continue
		}
		for t := range must {
			if !ex.St.Must[t] {
				delete(must, t)
			}
		}
		for t := range ex.St.May {
			may[t] = true
		}
	}
	for t := range st.Must {
		if !must[t] {
			delete(st.Must, t)
		}
	}
	for t := range must {
		st.Must[t] = true
		st.May[t] = true
	}
	for t := range st.May {
		if !may[t] {
			delete(st.May, t)
		}
	}
	for t := range may {
		st.May[t] = true
	}
	st.Feas[o] = feas{mask: mask, n: len(o.Exits), exits: o.Exits, sum: o.Sum}
	if len(g) == 1 {
		// a single way out: what is known about the callee's variables there stays known (a result built from them,
		// e.g. a struct of flags, can be read in their terms)
		importFacts(st, o.Exits[g[0]].St)
	}
}

// structLit: e is a struct literal, the address of one, a variable known to hold one, or a package variable that is
// initialised by one (of this package) and never written
func (r *runner) structLit(e ast.Expr, st *State) *ast.CompositeLit {
	e = ast.Unparen(e)
	if u, ok := e.(*ast.UnaryExpr); ok && u.Op == token.AND {
		e = ast.Unparen(u.X)
	}
	switch x := e.(type) {
	case *ast.CompositeLit:
		if t := r.info.TypeOf(x); t != nil {
			if _, isStruct := t.Underlying().(*types.Struct); isStruct {
				return x
			}
		}
	case *ast.Ident:
		if o := r.info.Uses[x]; o != nil {
			return r.litOf(o, st)
		}
	}
	return nil
}

func (r *runner) litOf(o types.Object, st *State) *ast.CompositeLit {
	if l := st.Lit[o]; l != nil {
		return l
	}
	if v, ok := o.(*types.Var); ok && v.Pkg() == r.pkg.Types && v.Parent() == v.Pkg().Scope() {
		if l, p := r.sp.W.PkgVarLit(v); l != nil && p == r.pkg {
			if t := r.info.TypeOf(l); t != nil {
				if _, isStruct := t.Underlying().(*types.Struct); isStruct {
					return l
				}
			}
		}
	}
	return nil
}

// funcValueOf: the function a func-typed expression denotes in this state: a declared function, a method value or
// method expression, a func-typed variable / field whose value is known; or a function literal (second result)
func (r *runner) funcValueOf(e ast.Expr, st *State, depth int) (*types.Func, *ast.FuncLit) {
	if depth > 4 {
		return nil, nil
	}
	switch x := ast.Unparen(e).(type) {
	case *ast.FuncLit:
		return nil, x
	case *ast.Ident:
		switch o := r.info.Uses[x].(type) {
		case *types.Func:
			return o, nil
		case *types.Var:
			if f := st.FuncVal[o]; f != nil {
				return f, nil
			}
		}
	case *ast.SelectorExpr:
		if f, ok := r.info.Uses[x.Sel].(*types.Func); ok {
			return f, nil
		}
		if v, zero, ok := r.fieldValue(x, st); ok && !zero {
			return r.funcValueOf(v, st, depth+1)
		}
	}
	return nil, nil
}

// fieldValue: x.f where x holds a result of a callee analysed in context and every exit still feasible returns a
// keyed struct literal there: the expression the field was given (zero: the literal leaves it out), in the callee's
// terms. Not known when the field or the variable's address is written anywhere in the analysed body.
func (r *runner) fieldValue(x *ast.SelectorExpr, st *State) (e ast.Expr, zero, ok bool) {
	id, isId := ast.Unparen(x.X).(*ast.Ident)
	if !isId {
		return nil, false, false
	}
	o := r.info.Uses[id]
	fld, isVar := r.info.Uses[x.Sel].(*types.Var)
	if o == nil || !isVar || !fld.IsField() {
		return nil, false, false
	}
	if lit := r.litOf(o, st); lit != nil {
		if _, isPkgVar := o.(*types.Var); !isPkgVar || o.Parent() != o.Pkg().Scope() {
			if r.fieldWritten(o) {
				return nil, false, false
			}
		}
		var val ast.Expr
		for _, el := range lit.Elts {
			kv, isKV := el.(*ast.KeyValueExpr)
			if !isKV {
				return nil, false, false
			}
			if kid, isKid := kv.Key.(*ast.Ident); isKid && kid.Name == fld.Name() {
				val = kv.Value
			}
		}
		return val, val == nil, true
	}
	or := st.Def[o]
	if or == nil || !or.Inlined || len(or.Exits) == 0 || len(or.Exits) > 64 {
		return nil, false, false
	}
	idx := st.DefIdx[o]
	f, exits := feasOf(or, st)
	if r.fieldWritten(o) {
		return nil, false, false
	}
	n := 0
	for i, ex := range exits {
		if f.mask&(1<<uint(i)) == 0 {
			continue
		}
		if idx >= len(ex.Results) {
			return nil, false, false
		}
		res := ast.Unparen(ex.Results[idx])
		if u, isU := res.(*ast.UnaryExpr); isU && u.Op == token.AND {
			res = ast.Unparen(u.X)
		}
		lit, isLit := res.(*ast.CompositeLit)
		if !isLit {
			return nil, false, false
		}
		var val ast.Expr
		for _, el := range lit.Elts {
			kv, isKV := el.(*ast.KeyValueExpr)
			if !isKV {
				return nil, false, false // positional
			}
			if kid, isKid := kv.Key.(*ast.Ident); isKid && kid.Name == fld.Name() {
				val = kv.Value
			}
		}
		n++
		switch {
		case n == 1:
			e, zero = val, val == nil
		case val == nil && zero:
		default:
			// several exits: they must agree on a constant
			a, b := core.ConstVal(r.info, e), core.ConstVal(r.info, val)
			if e == nil || val == nil || a == nil || b == nil || !constant.Compare(a, token.EQL, b) {
				return nil, false, false
			}
		}
	}
	if n == 0 {
		return nil, false, false
	}
	return e, zero, true
}

// RangedTag names the event "the body of a range loop over this local collection has run" (established on entry to
// the body; "past:"+RangedTag on the loop's exit edge). Rules partition on it to keep "no element" apart from "some".
func RangedTag(o types.Object) Tag {
	return "ranged:" + o.Name() + "@" + strconv.Itoa(int(o.Pos()))
}

// rangedLocal: e is a local (or parameter) slice / map / array variable
func (r *runner) rangedLocal(e ast.Expr) types.Object {
	id, ok := ast.Unparen(e).(*ast.Ident)
	if !ok {
		return nil
	}
	v, ok := r.info.Uses[id].(*types.Var)
	if !ok || v.IsField() || v.Pkg() == nil || v.Parent() == v.Pkg().Scope() {
		return nil
	}
	switch v.Type().Underlying().(type) {
	case *types.Slice, *types.Map, *types.Array:
		return r.sp.RootOf(v)
	}
	return nil
}

// lenTest: cond compares len(<local collection>) with 0 / 1: the collection and whether the given branch means
// "empty"
func (r *runner) lenTest(cond ast.Expr, branch bool) (o types.Object, empty, ok bool) {
	be, isBin := ast.Unparen(cond).(*ast.BinaryExpr)
	if !isBin {
		return nil, false, false
	}
	c, isCall := ast.Unparen(be.X).(*ast.CallExpr)
	if !isCall || len(c.Args) != 1 {
		return nil, false, false
	}
	if id, isId := c.Fun.(*ast.Ident); !isId || id.Name != "len" {
		return nil, false, false
	} else if _, isB := r.info.Uses[id].(*types.Builtin); !isB {
		return nil, false, false
	}
	o = r.rangedLocal(c.Args[0])
	v := core.ConstVal(r.info, be.Y)
	if o == nil || v == nil || v.Kind() != constant.Int {
		return nil, false, false
	}
	k, _ := constant.Int64Val(v)
	switch {
	case be.Op == token.EQL && k == 0, be.Op == token.LSS && k == 1, be.Op == token.LEQ && k == 0:
		return o, branch, true
	case be.Op == token.NEQ && k == 0, be.Op == token.GTR && k == 0, be.Op == token.GEQ && k == 1:
		return o, !branch, true
	}
	return nil, false, false
}

// fieldOfResult: x.f where x holds result idx of a callee analysed in context (and is not written through)
func (r *runner) fieldOfResult(x *ast.SelectorExpr, st *State) (*Origin, int, string) {
	id, isId := ast.Unparen(x.X).(*ast.Ident)
	if !isId {
		return nil, 0, ""
	}
	o := r.info.Uses[id]
	fld, isVar := r.info.Uses[x.Sel].(*types.Var)
	if o == nil || !isVar || !fld.IsField() {
		return nil, 0, ""
	}
	or := st.Def[o]
	if or == nil || !or.Inlined || len(or.Exits) == 0 || len(or.Exits) > 64 || r.fieldWritten(o) {
		return nil, 0, ""
	}
	return or, st.DefIdx[o], fld.Name()
}

// exitLitField: the value a returned (keyed) struct literal gives the named field
func exitLitField(res ast.Expr, field string) (v ast.Expr, zero, ok bool) {
	res = ast.Unparen(res)
	if u, isU := res.(*ast.UnaryExpr); isU && u.Op == token.AND {
		res = ast.Unparen(u.X)
	}
	lit, isLit := res.(*ast.CompositeLit)
	if !isLit {
		return nil, false, false
	}
	for _, el := range lit.Elts {
		kv, isKV := el.(*ast.KeyValueExpr)
		if !isKV {
			return nil, false, false
		}
		if kid, isKid := kv.Key.(*ast.Ident); isKid && kid.Name == field {
			v = kv.Value
		}
	}
	return v, v == nil, true
}

// fieldWritten: a field of the variable o is assigned, or o's address is taken, somewhere in the analysed body
func (r *runner) fieldWritten(o types.Object) bool {
	written := false
	ast.Inspect(r.body, func(n ast.Node) bool {
		switch y := n.(type) {
		case *ast.AssignStmt:
			for _, l := range y.Lhs {
				if sel, isSel := ast.Unparen(l).(*ast.SelectorExpr); isSel {
					if lid, isLid := ast.Unparen(sel.X).(*ast.Ident); isLid && r.info.Uses[lid] == o {
						written = true
					}
				}
			}
		case *ast.IncDecStmt:
			if sel, isSel := ast.Unparen(y.X).(*ast.SelectorExpr); isSel {
				if lid, isLid := ast.Unparen(sel.X).(*ast.Ident); isLid && r.info.Uses[lid] == o {
					written = true
				}
			}
		case *ast.UnaryExpr:
			if y.Op == token.AND {
				if lid, isLid := ast.Unparen(y.X).(*ast.Ident); isLid && r.info.Uses[lid] == o {
					written = true
				}
			}
		}
		return !written
	})
	return written
}

// inlineTarget: a statically resolved callee declared in the analysed function's own package, with a body, not
// already being inlined (recursion), and not itself an event of the rule (a classified call is a leaf: the rule
// has said what it means).
func (r *runner) inlineTarget(callee *types.Func, tags []Tag) *core.FuncInfo {
	if r.inline <= 0 || callee == nil || len(tags) > 0 {
		return nil
	}
	fi := r.sp.W.Info(callee)
	if fi == nil || fi.Decl.Body == nil || fi.Pkg != r.pkg || r.sp.inlining[callee] {
		return nil
	}
	if sig, ok := callee.Type().(*types.Signature); ok && sig.Recv() != nil {
		if _, isIface := sig.Recv().Type().Underlying().(*types.Interface); isIface {
			return nil
		}
	}
	if r.sp.NoDescend != nil && r.sp.NoDescend(callee) {
		return nil
	}
	return fi
}

func (r *runner) killVar(o types.Object, st *State, pos token.Pos) {
	if or := st.Def[o]; or != nil {
		if v, ok := st.Pend[or]; ok && v == o {
			delete(st.Pend, or)
			if r.record {
				r.res.Drops = append(r.res.Drops, Drop{Origin: or, Kind: "overwritten", Pos: pos})
			}
		}
	}
	delete(st.Nil, o)
	delete(st.Bool, o)
	delete(st.Eq, o)
	delete(st.Def, o)
	delete(st.DefIdx, o)
	delete(st.FuncVal, o)
	if _, isVar := o.(*types.Var); isVar {
		t := RangedTag(o)
		delete(st.Must, t)
		delete(st.May, t)
		delete(st.Must, "past:"+t)
		delete(st.May, "past:"+t)
		delete(st.Must, "empty:"+t)
		delete(st.May, "empty:"+t)
		delete(st.Must, "nonempty:"+t)
		delete(st.May, "nonempty:"+t)
	}
	delete(st.Lit, o)
	delete(st.Cond, o)
	for k, e := range st.Cond {
		if r.mentionsObj(e, o) {
			delete(st.Cond, k)
		}
	}
}

func (r *runner) mentionsObj(e ast.Expr, o types.Object) bool {
	found := false
	ast.Inspect(e, func(n ast.Node) bool {
		if id, ok := n.(*ast.Ident); ok && r.info.Uses[id] == o {
			found = true
		}
		return !found
	})
	return found
}

// pureTest: a comparison / logical combination over plain variables, constants, nil and literals only (no call,
// no field, no index: nothing that can change without an assignment to one of the named variables)
// outcomeTest: e is built with && / || / ! from comparisons of a call's error result with nil (`f() != nil`): testing
// a flag that holds it later says how those calls — already made — answered, nothing is evaluated again.
func (r *runner) outcomeTest(e ast.Expr) bool {
	switch x := ast.Unparen(e).(type) {
	case *ast.BinaryExpr:
		switch x.Op {
		case token.LAND, token.LOR:
			return r.outcomeTest(x.X) && r.outcomeTest(x.Y)
		case token.EQL, token.NEQ:
			c, ok := ast.Unparen(x.X).(*ast.CallExpr)
			if !ok || !isNilExpr(r.info, ast.Unparen(x.Y)) {
				return false
			}
			t := r.info.TypeOf(c)
			return t != nil && t.String() == "error"
		}
	case *ast.UnaryExpr:
		return x.Op == token.NOT && r.outcomeTest(x.X)
	}
	return false
}

// settleOutcomes: after a flag holding an outcome test was tested, the calls whose answer is now known (ok:T / fail:T
// established) cannot have answered the other way — provided T names that one call site only.
func (r *runner) settleOutcomes(e ast.Expr, st *State) {
	ast.Inspect(e, func(n ast.Node) bool {
		c, ok := n.(*ast.CallExpr)
		if !ok {
			return true
		}
		or := r.origins[c]
		if or == nil {
			return true
		}
		for _, t := range or.Tags {
			if strings.HasPrefix(t, "-") || strings.HasPrefix(t, "#") {
				continue
			}
			sites := 0
			for _, o2 := range r.origins {
				for _, t2 := range o2.Tags {
					if t2 == t {
						sites++
					}
				}
			}
			if sites != 1 {
				continue
			}
			switch {
			case st.Must["ok:"+t] && !st.Must["fail:"+t]:
				delete(st.May, "fail:"+t)
			case st.Must["fail:"+t] && !st.Must["ok:"+t]:
				delete(st.May, "ok:"+t)
			}
		}
		return false
	})
}

func (r *runner) pureTest(e ast.Expr) bool {
	switch x := ast.Unparen(e).(type) {
	case *ast.BinaryExpr:
		switch x.Op {
		case token.EQL, token.NEQ, token.LAND, token.LOR, token.LSS, token.GTR, token.LEQ, token.GEQ:
			return r.pureOperand(x.X) && r.pureOperand(x.Y)
		}
	case *ast.UnaryExpr:
		return x.Op == token.NOT && r.pureOperand(x.X)
	}
	return false
}

func (r *runner) pureOperand(e ast.Expr) bool {
	switch x := ast.Unparen(e).(type) {
	case *ast.Ident:
		switch o := r.info.Uses[x].(type) {
		case *types.Var:
			return !o.IsField() && o.Parent() != nil && o.Parent() != o.Pkg().Scope()
		case *types.Const, *types.Nil:
			return true
		}
		return false
	case *ast.BasicLit:
		return true
	case *ast.SelectorExpr:
		return core.ConstObj(r.info, x) != nil
	case *ast.CallExpr:
		// len(<variable>)
		if id, ok := x.Fun.(*ast.Ident); ok && id.Name == "len" && len(x.Args) == 1 {
			if _, isB := r.info.Uses[id].(*types.Builtin); isB {
				_, isId := ast.Unparen(x.Args[0]).(*ast.Ident)
				return isId && r.pureOperand(x.Args[0])
			}
		}
		return false
	}
	return r.pureTest(e)
}

// bind records `o = e`.
func (r *runner) bind(o types.Object, e ast.Expr, st *State) {
	e = ast.Unparen(e)
	switch x := e.(type) {
	case *ast.Ident:
		if isNilExpr(r.info, x) {
			st.Nil[o] = isNil
			return
		}
		if src := r.info.Uses[x]; src != nil {
			if c, ok := src.(*types.Const); ok {
				st.Eq[o] = c
				if c.Val().Kind() == constant.Bool {
					if constant.BoolVal(c.Val()) {
						st.Bool[o] = isTrue
					} else {
						st.Bool[o] = isFalse
					}
				}
				return
			}
			if v, ok := st.Nil[src]; ok {
				st.Nil[o] = v
			}
			if v, ok := st.Bool[src]; ok {
				st.Bool[o] = v
			}
			if v, ok := st.Eq[src]; ok {
				st.Eq[o] = v
			}
			if v, ok := st.Def[src]; ok {
				st.Def[o] = v
				st.DefIdx[o] = st.DefIdx[src]
			}
		}
	case *ast.SelectorExpr:
		if c := core.ConstObj(r.info, x); c != nil {
			st.Eq[o] = c
		}
		if src := r.fieldObj(x); src != nil {
			if v, ok := st.Nil[src]; ok {
				st.Nil[o] = v
			}
			if v, ok := st.Bool[src]; ok {
				st.Bool[o] = v
			}
			if v, ok := st.Eq[src]; ok {
				st.Eq[o] = v
			}
			if v, ok := st.Def[src]; ok {
				st.Def[o] = v
				st.DefIdx[o] = st.DefIdx[src]
			}
		}
	case *ast.CallExpr:
		if r.sp.AssumeNil != nil && r.sp.AssumeNil(r.pkg, x) {
			st.Nil[o] = isNil
		}
		if or := r.origins[x]; or != nil {
			st.Def[o] = or
			st.DefIdx[o] = 0
			if or.ErrIdx == 0 {
				st.Pend[or] = o
			}
			if r.nonNilCall(x, st) {
				st.Nil[o] = isNonNil
			}
			if or.Inlined && or.Sum != nil && or.Sum.ConstRes != nil {
				st.Eq[o] = or.Sum.ConstRes
			}
		}
	case *ast.UnaryExpr:
		if x.Op == token.AND {
			st.Nil[o] = isNonNil
		}
		if r.pureTest(x) && !r.mentionsObj(x, o) {
			st.Cond[o] = x
		}
	case *ast.BinaryExpr:
		if (r.pureTest(x) || r.outcomeTest(x)) && !r.mentionsObj(x, o) {
			st.Cond[o] = x
		}
	case *ast.CompositeLit, *ast.FuncLit:
		st.Nil[o] = isNonNil
	case *ast.BasicLit:
	}
	if l := r.structLit(e, st); l != nil {
		st.Lit[o] = l
	}
	if _, isFn := o.Type().Underlying().(*types.Signature); isFn {
		if fn, _ := r.funcValueOf(e, st, 0); fn != nil {
			st.FuncVal[o] = fn
		}
	}
}

// nonNilCall: constructors that never return nil.
func (r *runner) nonNilCall(c *ast.CallExpr, st *State) bool {
	if r.sp.AssumeNonNil != nil && r.sp.AssumeNonNil(r.pkg, c) {
		return true
	}
	if or := r.origins[c]; or != nil && or.Sum != nil && or.Sum.AlwaysErr && or.ErrIdx == 0 {
		return true
	}
	f := core.Callee(r.info, c)
	if f == nil || f.Pkg() == nil {
		return false
	}
	// a helper of the analysed package that returns an error built from its arguments (wrap-and-report helpers):
	// with the nil-ness of the arguments known at this call, does every exit return a non-nil error?
	if fi := r.sp.W.Info(f); fi != nil && fi.Pkg == r.pkg && fi.Decl.Body != nil && !r.sp.inlining[f] && fi.Decl.Type.Params != nil {
		if sig, ok := f.Type().(*types.Signature); ok && !sig.Variadic() && sig.Results().Len() == 1 {
			var params []types.Object
			for _, fld := range fi.Decl.Type.Params.List {
				for _, nm := range fld.Names {
					params = append(params, fi.Pkg.TypesInfo.Defs[nm])
				}
			}
			pattern, known := "", false
			for i, a := range c.Args {
				v := r.exprNil(a, st)
				pattern += string(rune('0' + v))
				if v == isNonNil && i < len(params) {
					known = true
				}
			}
			if known {
				if r.sp.ctxErr == nil {
					r.sp.ctxErr = map[string]bool{}
				}
				key := core.FuncKey(f) + "|" + pattern
				if v, ok := r.sp.ctxErr[key]; ok {
					return v
				}
				seed := newState()
				for i, a := range c.Args {
					if i < len(params) && params[i] != nil {
						if v := r.exprNil(a, st); v != 0 {
							seed.Nil[params[i]] = v
						}
					}
				}
				if r.sp.inlining == nil {
					r.sp.inlining = map[*types.Func]bool{}
				}
				r.sp.inlining[f] = true
				savedVisit := r.sp.Visit
				r.sp.Visit = nil
				r.sp.nextInline = 0
				r.sp.nextFn = fi
				sub := r.sp.run(fi.Pkg, fi.Decl.Type, fi.Decl.Body, r.sp.W.CFG(fi), 0, seed)
				r.sp.Visit = savedVisit
				delete(r.sp.inlining, f)
				res := len(sub.Exits) > 0 && sub.Sum != nil && sub.Sum.AlwaysErr
				r.sp.ctxErr[key] = res
				return res
			}
		}
	}
	switch f.Pkg().Path() + "." + f.Name() {
	case "errors.New", "fmt.Errorf", "github.com/pkg/errors.New", "github.com/pkg/errors.Errorf":
		return true
	case "github.com/pkg/errors.Wrap", "github.com/pkg/errors.Wrapf", "github.com/pkg/errors.WithStack", "github.com/pkg/errors.WithMessage", "github.com/pkg/errors.WithMessagef":
		if len(c.Args) > 0 {
			return r.exprNil(c.Args[0], st) == isNonNil
		}
	}
	return false
}

// exprNil classifies an expression as nil / non-nil / unknown (0).
func (r *runner) exprNil(e ast.Expr, st *State) int8 {
	e = ast.Unparen(e)
	switch x := e.(type) {
	case *ast.Ident:
		if isNilExpr(r.info, x) {
			return isNil
		}
		if o := r.info.Uses[x]; o != nil {
			if v, ok := st.Nil[o]; ok {
				return v
			}
			if r.sentinel(o) {
				return isNonNil
			}
		}
	case *ast.SelectorExpr:
		if o := r.info.Uses[x.Sel]; o != nil && r.sentinel(o) {
			return isNonNil
		}
		if v, zero, ok := r.fieldValue(x, st); ok {
			if zero {
				if t := r.info.TypeOf(x); t != nil && nillable(t) {
					return isNil
				}
				return 0
			}
			return r.exprNil(v, st)
		}
		if fo := r.fieldObj(x); fo != nil {
			if v, ok := st.Nil[fo]; ok {
				return v
			}
		}
	case *ast.CallExpr:
		if r.sp.AssumeNil != nil && r.sp.AssumeNil(r.pkg, x) {
			return isNil
		}
		if r.nonNilCall(x, st) {
			return isNonNil
		}
	case *ast.UnaryExpr:
		if x.Op == token.AND {
			return isNonNil
		}
	case *ast.CompositeLit:
		return isNonNil
	}
	return 0
}

func (r *runner) assign(b *cfg.Block, a *ast.AssignStmt, st *State) {
	for _, e := range a.Rhs {
		r.evalExpr(b, e, st)
	}
	if r.sp.AssignTags != nil {
		if tags := r.sp.AssignTags(r.pkg, a); len(tags) > 0 {
			if r.record {
				r.res.Assigns = append(r.res.Assigns, &AssignPoint{Stmt: a, Tags: tags, Before: st.copy(), InLoop: r.inLoop[b], Fn: r.fi})
			}
			for _, t := range tags {
				r.addTag(st, t)
			}
		}
	}
	// non-identifier LHS expressions are evaluated (x.f = ..., m[k] = ...)
	for _, l := range a.Lhs {
		switch x := ast.Unparen(l).(type) {
		case *ast.Ident:
		default:
			r.evalExprLHS(b, x, st)
		}
	}
	lhsObj := func(l ast.Expr) (types.Object, bool) {
		id, ok := ast.Unparen(l).(*ast.Ident)
		if !ok {
			return nil, false
		}
		if id.Name == "_" {
			return nil, true
		}
		if o := r.info.Defs[id]; o != nil {
			return o, false
		}
		return r.info.Uses[id], false
	}
	if len(a.Rhs) == 1 && len(a.Lhs) > 1 {
		// multi-value: call, type assertion, map index, receive
		var or *Origin
		if c, ok := ast.Unparen(a.Rhs[0]).(*ast.CallExpr); ok {
			or = r.origins[c]
		}
		for i, l := range a.Lhs {
			o, blank := lhsObj(l)
			if blank {
				if or != nil && i == or.ErrIdx && r.record {
					r.res.Drops = append(r.res.Drops, Drop{Origin: or, Kind: "blank", Pos: a.Pos()})
				}
				continue
			}
			if o == nil {
				// error stored into a field or element: treat as inspected
				continue
			}
			r.killVar(o, st, a.Pos())
			if or != nil {
				st.Def[o] = or
				st.DefIdx[o] = i
				if i == or.ErrIdx {
					st.Pend[or] = o
				}
			}
		}
		return
	}
	if len(a.Lhs) == len(a.Rhs) {
		for i, l := range a.Lhs {
			o, blank := lhsObj(l)
			if blank {
				if c, ok := ast.Unparen(a.Rhs[i]).(*ast.CallExpr); ok {
					if or := r.origins[c]; or != nil && or.ErrIdx == 0 && r.record {
						r.res.Drops = append(r.res.Drops, Drop{Origin: or, Kind: "blank", Pos: a.Pos()})
					}
				}
				continue
			}
			if o == nil {
				if sel, isSel := ast.Unparen(l).(*ast.SelectorExpr); isSel && a.Tok == token.ASSIGN {
					if fo := r.fieldObj(sel); fo != nil {
						pre := int8(0)
						if nillable(fo.Type()) {
							pre = r.exprNil(a.Rhs[i], st)
						}
						r.killVar(fo, st, a.Pos())
						r.bind(fo, a.Rhs[i], st)
						if pre != 0 {
							if _, known := st.Nil[fo]; !known {
								st.Nil[fo] = pre
							}
						}
					}
				}
				continue
			}
			if a.Tok != token.ASSIGN && a.Tok != token.DEFINE {
				// op-assign: value changes, facts die
				delete(st.Nil, o)
				delete(st.Eq, o)
				continue
			}
			// what the right-hand side is known to be is decided before the old value's facts go (x = wrap(x))
			pre := int8(0)
			if nillable(o.Type()) {
				pre = r.exprNil(a.Rhs[i], st)
			}
			r.killVar(o, st, a.Pos())
			r.bind(o, a.Rhs[i], st)
			if pre != 0 {
				if _, known := st.Nil[o]; !known {
					st.Nil[o] = pre
				}
			}
		}
	}
}

func (r *runner) evalExprLHS(b *cfg.Block, e ast.Expr, st *State) {
	switch x := e.(type) {
	case *ast.SelectorExpr:
		r.evalExpr(b, x.X, st)
	case *ast.IndexExpr:
		r.evalExpr(b, x.X, st)
		r.evalExpr(b, x.Index, st)
	case *ast.StarExpr:
		r.evalExpr(b, x.X, st)
	}
}

func (r *runner) exit(ret *ast.ReturnStmt, pos token.Pos, st *State) {
	// `return helper(..)` with the helper analysed in this context: the function leaves through the helper's exits
	// (each with its own state, results and class), so a rule that reads "which status on which path" sees the same
	// exits whether the decision is written here or in an extracted function
	if ret != nil && len(ret.Results) == 1 && r.record {
		if c, ok := ast.Unparen(ret.Results[0]).(*ast.CallExpr); ok {
			if or := r.origins[c]; or != nil && or.Inlined && len(or.Exits) > 0 {
				same := true
				f, orExits := feasOf(or, st)
				for _, sub := range orExits {
					if len(sub.Results) != r.nres {
						same = false
					}
				}
				if same {
					for k, sub := range orExits {
						if f.mask&(1<<uint(k)) == 0 {
							continue
						}
						ex := &Exit{Stmt: ret, Pos: sub.Pos, St: sub.St.copy(), Results: sub.Results, Class: sub.Class, BoolRes: sub.BoolRes, ErrOrigin: sub.ErrOrigin, OkImplies: sub.OkImplies, FailImpl: sub.FailImpl, Via: or}
						if r.errIdx < 0 {
							ex.Class = ExitNoErr
						}
						// deferred literals of this function run on these exits too
						if r.sp.DeferAtExit && !r.inDefers && len(r.deferOrder) > 0 && r.runDefersAtExit(ret, sub.Results, sub.Pos, ex.St, ex) {
							continue
						}
						r.res.Exits = append(r.res.Exits, ex)
					}
					return
				}
			}
		}
	}
	var results []ast.Expr
	if ret != nil {
		results = ret.Results
	}
	// a field of a variable known to hold a struct literal stands for what the literal gives it
	if len(results) > 0 {
		var sub []ast.Expr
		for i, e := range results {
			sel, ok := ast.Unparen(e).(*ast.SelectorExpr)
			if !ok {
				continue
			}
			id, ok := ast.Unparen(sel.X).(*ast.Ident)
			if !ok {
				continue
			}
			if o := r.info.Uses[id]; o == nil || r.litOf(o, st) == nil {
				continue
			}
			if v, zero, known := r.fieldValue(sel, st); known && !zero {
				if sub == nil {
					sub = append([]ast.Expr{}, results...)
				}
				sub[i] = v
			}
		}
		if sub != nil {
			results = sub
		}
	}
	// `o := helper(..); return o.status, o.err` with the helper analysed in this context and handing back a struct
	// literal on every exit: one exit per way out of the helper that is still possible, with the fields replaced by
	// what that literal gave them
	if r.record && len(results) == r.nres && r.nres > 0 {
		if or, obj := r.structResult(results, st); or != nil {
			f, orExits := feasOf(or, st)
			done := true
			var exits []func()
			for k := range orExits {
				if f.mask&(1<<uint(k)) == 0 {
					continue
				}
				stk := st.copy()
				stk.Feas[or] = feas{mask: 1 << uint(k), n: len(orExits), exits: f.exits, sum: f.sum}
				for t := range orExits[k].St.Must {
					if t != deadTag {
						stk.Must[t] = true
						stk.May[t] = true
					}
				}
				importFacts(stk, orExits[k].St)
				sub := make([]ast.Expr, len(results))
				for i, e := range results {
					sub[i] = e
					if sel, ok := ast.Unparen(e).(*ast.SelectorExpr); ok {
						if id, ok := ast.Unparen(sel.X).(*ast.Ident); ok && r.info.Uses[id] == obj {
							v, zero, known := r.fieldValue(sel, stk)
							if !known {
								done = false
							} else if !zero {
								sub[i] = v
							}
						}
					}
				}
				exits = append(exits, func() { r.exitWith(ret, sub, pos, stk, or) })
			}
			if done && len(exits) > 0 {
				for _, f := range exits {
					f()
				}
				return
			}
		}
	}
	r.exitWith(ret, results, pos, st, nil)
}

// structResult: some returned expression is a field of a variable that holds a result of a callee analysed in context
func (r *runner) structResult(results []ast.Expr, st *State) (*Origin, types.Object) {
	for _, e := range results {
		sel, ok := ast.Unparen(e).(*ast.SelectorExpr)
		if !ok {
			continue
		}
		id, ok := ast.Unparen(sel.X).(*ast.Ident)
		if !ok {
			continue
		}
		o := r.info.Uses[id]
		if o == nil {
			continue
		}
		if fld, isVar := r.info.Uses[sel.Sel].(*types.Var); !isVar || !fld.IsField() {
			continue
		}
		if or := st.Def[o]; or != nil && or.Inlined && len(or.Exits) > 0 && len(or.Exits) <= 64 {
			return or, o
		}
	}
	return nil, nil
}

// importFacts: what is known about the callee's variables on its exit stays known in the caller (their objects are
// distinct from the caller's)
func importFacts(st, ex *State) {
	for k, v := range ex.Nil {
		if _, has := st.Nil[k]; !has {
			st.Nil[k] = v
		}
	}
	for k, v := range ex.Bool {
		if _, has := st.Bool[k]; !has {
			st.Bool[k] = v
		}
	}
	for k, v := range ex.Eq {
		if _, has := st.Eq[k]; !has {
			st.Eq[k] = v
		}
	}
	for k, v := range ex.Def {
		if _, has := st.Def[k]; !has {
			st.Def[k] = v
			st.DefIdx[k] = ex.DefIdx[k]
		}
	}
	for k, v := range ex.Cond {
		if _, has := st.Cond[k]; !has {
			st.Cond[k] = v
		}
	}
	for k, v := range ex.Lit {
		if _, has := st.Lit[k]; !has {
			st.Lit[k] = v
		}
	}
	for k, v := range ex.FuncVal {
		if _, has := st.FuncVal[k]; !has {
			st.FuncVal[k] = v
		}
	}
}

func (r *runner) exitWith(ret *ast.ReturnStmt, results []ast.Expr, pos token.Pos, st *State, via *Origin) {
	ex := &Exit{Stmt: ret, Pos: pos, St: st.copy(), OkImplies: map[Tag]bool{}, FailImpl: map[Tag]bool{}, Via: via}
	if len(results) > 0 {
		ex.Results = results
	} else if r.nres > 0 {
		// naked return: the named results
		for _, o := range r.results {
			if o == nil {
				ex.Results = nil
				break
			}
			id := ast.NewIdent(o.Name())
			ex.Results = append(ex.Results, id)
		}
	}
	switch {
	case r.errIdx < 0:
		ex.Class = ExitNoErr
	case len(results) == 1 && r.nres > 1:
		// return f() with a multi-value call
		ex.Class = ExitEither
		if c, ok := ast.Unparen(results[0]).(*ast.CallExpr); ok {
			ex.ErrOrigin = r.origins[c]
		}
	case len(results) > r.errIdx:
		e := ast.Unparen(results[r.errIdx])
		switch r.exprNil(e, st) {
		case isNil:
			ex.Class = ExitOK
		case isNonNil:
			ex.Class = ExitErr
		default:
			ex.Class = ExitEither
		}
		switch x := e.(type) {
		case *ast.CallExpr:
			if or := r.origins[x]; or != nil && or.ErrIdx == 0 {
				ex.ErrOrigin = or
			}
		case *ast.Ident:
			if o := r.info.Uses[x]; o != nil {
				if or := st.Def[o]; or != nil && st.DefIdx[o] == or.ErrIdx {
					ex.ErrOrigin = or
				}
			}
		}
	default:
		// naked return (or fall off the end) with named results
		ex.Class = ExitEither
		if r.errIdx < len(r.results) && r.results[r.errIdx] != nil {
			o := r.results[r.errIdx]
			switch st.Nil[o] {
			case isNil:
				ex.Class = ExitOK
			case isNonNil:
				ex.Class = ExitErr
			}
			if or := st.Def[o]; or != nil && st.DefIdx[o] == or.ErrIdx {
				ex.ErrOrigin = or
			}
		}
	}
	if or := ex.ErrOrigin; or != nil && ex.Class == ExitEither {
		if f, exits := feasOf(or, st); f.mask != 0 && or.Inlined {
			// the returned error is that of a callee analysed in context: only its exits still consistent with what
			// was learnt about its other results count
			anyOK, anyErr := false, false
			for i, sub := range exits {
				if f.mask&(1<<uint(i)) != 0 {
					if sub.Class != ExitErr {
						anyOK = true
					}
					if sub.Class != ExitOK {
						anyErr = true
					}
				}
			}
			switch {
			case anyOK && !anyErr:
				ex.Class = ExitOK
			case anyErr && !anyOK:
				ex.Class = ExitErr
			}
			for t := range r.feasMust(exits, f, func(sub *Exit) bool { return sub.Class != ExitErr }) {
				ex.OkImplies[t] = true
			}
			for t := range r.feasMust(exits, f, func(sub *Exit) bool { return sub.Class != ExitOK }) {
				ex.FailImpl[t] = true
			}
		}
		for _, t := range or.Tags {
			if !strings.HasPrefix(t, "-") {
				ex.OkImplies["ok:"+t] = true
				ex.FailImpl["fail:"+t] = true
			}
		}
		if sum := sumOf(or, st); sum != nil {
			for t := range sum.MustOk {
				ex.OkImplies[t] = true
			}
			for t := range sum.MustFail {
				ex.FailImpl[t] = true
			}
		}
	}
	if r.boolIdx >= 0 && r.boolIdx < len(ex.Results) && (len(results) != 1 || r.nres == 1) {
		e := ast.Unparen(ex.Results[r.boolIdx])
		if v := core.ConstVal(r.info, e); v != nil && v.Kind() == constant.Bool {
			if constant.BoolVal(v) {
				ex.BoolRes = isTrue
			} else {
				ex.BoolRes = isFalse
			}
		} else if len(results) > 0 {
			if known, val := r.condValue(e, st); known {
				if val {
					ex.BoolRes = isTrue
				} else {
					ex.BoolRes = isFalse
				}
			}
		} else if o := r.results[r.boolIdx]; o != nil {
			ex.BoolRes = st.Bool[o]
		}
	}
	if !r.record {
		return
	}
	if r.sp.DeferAtExit && !r.inDefers && len(r.deferOrder) > 0 && r.runDefersAtExit(ret, results, pos, st, ex) {
		return
	}
	if ex.Class == ExitOK {
		for or := range st.Unrep {
			r.res.Swallows = append(r.res.Swallows, Swallow{Origin: or, Exit: ex})
		}
	}
	for or, v := range st.Pend {
		used := false
		for _, e := range ex.Results {
			if id, ok := ast.Unparen(e).(*ast.Ident); ok && (r.info.Uses[id] == v || len(results) == 0 && id.Name == v.Name()) {
				used = true
			}
		}
		if !used {
			r.res.Drops = append(r.res.Drops, Drop{Origin: or, Kind: "unchecked-at-exit", Pos: pos})
		}
	}
	r.res.Exits = append(r.res.Exits, ex)
}

func deferLitTag(lit *ast.FuncLit) Tag { return "deferlit:" + strconv.Itoa(int(lit.Pos())) }

// useFreeVarsKeep: registering a deferred literal reads nothing yet (its body runs at exit)
func (r *runner) useFreeVarsKeep(lit *ast.FuncLit, st *State) {}

// runDefersAtExit runs the deferred literals registered on every path to this exit, last registered first, from the
// exit's state with the returned values bound to the named results; the exits of the last closure become the
// function's exits (class taken from what is known about the named error result there). Reports false when no
// literal is registered on this path.
func (r *runner) runDefersAtExit(ret *ast.ReturnStmt, results []ast.Expr, pos token.Pos, st *State, ex0 *Exit) bool {
	var lits []*ast.FuncLit
	for i := len(r.deferOrder) - 1; i >= 0; i-- {
		t := r.deferOrder[i]
		if !st.Must[t] {
			continue
		}
		if l := r.deferLits[t]; l != nil {
			lits = append(lits, l)
			continue
		}
		// the function a call handed back: the literal the one exit of that call still possible returned
		if or := r.deferCalls[t]; or != nil && len(or.Exits) <= 64 {
			f, orExits := feasOf(or, st)
			var one *ast.FuncLit
			n := 0
			for k, ex := range orExits {
				if f.mask&(1<<uint(k)) == 0 {
					continue
				}
				n++
				if len(ex.Results) >= 1 {
					one, _ = ast.Unparen(ex.Results[0]).(*ast.FuncLit)
				}
			}
			if n == 1 && one != nil {
				lits = append(lits, one)
			}
		}
	}
	if len(lits) == 0 {
		return false
	}
	// all results must be named for the closures to see (and change) them
	named := len(r.results) == r.nres
	for _, o := range r.results {
		if o == nil {
			named = false
		}
	}
	start := st.copy()
	if named && len(results) == r.nres && ret != nil && len(ret.Results) > 0 {
		for i, o := range r.results {
			if id, ok := ast.Unparen(results[i]).(*ast.Ident); ok && r.info.Uses[id] == o {
				continue
			}
			r.killVar(o, start, pos)
			r.bind(o, results[i], start)
		}
	}
	if named && r.errIdx >= 0 {
		switch ex0.Class {
		case ExitOK:
			start.Nil[r.results[r.errIdx]] = isNil
		case ExitErr:
			start.Nil[r.results[r.errIdx]] = isNonNil
		}
	}
	states := []*State{start}
	r.inDefers = true
	for _, lit := range lits {
		var next []*State
		for _, s0 := range states {
			seed := s0.copy()
			saved := r.sp.nextInline
			r.sp.nextInline = r.inline
			r.sp.nextFn = r.fi
			sub := r.sp.run(r.pkg, lit.Type, lit.Body, r.sp.W.LitCFG(r.pkg, lit), r.depth, seed)
			r.sp.nextInline = saved
			r.res.Calls = append(r.res.Calls, sub.Calls...)
			r.res.Assigns = append(r.res.Assigns, sub.Assigns...)
			r.res.Drops = append(r.res.Drops, sub.Drops...)
			for _, sx := range sub.Exits {
				next = append(next, sx.St)
			}
		}
		states = next
	}
	r.inDefers = false
	for _, fs := range states {
		ex := &Exit{Stmt: ret, Pos: pos, St: fs, Results: ex0.Results, Class: ex0.Class, BoolRes: ex0.BoolRes, ErrOrigin: ex0.ErrOrigin, OkImplies: ex0.OkImplies, FailImpl: ex0.FailImpl, Via: ex0.Via, PreClass: ex0.Class}
		if named && r.errIdx >= 0 {
			o := r.results[r.errIdx]
			switch fs.Nil[o] {
			case isNil:
				ex.Class = ExitOK
			case isNonNil:
				ex.Class = ExitErr
			default:
				ex.Class = ExitEither
			}
			var rs []ast.Expr
			for _, ro := range r.results {
				rs = append(rs, ast.NewIdent(ro.Name()))
			}
			ex.Results = rs
			if ex.Class != ExitEither {
				ex.ErrOrigin, ex.OkImplies, ex.FailImpl = nil, map[Tag]bool{}, map[Tag]bool{}
			}
		}
		if ex.Class == ExitOK {
			for or := range fs.Unrep {
				r.res.Swallows = append(r.res.Swallows, Swallow{Origin: or, Exit: ex})
			}
		}
		r.res.Exits = append(r.res.Exits, ex)
	}
	return true
}

func (r *runner) summarise() *Summary {
	s := &Summary{May: map[Tag]bool{}}
	s.AlwaysErr = len(r.res.Exits) > 0
	for _, ex := range r.res.Exits {
		if ex.Class != ExitErr {
			s.AlwaysErr = false
		}
	}
	s.MayOk, s.MayFail = map[Tag]bool{}, map[Tag]bool{}
	for _, ex := range r.res.Exits {
		for t := range ex.St.May {
			s.May[t] = true
			if ex.Class != ExitErr {
				s.MayOk[t] = true
			}
			if ex.Class == ExitErr || ex.Class == ExitEither {
				s.MayFail[t] = true
			}
		}
		if ex.Class == ExitEither {
			for t := range ex.OkImplies {
				s.MayOk[t] = true
			}
			for t := range ex.FailImpl {
				s.MayFail[t] = true
			}
		}
		all := cp(ex.St.Must)
		if s.MustAll == nil {
			s.MustAll = all
		} else {
			s.MustAll = inter(s.MustAll, all)
		}
		if ex.Class != ExitErr {
			m := cp(ex.St.Must)
			for t := range ex.OkImplies {
				m[t] = true
			}
			if !s.HasOk {
				s.MustOk, s.HasOk = m, true
			} else {
				s.MustOk = inter(s.MustOk, m)
			}
		}
		if ex.Class == ExitErr || ex.Class == ExitEither {
			m := cp(ex.St.Must)
			for t := range ex.FailImpl {
				m[t] = true
			}
			if !s.HasFail {
				s.MustFail, s.HasFail = m, true
			} else {
				s.MustFail = inter(s.MustFail, m)
			}
		}
	}
	for i, ex := range r.res.Exits {
		var c *types.Const
		if len(ex.Results) > 0 && (ex.Stmt == nil || len(ex.Stmt.Results) == r.nres) {
			c = ex.ResultConst(r.info, 0)
			if c == nil {
				if id, ok := ast.Unparen(ex.Results[0]).(*ast.Ident); ok && ex.Stmt != nil {
					if o := r.info.Uses[id]; o != nil {
						c = ex.St.Eq[o]
					}
				}
			}
		}
		if i == 0 {
			s.ConstRes = c
		} else if s.ConstRes != c {
			s.ConstRes = nil
		}
	}
	s.BoolIdx = -1
	if r.boolIdx >= 0 {
		s.BoolIdx = r.boolIdx
		hasT, hasF := false, false
		for _, ex := range r.res.Exits {
			if ex.BoolRes != isFalse {
				if !hasT {
					s.MustTrue, hasT = cp(ex.St.Must), true
				} else {
					s.MustTrue = inter(s.MustTrue, ex.St.Must)
				}
			}
			if ex.BoolRes != isTrue {
				if !hasF {
					s.MustFalse, hasF = cp(ex.St.Must), true
				} else {
					s.MustFalse = inter(s.MustFalse, ex.St.Must)
				}
			}
		}
	}
	if s.MustAll == nil {
		s.MustAll = map[Tag]bool{}
	}
	if s.MustOk == nil {
		s.MustOk = map[Tag]bool{}
	}
	if s.MustFail == nil {
		s.MustFail = map[Tag]bool{}
	}
	// events of the may-kind also include derived tags of the must sets
	for t := range s.MustAll {
		s.May[t] = true
	}
	return s
}

// Sorted helpers for reports.
func SortedTags(m map[Tag]bool) []string {
	var out []string
	for k := range m {
		out = append(out, k)
	}
	sort.Strings(out)
	return out
}

// AnalyzeLitSeed analyses a function literal with facts about captured variables seeded by seed.
func (sp *Spec) AnalyzeLitSeed(pkg *packages.Package, lit *ast.FuncLit, seed func(*State)) *Result {
	st := newState()
	if seed != nil {
		seed(st)
	}
	sp.armInline()
	return sp.run(pkg, lit.Type, lit.Body, sp.W.LitCFG(pkg, lit), sp.Depth, st)
}

// AnalyzeSeed runs the engine over f from an entry state prepared by seed (facts about parameters).
func (sp *Spec) AnalyzeSeed(f *core.FuncInfo, seed func(*State)) *Result {
	st := newState()
	if seed != nil {
		seed(st)
	}
	sp.armInline()
	sp.nextFn = f
	return sp.run(f.Pkg, f.Decl.Type, f.Decl.Body, sp.W.CFG(f), sp.Depth, st)
}

// SetBool seeds a boolean fact.
// SetTag seeds an entry fact: the tag holds on entry (a helper that is only ever called with a lock held, ...)
func (s *State) SetTag(t Tag) {
	s.Must[t] = true
	s.May[t] = true
}

func (s *State) SetBool(o types.Object, v bool) {
	if v {
		s.Bool[o] = isTrue
	} else {
		s.Bool[o] = isFalse
	}
}

// SetNil seeds a nil-ness fact.
func (s *State) SetNil(o types.Object, isnil bool) {
	if isnil {
		s.Nil[o] = isNil
	} else {
		s.Nil[o] = isNonNil
	}
}

// IsNil / IsNonNil report established facts.
func (s *State) IsNil(o types.Object) bool    { return s.Nil[o] == isNil }
func (s *State) IsNonNil(o types.Object) bool { return s.Nil[o] == isNonNil }

// IsTrue / IsFalse report boolean facts.
func (s *State) IsTrue(o types.Object) bool  { return s.Bool[o] == isTrue }
func (s *State) IsFalse(o types.Object) bool { return s.Bool[o] == isFalse }

// condValue evaluates a condition under the current facts (nil-ness and truth of variables only).
func (r *runner) condValue(cond ast.Expr, st *State) (known, val bool) {
	cond = ast.Unparen(cond)
	if r.sp.AssumeCond != nil {
		if k, v := r.sp.AssumeCond(r.pkg, cond); k {
			return true, v
		}
	}
	if v := core.ConstVal(r.info, cond); v != nil && v.Kind() == constant.Bool {
		return true, constant.BoolVal(v)
	}
	switch x := cond.(type) {
	case *ast.UnaryExpr:
		if x.Op == token.NOT {
			k, v := r.condValue(x.X, st)
			return k, !v
		}
	case *ast.Ident:
		if o := r.info.Uses[x]; o != nil {
			switch st.Bool[o] {
			case isTrue:
				return true, true
			case isFalse:
				return true, false
			}
			if ce := st.Cond[o]; ce != nil {
				return r.condValue(ce, st)
			}
		}
	case *ast.SelectorExpr:
		if e, zero, ok := r.fieldValue(x, st); ok {
			if zero {
				return true, false
			}
			return r.condValue(e, st)
		}
		if fo := r.fieldObj(x); fo != nil {
			switch st.Bool[fo] {
			case isTrue:
				return true, true
			case isFalse:
				return true, false
			}
		}
	case *ast.BinaryExpr:
		if x.Op == token.LAND || x.Op == token.LOR {
			ka, va := r.condValue(x.X, st)
			kb, vb := r.condValue(x.Y, st)
			if x.Op == token.LAND {
				if (ka && !va) || (kb && !vb) {
					return true, false
				}
				if ka && va && kb && vb {
					return true, true
				}
			} else {
				if (ka && va) || (kb && vb) {
					return true, true
				}
				if ka && !va && kb && !vb {
					return true, false
				}
			}
			return false, false
		}
		if x.Op != token.EQL && x.Op != token.NEQ {
			return false, false
		}
		a, b := ast.Unparen(x.X), ast.Unparen(x.Y)
		var other ast.Expr
		if isNilExpr(r.info, b) {
			other = a
		} else if isNilExpr(r.info, a) {
			other = b
		} else {
			return false, false
		}
		var o types.Object
		switch y := other.(type) {
		case *ast.Ident:
			o = r.info.Uses[y]
		case *ast.SelectorExpr:
			o = r.fieldObj(y)
		}
		if o == nil {
			return false, false
		}
		switch st.Nil[o] {
		case isNil:
			return true, x.Op == token.EQL
		case isNonNil:
			return true, x.Op == token.NEQ
		}
	}
	return false, false
}

// foreignIface: a call through an interface declared outside the repository (database/sql/driver,
// getty, ...) dispatches to an implementation the repository does not choose (the wrapped driver);
// repo types that happen to implement it are not assumed to be the target.
func (r *runner) foreignIface(f *types.Func) bool {
	if !core.IsIfaceMethod(f) {
		return false
	}
	return f.Pkg() == nil || !strings.HasPrefix(f.Pkg().Path(), core.Module)
}

// ExprNil classifies an expression under the state's facts: 1 = nil, 2 = non-nil, 0 = unknown.
func (s *State) ExprNil(info *types.Info, e ast.Expr) int8 {
	r := &runner{info: info, sp: &Spec{}}
	return r.exprNil(e, s)
}

// valueSpec handles `var a, b T = x, y` (go/cfg emits the ValueSpec itself as a node).
func (r *runner) valueSpec(b *cfg.Block, vs *ast.ValueSpec, st *State) {
	for _, v := range vs.Values {
		r.evalExpr(b, v, st)
	}
	for i, nm := range vs.Names {
		o := r.info.Defs[nm]
		if o == nil {
			continue
		}
		if len(vs.Values) == 0 {
			if nillable(o.Type()) {
				st.Nil[o] = isNil
			} else if bt, ok := o.Type().Underlying().(*types.Basic); ok && bt.Kind() == types.Bool {
				st.Bool[o] = isFalse
			}
		} else if len(vs.Values) == len(vs.Names) {
			r.bind(o, vs.Values[i], st)
		}
	}
}

var sentinelCache = map[types.Object]bool{}

// sentinel: a package-level error variable of the repository initialised by errors.New / fmt.Errorf
// and never reassigned is a non-nil sentinel.
func (r *runner) sentinel(o types.Object) bool {
	v, ok := o.(*types.Var)
	if !ok || v.Pkg() == nil || v.Parent() != v.Pkg().Scope() || r.sp == nil || r.sp.W == nil {
		return false
	}
	if res, ok := sentinelCache[o]; ok {
		return res
	}
	res := false
	if p := r.sp.W.ByPath[v.Pkg().Path()]; p != nil {
		for _, f := range p.Syntax {
			for _, d := range f.Decls {
				gd, ok := d.(*ast.GenDecl)
				if !ok {
					continue
				}
				for _, spc := range gd.Specs {
					vs, ok := spc.(*ast.ValueSpec)
					if !ok {
						continue
					}
					for i, nm := range vs.Names {
						if p.TypesInfo.Defs[nm] == o && i < len(vs.Values) {
							if c, ok := ast.Unparen(vs.Values[i]).(*ast.CallExpr); ok {
								if f := core.Callee(p.TypesInfo, c); f != nil && f.Pkg() != nil {
									switch f.Pkg().Path() + "." + f.Name() {
									case "errors.New", "fmt.Errorf", "github.com/pkg/errors.New", "github.com/pkg/errors.Errorf":
										res = true
									}
								}
							}
						}
					}
				}
			}
		}
		// reassigned anywhere in its package?
		if res {
			for _, f := range p.Syntax {
				ast.Inspect(f, func(n ast.Node) bool {
					if as, ok := n.(*ast.AssignStmt); ok {
						for _, l := range as.Lhs {
							if core.ObjOf(p.TypesInfo, l) == o {
								res = false
							}
						}
					}
					return res
				})
			}
		}
	}
	sentinelCache[o] = res
	return res
}

// MayTags returns the sorted may-set.
func (s *State) MayTags() []string {
	var out []string
	for k := range s.May {
		out = append(out, k)
	}
	sort.Strings(out)
	return out
}
