package rules

import (
	"go/ast"
	"go/token"
	"go/types"
	"strings"

	"seatalint/internal/core"
)

// c18Case: identifier case. A column name taken from the parsed statement in folded form (CIStr.L, strings.ToLower /
// ToUpper) is compared with, or looked up among, names taken from the table metadata only when those are folded the
// same way. Classes: "lower", "upper", "orig" (metadata spelling), "" (unknown: not judged).
func c18Case(r *core.Run, live []*types.Named) {
	w := r.W
	var fns []*core.FuncInfo
	for _, t := range live {
		if m := methodInfo(w, t, "ExecContext"); m != nil {
			fns = append(fns, m)
		}
	}
	fns = dedupFns(append(fns, reachFrom(w, fns, pExecAT)...))
	classOfOrigin := func(o string) string {
		switch {
		case strings.Contains(o, "strings.ToLower("):
			return "lower"
		case strings.Contains(o, "strings.ToUpper("):
			return "upper"
		case strings.HasSuffix(o, ".L") || strings.Contains(o, ".L)") || strings.Contains(o, ".L;") || strings.Contains(o, ".L,"):
			return "lower"
		case strings.Contains(o, "GetPrimaryKeyMap(") || strings.Contains(o, "GetPrimaryKeyOnlyName(") || strings.Contains(o, ".ColumnNames") || strings.Contains(o, ".ColumnName") || strings.Contains(o, ".Indexs") || strings.Contains(o, ".Columns"):
			return "orig"
		}
		return ""
	}
	for _, f := range fns {
		if w.IsTestFile(f.Decl.Pos()) || f.Decl.Body == nil {
			continue
		}
		info := f.Pkg.TypesInfo
		// class of local maps from the keys stored into them
		mapClass := map[types.Object]string{}
		ast.Inspect(f.Decl.Body, func(n ast.Node) bool {
			if as, ok := n.(*ast.AssignStmt); ok {
				for _, l := range as.Lhs {
					if ix, ok := ast.Unparen(l).(*ast.IndexExpr); ok {
						if mo := core.ObjOf(info, ix.X); mo != nil {
							if c := classOfOrigin(origin(f, ix.Index, 4)); c != "" {
								mapClass[mo] = c
							}
						}
					}
				}
			}
			return true
		})
		isString := func(e ast.Expr) bool {
			t := info.TypeOf(e)
			if t == nil {
				return false
			}
			b, ok := t.Underlying().(*types.Basic)
			return ok && b.Info()&types.IsString != 0
		}
		report := func(pos token.Pos, a, b, what string) {
			r.Sites++
			r.Fn(f)
			key := core.ShortKey(f.Obj) + " : " + what
			r.Check(a == b, "C18.case", key, w.Pos(pos), "both sides in "+a+" form", "a name in "+a+" form meets names in "+b+" form ("+what+"): for a column whose name is spelled with an upper-case letter the test never matches, so the guard it implements (e.g. 'the statement must not assign the primary key') silently lets the statement through")
		}
		ast.Inspect(f.Decl.Body, func(n ast.Node) bool {
			switch x := n.(type) {
			case *ast.BinaryExpr:
				if (x.Op != token.EQL && x.Op != token.NEQ) || !isString(x.X) || !isString(x.Y) {
					return true
				}
				a, b := classOfOrigin(origin(f, x.X, 4)), classOfOrigin(origin(f, x.Y, 4))
				if a != "" && b != "" {
					report(x.Pos(), a, b, core.ExprString(x))
				}
			case *ast.IndexExpr:
				mt := info.TypeOf(x.X)
				if mt == nil {
					return true
				}
				if _, ok := mt.Underlying().(*types.Map); !ok || !isString(x.Index) {
					return true
				}
				mc := ""
				if mo := core.ObjOf(info, x.X); mo != nil {
					mc = mapClass[mo]
				}
				if mc == "" {
					mc = classOfOrigin(origin(f, x.X, 4))
				}
				kc := classOfOrigin(origin(f, x.Index, 4))
				if mc != "" && kc != "" {
					report(x.Pos(), kc, mc, core.ExprString(x))
				}
			}
			return true
		})
	}
}
