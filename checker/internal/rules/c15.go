package rules

import (
	"go/ast"
	"go/token"
	"go/types"
	"strings"

	"golang.org/x/tools/go/packages"

	"seatalint/internal/core"
	"seatalint/internal/flow"
)

func init() { register("C15", checkC15) }

const pProcClient = core.Module + "/pkg/remoting/processor/client"

func checkC15(r *core.Run) {
	r.Explain = "Decided statically: (C15.route) the branch commit / rollback processors are registered under the type code of the request type whose body they assert, hand the request's BranchType to GetResourceManager, and reach only BranchCommit resp. BranchRollback of the manager; (C15.echo) the response literal's Xid and BranchId come from the request, BranchStatus from the manager's result and the reply id from the incoming message's ID; (C15.once) exactly one response is sent per request on the path where the manager returned a status, none in a loop, none on its error path; (C15.truth) ResultCodeSuccess only on the nil-error path of the manager call, and for every registered manager (AT, TCC, XA) a success status constant is returned only with a nil error on a path where the phase-two action is known to have succeeded; (C15.state) the processors write no package-level mutable state (requests cannot influence each other's replies). (C15.once, also) a nil return has called the manager and sent the reply; (C15.route, also) GetResourceManager reads its registry under the requested branch type only; NOT decided: concurrency of deliveries on one session (schedule)."
	r.Explain += " Round 8: (C15.once, also) the listener's OnMessage does not branch on the arrival session before it hands a message to its processor."
	r.Trusted = []string{"go/types, go/cfg", "CHA over repository types"}
	w := r.W
	c15Dispatch(r)
	type procSpec struct{ reqType, inbound, other, okStatus string }
	specs := map[string]procSpec{
		"BranchCommitRequest":   {"BranchCommitRequest", "BranchCommit", "BranchRollback", "BranchStatusPhasetwoCommitted"},
		"BranchRollbackRequest": {"BranchRollbackRequest", "BranchRollback", "BranchCommit", "BranchStatusPhasetwoRollbacked"},
	}
	// registrations: RegisterProcessor(typeCode, processorValue)
	regs := map[*types.Named][]string{}
	for _, f := range w.SortedFuncs() {
		if f.Pkg.PkgPath != pProcClient || w.IsTestFile(f.Decl.Pos()) {
			continue
		}
		for _, cs := range w.Calls(f) {
			if cs.Static == nil || cs.Static.Name() != "RegisterProcessor" || len(cs.Call.Args) != 2 {
				continue
			}
			c := core.ConstObj(f.Pkg.TypesInfo, cs.Call.Args[0])
			t := f.Pkg.TypesInfo.TypeOf(cs.Call.Args[1])
			if p, ok := t.(*types.Pointer); ok {
				t = p.Elem()
			}
			if nt, ok := t.(*types.Named); ok && c != nil {
				regs[nt] = append(regs[nt], c.Name())
			}
		}
	}
	found := 0
	for _, f := range w.SortedFuncs() {
		if f.Pkg.PkgPath != pProcClient || w.IsTestFile(f.Decl.Pos()) || f.Obj.Name() != "Process" {
			continue
		}
		info := f.Pkg.TypesInfo
		// asserted body type
		var body *types.Named
		var reqVar types.Object
		ast.Inspect(f.Decl.Body, func(n ast.Node) bool {
			if as, ok := n.(*ast.AssignStmt); ok && len(as.Rhs) == 1 {
				if ta, ok := ast.Unparen(as.Rhs[0]).(*ast.TypeAssertExpr); ok && ta.Type != nil {
					if nt, ok := info.TypeOf(ta.Type).(*types.Named); ok && strings.HasSuffix(core.ExprString(ta.X), ".Body") {
						body = nt
						reqVar = core.ObjOf(info, as.Lhs[0])
					}
				}
			}
			return true
		})
		if body == nil {
			continue
		}
		ps, ok := specs[body.Obj().Name()]
		if !ok {
			continue
		}
		found++
		r.Fn(f)
		key := core.ShortKey(f.Obj)
		recv := core.RecvNamed(f.Obj)
		// registration code == body's own type code
		tc := retConst(methodInfo(w, body, "GetTypeCode"))
		r.Sites++
		okReg := tc != nil && len(regs[recv]) == 1 && regs[recv][0] == tc.Name()
		r.Check(okReg, "C15.route", key+" registered under the type code of "+body.Obj().Name(), w.Pos(f.Decl.Pos()), constName(tc), "the processor asserts "+body.Obj().Name()+" (type code "+constName(tc)+") but is registered under ["+strings.Join(regs[recv], ",")+"]: such requests are type-asserted to the wrong type (panic) or never routed")
		var rpcParam types.Object
		for _, p := range paramObjs(f) {
			if strings.HasSuffix(p.Type().String(), "message.RpcMessage") {
				rpcParam = p
			}
		}
		sp := &flow.Spec{W: w, Depth: 0, Classify: func(pkg *packages.Package, call *ast.CallExpr, callee *types.Func) []flow.Tag {
			switch {
			case isIfaceOrImpl(w, callee, "pkg/rm", "ResourceManagerInbound", ps.inbound):
				return []flow.Tag{"action"}
			case isIfaceOrImpl(w, callee, "pkg/rm", "ResourceManagerInbound", ps.other):
				return []flow.Tag{"wrongaction"}
			case callee != nil && callee.Name() == "SendAsyncResponse":
				return []flow.Tag{"respond"}
			case callee != nil && callee.Name() == "GetResourceManager":
				return []flow.Tag{"getrm"}
			}
			return nil
		}}
		res := sp.Analyze(f)
		nAct, nResp := 0, 0
		for _, cp := range res.Calls {
			switch {
			case inSet("wrongaction", cp.Tags...):
				r.Bad("C15.route", key+" -> "+ps.other, w.Pos(cp.Call.Pos()), "the "+body.Obj().Name()+" processor calls "+ps.other)
			case inSet("getrm", cp.Tags...):
				r.Sites++
				a := ""
				if len(cp.Call.Args) == 1 {
					a = originVia(f, cp.Fn, cp.Call.Args[0], 3)
				}
				r.Check(strings.HasSuffix(a, ".BranchType") && strings.Contains(a, ".Body.(type)"), "C15.route", key+" -> GetResourceManager(request.BranchType)", w.Pos(cp.Call.Pos()), a, "the resource manager is chosen by "+a+", not by the request's branch type")
			case inSet("action", cp.Tags...):
				nAct++
				c15ActionOrigin = originVia(f, cp.Fn, cp.Call, 4)
				r.Sites++
				r.Check(!cp.InLoop && !cp.Before.Maybe("action"), "C15.once", key+" -> "+ps.inbound+" once", w.Pos(cp.Call.Pos()), "one manager call per request", "the manager is called more than once per request")
				// the BranchResource handed over echoes the request
				if len(cp.Call.Args) >= 2 {
					at := cp.Fn
					if at == nil {
						at = f
					}
					// (with a method expression the receiver comes first)
					resArg := cp.Call.Args[len(cp.Call.Args)-1]
					cl := findCompositeLit(at, resArg)
					if cl == nil && at != f {
						// the resource is a parameter of the helper: the literal the processor passes for it
						if id, ok := ast.Unparen(resArg).(*ast.Ident); ok {
							for pi, p := range paramObjs(at) {
								if at.Pkg.TypesInfo.Uses[id] != p {
									continue
								}
								ast.Inspect(f.Decl.Body, func(m ast.Node) bool {
									if c, ok := m.(*ast.CallExpr); ok && sameFunc(core.Callee(info, c), at.Obj) && pi < len(c.Args) {
										if l := findCompositeLit(f, c.Args[pi]); l != nil {
											cl, at = l, f
										}
									}
									return true
								})
							}
						}
					}
					if cl != nil {
						for fld, want := range map[string]string{"Xid": "Xid", "BranchId": "BranchId", "ResourceId": "ResourceId", "ApplicationData": "ApplicationData"} {
							o := originVia(f, at, litField(cl, fld), 4)
							r.Sites++
							r.Check(strings.HasSuffix(o, ".Body.(type)."+want), "C15.echo", key+" BranchResource."+fld+" from the request", w.Pos(cl.Pos()), o, "BranchResource."+fld+" derives from "+o+", not from the request's "+want)
						}
					}
				}
			case inSet("respond", cp.Tags...):
				nResp++
				r.Sites++
				r.Check(!cp.InLoop && !cp.Before.Maybe("respond") && cp.Before.Has("ok:action"), "C15.once", key+" -> SendAsyncResponse once, after the manager returned a status", w.Pos(cp.Call.Pos()), "one response, only on the manager's nil-error path", "a response can be sent twice, in a loop, or without the manager having returned a status")
				if len(cp.Call.Args) == 2 {
					id := originVia(f, cp.Fn, cp.Call.Args[0], 3)
					r.Check(rpcParam != nil && id == "param:"+rpcParam.Name()+".ID", "C15.echo", key+" reply id is the request's message id", w.Pos(cp.Call.Pos()), id, "the reply is addressed with "+id+" instead of the incoming message's ID")
					at := cp.Fn
					if at == nil {
						at = f
					}
					cl := findCompositeLit(at, cp.Call.Args[1])
					switch {
					case cl != nil && at == f:
						c15Response(r, f, cl, key)
					case cl != nil:
						c15ResponseIn(r, f, cl, at, func(o string) string { return originViaStr(f, at, o, 4) }, key)
					default:
						// the response is built by a function stored in a field of the handler object the processor
						// delegates to (`response := h.newResponse(part)`): its literal, with the parameter replaced
						done := false
						if id, ok := ast.Unparen(cp.Call.Args[1]).(*ast.Ident); ok {
							if v, ok := at.Pkg.TypesInfo.Uses[id].(*types.Var); ok {
								if defs := localDefs(at, v); len(defs) == 1 {
									if bc, ok := ast.Unparen(defs[0].rhs).(*ast.CallExpr); ok {
										if lit, _, lp := fieldFuncOf(f, at, bc); lit != nil {
											if h := litFuncInfo(lp, lit); h != nil {
												var rets []*ast.ReturnStmt
												ast.Inspect(lit.Body, func(n ast.Node) bool {
													if rs, ok := n.(*ast.ReturnStmt); ok {
														rets = append(rets, rs)
													}
													return true
												})
												if len(rets) == 1 && len(rets[0].Results) == 1 {
													if inner := findCompositeLit(h, rets[0].Results[0]); inner != nil {
														trAt := func(o string) string { return originViaStr(f, at, o, 4) }
														c15ResponseIn(r, f, inner, h, func(o string) string {
															return trAt(substParams(o, h, bc, at, 4))
														}, key, c15Bind{in: h, caller: at, tr: trAt, arg: func(v types.Object) ast.Expr {
															for i, p := range paramObjs(h) {
																if p == v && i < len(bc.Args) {
																	return bc.Args[i]
																}
															}
															return nil
														}})
														done = true
													}
												}
											}
										}
									}
								}
							}
						}
						if !done {
							r.Undecided("C15.echo", key+" response literal", w.Pos(cp.Call.Pos()), "the response is not a composite literal")
						}
					}
				}
			}
		}
		r.Sites++
		r.Check(nAct == 1 && nResp == 1, "C15.once", key+" one manager call site and one response site", w.Pos(f.Decl.Pos()), "1/1", "expected one manager call site and one response site")
		// ResultCode: success only when the manager's error is nil
		var rcVar types.Object
		ast.Inspect(f.Decl.Body, func(n ast.Node) bool {
			if as, ok := n.(*ast.AssignStmt); ok && len(as.Lhs) == 1 && len(as.Rhs) == 1 {
				if c := core.ConstObj(info, as.Rhs[0]); c != nil && c.Name() == "ResultCodeSuccess" {
					rcVar = core.ObjOf(info, as.Lhs[0])
				}
			}
			return true
		})
		sp2 := &flow.Spec{W: w, Depth: 0, Classify: sp.Classify}
		sp2.Visit = func(pkg *packages.Package, n ast.Node, st *flow.State) {
			// every place the success code is used as a value (assigned, or put into a literal), here or in a
			// helper of the package analysed in this context; comparisons do not count
			var vals []ast.Expr
			ast.Inspect(n, func(m ast.Node) bool {
				switch x := m.(type) {
				case *ast.FuncLit:
					return false
				case *ast.AssignStmt:
					vals = append(vals, x.Rhs...)
				case *ast.KeyValueExpr:
					vals = append(vals, x.Value)
				case *ast.ValueSpec:
					vals = append(vals, x.Values...)
				}
				return true
			})
			for _, v := range vals {
				if c := core.ConstObj(info, v); c != nil && c.Name() == "ResultCodeSuccess" {
					r.Sites++
					r.Check(st.Has("ok:action"), "C15.truth", key+" ResultCodeSuccess only after the manager succeeded", w.Pos(v.Pos()), "nil-error path", "ResultCodeSuccess is set on a path where the manager's error is not known nil")
				}
			}
		}
		sp2.Analyze(f)
		_ = rcVar
		_ = reqVar
		// every request is answered: a nil return has called the manager and sent the reply (a request that is
		// dropped silently — "already in progress", "nothing to do" — gets no reply at all and is never finished)
		for _, ex := range res.Exits {
			if ex.Class == flow.ExitOK {
				r.Sites++
				r.Check(ex.St.Has("ok:action") && ex.St.Has("respond"), "C15.once", key+" "+exitRole(ex, func(t string) bool { return t == "ok:action" || t == "respond" })+" answered the request", w.Pos(ex.Pos),
					"nil only after the manager returned a status and the reply was sent", "the processor returns nil on a path that has not called the manager and sent the reply: the request is dropped without an answer")
			}
		}
		// error path: no response with a status, error returned
		for _, ex := range res.Exits {
			if ex.St.Has("fail:action") {
				r.Sites++
				r.Check(ex.Class != flow.ExitOK && !ex.St.Maybe("respond"), "C15.truth", key+" manager failure sends no status", w.Pos(ex.Pos), "error returned, no response carrying a status", "after the manager failed a response is still sent or nil is returned")
			}
		}
		// C15.state
		writes := ""
		ast.Inspect(f.Decl.Body, func(n ast.Node) bool {
			if as, ok := n.(*ast.AssignStmt); ok {
				for _, l := range as.Lhs {
					if v, ok := core.ObjOf(info, l).(*types.Var); ok && v.Pkg() != nil && v.Parent() == v.Pkg().Scope() {
						writes = v.Name()
					}
				}
			}
			return true
		})
		r.Sites++
		r.Check(writes == "", "C15.state", key+" writes no package-level state", w.Pos(f.Decl.Pos()), "no shared mutable state", "the processor writes the package-level variable "+writes+": concurrent requests influence each other")
	}
	if found != 2 {
		r.Bad("C15.route", "branch commit and rollback processors", "", "expected the two phase-two processors, found "+itoa(found))
	}
	// the registry the processors route through: GetResourceManager(bt) answers the manager registered under bt —
	// every lookup it does (itself or in a helper of the package) is keyed by its own parameter, and registration
	// stores under the manager's own branch type
	if get := w.Func("pkg/rm", "ResourceManagerCache", "GetResourceManager"); r.Anchor("C15.route", get, "rm.ResourceManagerCache.GetResourceManager") != nil {
		r.Fn(get)
		ps := paramObjs(get)
		nLook := 0
		var visit func(g *core.FuncInfo, d int)
		seen := map[*core.FuncInfo]bool{}
		visit = func(g *core.FuncInfo, d int) {
			if g == nil || seen[g] || d < 0 || g.Decl.Body == nil {
				return
			}
			seen[g] = true
			gi := g.Pkg.TypesInfo
			check := func(k ast.Expr, pos token.Pos) {
				nLook++
				r.Sites++
				o := originVia(get, g, k, 4)
				r.Check(len(ps) == 1 && o == "param:"+ps[0].Name(), "C15.route", core.ShortKey(get.Obj)+" looks the manager up under the requested branch type", w.Pos(pos), o,
					"the registry is also read under "+o+", not only under the branch type asked for: a request of a type without a manager on this client is executed by another type's manager and answered with that manager's status")
			}
			ast.Inspect(g.Decl.Body, func(n ast.Node) bool {
				switch x := n.(type) {
				case *ast.CallExpr:
					callee := core.Callee(gi, x)
					if (stdMethod(callee, "sync", "Map", "Load") || stdMethod(callee, "sync", "Map", "LoadOrStore")) && len(x.Args) >= 1 {
						check(x.Args[0], x.Pos())
					} else if h := w.Info(callee); h != nil && h.Pkg == get.Pkg && h != g {
						visit(h, d-1)
					}
				case *ast.IndexExpr:
					if t := gi.TypeOf(x.X); t != nil {
						if _, isMap := t.Underlying().(*types.Map); isMap {
							check(x.Index, x.Pos())
						}
					}
				}
				return true
			})
		}
		visit(get, 2)
		if nLook == 0 {
			r.Bad("C15.route", core.ShortKey(get.Obj)+" looks the manager up under the requested branch type", w.Pos(get.Decl.Pos()), "no lookup found")
		}
	}
	// managers: success status only with nil error (shared rules)
	if u := resolveUndoWorld(r, "C15.truth"); u != nil {
		c01StatusAs(r, u, "C15.truth")
	}
	c15ManagerTruth(r)
	c15ReplySession(r)
	// the reply's bytes: encoding is a function of the reply alone (no buffer shared between replies in flight)
	c12Pure(r, "C15.pure")
	r.Floor("C15.pure", 60)
	r.Floor("C15.route", 4)
	r.Floor("C15.echo", 16)
	r.Floor("C15.once", 6)
	r.Floor("C15.truth", 10)
}

func c15Response(r *core.Run, f *core.FuncInfo, cl *ast.CompositeLit, key string) {
	c15ResponseIn(r, f, cl, f, func(o string) string { return o }, key)
}

// c15ActionOrigin: the origin text (in the processor's terms) of the manager call of the processor being checked
var c15ActionOrigin string

// projectLitField reduces `lit:T{field:A: x, field:B: y}.B` (a field read from a struct literal that travelled
// through a parameter) to y.
func projectLitField(o string) string {
	for i := 0; i < 4; i++ {
		if !strings.HasPrefix(o, "lit:") {
			return o
		}
		open := strings.Index(o, "{")
		if open < 0 {
			return o
		}
		depth, end := 0, -1
		for j := open; j < len(o); j++ {
			switch o[j] {
			case '{', '(', '[':
				depth++
			case '}', ')', ']':
				depth--
				if depth == 0 && o[j] == '}' {
					end = j
				}
			}
			if end >= 0 {
				break
			}
		}
		if end < 0 || end+1 >= len(o) || o[end+1] != '.' {
			return o
		}
		rest := o[end+2:]
		name := rest
		tail := ""
		if k := strings.IndexAny(rest, ".#"); k >= 0 {
			name, tail = rest[:k], rest[k:]
		}
		body := o[open+1 : end]
		// split at top-level ", "
		var parts []string
		d, start := 0, 0
		for j := 0; j < len(body); j++ {
			switch body[j] {
			case '{', '(', '[':
				d++
			case '}', ')', ']':
				d--
			case ',':
				if d == 0 {
					parts = append(parts, strings.TrimSpace(body[start:j]))
					start = j + 1
				}
			}
		}
		parts = append(parts, strings.TrimSpace(body[start:]))
		found := ""
		for _, p := range parts {
			if strings.HasPrefix(p, "field:"+name+": ") {
				found = strings.TrimPrefix(p, "field:"+name+": ")
			}
		}
		if found == "" {
			return o
		}
		o = found + tail
	}
	return o
}

// c15Bind: the parameters of function in are bound to the arguments of a call in caller (origins there translated by tr)
type c15Bind struct {
	in     *core.FuncInfo
	caller *core.FuncInfo
	arg    func(v types.Object) ast.Expr
	tr     func(string) string
}

// c15ResponseIn: the response literal cl is written in function in0 (the processor itself, a helper it delegates
// to, or a function literal stored in a handler object); tr0 translates an origin in in0's terms into f's.
func c15ResponseIn(r *core.Run, f *core.FuncInfo, cl *ast.CompositeLit, in0 *core.FuncInfo, tr0 func(string) string, key string, binds ...c15Bind) {
	w := r.W
	// flatten nested literals; a nested part may come from a constructor helper of the package
	// (AbstractBranchEndResponse: newBranchEndResponse(xid, id, status, err)): its literal is read with the
	// helper's parameters replaced by the arguments
	fields := map[string]string{}
	originFollowHelpers = true
	defer func() { originFollowHelpers = false }()
	var walk func(c *ast.CompositeLit, in *core.FuncInfo, tr func(string) string, depth int)
	walk = func(c *ast.CompositeLit, in *core.FuncInfo, tr func(string) string, depth int) {
		for _, el := range c.Elts {
			kv, ok := el.(*ast.KeyValueExpr)
			if !ok {
				continue
			}
			k, _ := kv.Key.(*ast.Ident)
			val := ast.Unparen(kv.Value)
			if inner := findCompositeLit(in, val); inner != nil {
				walk(inner, in, tr, depth)
				continue
			}
			// a parameter of the function the literal is written in, bound to what its caller passes
			if id, ok := val.(*ast.Ident); ok && len(binds) > 0 && in == binds[0].in {
				if v := in.Pkg.TypesInfo.Uses[id]; v != nil {
					if e := binds[0].arg(v); e != nil {
						if inner := findCompositeLit(binds[0].caller, e); inner != nil {
							walk(inner, binds[0].caller, binds[0].tr, depth)
							continue
						}
					}
				}
			}
			if call, ok := val.(*ast.CallExpr); ok && depth > 0 {
				if h := w.Info(core.Callee(in.Pkg.TypesInfo, call)); h != nil && h.Pkg == in.Pkg && h.Decl.Body != nil && h != in {
					var rets []*ast.ReturnStmt
					ast.Inspect(h.Decl.Body, func(n ast.Node) bool {
						if _, isLit := n.(*ast.FuncLit); isLit {
							return false
						}
						if rs, ok := n.(*ast.ReturnStmt); ok {
							rets = append(rets, rs)
						}
						return true
					})
					if len(rets) == 1 && len(rets[0].Results) == 1 {
						if inner := findCompositeLit(h, rets[0].Results[0]); inner != nil {
							walk(inner, h, func(o string) string { return tr(substParams(o, h, call, in, 4)) }, depth-1)
							continue
						}
					}
				}
			}
			if k != nil {
				fields[k.Name] = tr(origin(in, kv.Value, 4))
			}
		}
	}
	walk(cl, in0, tr0, 2)
	for fld, want := range map[string]string{"Xid": ".Body.(type).Xid", "BranchId": ".Body.(type).BranchId"} {
		r.Sites++
		o := projectLitField(fields[fld])
		if o == "" {
			o = "<none>"
		}
		r.Check(strings.HasSuffix(o, want), "C15.echo", key+" response."+fld+" from the request", w.Pos(cl.Pos()), o, "the response's "+fld+" derives from "+o+", not from the request")
	}
	r.Sites++
	o := fields["BranchStatus"]
	if o == "" {
		o = "<none>"
	}
	r.Check((strings.HasPrefix(o, "call:pkg/rm.(ResourceManagerInbound).") || (c15ActionOrigin != "" && o == c15ActionOrigin+"#0")) && strings.HasSuffix(o, "#0"), "C15.echo", key+" response.BranchStatus is the manager's result", w.Pos(cl.Pos()), o, "the response's BranchStatus derives from "+o+", not from the status the manager returned")
}

// c15ManagerTruth: TCC and XA managers — success constants only where the action is known to have succeeded.
func c15ManagerTruth(r *core.Run) {
	w := r.W
	for _, bt := range []string{"BranchTypeTCC", "BranchTypeXA"} {
		mgr := managerFor(r, bt)
		if mgr == nil {
			r.Anchor("C15.truth", nil, "resource manager for "+bt)
			continue
		}
		for _, ph := range []struct{ m, ok string }{{"BranchCommit", "BranchStatusPhasetwoCommitted"}, {"BranchRollback", "BranchStatusPhasetwoRollbacked"}} {
			fn := methodInfo(w, mgr, ph.m)
			if fn == nil {
				continue
			}
			r.Fn(fn)
			info := fn.Pkg.TypesInfo
			res := (&flow.Spec{W: w, Depth: 0, Classify: func(pkg *packages.Package, call *ast.CallExpr, callee *types.Func) []flow.Tag {
				tv, ok := pkg.TypesInfo.Types[call.Fun]
				if !ok {
					return nil
				}
				if sig, ok := tv.Type.Underlying().(*types.Signature); ok {
					if _, has := core.HasErrorResult(sig); has {
						return []flow.Tag{"step"}
					}
				}
				return nil
			}}).Analyze(fn)
			for _, ex := range res.Exits {
				c := ex.ResultConst(info, 0)
				if c == nil || c.Name() != ph.ok {
					continue
				}
				r.Sites++
				k := core.ShortKey(fn.Obj) + " " + exitRole(ex, func(t string) bool { return strings.HasPrefix(t, "fail:") }) + " status=" + c.Name()
				r.Check(!ex.St.Has("fail:step") && ex.Class != flow.ExitErr, "C15.truth", k, w.Pos(ex.Pos), "success status only on a path without a failed step and with a nil error", "the success status "+c.Name()+" is returned on a path where a step has failed (or together with an error)")
			}
		}
	}
}

// c15ReplySession: the reply travels on a session chosen from this request alone: either no session is named
// (the selector then routes by the xid of the reply body) or the caller's own session parameter is handed on.
// A session looked up in a table shared by all requests (keyed by message id, say) lets one request's reply
// follow another request's entry: message ids are numbered per coordinator, not per client.
func c15ReplySession(r *core.Run) {
	w := r.W
	gc := w.NamedType("pkg/remoting/getty", "GettyRemotingClient")
	f := methodInfo(w, gc, "SendAsyncResponse")
	if r.Anchor("C15.route", f, "GettyRemotingClient.SendAsyncResponse") == nil {
		return
	}
	info := f.Pkg.TypesInfo
	n := 0
	// the reply is addressed with the id it was asked to answer, whatever its value (0 is a legitimate id: the
	// coordinator's counter wraps around to it)
	var idParam types.Object
	for _, p := range paramObjs(f) {
		if b, ok := p.Type().Underlying().(*types.Basic); ok && b.Info()&types.IsInteger != 0 {
			idParam = p
		}
	}
	for _, cs := range w.Calls(f) {
		if cs.Static == nil || core.RecvNamed(cs.Static) == nil || core.RecvNamed(cs.Static).Obj().Name() != "GettyRemoting" || !strings.HasPrefix(cs.Static.Name(), "Send") || len(cs.Call.Args) == 0 {
			continue
		}
		r.Sites++
		id, ok := litFieldOrigin(f, cs.Call.Args[0], "ID", 4)
		r.Check(ok && idParam != nil && id == "param:"+idParam.Name(), "C15.echo", core.ShortKey(f.Obj)+" sends the reply under the id it was handed", w.Pos(cs.Call.Pos()), id,
			"the id of the reply frame derives from "+id+", not from the message id the processor handed in unchanged: for some id values (0: the coordinator's counter wraps around to it) the reply goes out under another id, the coordinator cannot match it to its request and a different request may receive two replies")
	}
	for _, cs := range w.Calls(f) {
		if cs.Static == nil || core.RecvNamed(cs.Static) == nil || core.RecvNamed(cs.Static).Obj().Name() != "GettyRemoting" || !strings.HasPrefix(cs.Static.Name(), "Send") {
			continue
		}
		sig := cs.Static.Type().(*types.Signature)
		for i := 0; i < sig.Params().Len() && i < len(cs.Call.Args); i++ {
			if !strings.HasSuffix(sig.Params().At(i).Type().String(), "getty.Session") {
				continue
			}
			n++
			r.Sites++
			a := cs.Call.Args[i]
			o := origin(f, a, 4)
			ok := isNilIdent(info, a) || o == "nil" || strings.HasPrefix(o, "param:")
			r.Check(ok, "C15.route", core.ShortKey(f.Obj)+" reply session depends on this request only", w.Pos(cs.Call.Pos()), "session: "+o,
				"the session the reply is sent on comes from "+o+", state shared by all requests in flight: two coordinators number their requests independently, so an entry of one request can route another request's reply (one coordinator gets no answer, the other gets two)")
		}
	}
	if n == 0 {
		r.Bad("C15.route", core.ShortKey(f.Obj)+" reply session depends on this request only", w.Pos(f.Decl.Pos()), "no send with a session argument found")
	}
}

// c15Dispatch (C15.once): whether a received message reaches its processor does not depend on the session it
// arrived on. The reply of a phase-two request is not sent on the arrival session (the sender picks a live session
// to that coordinator), so "the connection it came from has gone" is no reason to drop the request: in the
// listener's OnMessage no branch condition mentions the session parameter.
func c15Dispatch(r *core.Run) {
	w := r.W
	n := 0
	for _, f := range w.SortedFuncs() {
		if f.Pkg.PkgPath != pGetty || w.IsTestFile(f.Decl.Pos()) || f.Obj.Name() != "OnMessage" || f.Decl.Body == nil {
			continue
		}
		ps := paramObjs(f)
		if len(ps) == 0 || !isSessionType(ps[0].Type()) {
			continue
		}
		n++
		r.Sites++
		r.Fn(f)
		info := f.Pkg.TypesInfo
		bad := ""
		ast.Inspect(f.Decl.Body, func(nd ast.Node) bool {
			var cond ast.Expr
			switch x := nd.(type) {
			case *ast.IfStmt:
				cond = x.Cond
			case *ast.SwitchStmt:
				cond = x.Tag
			}
			if cond != nil && mentions(info, cond, ps[0]) {
				bad = w.Pos(cond.Pos()) + ": " + core.ExprString(cond)
			}
			return true
		})
		r.Check(bad == "", "C15.once", core.ShortKey(f.Obj)+" hands every message to its processor whatever the arrival session's state", w.Pos(f.Decl.Pos()), "no branch on the session parameter",
			"the dispatch depends on the arrival session ("+bad+"): a phase-two request read just before its connection dropped is neither executed nor answered, although the reply would go out on another live session to the same coordinator")
	}
	if n == 0 {
		r.Undecided("C15.once", "listener OnMessage(session, message)", "", "not found")
	}
}
