package rules

import (
	"go/ast"
	"go/types"
	"strings"

	"golang.org/x/tools/go/packages"

	"seatalint/internal/core"
	"seatalint/internal/flow"
)

// idiom is one accepted way of not propagating an error, confirmed by reading (DESIGN §1.4 B).
type idiom struct {
	Fn     string // short key of the enclosing function ("" = any function of the rule's scope)
	Callee string // short key of the callee whose error is not propagated
	Kind   string // "dropped" or "swallowed" ("" = both)
	Reason string
}

// cleanupCallee: releasing a resource after the outcome is fixed; its error carries no outcome.
func cleanupCallee(f *types.Func) bool {
	if f == nil {
		return false
	}
	for _, recv := range []string{"Rows", "Stmt", "Conn", "DB"} {
		if stdMethod(f, pSQL, recv, "Close") {
			return true
		}
	}
	for _, recv := range []string{"Rows", "Stmt", "Conn"} {
		if stdMethod(f, pDriver, recv, "Close") {
			return true
		}
	}
	if stdMethod(f, "io", "Closer", "Close") {
		return true
	}
	// writers documented to always return a nil error
	if n := core.RecvNamed(f); n != nil && n.Obj().Pkg() != nil {
		switch n.Obj().Pkg().Path() + "." + n.Obj().Name() {
		case "strings.Builder", "bytes.Buffer":
			return strings.HasPrefix(f.Name(), "Write")
		}
	}
	return false
}

func matchIdiom(ids []idiom, fn *core.FuncInfo, callee *types.Func, kind string) *idiom {
	fk := core.ShortKey(fn.Obj)
	ck := "<dynamic>"
	if callee != nil {
		ck = core.ShortKey(callee)
	}
	for i := range ids {
		id := &ids[i]
		if id.Fn != "" && id.Fn != fk {
			continue
		}
		if id.Callee != ck {
			continue
		}
		if id.Kind != "" && id.Kind != kind {
			continue
		}
		return id
	}
	return nil
}

// errDiscipline applies engine B to fns: every error-returning call must be propagated or
// handled by an enumerated idiom; a failed call must not be followed by a provably-nil error return.
func errDiscipline(r *core.Run, rule string, fns []*core.FuncInfo, ids []idiom) {
	sp := &flow.Spec{W: r.W, Depth: 0, Classify: func(pkg *packages.Package, call *ast.CallExpr, callee *types.Func) []flow.Tag {
		tv, ok := pkg.TypesInfo.Types[call.Fun]
		if !ok {
			return nil
		}
		sig, ok := tv.Type.Underlying().(*types.Signature)
		if !ok {
			return nil
		}
		if _, has := core.HasErrorResult(sig); has {
			return []flow.Tag{"e"}
		}
		return nil
	}}
	for _, fn := range fns {
		r.Fn(fn)
		res := sp.Analyze(fn)
		bad := map[*flow.Origin][]string{}
		for _, d := range res.Drops {
			if cleanupCallee(d.Origin.Callee) {
				continue
			}
			if matchIdiom(ids, fn, d.Origin.Callee, "dropped") != nil {
				continue
			}
			if logOnlyResult(fn, d.Origin.Call) {
				continue // the value only feeds a log line: its error carries no outcome of the function
			}
			if infallibleWrite(fn, d.Origin.Call, d.Origin.Callee) {
				continue // writing into an in-memory builder / buffer: documented to always return a nil error
			}
			bad[d.Origin] = append(bad[d.Origin], "dropped("+d.Kind+")")
		}
		for _, s := range res.Swallows {
			if cleanupCallee(s.Origin.Callee) {
				continue
			}
			if matchIdiom(ids, fn, s.Origin.Callee, "swallowed") != nil {
				continue
			}
			bad[s.Origin] = append(bad[s.Origin], "swallowed")
		}
		for _, cp := range res.Calls {
			r.Sites++
			key := callKey(fn, cp.Callee, cp.Call)
			var or *flow.Origin
			for o := range bad {
				if o.Call == cp.Call {
					or = o
				}
			}
			if or == nil {
				r.OK(rule, key, r.W.Pos(cp.Call.Pos()), "error propagated, tested, or released by an accepted cleanup idiom")
				continue
			}
			kinds := uniq(bad[or])
			for _, k := range kinds {
				msg := "the error returned by this call is discarded (" + k + "): it is neither returned, tested nor handled by an accepted idiom"
				if k == "swallowed" {
					msg = "this call's error is tested non-nil and the function then returns a nil error: the failure is turned into success"
				}
				r.Bad(rule, key+" : "+k, r.W.Pos(cp.Call.Pos()), msg)
			}
		}
		// deferred closures must not replace an earlier failure of the named result
		for _, c := range deferClobbers(fn) {
			r.Bad(rule, core.ShortKey(fn.Obj)+" : deferred closure assigns the named error result unguarded ("+c.Text+")", r.W.Pos(c.Pos),
				"a deferred closure overwrites the function's named error result without keeping an earlier non-nil value; a failure of the body is replaced by this call's result (nil on success)")
		}
	}
}

func uniq(in []string) []string {
	seen := map[string]bool{}
	var out []string
	for _, s := range in {
		if !seen[s] {
			seen[s] = true
			out = append(out, s)
		}
	}
	return out
}

// hasPrefixAny reports whether s has one of the prefixes.
func hasPrefixAny(s string, ps ...string) bool {
	for _, p := range ps {
		if strings.HasPrefix(s, p) {
			return true
		}
	}
	return false
}

// logOnlyResult: `v, _ := f(..)` (a marshal for a diagnostic) whose value v is used for nothing but arguments of the
// logging package: whether the call failed changes only what the log line shows.
func logOnlyResult(fn *core.FuncInfo, call *ast.CallExpr) bool {
	info := fn.Pkg.TypesInfo
	var v types.Object
	ast.Inspect(fn.Decl.Body, func(n ast.Node) bool {
		as, ok := n.(*ast.AssignStmt)
		if !ok || len(as.Rhs) != 1 || ast.Unparen(as.Rhs[0]) != ast.Expr(call) || len(as.Lhs) != 2 {
			return true
		}
		if id, ok := as.Lhs[1].(*ast.Ident); !ok || id.Name != "_" {
			return true
		}
		v = core.ObjOf(info, as.Lhs[0])
		return false
	})
	if v == nil {
		return false
	}
	uses, logUses := 0, 0
	var stack []ast.Node
	ast.Inspect(fn.Decl.Body, func(n ast.Node) bool {
		if n == nil {
			stack = stack[:len(stack)-1]
			return true
		}
		stack = append(stack, n)
		id, ok := n.(*ast.Ident)
		if !ok || info.Uses[id] != v {
			return true
		}
		uses++
		for i := len(stack) - 2; i >= 0; i-- {
			c, ok := stack[i].(*ast.CallExpr)
			if !ok {
				continue
			}
			if tv, isConv := info.Types[c.Fun]; isConv && tv.IsType() {
				continue // string(v)
			}
			if f := core.Callee(info, c); f != nil && f.Pkg() != nil && strings.HasSuffix(f.Pkg().Path(), "/pkg/util/log") {
				logUses++
			}
			break
		}
		return true
	})
	return uses > 0 && uses == logUses
}

// infallibleWrite: a write into a *strings.Builder or *bytes.Buffer — its own Write* methods, or fmt.Fprint* handed
// one as the writer. Both types document that the error is always nil.
func infallibleWrite(fn *core.FuncInfo, call *ast.CallExpr, callee *types.Func) bool {
	if callee == nil || callee.Pkg() == nil {
		return false
	}
	inMem := func(t types.Type) bool {
		if p, ok := t.(*types.Pointer); ok {
			t = p.Elem()
		}
		n, ok := t.(*types.Named)
		if !ok || n.Obj().Pkg() == nil {
			return false
		}
		q := n.Obj().Pkg().Path() + "." + n.Obj().Name()
		return q == "strings.Builder" || q == "bytes.Buffer"
	}
	if sig, ok := callee.Type().(*types.Signature); ok && sig.Recv() != nil {
		return inMem(sig.Recv().Type()) && strings.HasPrefix(callee.Name(), "Write")
	}
	// the package may be analysed by a caller's inlining: the call's own package types its arguments
	info := fn.Pkg.TypesInfo
	if callee.Pkg().Path() == "fmt" && strings.HasPrefix(callee.Name(), "Fprint") && len(call.Args) > 0 {
		if t := info.TypeOf(call.Args[0]); t != nil {
			return inMem(t)
		}
	}
	return false
}
