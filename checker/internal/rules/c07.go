package rules

import (
	"go/ast"
	"go/constant"
	"go/token"
	"go/types"
	"sort"
	"strings"

	"golang.org/x/tools/go/packages"

	"seatalint/internal/core"
	"seatalint/internal/flow"
)

func init() { register("C07", checkC07) }

// ctxMutators: functions of pkg/tm that write a field of the shared *ContextVariable.
func ctxMutators(w *core.World) map[*types.Func]bool {
	out := map[*types.Func]bool{}
	for _, f := range w.SortedFuncs() {
		if f.Pkg.PkgPath != pTM || w.IsTestFile(f.Decl.Pos()) {
			continue
		}
		ast.Inspect(f.Decl.Body, func(n ast.Node) bool {
			as, ok := n.(*ast.AssignStmt)
			if !ok {
				return true
			}
			for _, l := range as.Lhs {
				hit := false
				ast.Inspect(l, func(m ast.Node) bool {
					if ta, ok := m.(*ast.TypeAssertExpr); ok && ta.Type != nil && strings.HasSuffix(core.ExprString(ta.Type), "ContextVariable") {
						hit = true
					}
					return true
				})
				if hit {
					out[f.Obj] = true
				}
			}
			return true
		})
	}
	return out
}

func checkC07(r *core.Run) {
	r.Explain = "Decided statically: (C07.table) begin()'s switch is total over the six Propagation constants and per mode the effects on the in-transaction / no-transaction branch (unbind, join, begin a new transaction, error) equal the documented table; (C07.isolation) a scope entered with a context that already carries a transaction rebinds ctx to a fresh seata context carrying the same xid before any mutator of the shared ContextVariable runs, so the enclosing scope's xid/role/name survive; (C07.join) joining sets role Participant and keeps the xid; (C07.rpc) per integration the value written to transport metadata is tm.GetXID(ctx) unmodified, the value given to tm.SetXID on the callee side derives only from metadata reads under the accepted key constants, writer and reader keys intersect, and the callee context is fresh (role not Launcher). (C07.table, also) after UnbindXid nothing in begin binds an xid again (SetXID / SetXIDCopy); NOT decided: request sequences of whole scope trees (the dynamic composition of the above)."
	r.Trusted = []string{"go/types, go/cfg", "grpc metadata / gin header / dubbo attachment key handling (case folding)"}
	w := r.W
	with := r.Anchor("C07.anchor", w.Func("pkg/tm", "", "WithGlobalTx"), "tm.WithGlobalTx")
	begin := r.Anchor("C07.anchor", w.Func("pkg/tm", "", "begin"), "tm.begin (mode switch)")
	gtm := w.NamedType("pkg/tm", "GlobalTransactionManager")
	if with == nil || gtm == nil {
		return
	}
	beginM := w.MethodOf(gtm, "Begin")
	muts := ctxMutators(w)
	mutReach := newReach(w, 2, func(f *types.Func) bool { return muts[f] })
	// join function: calls SetTx with a literal whose TxRole is Participant
	var joinFn, newFn *core.FuncInfo
	for _, f := range w.SortedFuncs() {
		if f.Pkg.PkgPath != pTM || w.IsTestFile(f.Decl.Pos()) {
			continue
		}
		info := f.Pkg.TypesInfo
		for _, cs := range w.Calls(f) {
			if core.IsPkgFunc(cs.Static, pTM, "SetTx") && len(cs.Call.Args) == 2 {
				// (the transaction value may be built by a constructor helper of the package)
				if cl, owner := findLitDeep(f, cs.Call.Args[1], 3); cl != nil {
					if c := core.ConstObj(owner.Pkg.TypesInfo, litField(cl, "TxRole")); c != nil && c.Name() == "Participant" {
						joinFn = f
					}
				}
				_ = info
			}
			if cs.Static == beginM && f.Obj.Name() != "Begin" {
				newFn = f
			}
		}
	}
	if joinFn == nil || newFn == nil {
		r.Anchor("C07.join", nil, "join function (SetTx with role Participant) and new-transaction function (GlobalTransactionManager.Begin)")
		return
	}
	r.Fn(joinFn)
	r.Fn(newFn)
	// ---- C07.join
	{
		info := joinFn.Pkg.TypesInfo
		for _, cs := range w.Calls(joinFn) {
			if core.IsPkgFunc(cs.Static, pTM, "SetTx") {
				cl, owner := findLitDeep(joinFn, cs.Call.Args[1], 3)
				if cl == nil {
					continue
				}
				r.Sites++
				x, _ := litFieldOrigin(joinFn, cs.Call.Args[1], "Xid", 4)
				r.Check(strings.Contains(x, "call:pkg/tm.GetXID(param:ctx)"), "C07.join", core.ShortKey(joinFn.Obj)+" keeps the xid", w.Pos(cs.Call.Pos()), "Xid = tm.GetXID(ctx)", "the joined transaction's xid derives from "+x+" instead of the existing xid")
				c := core.ConstObj(owner.Pkg.TypesInfo, litField(cl, "TxRole"))
				_ = info
				r.Check(c != nil && c.Name() == "Participant", "C07.join", core.ShortKey(joinFn.Obj)+" role Participant", w.Pos(cs.Call.Pos()), "role Participant", "joining must set role Participant")
			}
		}
		// the new-transaction function sets role Launcher before Begin
		sp := &flow.Spec{W: w, Classify: func(pkg *packages.Package, call *ast.CallExpr, callee *types.Func) []flow.Tag {
			if core.IsPkgFunc(callee, pTM, "SetTxRole") && len(call.Args) == 2 {
				return []flow.Tag{"role:" + constName(core.ConstObj(pkg.TypesInfo, call.Args[1]))}
			}
			if callee == beginM {
				return []flow.Tag{"begin"}
			}
			return nil
		}}
		res := sp.Analyze(newFn)
		for _, cp := range res.Calls {
			if inSet("begin", cp.Tags...) {
				r.Sites++
				r.Check(cp.Before.Has("role:Launcher"), "C07.join", core.ShortKey(newFn.Obj)+" role Launcher before Begin", w.Pos(cp.Call.Pos()), "the initiator is marked Launcher", "a new transaction is begun without marking the scope Launcher: nobody would end it")
			}
		}
		errDiscipline(r, "C07.join", []*core.FuncInfo{newFn}, nil)
	}
	// ---- C07.table
	if begin != nil {
		c07Table(r, begin, joinFn, newFn)
	}
	// ---- C07.isolation
	{
		ctxParam := paramObjs(with)[0]
		beginReach := newReach(w, 3, func(f *types.Func) bool { return f == beginM || f == joinFn.Obj })
		// a local that received GetXID(ctx) on a path that knows IsGlobalTx(ctx) is not empty (premise checked
		// below): the branch testing it empty is infeasible there
		xidAxiom := c07XidAxiom(r)
		emptyTest := func(info *types.Info, cond ast.Expr, branch bool) types.Object {
			be, ok := ast.Unparen(cond).(*ast.BinaryExpr)
			if !ok {
				return nil
			}
			x, y := ast.Unparen(be.X), ast.Unparen(be.Y)
			isEmptyLit := func(e ast.Expr) bool {
				v := core.ConstVal(info, e)
				return v != nil && v.Kind() == constant.String && constant.StringVal(v) == ""
			}
			isZero := func(e ast.Expr) bool {
				v := core.ConstVal(info, e)
				return v != nil && v.Kind() == constant.Int && v.ExactString() == "0"
			}
			var o types.Object
			emptyWhenTrue := false
			switch {
			case isEmptyLit(y) && (be.Op == token.EQL || be.Op == token.NEQ):
				o, emptyWhenTrue = core.ObjOf(info, x), be.Op == token.EQL
			case isEmptyLit(x) && (be.Op == token.EQL || be.Op == token.NEQ):
				o, emptyWhenTrue = core.ObjOf(info, y), be.Op == token.EQL
			case isZero(y):
				if c, ok := x.(*ast.CallExpr); ok && len(c.Args) == 1 {
					if id, ok := c.Fun.(*ast.Ident); ok && id.Name == "len" {
						switch be.Op {
						case token.EQL:
							o, emptyWhenTrue = core.ObjOf(info, c.Args[0]), true
						case token.NEQ, token.GTR:
							o, emptyWhenTrue = core.ObjOf(info, c.Args[0]), false
						}
					}
				}
			}
			if o == nil || emptyWhenTrue != branch {
				return nil
			}
			return o
		}
		sp := &flow.Spec{W: w, Depth: 0, Split: []flow.Tag{"true:isglobal"},
			CondTags: func(pkg *packages.Package, cond ast.Expr, branch bool) []flow.Tag {
				if o := emptyTest(pkg.TypesInfo, cond, branch); o != nil && xidAxiom {
					return []flow.Tag{"#not:xidcopy:" + o.Name()}
				}
				return nil
			},
			Effect: func(pkg *packages.Package, n ast.Node, st *flow.State) {
				as, ok := n.(*ast.AssignStmt)
				if !ok || pkg != with.Pkg {
					return
				}
				for i, l := range as.Lhs {
					o := core.ObjOf(pkg.TypesInfo, l)
					if o == nil {
						continue
					}
					delete(st.Must, "xidcopy:"+o.Name())
					if len(as.Lhs) == len(as.Rhs) && (as.Tok == token.ASSIGN || as.Tok == token.DEFINE) {
						if c, ok := ast.Unparen(as.Rhs[i]).(*ast.CallExpr); ok && core.IsPkgFunc(core.Callee(pkg.TypesInfo, c), pTM, "GetXID") && len(c.Args) == 1 &&
							isObj(pkg.TypesInfo, c.Args[0], ctxParam) && st.Has("true:isglobal") && !st.Maybe("mutate") && !st.Maybe("rebind") {
							st.Must["xidcopy:"+o.Name()] = true
						}
					}
				}
			},
			Classify: func(pkg *packages.Package, call *ast.CallExpr, callee *types.Func) []flow.Tag {
				switch {
				case core.IsPkgFunc(callee, pTM, "IsGlobalTx"):
					return []flow.Tag{"isglobal"}
				case core.IsPkgFunc(callee, pTM, "SetXID") && len(call.Args) == 2 && isObj(pkg.TypesInfo, call.Args[0], ctxParam):
					return []flow.Tag{"setxid", "mutate"}
				case callee != nil && w.Info(callee) != nil && callee.Pkg().Path() == pTM && beginReach.Hits(callee) && w.Info(callee) != joinFn && callee != beginM:
					return []flow.Tag{"beginstep", "mutate"}
				case callee != nil && mutReach.Hits(callee) && len(call.Args) > 0 && isObj(pkg.TypesInfo, call.Args[0], ctxParam):
					return []flow.Tag{"mutate"}
				}
				return nil
			},
			AssignTags: func(pkg *packages.Package, as *ast.AssignStmt) []flow.Tag {
				if len(as.Lhs) == 1 && len(as.Rhs) == 1 && isObj(pkg.TypesInfo, as.Lhs[0], ctxParam) {
					if c, ok := as.Rhs[0].(*ast.CallExpr); ok {
						callee := core.Callee(pkg.TypesInfo, c)
						if core.IsPkgFunc(callee, pTM, "InitSeataContext") {
							return []flow.Tag{"-setxid", "-mutate", "rebind"}
						}
						// a helper that derives the scope's context: verified on its own (below) to answer, on
						// every return, a fresh context that carries the xid when its argument holds a transaction
						if h := w.Info(callee); h != nil && h.Pkg.PkgPath == pTM && len(c.Args) == 1 && isObj(pkg.TypesInfo, c.Args[0], ctxParam) && scopeContextHelper(w, h) {
							r.Fn(h)
							return []flow.Tag{"-mutate", "rebind", "setxid"}
						}
						// a constructor (parent, xid) that answers a fresh context with that xid bound, handed the
						// caller's xid (GetXID(ctx), or a helper answering it whenever ctx holds a transaction)
						if h := w.Info(callee); h != nil && h.Pkg.PkgPath == pTM && len(c.Args) == 2 && isObj(pkg.TypesInfo, c.Args[0], ctxParam) && scopeContextCtor(w, h) && carriesCallerXid(w, with, c.Args[1], ctxParam) {
							r.Fn(h)
							return []flow.Tag{"-mutate", "rebind", "setxid"}
						}
					}
				}
				return nil
			}}
		res := sp.Analyze(with)
		n := 0
		for _, cp := range res.Calls {
			if !inSet("beginstep", cp.Tags...) {
				continue
			}
			n++
			r.Sites++
			key := core.ShortKey(with.Obj) + " nested scope (context already carries a transaction) -> " + core.ShortKey(cp.Callee)
			// every path to the begin step either knows the incoming context carries no transaction, or has
			// switched to a fresh context carrying the xid (a path where that is unknown, e.g. a narrowed guard, fails)
			// the scope's own variable on every path (a transaction-less caller must not see what the scope does
			// either: it would end the transaction this scope began a second time), carrying the xid when there is one
			r.Check(cp.Before.Has("rebind") && !cp.Before.Maybe("mutate:pre") && (cp.Before.Has("false:isglobal") || cp.Before.Has("setxid")), "C07.isolation", key, w.Pos(cp.Call.Pos()),
				"the nested scope works on a fresh context carrying the same xid", "a nested scope mutates the caller's shared ContextVariable (no fresh seata context carrying the xid before begin): the inner scope overwrites the outer scope's role/xid/name, so the outer launcher skips its own second phase or ends the wrong transaction")
		}
		if n == 0 {
			r.Bad("C07.isolation", core.ShortKey(with.Obj)+" nested scope path", w.Pos(with.Decl.Pos()), "no begin step found in the scope function")
		}
		// no mutator on the caller's context before the rebind on the nested path
		for _, ap := range res.Assigns {
			if inSet("rebind", ap.Tags...) && ap.Before.Has("true:isglobal") {
				r.Sites++
				r.Check(!ap.Before.Maybe("mutate"), "C07.isolation", core.ShortKey(with.Obj)+" no mutation of the caller's context before the rebind", w.Pos(ap.Stmt.Pos()), "caller's context untouched", "the caller's context is mutated before the nested scope switches to its own context")
				// xid carried over
				for _, cp := range res.Calls {
					if inSet("setxid", cp.Tags...) {
						o := origin(with, cp.Call.Args[1], 4)
						r.Check(strings.Contains(o, "call:pkg/tm.GetXID(param:ctx)"), "C07.isolation", core.ShortKey(with.Obj)+" fresh context carries the caller's xid", w.Pos(cp.Call.Pos()), "SetXID(fresh, GetXID(caller))", "the fresh context's xid derives from "+o)
					}
				}
			}
		}
	}
	c07FreshInit(r, "C07.isolation")
	c07RPC(r)
	r.Floor("C07.table", 11)
	r.Floor("C07.join", 3)
	r.Floor("C07.rpc", 8)
}

// c07Table compares begin()'s per-mode effects with the documented propagation table.
func c07Table(r *core.Run, begin, joinFn, newFn *core.FuncInfo) {
	w := r.W
	type eff struct{ in, out string }
	want := map[string]eff{
		"Required":     {"join", "beginnew"},
		"RequiresNew":  {"beginnew,unbind", "beginnew"},
		"NotSupported": {"unbind", ""},
		"Supports":     {"join", ""},
		"Never":        {"error", ""},
		"Mandatory":    {"join", "error"},
	}
	var modes []string
	for _, c := range enumConsts(w, "pkg/tm", "Propagation") {
		modes = append(modes, c.Name())
	}
	split := []flow.Tag{"true:isglobal", "false:isglobal"}
	for _, m := range modes {
		split = append(split, "mode:"+m)
	}
	// (the decision may be taken by a helper that hands back what to do: the analysis continues per way out of it)
	sp := &flow.Spec{W: w, Depth: 0, Split: split, Fork: true,
		Classify: func(pkg *packages.Package, call *ast.CallExpr, callee *types.Func) []flow.Tag {
			switch {
			case core.IsPkgFunc(callee, pTM, "IsGlobalTx"):
				return []flow.Tag{"isglobal"}
			case core.IsPkgFunc(callee, pTM, "UnbindXid"):
				return []flow.Tag{"unbind"}
			case core.IsPkgFunc(callee, pTM, "SetXID") || core.IsPkgFunc(callee, pTM, "SetXIDCopy"):
				return []flow.Tag{"bindxid"}
			case callee == joinFn.Obj:
				return []flow.Tag{"join"}
			case callee == newFn.Obj:
				return []flow.Tag{"beginnew"}
			}
			return nil
		},
		CondTags: func(pkg *packages.Package, cond ast.Expr, branch bool) []flow.Tag {
			be, ok := cond.(*ast.BinaryExpr)
			if !ok || be.Op != token.EQL || !branch {
				return nil
			}
			if c := core.ConstObj(pkg.TypesInfo, be.Y); c != nil {
				if nt, ok := c.Type().(*types.Named); ok && nt.Obj().Name() == "Propagation" {
					return []flow.Tag{"mode:" + c.Name()}
				}
			}
			return nil
		}}
	res := sp.Analyze(begin)
	// a suspended scope carries no xid: once the inherited xid is unbound nothing puts one back (neither as Xid nor
	// as XidCopy — GetXID falls back to the copy, and GetXID is what the RPC carriers propagate) except the begin of
	// the scope's own new transaction
	for _, cp := range res.Calls {
		if inSet("bindxid", cp.Tags...) {
			r.Sites++
			r.Check(!cp.Before.Maybe("unbind"), "C07.table", core.ShortKey(begin.Obj)+" -> "+core.ShortKey(cp.Callee)+" after the inherited xid was unbound", w.Pos(cp.Call.Pos()), "no xid is bound again in a suspended scope",
				"after UnbindXid the scope's context is given an xid again ("+cp.Callee.Name()+"): GetXID answers it, so calls made from a NotSupported / RequiresNew scope still carry the suspended transaction's xid to their callees")
		}
	}
	got := map[string]map[string]map[string]bool{} // mode -> in/out -> effect sets seen
	for _, ex := range res.Exits {
		mode := ""
		for _, m := range modes {
			if ex.St.Has("mode:" + m) {
				mode = m
			}
		}
		var effs []string
		for _, e := range []string{"beginnew", "join", "unbind"} {
			if ex.St.Has(e) || (ex.ErrOrigin != nil && inSet(e, ex.ErrOrigin.Tags...)) {
				effs = append(effs, e)
			}
		}
		if ex.Class == flow.ExitErr {
			effs = append(effs, "error")
		}
		sort.Strings(effs)
		e := strings.Join(effs, ",")
		if mode == "" {
			// default case: must be an error
			r.Sites++
			r.Check(ex.Class == flow.ExitErr, "C07.table", core.ShortKey(begin.Obj)+" unknown mode", w.Pos(ex.Pos), "an unknown propagation value is rejected", "an unknown propagation value is not rejected with an error (effects: "+e+")")
			continue
		}
		if got[mode] == nil {
			got[mode] = map[string]map[string]bool{"in": {}, "out": {}}
		}
		switch {
		case ex.St.Has("true:isglobal"):
			got[mode]["in"][e] = true
		case ex.St.Has("false:isglobal"):
			got[mode]["out"][e] = true
		default:
			got[mode]["in"][e] = true
			got[mode]["out"][e] = true
		}
	}
	for _, m := range modes {
		wt, known := want[m]
		for _, side := range []string{"in", "out"} {
			r.Sites++
			key := core.ShortKey(begin.Obj) + " mode " + m + " / " + map[string]string{"in": "existing transaction", "out": "no transaction"}[side]
			if !known {
				r.Undecided("C07.table", key, w.Pos(begin.Decl.Pos()), "propagation constant without an entry in the checker's table")
				continue
			}
			exp := wt.in
			if side == "out" {
				exp = wt.out
			}
			var seen []string
			for e := range got[m][side] {
				seen = append(seen, "{"+e+"}")
			}
			sort.Strings(seen)
			r.Check(len(seen) == 1 && seen[0] == "{"+exp+"}", "C07.table", key, w.Pos(begin.Decl.Pos()), "effects {"+exp+"}",
				"documented effect for "+m+" with "+map[string]string{"in": "an existing transaction", "out": "no transaction"}[side]+" is {"+exp+"} but the code does "+strings.Join(seen, " or ")+" (no exit at all means the mode has no case)")
		}
	}
}

// ---- C07.rpc

var xidKeyConsts = map[string]bool{"XidKey": true, "XidKeyLowercase": true, "SeataXidKey": true}

// metadata readers, by identity
func isMetaRead(f *types.Func) bool {
	if f == nil || f.Pkg() == nil {
		return false
	}
	k := core.FuncKey(f)
	switch {
	case k == "google.golang.org/grpc/metadata.(MD).Get":
		return true
	case k == "github.com/gin-gonic/gin.(Context).GetHeader":
		return true
	case strings.HasSuffix(k, "protocol.(Invocation).GetAttachmentWithDefaultValue"), strings.HasSuffix(k, "protocol.(Invocation).GetAttachment"):
		return true
	case strings.HasSuffix(k, "base.(Invocation).GetAttachmentWithDefaultValue"), strings.HasSuffix(k, "base.(Invocation).GetAttachment"):
		return true
	}
	return false
}

func isMetaWrite(f *types.Func) bool {
	if f == nil {
		return false
	}
	k := core.FuncKey(f)
	return strings.HasSuffix(k, "(Invocation).SetAttachment")
}

// keyConst returns the key constant of a metadata access: const or strings.ToLower(const).
func keyConst(info *types.Info, e ast.Expr) *types.Const {
	if c := core.ConstObj(info, e); c != nil {
		return c
	}
	if call, ok := ast.Unparen(e).(*ast.CallExpr); ok && len(call.Args) == 1 {
		if f := core.Callee(info, call); f != nil && f.Pkg() != nil && f.Pkg().Path() == "strings" && (f.Name() == "ToLower" || f.Name() == "ToUpper") {
			return core.ConstObj(info, call.Args[0])
		}
	}
	return nil
}

// keyConstSet: the key constants a metadata key expression may denote — a constant, strings.ToLower/ToUpper of
// one, the element variable of a range over a slice (literal or package-level variable) of such constants, or a
// parameter of a helper of the package (then: whatever its callers pass). ok is false when some possibility is not
// a constant.
func keyConstSet(w *core.World, fn *core.FuncInfo, e ast.Expr, depth int) (out []*types.Const, ok bool) {
	info := fn.Pkg.TypesInfo
	if depth <= 0 {
		return nil, false
	}
	if c := keyConst(info, e); c != nil {
		return []*types.Const{c}, true
	}
	e = ast.Unparen(e)
	if call, isCall := e.(*ast.CallExpr); isCall && len(call.Args) == 1 {
		if f := core.Callee(info, call); f != nil && f.Pkg() != nil && f.Pkg().Path() == "strings" && (f.Name() == "ToLower" || f.Name() == "ToUpper") {
			return keyConstSet(w, fn, call.Args[0], depth)
		}
	}
	elems := func(pkg *packages.Package, lit ast.Expr) ([]*types.Const, bool) {
		cl, isLit := ast.Unparen(lit).(*ast.CompositeLit)
		if !isLit || len(cl.Elts) == 0 {
			return nil, false
		}
		var cs []*types.Const
		for _, el := range cl.Elts {
			c := keyConst(pkg.TypesInfo, el)
			if c == nil {
				return nil, false
			}
			cs = append(cs, c)
		}
		return cs, true
	}
	id, isID := e.(*ast.Ident)
	if !isID {
		return nil, false
	}
	v, isVar := info.Uses[id].(*types.Var)
	if !isVar {
		return nil, false
	}
	if isParam(fn, v) {
		// every caller in the package
		sig := fn.Obj.Type().(*types.Signature)
		idx := -1
		for i := 0; i < sig.Params().Len(); i++ {
			if sig.Params().At(i) == v {
				idx = i
			}
		}
		n := 0
		all := true
		for _, cs := range w.Callers(fn.Obj) {
			if w.IsTestFile(cs.Call.Pos()) || cs.Caller == nil {
				continue
			}
			n++
			if idx < 0 || idx >= len(cs.Call.Args) {
				all = false
				continue
			}
			sub, ok := keyConstSet(w, cs.Caller, cs.Call.Args[idx], depth-1)
			if !ok {
				all = false
			}
			out = append(out, sub...)
		}
		return out, all && n > 0
	}
	defs := localDefs(fn, v)
	if len(defs) != 1 || !defs[0].rng {
		return nil, false
	}
	// range over a slice literal or a package-level slice variable initialised with one (never reassigned)
	src := ast.Unparen(defs[0].rhs)
	if cs, ok := elems(fn.Pkg, src); ok {
		return cs, true
	}
	var gv *types.Var
	switch x := src.(type) {
	case *ast.Ident:
		gv, _ = info.Uses[x].(*types.Var)
	case *ast.SelectorExpr:
		gv, _ = info.Uses[x.Sel].(*types.Var)
	}
	if gv == nil || gv.Pkg() == nil || gv.Parent() != gv.Pkg().Scope() {
		return nil, false
	}
	if _, mutated := runtimeMutatedGlobals(w)[gv]; mutated {
		return nil, false
	}
	for _, p := range w.ByPath {
		if p.Types != gv.Pkg() {
			continue
		}
		for _, file := range p.Syntax {
			for _, d := range file.Decls {
				gd, isGen := d.(*ast.GenDecl)
				if !isGen {
					continue
				}
				for _, sp := range gd.Specs {
					vs, isVS := sp.(*ast.ValueSpec)
					if !isVS {
						continue
					}
					for i, nm := range vs.Names {
						if p.TypesInfo.Defs[nm] == gv && i < len(vs.Values) {
							return elems(p, vs.Values[i])
						}
					}
				}
			}
		}
	}
	return nil, false
}

// xidSources expands the value of e inside fn into leaf descriptions, descending into same-package helpers.
func xidSources(w *core.World, fn *core.FuncInfo, e ast.Expr, depth int, keys map[string]bool, bad *[]string) {
	info := fn.Pkg.TypesInfo
	if depth == 0 {
		*bad = append(*bad, "too deep")
		return
	}
	e = ast.Unparen(e)
	switch x := e.(type) {
	case *ast.BasicLit:
		if x.Value != `""` {
			*bad = append(*bad, "literal "+x.Value)
		}
	case *ast.IndexExpr:
		xidSources(w, fn, x.X, depth, keys, bad)
	case *ast.Ident:
		v, ok := info.Uses[x].(*types.Var)
		if !ok {
			*bad = append(*bad, "identifier "+x.Name)
			return
		}
		if isParam(fn, v) {
			// a helper of the integration that is handed the xid: what its callers (in the package) hand it
			idx := -1
			for i, p := range paramObjs(fn) {
				if p == types.Object(v) {
					idx = i
				}
			}
			var sites []*core.CallSite
			for _, cs := range w.Callers(fn.Obj) {
				if cs.Caller.Pkg == fn.Pkg && !w.IsTestFile(cs.Caller.Decl.Pos()) && !cs.Iface && cs.Caller != fn {
					sites = append(sites, cs)
				}
			}
			if idx < 0 || len(sites) == 0 || fn.Obj.Exported() {
				*bad = append(*bad, "parameter "+v.Name())
				return
			}
			for _, cs := range sites {
				if idx >= len(cs.Call.Args) {
					*bad = append(*bad, "parameter "+v.Name())
					continue
				}
				xidSources(w, cs.Caller, cs.Call.Args[idx], depth-1, keys, bad)
			}
			return
		}
		defs := localDefs(fn, v)
		if len(defs) == 0 {
			return // zero value
		}
		for _, d := range defs {
			if be, ok := d.rhs.(*ast.BinaryExpr); ok && be.Op == token.ADD {
				*bad = append(*bad, "string arithmetic")
				continue
			}
			if lit, ok := d.rhs.(*ast.BasicLit); ok && lit.Value == "zero" {
				continue
			}
			xidSources(w, fn, d.rhs, depth-1, keys, bad)
		}
	case *ast.CallExpr:
		callee := core.Callee(info, x)
		if isMetaRead(callee) {
			if len(x.Args) == 0 {
				*bad = append(*bad, "metadata read without key")
				return
			}
			cs, okKeys := keyConstSet(w, fn, x.Args[0], 3)
			for _, c := range cs {
				if !xidKeyConsts[c.Name()] {
					okKeys = false
				}
			}
			if !okKeys || len(cs) == 0 {
				*bad = append(*bad, "metadata read under key "+core.ExprString(x.Args[0]))
				return
			}
			for _, c := range cs {
				keys[strings.ToLower(constant.StringVal(c.Val()))] = true
			}
			// default value argument must be empty
			if len(x.Args) == 2 {
				if v := core.ConstVal(info, x.Args[1]); v == nil || v.Kind() != constant.String || constant.StringVal(v) != "" {
					*bad = append(*bad, "non-empty default "+core.ExprString(x.Args[1]))
				}
			}
			return
		}
		if g := w.Info(callee); g != nil && g.Pkg == fn.Pkg {
			n := 0
			ast.Inspect(g.Decl.Body, func(m ast.Node) bool {
				if _, ok := m.(*ast.FuncLit); ok {
					return false
				}
				if rs, ok := m.(*ast.ReturnStmt); ok && len(rs.Results) == 1 {
					n++
					xidSources(w, g, rs.Results[0], depth-1, keys, bad)
				}
				return true
			})
			if n == 0 {
				*bad = append(*bad, "helper "+g.Obj.Name()+" without a single-value return")
			}
			return
		}
		*bad = append(*bad, "call "+core.ExprString(x.Fun))
	default:
		*bad = append(*bad, "expression "+core.ExprString(e))
	}
}

func c07RPC(r *core.Run) {
	w := r.W
	for _, pkgRel := range []string{"pkg/integration/grpc", "pkg/integration/gin", "pkg/integration/dubbo"} {
		p := w.Pkg(pkgRel)
		if p == nil {
			r.Anchor("C07.rpc", nil, "integration package "+pkgRel)
			continue
		}
		writeKeys, readKeys := map[string]bool{}, map[string]bool{}
		nRead, nWrite := 0, 0
		for _, f := range w.SortedFuncs() {
			if f.Pkg != p || w.IsTestFile(f.Decl.Pos()) {
				continue
			}
			info := f.Pkg.TypesInfo
			// function literals returned by constructors (gin middleware) are part of f
			ast.Inspect(f.Decl.Body, func(n ast.Node) bool {
				switch x := n.(type) {
				case *ast.CallExpr:
					callee := core.Callee(info, x)
					// (tm.SetXID(fresh, xid), or a constructor of tm verified to answer InitSeataContext(parent) with
					// its xid parameter bound)
					ctor := false
					if h := w.Info(callee); h != nil && h.Pkg.PkgPath == pTM && len(x.Args) == 2 && !core.IsPkgFunc(callee, pTM, "SetXID") && scopeContextCtor(w, h) {
						ctor = true
					}
					if (core.IsPkgFunc(callee, pTM, "SetXID") || ctor) && len(x.Args) == 2 {
						nRead++
						r.Fn(f)
						r.Sites++
						var bad []string
						xidSources(w, f, x.Args[1], 12, readKeys, &bad)
						key := core.ShortKey(f.Obj) + " : xid given to tm.SetXID"
						r.Check(len(bad) == 0, "C07.rpc", key, w.Pos(x.Pos()), "derives only from metadata reads under the accepted key constants",
							"the xid installed on the callee side also derives from: "+strings.Join(uniq(bad), "; ")+" — it would not arrive unchanged")
						// the xid is installed whatever its text: the conditions guarding this call compare the xid only
						// with "" / another value / its length — never pass it to a predicate on its content
						{
							xv := core.ObjOf(info, x.Args[1])
							filtered := ""
							var stack []ast.Node
							ast.Inspect(f.Decl.Body, func(m ast.Node) bool {
								if m == nil {
									stack = stack[:len(stack)-1]
									return true
								}
								stack = append(stack, m)
								if m != ast.Node(x) {
									return true
								}
								for _, anc := range stack {
									ifs, ok := anc.(*ast.IfStmt)
									if !ok {
										continue
									}
									ast.Inspect(ifs.Cond, func(c ast.Node) bool {
										call, ok := c.(*ast.CallExpr)
										if !ok {
											return true
										}
										if id, ok := ast.Unparen(call.Fun).(*ast.Ident); ok && id.Name == "len" {
											return true
										}
										for _, a := range call.Args {
											if xv != nil && mentions(info, a, xv) {
												filtered = core.ExprString(call)
											}
										}
										return true
									})
								}
								return true
							})
							r.Sites++
							r.Check(filtered == "", "C07.rpc", core.ShortKey(f.Obj)+" : the xid is installed whatever its text", w.Pos(x.Pos()), "guarded by emptiness / equality tests only",
								"whether the carried xid is installed depends on "+filtered+", a predicate on its text: an xid of another shape (IPv6 coordinator address, bare id) is silently dropped and the callee starts a transaction of its own instead of joining the caller's")
						}
						// fresh context: the reaching definition of the context argument is tm.InitSeataContext(...)
						def := reachingCallee(w, f, x, 0)
						r.Check(ctor || core.IsPkgFunc(def, pTM, "InitSeataContext"), "C07.rpc", core.ShortKey(f.Obj)+" : callee context is fresh", w.Pos(x.Pos()), "tm.InitSeataContext(...) result: role is not Launcher",
							"the xid is installed into a context whose value at this point comes from "+core.ShortKey(def)+" rather than a fresh tm.InitSeataContext(...): the callee could inherit the Launcher role")
					}
					// any other call that takes an xid key constant together with the xid: which semantics?
					if callee != nil && !isMetaWrite(callee) && !core.IsPkgFunc(callee, pTM, "SetXID") && len(x.Args) >= 2 {
						var kc *types.Const
						hasXid := false
						for _, a := range x.Args {
							if c := keyConst(info, a); c != nil && xidKeyConsts[c.Name()] {
								kc = c
							} else if strings.Contains(origin(f, a, 4), "pkg/tm.GetXID(") {
								hasXid = true
							}
						}
						if kc != nil && hasXid {
							nWrite++
							r.Fn(f)
							r.Sites++
							writeKeys[strings.ToLower(constant.StringVal(kc.Val()))] = true
							nm := callee.Name()
							appendLike := strings.HasPrefix(nm, "Append") || strings.HasPrefix(nm, "Add")
							r.Check(!appendLike && (strings.HasPrefix(nm, "Set") || nm == "Pairs" || nm == "New"), "C07.rpc", core.ShortKey(f.Obj)+" : the xid replaces whatever the outgoing metadata carried under "+kc.Name(), w.Pos(x.Pos()),
								"set semantics", "the xid is added with "+core.ShortKey(callee)+", which keeps values already present under the key: metadata forwarded from an incoming call then carries [old xid, current xid] and the callee, which reads the first value, joins the wrong transaction (or a transaction the scope had suspended)")
						}
					}
					if isMetaWrite(callee) && len(x.Args) == 2 {
						c := keyConst(info, x.Args[0])
						o := origin(f, x.Args[1], 4)
						// (a helper of the integration handed the xid: in the terms of its caller)
						if strings.HasPrefix(o, "param:") && !f.Obj.Exported() {
							var tops []*core.FuncInfo
							for _, cs := range w.Callers(f.Obj) {
								if cs.Caller.Pkg == f.Pkg && cs.Caller != f && !w.IsTestFile(cs.Caller.Decl.Pos()) {
									tops = append(tops, cs.Caller)
								}
							}
							if tops = dedupFns(tops); len(tops) == 1 {
								o = originViaStr(tops[0], f, o, 4)
							}
						}
						if (c != nil && xidKeyConsts[c.Name()]) || strings.Contains(o, "pkg/tm.GetXID(") {
							nWrite++
							r.Fn(f)
							r.Sites++
							if c != nil {
								writeKeys[strings.ToLower(constant.StringVal(c.Val()))] = true
							}
							r.Check(o == "call:pkg/tm.GetXID(param:ctx)", "C07.rpc", core.ShortKey(f.Obj)+" : value written under "+constName(c), w.Pos(x.Pos()), "tm.GetXID(ctx) unmodified", "the value written to transport metadata derives from "+o+", not from tm.GetXID(ctx) unmodified")
						}
					}
				case *ast.CompositeLit:
					// header := map[string]string{constant.XidKey: xid}
					if t := info.TypeOf(x); t == nil || !strings.HasPrefix(t.Underlying().String(), "map[string]") {
						return true
					}
					for _, el := range x.Elts {
						kv, ok := el.(*ast.KeyValueExpr)
						if !ok {
							continue
						}
						c := keyConst(info, kv.Key)
						o := origin(f, kv.Value, 4)
						if (c != nil && xidKeyConsts[c.Name()]) || strings.Contains(o, "pkg/tm.GetXID(") {
							nWrite++
							r.Fn(f)
							r.Sites++
							if c != nil {
								writeKeys[strings.ToLower(constant.StringVal(c.Val()))] = true
							}
							r.Check(o == "call:pkg/tm.GetXID(param:ctx)", "C07.rpc", core.ShortKey(f.Obj)+" : value written under "+constName(c), w.Pos(kv.Pos()), "tm.GetXID(ctx) unmodified", "the value written to transport metadata derives from "+o+", not from tm.GetXID(ctx) unmodified")
						}
					}
				case *ast.AssignStmt:
					// header[constant.XidKey] = xid
					for i, l := range x.Lhs {
						ix, ok := ast.Unparen(l).(*ast.IndexExpr)
						if !ok || i >= len(x.Rhs) {
							continue
						}
						c := keyConst(info, ix.Index)
						o := origin(f, x.Rhs[i], 4)
						if t := info.TypeOf(ix.X); t == nil || !strings.HasPrefix(t.Underlying().String(), "map[string]") {
							continue
						}
						if (c != nil && xidKeyConsts[c.Name()]) || strings.Contains(o, "pkg/tm.GetXID(") {
							nWrite++
							r.Fn(f)
							r.Sites++
							if c != nil {
								writeKeys[strings.ToLower(constant.StringVal(c.Val()))] = true
							}
							r.Check(o == "call:pkg/tm.GetXID(param:ctx)", "C07.rpc", core.ShortKey(f.Obj)+" : value written under "+constName(c), w.Pos(x.Pos()), "tm.GetXID(ctx) unmodified", "the value written to transport metadata derives from "+o+", not from tm.GetXID(ctx) unmodified")
						}
					}
				}
				return true
			})
		}
		if nRead == 0 {
			r.Bad("C07.rpc", pkgRel+" : callee side installs the xid", "", "no tm.SetXID call found in the integration")
		}
		// gin ships a server middleware only (confirmed by reading): no caller side to check there
		if nWrite == 0 && pkgRel != "pkg/integration/gin" {
			r.Bad("C07.rpc", pkgRel+" : caller side writes the xid into the transport metadata", "", "no write of tm.GetXID(ctx) under an xid key constant found in the integration: the xid does not travel")
		}
		if nWrite > 0 {
			common := false
			for k := range writeKeys {
				if readKeys[k] {
					common = true
				}
			}
			r.Sites++
			r.Check(common, "C07.rpc", pkgRel+" : writer keys ∩ reader keys", "", "the caller side writes a key the callee side reads (case-insensitively)", "no metadata key written by the caller side is read by the callee side")
		}
	}
}

// reachingCallee returns the callee whose result is the value of argument argIdx of call at that program point
// (reaching definition from the path engine; nil if unknown or merged).
func reachingCallee(w *core.World, fn *core.FuncInfo, call *ast.CallExpr, argIdx int) *types.Func {
	info := fn.Pkg.TypesInfo
	if argIdx >= len(call.Args) {
		return nil
	}
	obj := core.ObjOf(info, call.Args[argIdx])
	if obj == nil {
		if c, ok := ast.Unparen(call.Args[argIdx]).(*ast.CallExpr); ok {
			return core.Callee(info, c)
		}
		return nil
	}
	var out *types.Func
	sp := &flow.Spec{W: w}
	sp.Visit = func(pkg *packages.Package, n ast.Node, st *flow.State) {
		found := false
		ast.Inspect(n, func(m ast.Node) bool {
			if m == ast.Node(call) {
				found = true
			}
			return !found
		})
		if found {
			if or := st.Def[obj]; or != nil {
				out = or.Callee
			}
		}
	}
	// innermost enclosing function literal
	var lit *ast.FuncLit
	for _, n := range enclosing(fn.Decl.Body, call) {
		if l, ok := n.(*ast.FuncLit); ok {
			lit = l
		}
	}
	if lit != nil {
		sp.AnalyzeLitSeed(fn.Pkg, lit, nil)
	} else {
		sp.Analyze(fn)
	}
	return out
}

// c07FreshInit: tm.InitSeataContext always answers a context whose ContextVariable is newly allocated. Every caller
// that isolates a scope (WithGlobalTx for a nested scope, the rpc integrations, TCC phase two) relies on that: a
// variable shared with the incoming context lets the inner scope overwrite the outer scope's xid, role and name.
func c07FreshInit(r *core.Run, rule string) {
	w := r.W
	f := r.Anchor(rule, w.Func("pkg/tm", "", "InitSeataContext"), "tm.InitSeataContext")
	if f == nil {
		return
	}
	info := f.Pkg.TypesInfo
	fresh := func(e ast.Expr) bool {
		e = ast.Unparen(e)
		if u, ok := e.(*ast.UnaryExpr); ok && u.Op == token.AND {
			_, isLit := ast.Unparen(u.X).(*ast.CompositeLit)
			return isLit
		}
		if c, ok := e.(*ast.CallExpr); ok {
			if id, ok := c.Fun.(*ast.Ident); ok && id.Name == "new" {
				return true
			}
		}
		return false
	}
	n := 0
	ast.Inspect(f.Decl.Body, func(x ast.Node) bool {
		rs, ok := x.(*ast.ReturnStmt)
		if !ok || len(rs.Results) != 1 {
			return true
		}
		n++
		r.Sites++
		key := core.ShortKey(f.Obj) + " answers a context with a newly allocated variable"
		c, ok := ast.Unparen(rs.Results[0]).(*ast.CallExpr)
		if !ok || core.Callee(info, c) == nil || core.Callee(info, c).Name() != "WithValue" || len(c.Args) != 3 {
			r.Bad(rule, key, w.Pos(rs.Pos()), "this return hands back '"+core.ExprString(rs.Results[0])+"', not context.WithValue(ctx, key, <new variable>): the caller keeps working on the incoming context's variable, so a nested scope overwrites the enclosing scope's xid / role / name")
			return true
		}
		bad := ""
		v := ast.Unparen(c.Args[2])
		if !fresh(v) {
			id, isId := v.(*ast.Ident)
			lv, _ := info.Uses[id].(*types.Var)
			if !isId || lv == nil {
				bad = core.ExprString(v)
			} else {
				for _, d := range localDefs(f, lv) {
					if !fresh(d.rhs) {
						bad = lv.Name() + " = " + core.ExprString(d.rhs)
					}
				}
			}
		}
		r.Check(bad == "", rule, key, w.Pos(rs.Pos()), "&ContextVariable{} on every path", "the variable stored into the new context can be an existing one ("+bad+"): a nested scope then shares, and overwrites, the enclosing scope's xid / role / name, and the enclosing initiator skips or misdirects its own second phase")
		return true
	})
	if n == 0 {
		r.Undecided(rule, core.ShortKey(f.Obj)+" returns", w.Pos(f.Decl.Pos()), "no return found")
	}
}

// scopeContextHelper: h(parent) returns, on every path, a context freshly made by tm.InitSeataContext(parent) and,
// on the paths where parent holds a transaction (or where that is unknown), SetXID(fresh, GetXID(parent)) was applied.
func scopeContextHelper(w *core.World, h *core.FuncInfo) bool {
	ps := paramObjs(h)
	if len(ps) != 1 || h.Decl.Body == nil {
		return false
	}
	parent := ps[0]
	info := h.Pkg.TypesInfo
	isInit := func(e ast.Expr) bool {
		c, ok := ast.Unparen(e).(*ast.CallExpr)
		return ok && core.IsPkgFunc(core.Callee(info, c), pTM, "InitSeataContext") && len(c.Args) == 1 && isObj(info, c.Args[0], parent)
	}
	fresh := map[types.Object]bool{}
	ast.Inspect(h.Decl.Body, func(n ast.Node) bool {
		if as, ok := n.(*ast.AssignStmt); ok && len(as.Lhs) == 1 && len(as.Rhs) == 1 && isInit(as.Rhs[0]) {
			if o := core.ObjOf(info, as.Lhs[0]); o != nil && o != parent {
				fresh[o] = true
			}
		}
		return true
	})
	sp := &flow.Spec{W: w, Depth: 0, Inline: -1, Split: []flow.Tag{"true:isglobal", "false:isglobal"},
		Classify: func(pkg *packages.Package, call *ast.CallExpr, callee *types.Func) []flow.Tag {
			switch {
			case core.IsPkgFunc(callee, pTM, "IsGlobalTx") && len(call.Args) == 1 && isObj(pkg.TypesInfo, call.Args[0], parent):
				return []flow.Tag{"isglobal"}
			case core.IsPkgFunc(callee, pTM, "SetXID") && len(call.Args) == 2:
				if o := core.ObjOf(pkg.TypesInfo, call.Args[0]); o != nil && fresh[o] && strings.Contains(origin(h, call.Args[1], 4), "pkg/tm.GetXID(param:"+parent.Name()+")") {
					return []flow.Tag{"setxid"}
				}
			}
			return nil
		}}
	res := sp.Analyze(h)
	if len(res.Exits) == 0 {
		return false
	}
	for _, ex := range res.Exits {
		if len(ex.Results) != 1 {
			return false
		}
		e := ex.Results[0]
		isFresh := isInit(e)
		if o := core.ObjOf(info, e); o != nil && fresh[o] {
			isFresh = true
		}
		if !isFresh {
			return false
		}
		if !(ex.St.Has("false:isglobal") || ex.St.Has("setxid")) {
			return false
		}
	}
	return true
}

// scopeContextCtor: h(parent, xid) answers on every return a context made by InitSeataContext(parent) on which
// SetXID(.., xid) was called with its own xid parameter.
func scopeContextCtor(w *core.World, h *core.FuncInfo) bool {
	ps := paramObjs(h)
	if len(ps) != 2 || h.Decl.Body == nil {
		return false
	}
	parent, xid := ps[0], ps[1]
	info := h.Pkg.TypesInfo
	sp := &flow.Spec{W: w, Depth: 0, Inline: -1,
		AssignTags: func(pkg *packages.Package, as *ast.AssignStmt) []flow.Tag {
			if len(as.Lhs) != 1 || len(as.Rhs) != 1 {
				return nil
			}
			o := core.ObjOf(pkg.TypesInfo, as.Lhs[0])
			if o == nil {
				return nil
			}
			if c, ok := ast.Unparen(as.Rhs[0]).(*ast.CallExpr); ok && core.IsPkgFunc(core.Callee(pkg.TypesInfo, c), pTM, "InitSeataContext") && len(c.Args) == 1 && isObj(pkg.TypesInfo, c.Args[0], parent) {
				return []flow.Tag{"fresh:" + o.Name(), "-bound:" + o.Name()}
			}
			return []flow.Tag{"-fresh:" + o.Name(), "-bound:" + o.Name()}
		},
		Classify: func(pkg *packages.Package, call *ast.CallExpr, callee *types.Func) []flow.Tag {
			if core.IsPkgFunc(callee, pTM, "SetXID") && len(call.Args) == 2 && isObj(pkg.TypesInfo, call.Args[1], xid) {
				if o := core.ObjOf(pkg.TypesInfo, call.Args[0]); o != nil {
					return []flow.Tag{"bound:" + o.Name()}
				}
			}
			return nil
		}}
	res := sp.Analyze(h)
	if len(res.Exits) == 0 {
		return false
	}
	for _, ex := range res.Exits {
		if len(ex.Results) != 1 {
			return false
		}
		o := core.ObjOf(info, ex.Results[0])
		if o == nil || !ex.St.Has("fresh:"+o.Name()) || !ex.St.Has("bound:"+o.Name()) {
			return false
		}
	}
	return true
}

// carriesCallerXid: e is GetXID(ctx), or h(ctx) with h answering GetXID(its parameter) on every return where
// IsGlobalTx(parameter) is known true.
func carriesCallerXid(w *core.World, f *core.FuncInfo, e ast.Expr, ctxParam types.Object) bool {
	info := f.Pkg.TypesInfo
	c, ok := ast.Unparen(e).(*ast.CallExpr)
	if !ok || len(c.Args) != 1 || !isObj(info, c.Args[0], ctxParam) {
		return false
	}
	callee := core.Callee(info, c)
	if core.IsPkgFunc(callee, pTM, "GetXID") {
		return true
	}
	h := w.Info(callee)
	if h == nil || h.Pkg.PkgPath != pTM || h.Decl.Body == nil || len(paramObjs(h)) != 1 {
		return false
	}
	parent := paramObjs(h)[0]
	hinfo := h.Pkg.TypesInfo
	sp := &flow.Spec{W: w, Depth: 0, Inline: -1, Split: []flow.Tag{"true:isglobal", "false:isglobal"},
		Classify: func(pkg *packages.Package, call *ast.CallExpr, callee *types.Func) []flow.Tag {
			if core.IsPkgFunc(callee, pTM, "IsGlobalTx") && len(call.Args) == 1 && isObj(pkg.TypesInfo, call.Args[0], parent) {
				return []flow.Tag{"isglobal"}
			}
			return nil
		}}
	res := sp.Analyze(h)
	n := 0
	for _, ex := range res.Exits {
		if ex.St.Has("false:isglobal") {
			continue
		}
		n++
		if len(ex.Results) != 1 || !strings.Contains(origin(h, ex.Results[0], 3), "pkg/tm.GetXID(param:"+parent.Name()+")") {
			return false
		}
	}
	_ = hinfo
	return n > 0
}

// c07XidAxiom: IsGlobalTx(ctx) implies GetXID(ctx) != "" — IsGlobalTx answers true only as `<variable>.Xid != ""`,
// and GetXID returns that same field unless it is empty (only then it falls back to something else).
func c07XidAxiom(r *core.Run) bool {
	w := r.W
	ig, gx := w.Func("pkg/tm", "", "IsGlobalTx"), w.Func("pkg/tm", "", "GetXID")
	if ig == nil || gx == nil || ig.Decl.Body == nil || gx.Decl.Body == nil {
		return false
	}
	ok := true
	sawTest := false
	ast.Inspect(ig.Decl.Body, func(n ast.Node) bool {
		rs, isRet := n.(*ast.ReturnStmt)
		if !isRet || len(rs.Results) != 1 {
			return true
		}
		e := ast.Unparen(rs.Results[0])
		if v := core.ConstVal(ig.Pkg.TypesInfo, e); v != nil && v.Kind() == constant.Bool && !constant.BoolVal(v) {
			return true
		}
		be, isBin := e.(*ast.BinaryExpr)
		if isBin && be.Op == token.NEQ {
			if sel, isSel := ast.Unparen(be.X).(*ast.SelectorExpr); isSel && sel.Sel.Name == "Xid" {
				if v := core.ConstVal(ig.Pkg.TypesInfo, be.Y); v != nil && v.Kind() == constant.String && constant.StringVal(v) == "" {
					sawTest = true
					return true
				}
			}
		}
		ok = false
		return true
	})
	if !ok || !sawTest {
		return false
	}
	// GetXID: the returned local starts as <variable>.Xid and is reassigned only under `if it == ""`
	info := gx.Pkg.TypesInfo
	var ret types.Object
	good := true
	ast.Inspect(gx.Decl.Body, func(n ast.Node) bool {
		rs, isRet := n.(*ast.ReturnStmt)
		if !isRet || len(rs.Results) != 1 {
			return true
		}
		e := ast.Unparen(rs.Results[0])
		if v := core.ConstVal(info, e); v != nil && v.Kind() == constant.String && constant.StringVal(v) == "" {
			// only where there is no seata variable at all (IsGlobalTx is false there too)
			return true
		}
		if o := core.ObjOf(info, e); o != nil {
			ret = o
			return true
		}
		if sel, isSel := e.(*ast.SelectorExpr); isSel && sel.Sel.Name == "Xid" {
			return true
		}
		good = false
		return true
	})
	if !good {
		return false
	}
	if ret != nil {
		v, isVar := ret.(*types.Var)
		if !isVar {
			return false
		}
		first := true
		for _, d := range localDefsInOrder(gx, v) {
			if first {
				first = false
				sel, isSel := ast.Unparen(d.rhs).(*ast.SelectorExpr)
				if !isSel || sel.Sel.Name != "Xid" {
					return false
				}
				continue
			}
			if !d.underEmptyTest {
				return false
			}
		}
		if first {
			return false
		}
	}
	r.Sites++
	r.OK("C07.isolation", "premise: IsGlobalTx(ctx) implies GetXID(ctx) is not empty", w.Pos(gx.Decl.Pos()), "IsGlobalTx tests Xid != \"\"; GetXID returns Xid unless it is empty")
	return true
}

type orderedDef struct {
	rhs            ast.Expr
	underEmptyTest bool
}

// localDefsInOrder: the assignments to v in source order, each with whether it sits in the body of `if v == ""`.
func localDefsInOrder(fn *core.FuncInfo, v *types.Var) []orderedDef {
	info := fn.Pkg.TypesInfo
	var out []orderedDef
	var stack []ast.Node
	ast.Inspect(fn.Decl.Body, func(n ast.Node) bool {
		if n == nil {
			stack = stack[:len(stack)-1]
			return true
		}
		stack = append(stack, n)
		as, ok := n.(*ast.AssignStmt)
		if !ok {
			return true
		}
		for i, l := range as.Lhs {
			if core.ObjOf(info, l) != v || len(as.Lhs) != len(as.Rhs) {
				continue
			}
			under := false
			for j := len(stack) - 2; j >= 1; j-- {
				blk, isBlk := stack[j].(*ast.BlockStmt)
				ifs, isIf := stack[j-1].(*ast.IfStmt)
				if isBlk && isIf && ifs.Body == blk {
					if be, ok := ast.Unparen(ifs.Cond).(*ast.BinaryExpr); ok && be.Op == token.EQL && core.ObjOf(info, be.X) == v {
						if c := core.ConstVal(info, be.Y); c != nil && c.Kind() == constant.String && constant.StringVal(c) == "" {
							under = true
						}
					}
				}
			}
			out = append(out, orderedDef{as.Rhs[i], under})
		}
		return true
	})
	return out
}
