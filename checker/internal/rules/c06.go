package rules

import (
	"go/ast"
	"go/constant"
	"go/token"
	"go/types"
	"sort"
	"strings"

	"golang.org/x/tools/go/packages"

	"seatalint/internal/core"
	"seatalint/internal/flow"
)

func init() { register("C06", checkC06) }

const (
	pFence     = core.Module + "/pkg/rm/tcc/fence"
	pFenceEnum = core.Module + "/pkg/rm/tcc/fence/enum"
	pFenceDao  = core.Module + "/pkg/rm/tcc/fence/store/db/dao"
	pFenceHd   = core.Module + "/pkg/rm/tcc/fence/handler"
)

// enumConsts lists the constants of a named type declared in its package.
func enumConsts(w *core.World, pkgRel, typeName string) []*types.Const {
	p := w.Pkg(pkgRel)
	if p == nil {
		return nil
	}
	var out []*types.Const
	for _, n := range p.Types.Scope().Names() {
		if c, ok := p.Types.Scope().Lookup(n).(*types.Const); ok {
			if nt, ok := c.Type().(*types.Named); ok && nt.Obj().Name() == typeName {
				out = append(out, c)
			}
		}
	}
	sort.Slice(out, func(i, j int) bool { return out[i].Name() < out[j].Name() })
	return out
}

func checkC06(r *core.Run) {
	r.Explain = "Decided statically: (C06.phase) DoFence dispatches every FencePhase constant to the homonymous handler and WithFence runs the business callback only through DoFence's nil-error edge; (C06.transition) since the callback runs iff the handler returns nil, every nil-returning path of PrepareFence/CommitFence/RollbackFence must pass the DAO write that moves the record into that phase's own state (insert Tried / update->Committed / update->Rollbacked); a nil return after an idempotent hit or after inserting a Suspended record lets the business effect run again or run on an empty rollback; (C06.cas) the status update is compare-and-set from StatusTried, the old status reaches the statement arguments, zero affected rows is an error; (C06.suspend) the handlers' `record == nil` branch is live only if the DAO query can return (nil, nil); (C06.enum) each handler distinguishes all FenceStatus constants; (C06.bothtx) FenceTx.Commit/Rollback and the error paths of FenceConn.BeginTx end both the business and the fence transaction. NOT decided: races between two deliveries, failures injected at each statement, atomicity of fence record and business effect (two transactions on two connections)."
	r.Trusted = []string{"go/types, go/cfg", "database/sql"}
	w := r.W
	withFence := r.Anchor("C06.phase", w.Func("pkg/rm/tcc/fence", "", "WithFence"), "fence.WithFence")
	doFence := r.Anchor("C06.phase", w.Func("pkg/rm/tcc/fence", "", "DoFence"), "fence.DoFence")
	hd := w.NamedType("pkg/rm/tcc/fence/handler", "tccFenceWrapperHandler")
	dao := w.NamedType("pkg/rm/tcc/fence/store/db/dao", "TccFenceStoreDatabaseMapper")
	if withFence == nil || doFence == nil || hd == nil || dao == nil {
		r.Anchor("C06.anchor", nil, "fence handler / dao types")
		return
	}
	daoInsert, daoUpdate, daoQuery := w.MethodOf(dao, "InsertTCCFenceDO"), w.MethodOf(dao, "UpdateTCCFenceDO"), w.MethodOf(dao, "QueryTCCFenceDO")
	isDao := func(f *types.Func, name string) bool {
		return isIfaceOrImpl(w, f, "pkg/rm/tcc/fence/store/db/dao", "TCCFenceStore", name) || (f != nil && f.Name() == name && core.RecvNamed(f) == dao)
	}
	// ---- C06.phase: callback only after DoFence succeeded
	{
		sp := &flow.Spec{W: w, Classify: func(pkg *packages.Package, call *ast.CallExpr, callee *types.Func) []flow.Tag {
			if callee == doFence.Obj {
				return []flow.Tag{"dofence"}
			}
			if callee == nil {
				if id, ok := call.Fun.(*ast.Ident); ok {
					if v, ok := pkg.TypesInfo.Uses[id].(*types.Var); ok && isParam(withFence, v) {
						return []flow.Tag{"callback"}
					}
				}
			}
			return nil
		}}
		res := sp.Analyze(withFence)
		n := 0
		for _, cp := range res.Calls {
			if inSet("callback", cp.Tags...) {
				n++
				r.Sites++
				r.Check(cp.Before.Has("ok:dofence") && !cp.InLoop, "C06.phase", "pkg/rm/tcc/fence.WithFence -> business callback", w.Pos(cp.Call.Pos()),
					"the business callback runs only after the fence handler returned nil", "the business callback can run without the fence handler having returned nil")
			}
		}
		if n != 1 {
			r.Bad("C06.phase", "pkg/rm/tcc/fence.WithFence -> business callback", w.Pos(withFence.Decl.Pos()), "expected one call of the callback")
		}
		for _, ex := range res.Exits {
			if ex.St.Has("fail:dofence") {
				r.Sites++
				r.Check(!ex.St.Maybe("callback"), "C06.phase", "pkg/rm/tcc/fence.WithFence return["+ex.Class+"] after the handler refused", w.Pos(ex.Pos),
					"no business callback after the handler returned an error (including the skip signal)", "the business callback can run although the fence handler returned an error")
			}
		}
		errDiscipline(r, "C06.phase", []*core.FuncInfo{withFence}, nil)
	}
	// ---- C06.phase: switch totality and homonymy
	phaseHandler := map[string]string{"FencePhasePrepare": "PrepareFence", "FencePhaseCommit": "CommitFence", "FencePhaseRollback": "RollbackFence"}
	{
		info := doFence.Pkg.TypesInfo
		seen := map[string]bool{}
		// the phase -> handler mapping: a switch over the phase, or guards plus a lookup in a table of handler methods
		tab, _ := dispatchTable(w, doFence, func(e ast.Expr) string {
			if c := core.ConstObj(info, e); c != nil {
				if nt, ok := c.Type().(*types.Named); ok && nt.Obj().Name() == "FencePhase" {
					return c.Name()
				}
			}
			return ""
		})
		var names []string
		for k := range tab {
			names = append(names, k)
		}
		sort.Strings(names)
		for _, name := range names {
			node := tab[name]
			seen[name] = true
			r.Sites++
			var called []string
			retErr := false
			switch x := node.(type) {
			case *ast.SelectorExpr:
				// a table entry naming the handler method (method value or method expression)
				if f, ok := info.Uses[x.Sel].(*types.Func); ok {
					called = append(called, f.Name())
				}
			case *ast.Ident:
				if f, ok := info.Uses[x].(*types.Func); ok {
					called = append(called, f.Name())
				}
			default:
				ast.Inspect(node, func(m ast.Node) bool {
					if c, ok := m.(*ast.CallExpr); ok {
						if f := core.Callee(info, c); f != nil && core.RecvNamed(f) == hd {
							called = append(called, f.Name())
						}
						if f := core.Callee(info, c); f != nil && f.Pkg() != nil && f.Pkg().Path() == "fmt" && f.Name() == "Errorf" {
							retErr = true
						}
					}
					return true
				})
			}
			key := "pkg/rm/tcc/fence.DoFence case " + name
			if want, ok := phaseHandler[name]; ok {
				r.Check(len(called) == 1 && called[0] == want, "C06.phase", key, w.Pos(node.Pos()), "dispatches to "+want, "phase "+name+" must be handled by "+want+", but the case calls ["+strings.Join(called, ",")+"]")
			} else {
				r.Check(len(called) == 0 && retErr, "C06.phase", key, w.Pos(node.Pos()), "no handler; error", "phase "+name+" must be rejected with an error")
			}
		}
		for _, c := range enumConsts(w, "pkg/rm/tcc/fence/enum", "FencePhase") {
			if !seen[c.Name()] {
				r.Bad("C06.phase", "pkg/rm/tcc/fence.DoFence case "+c.Name(), w.Pos(doFence.Decl.Pos()), "no case for fence phase "+c.Name())
			}
		}
	}
	// ---- handlers
	own := map[string]string{"PrepareFence": "StatusTried", "CommitFence": "StatusCommitted", "RollbackFence": "StatusRollbacked"}
	allStatus := enumConsts(w, "pkg/rm/tcc/fence/enum", "FenceStatus")
	writeReach := func(name string) *reachCache {
		return newReach(w, 2, func(f *types.Func) bool { return isDao(f, name) })
	}
	insR, updR := writeReach("InsertTCCFenceDO"), writeReach("UpdateTCCFenceDO")
	_ = daoInsert
	for _, hn := range []string{"PrepareFence", "CommitFence", "RollbackFence"} {
		fn := r.Anchor("C06.transition", methodInfo(w, hd, hn), "fence handler "+hn)
		if fn == nil {
			continue
		}
		info := fn.Pkg.TypesInfo
		// the status a write step writes: the last status constant among its arguments (the DAO's update takes the
		// expected old status before the new one), or the Status field of the record literal handed to the insert
		statusArg := func(call *ast.CallExpr) string {
			out := ""
			for _, a := range call.Args {
				if c := core.ConstObj(info, a); c != nil && strings.HasPrefix(c.Name(), "Status") {
					out = c.Name()
				}
			}
			if out == "" {
				for _, a := range call.Args {
					if cl := findCompositeLit(fn, a); cl != nil {
						if c := core.ConstObj(info, litField(cl, "Status")); c != nil && strings.HasPrefix(c.Name(), "Status") {
							out = c.Name()
						}
					}
				}
			}
			return out
		}
		sp := &flow.Spec{W: w, Depth: 0, Classify: func(pkg *packages.Package, call *ast.CallExpr, callee *types.Func) []flow.Tag {
			if callee == nil {
				return nil
			}
			switch {
			case isDao(callee, "QueryTCCFenceDO"):
				return []flow.Tag{"query"}
			case insR.Hits(callee), updR.Hits(callee):
				// the write step is the call that names the status it writes; a helper of the handler that
				// merely leads to one (no status constant among its arguments) is analysed in the caller's context
				if st := statusArg(call); st != "" || isDao(callee, "InsertTCCFenceDO") || isDao(callee, "UpdateTCCFenceDO") {
					return []flow.Tag{"write:" + st}
				}
			}
			return nil
		}}
		res := sp.Analyze(fn)
		ownTag := "write:" + own[hn]
		for _, ex := range res.Exits {
			// the skip signal ("nothing to do, report success") is never the answer to a failed fence statement: a
			// duplicate key on the suspension insert only says that some record exists now, not which
			if len(ex.Results) == 1 {
				if v, ok := core.ObjOf(info, ex.Results[0]).(*types.Var); ok && v.Pkg() != nil && v.Parent() == v.Pkg().Scope() && strings.Contains(v.Name(), "Skip") {
					failed := ""
					for _, t := range ex.St.MayTags() {
						if strings.HasPrefix(t, "fail:write:") || t == "fail:query" {
							failed = t
						}
					}
					r.Sites++
					r.Check(failed == "", "C06.transition", core.ShortKey(fn.Obj)+" "+exitRole(ex, func(t string) bool { return strings.Contains(t, "write:") || strings.Contains(t, "query") })+" returns the skip signal only when every fence statement succeeded", w.Pos(ex.Pos),
						"no failed fence statement on this path", "the skip signal (reported to the coordinator as success) is returned on a path where a fence statement failed ("+failed+"): the delivery is acknowledged although the record it needed was not written — e.g. a rollback racing a prepare is acknowledged while the tried record stands and cancel never runs")
				}
			}
			if ex.Class == flow.ExitErr {
				continue
			}
			r.Sites++
			role := exitRole(ex, func(t string) bool { return strings.Contains(t, "write:") || strings.Contains(t, "query") })
			key := core.ShortKey(fn.Obj) + " " + role
			viaWrite := ex.ErrOrigin != nil && inSet(ownTag, ex.ErrOrigin.Tags...)
			if ex.ErrOrigin != nil {
				key += " returning " + strings.Join(ex.ErrOrigin.Tags, ",")
			}
			r.Check(ex.St.Has("ok:"+ownTag) || viaWrite, "C06.transition", key, w.Pos(ex.Pos),
				"nil is returned only after the record moved into "+own[hn],
				"the handler can return nil without having written "+own[hn]+" in this call: the business callback would run again (idempotent hit) or on an empty rollback (suspension)")
		}
		// C06.enum: all status constants are distinguished (compared, or handled by the CAS from StatusTried)
		if hn != "PrepareFence" {
			cmp := map[string]bool{"StatusTried": true}
			ast.Inspect(fn.Decl.Body, func(n ast.Node) bool {
				if be, ok := n.(*ast.BinaryExpr); ok && (be.Op == token.EQL || be.Op == token.NEQ) {
					if c := core.ConstObj(info, be.Y); c != nil {
						cmp[c.Name()] = true
					}
				}
				if cc, ok := n.(*ast.CaseClause); ok {
					for _, e := range cc.List {
						if c := core.ConstObj(info, e); c != nil {
							cmp[c.Name()] = true
						}
					}
				}
				return true
			})
			for _, c := range allStatus {
				r.Sites++
				r.Check(cmp[c.Name()], "C06.enum", core.ShortKey(fn.Obj)+" distinguishes "+c.Name(), w.Pos(fn.Decl.Pos()), "status compared (or left to the compare-and-set)", "the handler never tests the stored status against "+c.Name())
			}
			// C06.suspend: the nil-record branch needs a DAO that can answer (nil, nil)
			testsNilRecord := false
			ast.Inspect(fn.Decl.Body, func(n ast.Node) bool {
				if be, ok := n.(*ast.BinaryExpr); ok && be.Op == token.EQL && isNilIdent(info, be.Y) {
					if t := info.TypeOf(be.X); t != nil && strings.HasSuffix(t.String(), "model.TCCFenceDO") {
						testsNilRecord = true
					}
				}
				return true
			})
			if testsNilRecord {
				q := w.Info(daoQuery)
				canNilNil := false
				if q != nil {
					r.Fn(q)
					qres := (&flow.Spec{W: w}).Analyze(q)
					for _, ex := range qres.Exits {
						if ex.Class == flow.ExitOK && len(ex.Results) == 2 && isNilIdent(q.Pkg.TypesInfo, ex.Results[0]) {
							canNilNil = true
						}
					}
				}
				r.Sites++
				r.Check(canNilNil, "C06.suspend", core.ShortKey(fn.Obj)+" : record == nil branch is live", w.Pos(fn.Decl.Pos()),
					"the DAO query returns (nil, nil) when no fence record exists", "the handler tests `record == nil` after `err == nil`, but QueryTCCFenceDO never returns (nil, nil) (no rows is turned into an error): the missing-record branch (suspension on rollback-before-try) is dead code")
			}
		}
		errDiscipline(r, "C06.transition", []*core.FuncInfo{fn}, []idiom{})
	}
	// ---- C06.cas
	for _, f := range w.SortedFuncs() {
		if core.RecvNamed(f.Obj) != hd || w.IsTestFile(f.Decl.Pos()) {
			continue
		}
		for _, cs := range w.Calls(f) {
			if !isDao(cs.Static, "UpdateTCCFenceDO") {
				continue
			}
			r.Sites++
			old := "<none>"
			if len(cs.Call.Args) >= 5 {
				old = origin(f, cs.Call.Args[3], 3)
			}
			r.Check(old == "const:StatusTried", "C06.cas", core.ShortKey(f.Obj)+" -> UpdateTCCFenceDO expected old status", w.Pos(cs.Call.Pos()), "compare-and-set from StatusTried", "the status update expects old status "+old+" instead of StatusTried: a committed/rollbacked/suspended record could be overwritten")
		}
	}
	if u := w.Info(daoUpdate); u != nil {
		r.Fn(u)
		info := u.Pkg.TypesInfo
		ps := paramObjs(u)
		// old status parameter reaches Exec's arguments
		reaches := false
		var oldP types.Object
		for _, p := range ps {
			if p.Name() == "oldStatus" || (len(ps) == 5 && p == ps[3]) {
				oldP = p
			}
		}
		// (the statement may be executed by a helper of the package that is handed the arguments)
		execRes := (&flow.Spec{W: w, Depth: 0, Inline: 3, Classify: func(pkg *packages.Package, call *ast.CallExpr, callee *types.Func) []flow.Tag {
			if stdMethod(callee, pSQL, "Stmt", "Exec") || stdMethod(callee, pSQL, "Stmt", "ExecContext") || stdMethod(callee, pSQL, "Tx", "Exec") || stdMethod(callee, pSQL, "Tx", "ExecContext") {
				return []flow.Tag{"exec"}
			}
			return nil
		}}).Analyze(u)
		for _, cp := range execRes.Calls {
			if !inSet("exec", cp.Tags...) || oldP == nil {
				continue
			}
			for _, a := range cp.Call.Args {
				o := originVia(u, cp.Fn, a, 4)
				if replaceToken(o, "param:"+oldP.Name(), "\x00") != o {
					reaches = true
				}
			}
		}
		r.Sites++
		r.Check(reaches, "C06.cas", core.ShortKey(u.Obj)+" : old status is a statement argument", w.Pos(u.Decl.Pos()), "the expected old status is bound into the UPDATE", "the expected old status never reaches the statement's arguments: the update is unconditional")
		// the statement text has the status predicate
		hasPred := false
		stmtText := ""
		ast.Inspect(u.Decl.Body, func(n ast.Node) bool {
			c, ok := n.(*ast.CallExpr)
			if !ok {
				return true
			}
			g := w.Info(core.Callee(info, c))
			if g == nil || !strings.HasSuffix(g.Pkg.PkgPath, "/store/db/sql") {
				return true
			}
			ast.Inspect(g.Decl.Body, func(m ast.Node) bool {
				if id, ok := m.(*ast.Ident); ok {
					if v, ok := g.Pkg.TypesInfo.Uses[id].(*types.Var); ok && v.Parent() == g.Pkg.Types.Scope() {
						stmtText = foldPkgString(g.Pkg, v, 4)
					}
				}
				return true
			})
			return true
		})
		{
			t := strings.ToLower(stmtText)
			if i := strings.Index(t, "where"); strings.HasPrefix(strings.TrimSpace(t), "update") && i >= 0 && strings.Contains(t[i:], "status = ?") {
				hasPred = true
			}
		}
		r.Check(hasPred, "C06.cas", "fence UPDATE statement has `status = ?` in its WHERE clause", w.Pos(u.Decl.Pos()), "UPDATE ... WHERE ... status = ?", "the fence UPDATE statement does not constrain the old status")
		// zero rows affected is an error
		// (the count is the variable assigned from sql.Result.RowsAffected, wherever in the package that happens)
		counts := map[types.Object]bool{}
		for _, g := range w.Funcs {
			if g.Pkg != u.Pkg || g.Decl == nil || g.Decl.Body == nil {
				continue
			}
			ast.Inspect(g.Decl.Body, func(n ast.Node) bool {
				as, ok := n.(*ast.AssignStmt)
				if !ok || len(as.Rhs) != 1 || len(as.Lhs) < 1 {
					return true
				}
				c, ok := ast.Unparen(as.Rhs[0]).(*ast.CallExpr)
				if !ok {
					return true
				}
				if f := core.Callee(g.Pkg.TypesInfo, c); f != nil && f.Name() == "RowsAffected" {
					if id, ok := as.Lhs[0].(*ast.Ident); ok {
						if o := g.Pkg.TypesInfo.ObjectOf(id); o != nil {
							counts[o] = true
						}
					}
				}
				return true
			})
		}
		res := (&flow.Spec{W: w, Inline: 3, Split: []flow.Tag{"zerorows"}, CondTags: func(pkg *packages.Package, cond ast.Expr, branch bool) []flow.Tag {
			be, ok := ast.Unparen(cond).(*ast.BinaryExpr)
			if !ok {
				return nil
			}
			id, ok := ast.Unparen(be.X).(*ast.Ident)
			if !ok || !counts[pkg.TypesInfo.ObjectOf(id)] {
				return nil
			}
			v := core.ConstVal(pkg.TypesInfo, be.Y)
			if v == nil || v.Kind() != constant.Int {
				return nil
			}
			k, _ := constant.Int64Val(v)
			// the branch on which the count is known to be zero (counts are never negative)
			zero := false
			switch {
			case be.Op == token.EQL && k == 0, be.Op == token.LSS && k == 1, be.Op == token.LEQ && k == 0:
				zero = branch
			case be.Op == token.NEQ && k == 0, be.Op == token.GEQ && k == 1, be.Op == token.GTR && k == 0:
				zero = !branch
			}
			if zero {
				return []flow.Tag{"zerorows"}
			}
			return nil
		}}).Analyze(u)
		// no return that knows "0 rows affected" is a success; and there is a success return at all
		okZero, zeroErr, sawZero := false, true, false
		for _, ex := range res.Exits {
			if ex.Class == flow.ExitOK {
				okZero = true
			}
			if ex.St.Maybe("zerorows") {
				sawZero = true
				if ex.Class != flow.ExitErr {
					zeroErr = false
				}
			}
		}
		zeroErr = zeroErr && sawZero
		r.Check(zeroErr && okZero, "C06.cas", core.ShortKey(u.Obj)+" : zero affected rows is an error", w.Pos(u.Decl.Pos()), "a lost compare-and-set (0 rows) fails", "an update that changes no row (lost compare-and-set) is not reported as an error")
	}
	// ---- C06.cas: the fence record is read with a locking read (serialises two deliveries for one branch)
	if q := w.Info(daoQuery); q != nil {
		r.Fn(q)
		text := ""
		ast.Inspect(q.Decl.Body, func(n ast.Node) bool {
			c, ok := n.(*ast.CallExpr)
			if !ok {
				return true
			}
			g := w.Info(core.Callee(q.Pkg.TypesInfo, c))
			if g == nil || !strings.HasSuffix(g.Pkg.PkgPath, "/store/db/sql") {
				return true
			}
			ast.Inspect(g.Decl.Body, func(m ast.Node) bool {
				if id, ok := m.(*ast.Ident); ok {
					if v, ok := g.Pkg.TypesInfo.Uses[id].(*types.Var); ok && v.Parent() == g.Pkg.Types.Scope() {
						text = foldPkgString(g.Pkg, v, 4)
					}
				}
				return true
			})
			return true
		})
		t := strings.ToLower(strings.Join(strings.Fields(text), " "))
		r.Sites++
		r.Check(strings.HasPrefix(t, "select") && strings.Contains(t, "for update"), "C06.cas", core.ShortKey(q.Obj)+" : the fence record is read FOR UPDATE", w.Pos(q.Decl.Pos()), "select ... for update",
			"the fence record is read without a row lock ('"+t+"'): two deliveries for the same branch both read 'tried' and both go on; only the compare-and-set of the update separates them afterwards")
	} else {
		r.Anchor("C06.cas", nil, "TCCFenceStore.QueryTCCFenceDO implementation")
	}
	// ---- C06.bothtx
	c06BothTx(r)
	r.Floor("C06.phase", 6)
	r.Floor("C06.transition", 5)
	r.Floor("C06.enum", 8)
	r.Floor("C06.cas", 4)
	r.Floor("C06.bothtx", 4)
}

func c06BothTx(r *core.Run) {
	w := r.W
	ftx := w.NamedType("pkg/rm/tcc/fence", "FenceTx")
	fconn := w.NamedType("pkg/rm/tcc/fence", "FenceConn")
	if ftx == nil || fconn == nil {
		r.Anchor("C06.bothtx", nil, "fence.FenceTx / fence.FenceConn")
		return
	}
	classify := func(pkg *packages.Package, call *ast.CallExpr, callee *types.Func) []flow.Tag {
		switch {
		case isDriverTxCommit(callee):
			return []flow.Tag{"bizend", "bizcommit"}
		case isDriverTxRollback(callee):
			return []flow.Tag{"bizend"}
		case stdMethod(callee, pSQL, "Tx", "Commit"):
			return []flow.Tag{"fenceend", "fencecommit"}
		case stdMethod(callee, pSQL, "Tx", "Rollback"):
			return []flow.Tag{"fenceend"}
		case stdMethod(callee, pDriver, "ConnBeginTx", "BeginTx"):
			return []flow.Tag{"bizbegin"}
		case stdMethod(callee, pSQL, "DB", "BeginTx"):
			return []flow.Tag{"fencebegin"}
		case core.IsPkgFunc(callee, pTM, "SetFenceTxBeginedFlag") && len(call.Args) == 2:
			if v := core.ConstVal(pkg.TypesInfo, call.Args[1]); v != nil && v.Kind() == constant.Bool {
				if constant.BoolVal(v) {
					return []flow.Tag{"flagup"}
				}
				return []flow.Tag{"-flagup"}
			}
			return []flow.Tag{"flagup"}
		}
		return nil
	}
	for _, m := range []string{"Commit", "Rollback"} {
		fn := r.Anchor("C06.bothtx", methodInfo(w, ftx, m), "FenceTx."+m)
		if fn == nil {
			continue
		}
		res := (&flow.Spec{W: w, Classify: classify}).Analyze(fn)
		for _, cp := range res.Calls {
			if inSet("fencecommit", cp.Tags...) {
				r.Sites++
				r.Check(cp.Before.Has("ok:bizcommit"), "C06.bothtx", core.ShortKey(fn.Obj)+" fence record becomes durable only after the business commit succeeded", w.Pos(cp.Call.Pos()),
					"fence commit on the nil-error edge of the business commit", "the fence transaction can be committed before (or although) the business transaction has not committed: if the business commit then fails the fence log says the phase was applied, every redelivery is swallowed as a duplicate and the effect is lost for good")
			}
		}
		for _, ex := range res.Exits {
			r.Sites++
			role := exitRole(ex, func(t string) bool { return strings.HasSuffix(t, "bizend") || strings.HasSuffix(t, "fenceend") })
			fenceVia := ex.ErrOrigin != nil && inSet("fenceend", ex.ErrOrigin.Tags...)
			r.Check(ex.St.Has("bizend") && (ex.St.Has("fenceend") || fenceVia), "C06.bothtx", core.ShortKey(fn.Obj)+" "+role, w.Pos(ex.Pos),
				"both the business and the fence transaction are ended", "this return leaves the fence transaction (or the business transaction) open: its connection and the fence row lock leak, and fence record and business effect diverge")
		}
	}
	if fn := r.Anchor("C06.bothtx", methodInfo(w, fconn, "BeginTx"), "FenceConn.BeginTx"); fn != nil {
		info := fn.Pkg.TypesInfo
		sp := &flow.Spec{W: w, Classify: classify}
		res := sp.Analyze(fn)
		// (second reading with the deferred clean-ups run where the function — or a helper of the type that opens
		// the fence transaction and cleans up after itself — leaves: an exit that is closed there is closed)
		closedAtExit := map[string]bool{}
		{
			sp2 := &flow.Spec{W: w, Classify: classify, DeferAtExit: true}
			// (database/sql: the *sql.Tx answered with a nil error is not nil — a clean-up that asks `fenceTx != nil`
			// to see how far the begin got finds it set once the fence begin succeeded)
			var fenceVar types.Object
			ast.Inspect(fn.Decl.Body, func(n ast.Node) bool {
				if as, ok := n.(*ast.AssignStmt); ok && len(as.Rhs) == 1 && len(as.Lhs) == 2 {
					if c, ok := ast.Unparen(as.Rhs[0]).(*ast.CallExpr); ok && stdMethod(core.Callee(info, c), pSQL, "DB", "BeginTx") {
						fenceVar = core.ObjOf(info, as.Lhs[0])
					}
				}
				return true
			})
			nAssign := 0
			ast.Inspect(fn.Decl.Body, func(n ast.Node) bool {
				if as, ok := n.(*ast.AssignStmt); ok {
					for _, l := range as.Lhs {
						if fenceVar != nil && core.ObjOf(info, l) == fenceVar {
							nAssign++
						}
					}
				}
				return true
			})
			if fenceVar != nil && nAssign == 1 {
				sp2.Effect = func(pkg *packages.Package, n ast.Node, st *flow.State) {
					if pkg == fn.Pkg && st.Has("ok:fencebegin") && n.Pos() >= fn.Decl.Pos() && n.End() <= fn.Decl.End() {
						st.SetNil(fenceVar, false)
					}
				}
			}
			for _, ex := range sp2.Analyze(fn).Exits {
				if ex.Class == flow.ExitOK || !ex.St.Has("ok:bizbegin") {
					continue
				}
				k := w.Pos(ex.Pos)
				ok := ex.St.Has("bizend") && (!ex.St.Has("ok:fencebegin") || ex.St.Has("fenceend"))
				if prev, seen := closedAtExit[k]; seen {
					ok = ok && prev
				}
				closedAtExit[k] = ok
			}
		}
		// the deferred cleanup runs only when the function-level err variable it captures is non-nil
		var capt types.Object
		cleans := map[string]bool{}
		ast.Inspect(fn.Decl.Body, func(n ast.Node) bool {
			ds, ok := n.(*ast.DeferStmt)
			if !ok {
				return true
			}
			lit, ok := ast.Unparen(ds.Call.Fun).(*ast.FuncLit)
			if !ok {
				return true
			}
			if len(lit.Body.List) == 1 {
				if ifs, ok := lit.Body.List[0].(*ast.IfStmt); ok {
					if be, ok := ifs.Cond.(*ast.BinaryExpr); ok && be.Op == token.NEQ && isNilIdent(info, be.Y) {
						capt = core.ObjOf(info, be.X)
						sub := sp.AnalyzeLitSeed(fn.Pkg, lit, func(s *flow.State) { s.SetNil(capt, false) })
						for t := range sub.Sum.MustAll {
							cleans[t] = true
						}
					}
				}
			}
			return true
		})
		// on success the fence transaction is still open: it is handed out paired with the business transaction and
		// ends with it — also when the handler answered "skip" (an empty rollback has just written the suspension
		// record in it; ending it early with a rollback discards that record)
		for _, ex := range res.Exits {
			if ex.Class != flow.ExitOK || !ex.St.Has("ok:fencebegin") {
				continue
			}
			r.Sites++
			r.Check(!ex.St.Maybe("fenceend"), "C06.bothtx", core.ShortKey(fn.Obj)+" success hands out the fence transaction still open", w.Pos(ex.Pos),
				"neither committed nor rolled back before the business transaction ends", "on a success path the fence transaction has already been ended here: what the fence handler wrote in it (the suspension record of an empty rollback) no longer shares the fate of the business transaction — a rollback-before-try is acknowledged and leaves no record, so the late try is accepted")
		}
		// the "fence transaction begun" flag makes the next BeginTx on this context hand out the bare business
		// transaction; database/sql retries a begin that failed with a bad connection on the same context, so no
		// failing exit may leave the flag raised
		for _, ex := range res.Exits {
			if ex.Class == flow.ExitOK {
				continue
			}
			r.Sites++
			role := exitRole(ex, func(t string) bool {
				return hasPrefixAny(t, "ok:bizbegin", "fail:bizbegin", "ok:fencebegin", "fail:fencebegin")
			})
			r.Check(!ex.St.Maybe("flagup"), "C06.bothtx", core.ShortKey(fn.Obj)+" "+role+" leaves the fence-begun flag down", w.Pos(ex.Pos),
				"the flag is raised only once both transactions are open and the fence step succeeded", "this failing return leaves the 'fence transaction begun' flag raised on the context: database/sql retries a begin that failed with driver.ErrBadConn on the same context, the retried BeginTx then takes the nested-begin branch and hands out the business transaction without opening a fence transaction or consulting the fence table — the phase runs unfenced (a late try after an empty rollback is admitted, a duplicate commit is applied again)")
		}
		for _, ex := range res.Exits {
			if ex.Class == flow.ExitOK || !ex.St.Has("ok:bizbegin") {
				continue
			}
			r.Sites++
			role := exitRole(ex, func(t string) bool {
				return hasPrefixAny(t, "ok:bizbegin", "ok:fencebegin", "fail:fencebegin", "bizend", "fenceend") && !strings.HasPrefix(t, "defer:")
			})
			deferRuns := capt != nil && ex.St.IsNonNil(capt) && ex.St.Maybe("defer:bizend")
			bizClosed := ex.St.Has("bizend") || (deferRuns && cleans["bizend"])
			fenceClosed := !ex.St.Has("ok:fencebegin") || ex.St.Has("fenceend") || (deferRuns && cleans["fenceend"])
			r.Check(bizClosed && fenceClosed || closedAtExit[w.Pos(ex.Pos)], "C06.bothtx", core.ShortKey(fn.Obj)+" "+role, w.Pos(ex.Pos),
				"error return rolls back every transaction begun so far", "error return with a transaction begun by this function still open (the deferred cleanup does not run here: the error variable it tests is not the one being returned, or it is not yet installed)")
		}
	}
}

// foldPkgString evaluates the initialiser of a package-level string variable built from literals,
// concatenation and other package-level variables; anything else becomes "?".
func foldPkgString(pkg *packages.Package, v *types.Var, depth int) string {
	if depth == 0 {
		return "?"
	}
	for _, f := range pkg.Syntax {
		for _, d := range f.Decls {
			gd, ok := d.(*ast.GenDecl)
			if !ok {
				continue
			}
			for _, sp := range gd.Specs {
				vs, ok := sp.(*ast.ValueSpec)
				if !ok {
					continue
				}
				for i, nm := range vs.Names {
					if pkg.TypesInfo.Defs[nm] == v && i < len(vs.Values) {
						return foldExprString(pkg, vs.Values[i], depth)
					}
				}
			}
		}
	}
	return "?"
}

func foldExprString(pkg *packages.Package, e ast.Expr, depth int) string {
	if v := core.ConstVal(pkg.TypesInfo, e); v != nil && v.Kind() == constant.String {
		return constant.StringVal(v)
	}
	switch x := ast.Unparen(e).(type) {
	case *ast.BinaryExpr:
		if x.Op == token.ADD {
			return foldExprString(pkg, x.X, depth) + foldExprString(pkg, x.Y, depth)
		}
	case *ast.Ident:
		if v, ok := pkg.TypesInfo.Uses[x].(*types.Var); ok && v.Parent() == pkg.Types.Scope() {
			return foldPkgString(pkg, v, depth-1)
		}
	}
	return "?"
}
