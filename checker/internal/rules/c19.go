package rules

import (
	"go/ast"
	"go/constant"
	"go/token"
	"go/types"
	"sort"
	"strings"

	"golang.org/x/tools/go/packages"

	"seatalint/internal/core"
	"seatalint/internal/flow"
)

func init() { register("C19", checkC19) }

const pLB = core.Module + "/pkg/remoting/loadbalance"

func isSessionType(t types.Type) bool {
	return t != nil && strings.HasSuffix(t.String(), "dubbo-getty.Session")
}

func isSessionColl(t types.Type) bool {
	switch x := t.Underlying().(type) {
	case *types.Slice:
		return isSessionType(x.Elem())
	case *types.Map:
		return isSessionType(x.Elem())
	}
	return false
}

// liveChecker decides, per function, whether every returned session was seen open in this invocation.
type liveChecker struct {
	r     *core.Run
	w     *core.World
	memo  map[*types.Func]string // "" = verified, otherwise the reason it is not
	stack map[*types.Func]bool
	// fields: session-collection fields judged by fieldHoldsOnlyOpen ("" = only ever holds sessions seen open)
	fields map[*types.Var]string
	// fed: callbackFedOpen(g, ai, pi) memo
	fed map[[3]interface{}]bool
}

// bodyFacts analyses one function (and its closures): for every session variable / collection, whether some
// store of a session value into it happens at a point where the stored value is not known open.
func (lc *liveChecker) dirtyTargets(f *core.FuncInfo) map[types.Object]string {
	info := f.Pkg.TypesInfo
	dirty := map[types.Object]string{}
	condTags := lc.liveCond
	liveTag := func(o types.Object) string { return "live:" + o.Name() + "@" + lc.w.Pos(o.Pos()) }
	// parameters of a callback literal that a helper of the package only ever calls with a session it has just
	// tested open (an iterator over the open sessions): known open inside the literal
	preLive := map[types.Object]bool{}
	ast.Inspect(f.Decl.Body, func(n ast.Node) bool {
		c, ok := n.(*ast.CallExpr)
		if !ok {
			return true
		}
		g := lc.w.Info(core.Callee(info, c))
		if g == nil || g.Pkg != f.Pkg || g.Decl.Body == nil {
			return true
		}
		for ai, a := range c.Args {
			lit, ok := ast.Unparen(a).(*ast.FuncLit)
			if !ok || lit.Type.Params == nil {
				continue
			}
			pi := 0
			for _, fld := range lit.Type.Params.List {
				for _, nm := range fld.Names {
					if o := info.Defs[nm]; o != nil && isSessionType(o.Type()) && lc.callbackFedOpen(g, ai, pi) {
						preLive[o] = true
					}
					pi++
				}
			}
		}
		return true
	})
	visit := func(pkg *packages.Package, n ast.Node, st *flow.State) {
		as, ok := n.(*ast.AssignStmt)
		if !ok {
			return
		}
		for i, l := range as.Lhs {
			if i >= len(as.Rhs) && len(as.Rhs) != 1 {
				continue
			}
			rhs := as.Rhs[0]
			if len(as.Rhs) == len(as.Lhs) {
				rhs = as.Rhs[i]
			}
			var target types.Object
			switch x := ast.Unparen(l).(type) {
			case *ast.Ident:
				target = core.ObjOf(info, x)
			case *ast.IndexExpr:
				target = core.ObjOf(info, x.X)
			}
			if target == nil {
				continue
			}
			tt := target.Type()
			if !isSessionType(tt) && !isSessionColl(tt) {
				continue
			}
			// the session value being stored
			var src ast.Expr = rhs
			if c, ok := ast.Unparen(rhs).(*ast.CallExpr); ok {
				if id, ok := c.Fun.(*ast.Ident); ok && id.Name == "append" && len(c.Args) >= 2 {
					src = c.Args[len(c.Args)-1]
				} else if id, ok := c.Fun.(*ast.Ident); ok && (id.Name == "make" || id.Name == "append") {
					continue
				}
			}
			src = ast.Unparen(src)
			switch s := src.(type) {
			case *ast.Ident:
				if isNilIdent(info, s) {
					continue
				}
				so := core.ObjOf(info, s)
				if so == nil || !isSessionType(so.Type()) {
					continue
				}
				if preLive[so] {
					continue
				}
				if !st.Has(liveTag(so)) && dirty[so] != "" || !st.Has(liveTag(so)) {
					// storing a value not known open; if the target is the same variable that is tested afterwards
					// the return-site check decides
					if _, seen := dirty[target]; !seen {
						dirty[target] = "assigned from " + s.Name + " at " + lc.w.Pos(as.Pos()) + " before it was tested with IsClosed"
					}
				}
			case *ast.TypeAssertExpr, *ast.IndexExpr, *ast.SelectorExpr:
				// (`s, ok := m[k]` / `s, ok := v.(T)`: the expression's type is the pair, the value its first part)
				vt := info.TypeOf(src)
				if tup, isTup := vt.(*types.Tuple); isTup && tup.Len() > 0 {
					if i != 0 {
						continue
					}
					vt = tup.At(0).Type()
				}
				if isSessionType(vt) {
					if _, seen := dirty[target]; !seen {
						dirty[target] = "read from shared storage at " + lc.w.Pos(as.Pos()) + " without an IsClosed test at that point"
					}
				}
			case *ast.SliceExpr:
				// reslicing keeps the elements
			case *ast.CallExpr:
				// what a helper hands back is as good as the helper: one that returns only sessions it has seen
				// open gives a clean value, any other a value that still has to be tested here
				vt := info.TypeOf(src)
				if tup, isTup := vt.(*types.Tuple); isTup && tup.Len() > 0 {
					if i != 0 {
						continue
					}
					vt = tup.At(0).Type()
				}
				if !isSessionType(vt) {
					continue
				}
				callee := core.Callee(info, s)
				g := lc.w.Info(callee)
				sub := "is not analysable"
				if g != nil && g != f {
					sub = lc.verify(g)
				}
				if sub != "" {
					if _, seen := dirty[target]; !seen {
						dirty[target] = "handed back by " + core.ExprString(s.Fun) + " at " + lc.w.Pos(as.Pos()) + " without an IsClosed test here (that function " + sub + ")"
					}
				}
			}
		}
	}
	sp := &flow.Spec{W: lc.w, CondTags: condTags, Visit: visit}
	sp.Analyze(f)
	ast.Inspect(f.Decl.Body, func(n ast.Node) bool {
		if lit, ok := n.(*ast.FuncLit); ok {
			sp.AnalyzeLit(f.Pkg, lit)
		}
		return true
	})
	return dirty
}

// typeMentions: t is, points to, or is built from the named type n.
func typeMentions(t types.Type, n *types.Named, depth int) bool {
	if depth > 6 || t == nil {
		return false
	}
	switch x := t.(type) {
	case *types.Named:
		if x.Obj() == n.Obj() {
			return true
		}
		if x.Obj().Pkg() != n.Obj().Pkg() {
			return false
		}
		return typeMentions(x.Underlying(), n, depth+1)
	case *types.Pointer:
		return typeMentions(x.Elem(), n, depth+1)
	case *types.Slice:
		return typeMentions(x.Elem(), n, depth+1)
	case *types.Array:
		return typeMentions(x.Elem(), n, depth+1)
	case *types.Chan:
		return typeMentions(x.Elem(), n, depth+1)
	case *types.Map:
		return typeMentions(x.Key(), n, depth+1) || typeMentions(x.Elem(), n, depth+1)
	case *types.Struct:
		for i := 0; i < x.NumFields(); i++ {
			if typeMentions(x.Field(i).Type(), n, depth+1) {
				return true
			}
		}
	}
	return false
}

// fieldHoldsOnlyOpen returns "" when the session-collection field fv is an accumulator of one invocation that is
// only ever fed sessions seen open: its struct type is unexported and no package variable or field of another
// type can hold one (an instance lives in locals, parameters and results), and every write to the field is a
// reslice of itself, nil, make, or an append of a session that was tested !IsClosed() at that point — directly,
// or as the parameter of the writing function with every call of that function handing it a session tested open.
func (lc *liveChecker) fieldHoldsOnlyOpen(fv *types.Var) string {
	if lc.fields == nil {
		lc.fields = map[*types.Var]string{}
	}
	if v, ok := lc.fields[fv]; ok {
		return v
	}
	lc.fields[fv] = "" // a cycle through the field itself adds nothing
	res := lc.fieldHoldsOnlyOpen1(fv)
	lc.fields[fv] = res
	return res
}

func (lc *liveChecker) fieldHoldsOnlyOpen1(fv *types.Var) string {
	w := lc.w
	if fv.Pkg() == nil || !isSessionColl(fv.Type()) {
		return "not a collection of sessions"
	}
	// the owning struct type
	var owner *types.Named
	scope := fv.Pkg().Scope()
	for _, n := range scope.Names() {
		tn, ok := scope.Lookup(n).(*types.TypeName)
		if !ok {
			continue
		}
		nt, ok := tn.Type().(*types.Named)
		if !ok {
			continue
		}
		if st, ok := nt.Underlying().(*types.Struct); ok {
			for i := 0; i < st.NumFields(); i++ {
				if st.Field(i) == fv {
					owner = nt
				}
			}
		}
	}
	if owner == nil {
		return "its struct type was not found"
	}
	if owner.Obj().Exported() {
		return "its type " + owner.Obj().Name() + " is exported: instances can be kept anywhere"
	}
	for _, n := range scope.Names() {
		switch o := scope.Lookup(n).(type) {
		case *types.Var:
			if typeMentions(o.Type(), owner, 0) {
				return "the package variable " + o.Name() + " can keep a " + owner.Obj().Name() + " across invocations"
			}
		case *types.TypeName:
			if nt, ok := o.Type().(*types.Named); ok && nt.Obj() != owner.Obj() {
				if typeMentions(nt.Underlying(), owner, 0) {
					return "the type " + o.Name() + " can keep a " + owner.Obj().Name() + " across invocations"
				}
			}
		}
	}
	liveTag := func(o types.Object) string { return "live:" + o.Name() + "@" + w.Pos(o.Pos()) }
	condTags := func(pkg *packages.Package, cond ast.Expr, branch bool) []flow.Tag {
		c, ok := ast.Unparen(cond).(*ast.CallExpr)
		if !ok {
			return nil
		}
		sel, ok := ast.Unparen(c.Fun).(*ast.SelectorExpr)
		if !ok || sel.Sel.Name != "IsClosed" {
			return nil
		}
		if o := core.ObjOf(pkg.TypesInfo, sel.X); o != nil && !branch {
			return []flow.Tag{liveTag(o)}
		}
		return nil
	}
	// analyse a function and its literals; returns the assignment / call points
	analyse := func(f *core.FuncInfo, classify func(pkg *packages.Package, call *ast.CallExpr, callee *types.Func) []flow.Tag, assign func(pkg *packages.Package, as *ast.AssignStmt) []flow.Tag) ([]*flow.CallPoint, []*flow.AssignPoint) {
		sp := &flow.Spec{W: w, Depth: 0, Inline: -1, CondTags: condTags, Classify: classify, AssignTags: assign}
		var calls []*flow.CallPoint
		var assigns []*flow.AssignPoint
		res := sp.Analyze(f)
		calls, assigns = append(calls, res.Calls...), append(assigns, res.Assigns...)
		ast.Inspect(f.Decl.Body, func(n ast.Node) bool {
			if lit, ok := n.(*ast.FuncLit); ok {
				lr := sp.AnalyzeLit(f.Pkg, lit)
				calls, assigns = append(calls, lr.Calls...), append(assigns, lr.Assigns...)
			}
			return true
		})
		return calls, assigns
	}
	// fedOpen: at every call of g the argument for parameter index pi is a session tested open at that point
	var fedOpen func(g *core.FuncInfo, pi int, depth int) string
	fedOpen = func(g *core.FuncInfo, pi int, depth int) string {
		if depth > 3 {
			return "call chain too deep"
		}
		sites := 0
		for _, cs := range w.Callers(g.Obj) {
			if w.IsTestFile(cs.Call.Pos()) {
				continue
			}
			sites++
			if cs.Static != g.Obj || pi >= len(cs.Call.Args) {
				return "called indirectly at " + w.Pos(cs.Call.Pos())
			}
			calls, _ := analyse(cs.Caller, func(pkg *packages.Package, call *ast.CallExpr, callee *types.Func) []flow.Tag {
				if call == cs.Call {
					return []flow.Tag{"feed"}
				}
				return nil
			}, nil)
			seen := false
			for _, cp := range calls {
				if cp.Call != cs.Call {
					continue
				}
				seen = true
				a := ast.Unparen(cs.Call.Args[pi])
				o := core.ObjOf(cs.Caller.Pkg.TypesInfo, a)
				if _, isId := a.(*ast.Ident); !isId || o == nil {
					return "handed " + core.ExprString(a) + " at " + w.Pos(cs.Call.Pos())
				}
				if cp.Before.Has(liveTag(o)) {
					continue
				}
				// the caller hands on its own parameter
				ok := false
				for qi, q := range paramObjs(cs.Caller) {
					if q == o && cs.InLit == nil {
						if why := fedOpen(cs.Caller, qi, depth+1); why == "" {
							ok = true
						} else {
							return why
						}
					}
				}
				if !ok {
					return "handed '" + o.Name() + "' at " + w.Pos(cs.Call.Pos()) + " without an IsClosed test on that path"
				}
			}
			if !seen {
				return "the call at " + w.Pos(cs.Call.Pos()) + " was not reached by the analysis"
			}
		}
		if sites == 0 {
			return core.ShortKey(g.Obj) + " has no caller"
		}
		return ""
	}
	writes := 0
	for _, f := range w.SortedFuncs() {
		if f.Pkg.Types != fv.Pkg() || f.Decl == nil || f.Decl.Body == nil || w.IsTestFile(f.Decl.Pos()) {
			continue
		}
		info := f.Pkg.TypesInfo
		// composite literals of the owner that set the field
		bad := ""
		ast.Inspect(f.Decl.Body, func(n ast.Node) bool {
			cl, ok := n.(*ast.CompositeLit)
			if !ok {
				return true
			}
			t := info.TypeOf(cl)
			if t == nil || !typeMentions(t, owner, 0) {
				return true
			}
			for _, el := range cl.Elts {
				if kv, ok := el.(*ast.KeyValueExpr); ok {
					if id, ok := kv.Key.(*ast.Ident); ok && info.Uses[id] == fv && !isNilIdent(info, kv.Value) {
						if c, ok := ast.Unparen(kv.Value).(*ast.CallExpr); ok {
							if fid, ok := c.Fun.(*ast.Ident); ok && fid.Name == "make" {
								continue
							}
						}
						bad = "the field is set in a literal at " + w.Pos(kv.Pos())
					}
				} else if len(cl.Elts) > 0 {
					bad = "positional literal of " + owner.Obj().Name() + " at " + w.Pos(cl.Pos())
				}
			}
			return true
		})
		if bad != "" {
			return bad
		}
		isField := func(e ast.Expr) bool {
			e = ast.Unparen(e)
			if ix, ok := e.(*ast.IndexExpr); ok {
				e = ast.Unparen(ix.X)
			}
			if sl, ok := e.(*ast.SliceExpr); ok {
				e = ast.Unparen(sl.X)
			}
			sel, ok := e.(*ast.SelectorExpr)
			return ok && info.Uses[sel.Sel] == fv
		}
		has := false
		ast.Inspect(f.Decl.Body, func(n ast.Node) bool {
			switch x := n.(type) {
			case *ast.AssignStmt:
				for _, l := range x.Lhs {
					if isField(l) {
						has = true
					}
				}
			case *ast.UnaryExpr:
				if x.Op == token.AND && isField(x.X) {
					bad = "the address of the field is taken at " + w.Pos(x.Pos())
				}
			}
			return true
		})
		if bad != "" {
			return bad
		}
		if !has {
			continue
		}
		_, assigns := analyse(f, nil, func(pkg *packages.Package, as *ast.AssignStmt) []flow.Tag {
			for _, l := range as.Lhs {
				if isField(l) {
					return []flow.Tag{"fieldwrite"}
				}
			}
			return nil
		})
		for _, ap := range assigns {
			if !inSet("fieldwrite", ap.Tags...) {
				continue
			}
			writes++
			as := ap.Stmt
			if len(as.Lhs) != len(as.Rhs) {
				return "written by a multi-value assignment at " + w.Pos(as.Pos())
			}
			for i, l := range as.Lhs {
				if !isField(l) {
					continue
				}
				rhs := ast.Unparen(as.Rhs[i])
				var stored []ast.Expr
				switch x := rhs.(type) {
				case *ast.Ident:
					if !isNilIdent(info, x) {
						stored = append(stored, x)
					}
				case *ast.SliceExpr:
					if !isField(x.X) {
						return "assigned " + core.ExprString(rhs) + " at " + w.Pos(as.Pos())
					}
				case *ast.CallExpr:
					fid, _ := x.Fun.(*ast.Ident)
					switch {
					case fid != nil && fid.Name == "make":
					case fid != nil && fid.Name == "append" && len(x.Args) >= 1 && x.Ellipsis == token.NoPos:
						if !isField(x.Args[0]) && !isNilIdent(info, x.Args[0]) {
							return "appends to " + core.ExprString(x.Args[0]) + " at " + w.Pos(as.Pos())
						}
						stored = append(stored, x.Args[1:]...)
					default:
						return "assigned " + core.ExprString(rhs) + " at " + w.Pos(as.Pos())
					}
				default:
					return "assigned " + core.ExprString(rhs) + " at " + w.Pos(as.Pos())
				}
				for _, sx := range stored {
					sx = ast.Unparen(sx)
					id, ok := sx.(*ast.Ident)
					o := core.ObjOf(info, sx)
					if !ok || o == nil || !isSessionType(o.Type()) {
						return "stores " + core.ExprString(sx) + " at " + w.Pos(as.Pos())
					}
					_ = id
					if ap.Before.Has(liveTag(o)) {
						continue
					}
					fed := false
					for pi, p := range paramObjs(f) {
						if p == o {
							if why := fedOpen(f, pi, 0); why != "" {
								return "stores its parameter '" + o.Name() + "' (" + w.Pos(as.Pos()) + "), which is " + why
							}
							fed = true
						}
					}
					if !fed {
						return "stores '" + o.Name() + "' at " + w.Pos(as.Pos()) + " without an IsClosed test on that path"
					}
				}
			}
		}
	}
	if writes == 0 {
		return "no write to the field was found"
	}
	return ""
}

// lookupCanMiss: m is a local map of this invocation and the answer is m[k]. The lookup cannot miss when k is one of
// the keys stored into m in this invocation: the key variable of a range over m, or an element s[i] of a local
// list s that is only ever built from those keys (appended next to the store m[E] = .. with the same E, or while
// ranging over m). A list that can come from anywhere else (a cache, a field, a parameter) may name a key that is
// not in today's map.
func (lc *liveChecker) lookupCanMiss(f *core.FuncInfo, m types.Object, k ast.Expr) string {
	info := f.Pkg.TypesInfo
	k = ast.Unparen(k)
	rangeKeyOfM := func(v types.Object) bool {
		ok := false
		ast.Inspect(f.Decl.Body, func(n ast.Node) bool {
			if rs, isR := n.(*ast.RangeStmt); isR && rs.Key != nil && core.ObjOf(info, rs.Key) == v && core.ObjOf(info, rs.X) == m {
				ok = true
			}
			return true
		})
		return ok
	}
	// expressions stored as keys of m: m[E] = ..
	var stored []string
	ast.Inspect(f.Decl.Body, func(n ast.Node) bool {
		if as, ok := n.(*ast.AssignStmt); ok {
			for _, l := range as.Lhs {
				if ix, ok := ast.Unparen(l).(*ast.IndexExpr); ok && core.ObjOf(info, ix.X) == m {
					stored = append(stored, core.ExprString(ix.Index))
				}
			}
		}
		return true
	})
	fromKeys := func(e ast.Expr) bool {
		e = ast.Unparen(e)
		if id, ok := e.(*ast.Ident); ok {
			if v := info.Uses[id]; v != nil && rangeKeyOfM(v) {
				return true
			}
		}
		for _, st := range stored {
			if core.ExprString(e) == st {
				return true
			}
		}
		return false
	}
	switch x := k.(type) {
	case *ast.Ident:
		if v := info.Uses[x]; v != nil && rangeKeyOfM(v) {
			return ""
		}
		return "the key " + x.Name + " is not taken from the map's own keys"
	case *ast.IndexExpr:
		sv, ok := core.ObjOf(info, x.X).(*types.Var)
		if !ok || sv.IsField() || sv.Parent() == sv.Pkg().Scope() {
			return "the key comes from " + core.ExprString(x.X) + ", which outlives this invocation"
		}
		defs := localDefs(f, sv)
		if len(defs) == 0 {
			return "the key list " + sv.Name() + " is not built in this invocation"
		}
		for _, d := range defs {
			rhs := ast.Unparen(d.rhs)
			if d.idx > 0 {
				continue // the ok of a two-value form
			}
			if c, ok := rhs.(*ast.CallExpr); ok {
				if fid, ok := c.Fun.(*ast.Ident); ok {
					switch fid.Name {
					case "make":
						continue
					case "append":
						good := len(c.Args) >= 1 && core.ObjOf(info, c.Args[0]) == types.Object(sv) && !c.Ellipsis.IsValid()
						for _, a := range c.Args[1:] {
							if !fromKeys(a) {
								good = false
							}
						}
						if good {
							continue
						}
					}
				}
			}
			if sl, ok := rhs.(*ast.SliceExpr); ok && core.ObjOf(info, sl.X) == types.Object(sv) {
				continue
			}
			if cl, ok := rhs.(*ast.CompositeLit); ok && len(cl.Elts) == 0 {
				continue
			}
			if isNilIdent(info, rhs) {
				continue
			}
			return "the key list " + sv.Name() + " is assigned " + core.ExprString(rhs) + " at " + lc.w.Pos(rhs.Pos()) + ", not built from the keys stored into the map in this invocation"
		}
		return ""
	}
	return "the key " + core.ExprString(k) + " is not taken from the map's own keys"
}

// callbackFedOpen: g calls its func-typed parameter number ai only with a session (argument pi) that was tested
// !IsClosed() on the path to the call, and uses that parameter for nothing but calling it.
func (lc *liveChecker) callbackFedOpen(g *core.FuncInfo, ai, pi int) bool {
	key := [3]interface{}{g, ai, pi}
	if lc.fed == nil {
		lc.fed = map[[3]interface{}]bool{}
	}
	if v, ok := lc.fed[key]; ok {
		return v
	}
	lc.fed[key] = false
	ps := paramObjs(g)
	if ai >= len(ps) {
		return false
	}
	cb := ps[ai]
	if _, isFn := cb.Type().Underlying().(*types.Signature); !isFn {
		return false
	}
	info := g.Pkg.TypesInfo
	w := lc.w
	liveTag := func(o types.Object) string { return "live:" + o.Name() + "@" + w.Pos(o.Pos()) }
	// every mention of the parameter is a call of it
	called := map[*ast.Ident]bool{}
	var calls []*ast.CallExpr
	ast.Inspect(g.Decl.Body, func(n ast.Node) bool {
		if c, ok := n.(*ast.CallExpr); ok {
			if id, ok := ast.Unparen(c.Fun).(*ast.Ident); ok && info.Uses[id] == cb {
				called[id] = true
				calls = append(calls, c)
			}
		}
		return true
	})
	escapes := false
	ast.Inspect(g.Decl.Body, func(n ast.Node) bool {
		if id, ok := n.(*ast.Ident); ok && info.Uses[id] == cb && !called[id] {
			escapes = true
		}
		return true
	})
	if escapes || len(calls) == 0 {
		return false
	}
	sp := &flow.Spec{W: w, Depth: 0, Inline: -1,
		CondTags: func(pkg *packages.Package, cond ast.Expr, branch bool) []flow.Tag {
			c, ok := ast.Unparen(cond).(*ast.CallExpr)
			if !ok {
				return nil
			}
			sel, ok := ast.Unparen(c.Fun).(*ast.SelectorExpr)
			if !ok || sel.Sel.Name != "IsClosed" {
				return nil
			}
			if o := core.ObjOf(pkg.TypesInfo, sel.X); o != nil && !branch {
				return []flow.Tag{liveTag(o)}
			}
			return nil
		},
		Classify: func(pkg *packages.Package, call *ast.CallExpr, callee *types.Func) []flow.Tag {
			for _, c := range calls {
				if c == call {
					return []flow.Tag{"cb"}
				}
			}
			return nil
		}}
	var points []*flow.CallPoint
	points = append(points, sp.Analyze(g).Calls...)
	ast.Inspect(g.Decl.Body, func(n ast.Node) bool {
		if lit, ok := n.(*ast.FuncLit); ok {
			points = append(points, sp.AnalyzeLit(g.Pkg, lit).Calls...)
		}
		return true
	})
	seen := map[*ast.CallExpr]bool{}
	for _, cp := range points {
		if !inSet("cb", cp.Tags...) {
			continue
		}
		if pi >= len(cp.Call.Args) {
			return false
		}
		id, ok := ast.Unparen(cp.Call.Args[pi]).(*ast.Ident)
		if !ok {
			return false
		}
		o := info.Uses[id]
		if o == nil || !cp.Before.Has(liveTag(o)) {
			return false
		}
		seen[cp.Call] = true
	}
	for _, c := range calls {
		if !seen[c] {
			return false
		}
	}
	lc.fed[key] = true
	return true
}

// verify returns "" when every return of f yields nil or a session seen open in this invocation.
func (lc *liveChecker) verify(f *core.FuncInfo) string {
	if v, ok := lc.memo[f.Obj]; ok {
		return v
	}
	if lc.stack[f.Obj] {
		return ""
	}
	lc.stack[f.Obj] = true
	defer delete(lc.stack, f.Obj)
	info := f.Pkg.TypesInfo
	dirty := lc.dirtyTargets(f)
	reason := ""
	condTags := lc.liveCond
	res := (&flow.Spec{W: lc.w, CondTags: condTags}).Analyze(f)
	for _, ex := range res.Exits {
		if len(ex.Results) == 0 {
			continue
		}
		e := ast.Unparen(ex.Results[0])
		if ex.Via != nil && ex.Stmt != nil && len(ex.Stmt.Results) == 1 {
			// `return helper(..)`: the engine lists the helper's own exits here; the helper is judged as a callee
			e = ast.Unparen(ex.Stmt.Results[0])
		}
		if !isSessionType(info.TypeOf(e)) && !isNilIdent(info, e) {
			continue
		}
		why := ""
		switch x := e.(type) {
		case *ast.Ident:
			if isNilIdent(info, x) {
				break
			}
			o := core.ObjOf(info, x)
			if o == nil {
				why = "unknown value " + x.Name
				break
			}
			if ex.St.Has("live:" + o.Name() + "@" + lc.w.Pos(o.Pos())) {
				break
			}
			if d, bad := dirty[o]; bad {
				why = "returns '" + x.Name + "', which was " + d
			}
		case *ast.IndexExpr:
			o := core.ObjOf(info, x.X)
			if o != nil {
				if _, isMap := o.Type().Underlying().(*types.Map); isMap {
					if miss := lc.lookupCanMiss(f, o, x.Index); miss != "" {
						why = "answers " + core.ExprString(x) + ", a lookup that can miss (" + miss + "): nil is answered although open sessions are registered"
						break
					}
				}
			}
			if o == nil {
				why = "returns an element of long-lived storage (" + core.ExprString(x.X) + ") without an IsClosed test"
			} else if v, isVar := o.(*types.Var); isVar && v.IsField() {
				if bad := lc.fieldHoldsOnlyOpen(v); bad != "" {
					why = "returns an element of the field " + v.Name() + " without an IsClosed test (" + bad + ")"
				}
			} else if d, bad := dirty[o]; bad {
				why = "returns an element of '" + o.Name() + "', which was " + d
			}
		case *ast.CallExpr:
			callee := core.Callee(info, x)
			g := lc.w.Info(callee)
			if g == nil && callee == nil {
				// a function value taken out of a table of the package: every entry is judged
				n := 0
				for _, cs := range lc.w.Calls(f) {
					if cs.Call != x || !cs.Table {
						continue
					}
					for _, t := range cs.Callees {
						n++
						if tg := lc.w.Info(t); tg == nil {
							why = "returns the result of the table entry " + t.Name() + ", which is not analysable"
						} else if sub := lc.verify(tg); sub != "" && why == "" {
							why = "returns " + core.ShortKey(t) + "(...) through a table, which " + sub
						}
					}
				}
				if n > 0 {
					break
				}
				// a function value handed back by a function of the package (`policyOf(kind)(sessions, xid)`): every
				// function it can hand back is judged
				if inner, isCall := ast.Unparen(x.Fun).(*ast.CallExpr); isCall {
					if h := lc.w.Info(core.Callee(info, inner)); h != nil && h.Decl.Body != nil {
						if ts := funcValuesReturned(h); len(ts) > 0 {
							for _, t := range ts {
								n++
								if tg := lc.w.Info(t); tg == nil {
									why = "returns the result of " + t.Name() + " (handed back by " + h.Obj.Name() + "), which is not analysable"
								} else if sub := lc.verify(tg); sub != "" && why == "" {
									why = "returns " + core.ShortKey(t) + "(...) through " + h.Obj.Name() + ", which " + sub
								}
							}
						}
					}
				}
				if n > 0 {
					break
				}
			}
			if g == nil {
				why = "returns the result of " + core.ExprString(x.Fun) + ", which is not analysable"
			} else if sub := lc.verify(g); sub != "" {
				why = "returns " + core.ShortKey(callee) + "(...), which " + sub
			}
		default:
			why = "returns " + core.ExprString(e)
		}
		if why != "" && reason == "" {
			reason = why + " (" + lc.w.Pos(ex.Pos) + ")"
		}
	}
	lc.memo[f.Obj] = reason
	return reason
}

func checkC19(r *core.Run) {
	r.Explain = "Decided statically: (C19.switch) Select dispatches each of the five policy constants to its own policy function; (C19.live) in every policy function (and the session manager's own fallback) each session that can be returned is nil, was tested !IsClosed() in the same invocation after it was last read from long-lived storage, comes from a collection filled only with such sessions, or is the result of a callee with that property; (C19.xid) the value handed to the xid extractor is the message body (an interface value), not an envelope type that is none of the asserted request types and has no Xid field; the XID policy compares ip:port of the xid with the session's remote address; (C19.announce) from the listener's OnOpen both the RegisterTMRequest and a RegisterRMRequest for the cached resources are reachable in the call graph. (C19.live, also) a policy's answer m[k] is a lookup that cannot miss: k is one of the keys stored into m in the same invocation; NOT decided: histories of sessions opening and closing between selections; what the coordinator does with the announcements."
	r.Explain += " Round 8: (C19.switch, also) selectSession answers a session only after asking the configured load-balance policy."
	r.Trusted = []string{"go/types, go/cfg", "getty Session.IsClosed"}
	w := r.W
	sel := r.Anchor("C19.switch", w.Func("pkg/remoting/loadbalance", "", "Select"), "loadbalance.Select")
	if sel == nil {
		return
	}
	// ---- C19.switch
	info := sel.Pkg.TypesInfo
	var policyConsts []*types.Const
	for _, n := range sel.Pkg.Types.Scope().Names() {
		if c, ok := sel.Pkg.Types.Scope().Lookup(n).(*types.Const); ok && c.Val().Kind() == constant.String && strings.HasSuffix(c.Name(), "LoadBalance") {
			policyConsts = append(policyConsts, c)
		}
	}
	label := func(e ast.Expr) string {
		if c := core.ConstObj(info, e); c != nil {
			return c.Name()
		}
		return ""
	}
	tab, def := dispatchTable(w, sel, label)
	if len(tab) == 0 {
		// the dispatch written in a function of the package that Select calls with the policy name
		for _, cs := range w.Calls(sel) {
			if g := w.Info(cs.Static); g != nil && g.Pkg == sel.Pkg && g.Decl.Body != nil && !cs.Iface {
				if t2, d2 := dispatchTable(w, g, label); len(t2) > len(tab) {
					tab, def = t2, d2
					r.Fn(g)
				}
			}
		}
	}
	var policies []*core.FuncInfo
	calledIn := func(cc ast.Node) *core.FuncInfo {
		var out *core.FuncInfo
		if cc == nil {
			return nil
		}
		// a table entry names the policy function itself
		switch x := cc.(type) {
		case *ast.Ident:
			if fn, ok := info.Uses[x].(*types.Func); ok {
				if g := w.Info(fn); g != nil && g.Pkg.PkgPath == pLB {
					return g
				}
			}
		case *ast.SelectorExpr:
			if fn, ok := info.Uses[x.Sel].(*types.Func); ok {
				if g := w.Info(fn); g != nil && g.Pkg.PkgPath == pLB {
					return g
				}
			}
		}
		ast.Inspect(cc, func(n ast.Node) bool {
			if c, ok := n.(*ast.CallExpr); ok {
				if g := w.Info(core.Callee(info, c)); g != nil && g.Pkg.PkgPath == pLB {
					out = g
				}
			}
			// `return ThePolicy`: the dispatcher hands the policy function back to be called
			if rs, ok := n.(*ast.ReturnStmt); ok && len(rs.Results) == 1 {
				if id, ok := ast.Unparen(rs.Results[0]).(*ast.Ident); ok {
					if fn, ok := info.Uses[id].(*types.Func); ok {
						if g := w.Info(fn); g != nil && g.Pkg.PkgPath == pLB {
							out = g
						}
					}
				}
			}
			return true
		})
		return out
	}
	for _, c := range policyConsts {
		r.Sites++
		cc, ok := tab[c.Name()]
		key := "pkg/remoting/loadbalance.Select case " + c.Name()
		if !ok {
			r.Bad("C19.switch", key, w.Pos(sel.Decl.Pos()), "no case for the policy "+constant.StringVal(c.Val())+": it silently falls back to the default policy")
			continue
		}
		g := calledIn(cc)
		want := strings.ToLower(c.Name())
		r.Check(g != nil && strings.ToLower(g.Obj.Name()) == want, "C19.switch", key, w.Pos(cc.Pos()), "dispatches to its own policy function", "the policy "+constant.StringVal(c.Val())+" is dispatched to "+shortOrNil(g))
		if g != nil {
			policies = append(policies, g)
		}
	}
	if def != nil {
		if g := calledIn(def); g != nil {
			policies = append(policies, g)
		}
	}
	if len(policyConsts) < 5 {
		r.Bad("C19.switch", "five policy constants", w.Pos(sel.Decl.Pos()), "fewer than five policy constants found")
	}
	// ---- C19.live
	lc := &liveChecker{r: r, w: w, memo: map[*types.Func]string{}, stack: map[*types.Func]bool{}}
	targets := dedupFns(policies)
	if sm := w.Func("pkg/remoting/getty", "SessionManager", "selectSession"); sm != nil {
		targets = append(targets, sm)
	} else {
		r.Anchor("C19.live", nil, "SessionManager.selectSession")
	}
	// the configured policy is asked first: no session is answered by the manager's own walk over the registry on
	// a path on which loadbalance.Select was not called (a "nothing to balance" shortcut routes an xid-addressed
	// request to whichever session the map yields first)
	if sm := w.Func("pkg/remoting/getty", "SessionManager", "selectSession"); sm != nil && sel != nil {
		res := (&flow.Spec{W: w, Depth: 0, Classify: func(pkg *packages.Package, call *ast.CallExpr, callee *types.Func) []flow.Tag {
			if callee == sel.Obj {
				return []flow.Tag{"select"}
			}
			return nil
		}}).Analyze(sm)
		for _, ex := range res.Exits {
			if len(ex.Results) != 1 || isNilIdent(sm.Pkg.TypesInfo, ex.Results[0]) {
				continue
			}
			r.Sites++
			r.Check(ex.St.Has("select"), "C19.switch", core.ShortKey(sm.Obj)+" answers a session only after the configured policy was asked", w.Pos(ex.Pos), "loadbalance.Select called on every path to this return",
				"a session is answered on a path that never asks the configured policy: with the XID policy a request that names its coordinator in the xid can go to another coordinator's session")
		}
	}
	// (helpers of the policies that hand back sessions are judged where a policy uses what they hand back: a
	// result returned as it is needs a helper that returns open sessions only, a result tested by the caller does
	// not — dirtyTargets / verify follow the calls)
	for _, f := range dedupFns(targets) {
		r.Fn(f)
		r.Sites++
		why := lc.verify(f)
		r.Check(why == "", "C19.live", core.ShortKey(f.Obj)+" returns only sessions seen open in this invocation (or nil)", w.Pos(f.Decl.Pos()), "every returned session was tested !IsClosed() after it was read",
			"a closed session can be chosen: "+why)
	}
	// "nil only when none is open": inside a policy's Range callback the selection state (variables of the policy
	// captured by the callback: minimum, counters, candidate list, the chosen session) is assigned only on paths
	// where the session at hand was tested open — a closed session must not take part in the choice
	for _, f := range dedupFns(targets) {
		info := f.Pkg.TypesInfo
		ast.Inspect(f.Decl.Body, func(n ast.Node) bool {
			c, ok := n.(*ast.CallExpr)
			if !ok {
				return true
			}
			callee := core.Callee(info, c)
			if callee == nil || callee.Name() != "Range" || len(c.Args) != 1 {
				return true
			}
			lit, ok := ast.Unparen(c.Args[0]).(*ast.FuncLit)
			if !ok {
				return true
			}
			// the variable holding the session at hand: assigned from the callback's key/value parameter
			cur := map[types.Object]bool{}
			ast.Inspect(lit.Body, func(m ast.Node) bool {
				if as, ok := m.(*ast.AssignStmt); ok && len(as.Lhs) >= 1 && len(as.Rhs) == 1 {
					if ta, ok := ast.Unparen(as.Rhs[0]).(*ast.TypeAssertExpr); ok {
						if id, ok := ast.Unparen(ta.X).(*ast.Ident); ok {
							if pv, ok := info.Uses[id].(*types.Var); ok && pv.Pos() >= lit.Type.Pos() && pv.Pos() < lit.Type.End() {
								cur[core.ObjOf(info, as.Lhs[0])] = true
							}
						}
					}
				}
				return true
			})
			tests := false
			ast.Inspect(lit.Body, func(m ast.Node) bool {
				if cc, ok := m.(*ast.CallExpr); ok {
					if g := core.Callee(info, cc); g != nil && g.Name() == "IsClosed" {
						tests = true
					}
				}
				return true
			})
			if !tests {
				return true // judged by the returned-session rule above (e.g. a ring built from sessions checked elsewhere)
			}
			sp := &flow.Spec{W: w, Depth: 0,
				Classify: func(pkg *packages.Package, call *ast.CallExpr, callee *types.Func) []flow.Tag {
					if callee != nil && callee.Name() == "IsClosed" {
						return []flow.Tag{"closed"}
					}
					return nil
				},
				AssignTags: func(pkg *packages.Package, as *ast.AssignStmt) []flow.Tag {
					for _, l := range as.Lhs {
						o := core.ObjOf(pkg.TypesInfo, l)
						if ix, ok := ast.Unparen(l).(*ast.IndexExpr); ok {
							o = core.ObjOf(pkg.TypesInfo, ix.X)
						}
						if o == nil || cur[o] {
							continue
						}
						if o.Pos() < lit.Pos() || o.Pos() >= lit.End() { // captured from the policy function
							return []flow.Tag{"select"}
						}
					}
					return nil
				}}
			res := sp.AnalyzeLit(f.Pkg, lit)
			for _, ap := range res.Assigns {
				if !inSet("select", ap.Tags...) {
					continue
				}
				r.Sites++
				r.Check(ap.Before.Has("false:closed"), "C19.live", core.ShortKey(f.Obj)+" : '"+core.ExprString(ap.Stmt.Lhs[0])+"' is updated for open sessions only", w.Pos(ap.Stmt.Pos()), "under !IsClosed()",
					"the selection state is updated for a session that has not been tested open on this path: a closed session still in the registry takes part in the choice (it can lower the minimum, empty the candidate list, or be remembered), so nil or a worse session is answered although open sessions exist")
			}
			return true
		})
	}
	// ---- C19.xid
	c19Xid(r)
	// ---- C19.announce
	c19Announce(r)
	r.Floor("C19.switch", 5)
	r.Floor("C19.live", 7)
	r.Floor("C19.xid", 3)
	r.Floor("C19.announce", 2)
}

func shortOrNil(f *core.FuncInfo) string {
	if f == nil {
		return "no policy function"
	}
	return core.ShortKey(f.Obj)
}

func c19Xid(r *core.Run) {
	w := r.W
	gx := w.Func("pkg/remoting/getty", "SessionManager", "getXid")
	ss := w.Func("pkg/remoting/getty", "SessionManager", "selectSession")
	if gx == nil || ss == nil {
		r.Anchor("C19.xid", nil, "SessionManager.getXid / selectSession")
		return
	}
	r.Fn(gx)
	// asserted types
	asserted := map[string]bool{}
	ast.Inspect(gx.Decl.Body, func(n ast.Node) bool {
		if ta, ok := n.(*ast.TypeAssertExpr); ok && ta.Type != nil {
			if nt, ok := gx.Pkg.TypesInfo.TypeOf(ta.Type).(*types.Named); ok {
				asserted[nt.Obj().Name()] = true
			}
		}
		return true
	})
	check := func(f *core.FuncInfo, cs *core.CallSite, what string) {
		if len(cs.Call.Args) != 1 {
			return
		}
		r.Sites++
		t := f.Pkg.TypesInfo.TypeOf(cs.Call.Args[0])
		ok := true
		why := ""
		if nt, isNamed := t.(*types.Named); isNamed && !types.IsInterface(nt) {
			hasXid := false
			if o, _, _ := types.LookupFieldOrMethod(nt, true, nil, "Xid"); o != nil {
				if v, isVar := o.(*types.Var); isVar && v.IsField() {
					hasXid = true
				}
			}
			if !asserted[nt.Obj().Name()] && !hasXid {
				ok = false
				why = "the xid extractor is given a " + nt.Obj().Name() + ", which is none of the request types it asserts and has no Xid field: it yields no usable xid, so the XID policy can never find the coordinator the transaction belongs to"
			}
		}
		r.Check(ok, "C19.xid", core.ShortKey(f.Obj)+" -> "+what+" receives a value that can carry an xid", w.Pos(cs.Call.Pos()), "argument type "+t.String(), why)
	}
	for _, cs := range w.Callers(ss.Obj) {
		if !w.IsTestFile(cs.Call.Pos()) {
			check(cs.Caller, cs, "selectSession")
		}
	}
	for _, cs := range w.Callers(gx.Obj) {
		if !w.IsTestFile(cs.Call.Pos()) {
			check(cs.Caller, cs, "getXid")
		}
	}
	// every message that carries an xid (a struct of the message package with a field Xid, own or promoted, that
	// announces a type code) yields it: through the reflective field lookup, or through an assertion / case naming
	// exactly that type (a type that merely embeds an asserted one is a different dynamic type)
	{
		reflective := false
		assertedT := map[types.Type]bool{}
		ginfo := gx.Pkg.TypesInfo
		// (the reflective lookup may sit in a helper of the package the extractor hands the message to)
		for _, h := range withCallees(w, gx, 2)[1:] {
			ast.Inspect(h.Decl.Body, func(n ast.Node) bool {
				if x, ok := n.(*ast.CallExpr); ok {
					if sel, ok := ast.Unparen(x.Fun).(*ast.SelectorExpr); ok && sel.Sel.Name == "FieldByName" && len(x.Args) == 1 {
						if v := core.ConstVal(h.Pkg.TypesInfo, x.Args[0]); v != nil && v.Kind() == constant.String && constant.StringVal(v) == "Xid" {
							reflective = true
						}
					}
				}
				return true
			})
		}
		ast.Inspect(gx.Decl.Body, func(n ast.Node) bool {
			switch x := n.(type) {
			case *ast.CallExpr:
				if sel, ok := ast.Unparen(x.Fun).(*ast.SelectorExpr); ok && sel.Sel.Name == "FieldByName" && len(x.Args) == 1 {
					if v := core.ConstVal(ginfo, x.Args[0]); v != nil && v.Kind() == constant.String && constant.StringVal(v) == "Xid" {
						reflective = true
					}
				}
			case *ast.TypeAssertExpr:
				if x.Type != nil {
					if t := ginfo.TypeOf(x.Type); t != nil {
						assertedT[t] = true
					}
				}
			case *ast.CaseClause:
				for _, e := range x.List {
					if tv, ok := ginfo.Types[e]; ok && tv.IsType() {
						assertedT[tv.Type] = true
					}
				}
			}
			return true
		})
		mp := w.Pkg("pkg/protocol/message")
		nCarriers := 0
		// the message types the client sends: static types of what is handed to the client's send functions
		sent := map[*types.Named]bool{}
		for _, f := range w.SortedFuncs() {
			if w.IsTestFile(f.Decl.Pos()) || strings.Contains(f.Pkg.PkgPath, "/mock") {
				continue
			}
			for _, cs := range w.Calls(f) {
				if cs.Static == nil || core.RecvNamed(cs.Static) == nil || core.RecvNamed(cs.Static).Obj().Name() != "GettyRemotingClient" || !strings.HasPrefix(cs.Static.Name(), "Send") {
					continue
				}
				for _, a := range cs.Call.Args {
					t := f.Pkg.TypesInfo.TypeOf(a)
					if p, ok := t.(*types.Pointer); ok {
						t = p.Elem()
					}
					if nt, ok := t.(*types.Named); ok && nt.Obj().Pkg() != nil && strings.HasSuffix(nt.Obj().Pkg().Path(), "/pkg/protocol/message") {
						sent[nt] = true
					}
				}
			}
		}
		if mp != nil {
			sc := mp.Types.Scope()
			for _, name := range sc.Names() {
				tn, ok := sc.Lookup(name).(*types.TypeName)
				if !ok {
					continue
				}
				nt, ok := tn.Type().(*types.Named)
				if !ok || !sent[nt] {
					continue
				}
				if _, isStruct := nt.Underlying().(*types.Struct); !isStruct {
					continue
				}
				o, _, _ := types.LookupFieldOrMethod(nt, true, mp.Types, "Xid")
				fv, isVar := o.(*types.Var)
				if !isVar || !fv.IsField() {
					continue
				}
				if m, _, _ := types.LookupFieldOrMethod(nt, true, mp.Types, "GetTypeCode"); m == nil {
					continue // an abstract part, never sent by itself
				}
				nCarriers++
				r.Sites++
				covered := reflective || assertedT[nt] || assertedT[types.NewPointer(nt)]
				r.Check(covered, "C19.xid", core.ShortKey(gx.Obj)+" yields the xid of message."+name, w.Pos(gx.Decl.Pos()), "reflective Xid lookup, or a case for this type",
					"message."+name+" carries an Xid ("+fv.Name()+", possibly promoted from an embedded request) but the xid extractor has no case for exactly this type and no reflective lookup: its xid comes out empty, the XID policy falls back to a random session and the request can go to a coordinator that does not own the transaction")
			}
		}
		if nCarriers < 4 {
			r.Bad("C19.xid", "INSTANCE-FLOOR xid-carrying message types", "", "fewer message types with an Xid field than confirmed by hand")
		}
	}
	// the reflective lookup does not produce a bogus string for messages without Xid
	bogus := false
	for _, h := range withCallees(w, gx, 2) {
		ast.Inspect(h.Decl.Body, func(n ast.Node) bool {
			c, ok := n.(*ast.CallExpr)
			if !ok {
				return true
			}
			// FieldByName("Xid").String() directly: an invalid Value stringifies as "<invalid Value>"
			if sel, ok := ast.Unparen(c.Fun).(*ast.SelectorExpr); ok && sel.Sel.Name == "String" {
				if inner, ok := ast.Unparen(sel.X).(*ast.CallExpr); ok {
					if is, ok := ast.Unparen(inner.Fun).(*ast.SelectorExpr); ok && is.Sel.Name == "FieldByName" {
						bogus = true
					}
				}
			}
			return true
		})
	}
	r.Sites++
	r.Check(!bogus, "C19.xid", core.ShortKey(gx.Obj)+" reflective lookup checks the field before using it", w.Pos(gx.Decl.Pos()), "IsValid / kind checked", "FieldByName(\"Xid\").String() is used unchecked: a message without an Xid field yields the text \"<invalid Value>\" as xid")
	// XID policy: ip:port of the xid compared with the session's remote address
	if xp := w.Func("pkg/remoting/loadbalance", "", "XidLoadBalance"); xp != nil {
		r.Fn(xp)
		cmp := false
		originFollowHelpers = true // the address may be cut out of the xid by a helper returning (address, ok)
		defer func() { originFollowHelpers = false }()
		// (the comparison may sit in a helper of the package that is handed the address)
		for _, g := range withCallees(w, xp, 2) {
			g := g
			ast.Inspect(g.Decl.Body, func(n ast.Node) bool {
				if be, ok := n.(*ast.BinaryExpr); ok && be.Op == token.EQL {
					a, b := originVia(xp, g, be.X, 4), originVia(xp, g, be.Y, 4)
					if (strings.Contains(a, "RemoteAddr(") && strings.Contains(b, "strings.Split(")) || (strings.Contains(b, "RemoteAddr(") && strings.Contains(a, "strings.Split(")) {
						cmp = true
					}
				}
				return true
			})
		}
		r.Sites++
		r.Check(cmp, "C19.xid", core.ShortKey(xp.Obj)+" matches ip:port of the xid against the session's remote address", w.Pos(xp.Decl.Pos()), "ip:port == RemoteAddr()", "the XID policy no longer compares the xid's ip:port with the session's remote address")
	}
}

func c19Announce(r *core.Run) {
	w := r.W
	h := w.NamedType("pkg/remoting/getty", "gettyClientHandler")
	onOpen := methodInfo(w, h, "OnOpen")
	if r.Anchor("C19.announce", onOpen, "gettyClientHandler.OnOpen") == nil {
		return
	}
	constructs := func(typeName string) bool {
		found := false
		for f := range w.Reach([]*core.FuncInfo{onOpen}, nil) {
			if w.IsTestFile(f.Decl.Pos()) {
				continue
			}
			ast.Inspect(f.Decl.Body, func(n ast.Node) bool {
				if cl, ok := n.(*ast.CompositeLit); ok {
					if nt, ok := f.Pkg.TypesInfo.TypeOf(cl).(*types.Named); ok && nt.Obj().Name() == typeName && nt.Obj().Pkg().Path() == pMessage {
						found = true
					}
				}
				return !found
			})
		}
		return found
	}
	r.Sites++
	r.Check(constructs("RegisterTMRequest"), "C19.announce", "OnOpen announces the client as transaction manager", w.Pos(onOpen.Decl.Pos()), "RegisterTMRequest is built and sent from OnOpen", "a new session is not announced as transaction manager: global transactions cannot begin after a reconnect")
	// on every path: a session that OnOpen accepts (nil return) has had the TM announcement sent, directly or by
	// the goroutine started for it — an early return for "sessions we already know" skips it for a reconnect
	{
		sp := &flow.Spec{W: w, Depth: 0, Classify: func(pkg *packages.Package, call *ast.CallExpr, callee *types.Func) []flow.Tag {
			if callee != nil && strings.HasPrefix(callee.Name(), "Send") && len(call.Args) >= 1 {
				if t, ok := pkg.TypesInfo.TypeOf(call.Args[len(call.Args)-1]).(*types.Named); ok && t.Obj().Name() == "RegisterTMRequest" {
					return []flow.Tag{"announce"}
				}
				if t, ok := pkg.TypesInfo.TypeOf(call.Args[0]).(*types.Named); ok && t.Obj().Name() == "RegisterTMRequest" {
					return []flow.Tag{"announce"}
				}
			}
			return nil
		}}
		res := sp.Analyze(onOpen)
		for _, ex := range res.Exits {
			if ex.Class == flow.ExitErr {
				continue
			}
			r.Sites++
			r.Check(ex.St.Has("announce") || ex.St.Has("go:announce"), "C19.announce", core.ShortKey(onOpen.Obj)+" "+exitRole(ex, nil)+" has announced the transaction manager on the new session", w.Pos(ex.Pos),
				"RegisterTMRequest sent on every accepting path", "OnOpen accepts the session on a path that does not send RegisterTMRequest: after the connection is lost and re-established the coordinator does not know this client as transaction manager, so no new global transaction can begin")
		}
	}
	r.Sites++
	r.Check(constructs("RegisterRMRequest"), "C19.announce", "OnOpen announces the registered resources", w.Pos(onOpen.Decl.Pos()), "RegisterRMRequest for the cached resources is reachable from OnOpen",
		"nothing reachable from OnOpen builds a RegisterRMRequest: resources are announced only when they are created (RMRemoting.RegisterResource), so after the connection to the coordinator is re-established phase-two requests for this client's branches no longer reach it")
	_ = sort.Strings
}

// funcValuesReturned: the declared functions h can hand back as a function value — nil unless every return of h
// is the name of one.
func funcValuesReturned(h *core.FuncInfo) []*types.Func {
	var out []*types.Func
	ok := true
	ast.Inspect(h.Decl.Body, func(n ast.Node) bool {
		switch x := n.(type) {
		case *ast.FuncLit:
			return false
		case *ast.ReturnStmt:
			if len(x.Results) != 1 {
				ok = false
				return true
			}
			var id *ast.Ident
			switch y := ast.Unparen(x.Results[0]).(type) {
			case *ast.Ident:
				id = y
			case *ast.SelectorExpr:
				id = y.Sel
			}
			if id == nil {
				ok = false
				return true
			}
			if fn, isFn := h.Pkg.TypesInfo.Uses[id].(*types.Func); isFn {
				out = append(out, fn)
			} else {
				ok = false
			}
		}
		return true
	})
	if !ok {
		return nil
	}
	return out
}

// liveCond: what a branch condition tells about a session variable: `x.IsClosed()` false, or a predicate of the
// package over x (releaseIfClosed(x), isOpen(x)) answering the value it only answers for a session it has just
// seen open.
func (lc *liveChecker) liveCond(pkg *packages.Package, cond ast.Expr, branch bool) []flow.Tag {
	c, ok := ast.Unparen(cond).(*ast.CallExpr)
	if !ok {
		return nil
	}
	tag := func(o types.Object) []flow.Tag { return []flow.Tag{"live:" + o.Name() + "@" + lc.w.Pos(o.Pos())} }
	if sel, ok := ast.Unparen(c.Fun).(*ast.SelectorExpr); ok && sel.Sel.Name == "IsClosed" {
		if o := core.ObjOf(pkg.TypesInfo, sel.X); o != nil && !branch {
			return tag(o)
		}
		return nil
	}
	h := lc.w.Info(core.Callee(pkg.TypesInfo, c))
	if h == nil || h.Decl.Body == nil || h.Pkg != pkg {
		return nil
	}
	sig := h.Obj.Type().(*types.Signature)
	if sig.Results().Len() != 1 {
		return nil
	}
	if b, ok := sig.Results().At(0).Type().Underlying().(*types.Basic); !ok || b.Kind() != types.Bool {
		return nil
	}
	ps := paramObjs(h)
	for i, a := range c.Args {
		o := core.ObjOf(pkg.TypesInfo, a)
		if o == nil || i >= len(ps) || !isSessionType(ps[i].Type()) {
			continue
		}
		if lc.openWhen(h, ps[i], branch) {
			return tag(o)
		}
	}
	return nil
}

// openWhen: every exit of the predicate h that can answer `val` has seen its parameter p open.
func (lc *liveChecker) openWhen(h *core.FuncInfo, p types.Object, val bool) bool {
	key := [3]interface{}{h, p, val}
	if lc.fed == nil {
		lc.fed = map[[3]interface{}]bool{}
	}
	if v, ok := lc.fed[key]; ok {
		return v
	}
	lc.fed[key] = false
	info := h.Pkg.TypesInfo
	live := "live:" + p.Name() + "@" + lc.w.Pos(p.Pos())
	basic := func(pkg *packages.Package, cond ast.Expr, branch bool) []flow.Tag {
		if c, ok := ast.Unparen(cond).(*ast.CallExpr); ok {
			if sel, ok := ast.Unparen(c.Fun).(*ast.SelectorExpr); ok && sel.Sel.Name == "IsClosed" && !branch {
				if o := core.ObjOf(pkg.TypesInfo, sel.X); o != nil {
					return []flow.Tag{"live:" + o.Name() + "@" + lc.w.Pos(o.Pos())}
				}
			}
		}
		return nil
	}
	ok := true
	n := 0
	for _, ex := range (&flow.Spec{W: lc.w, Depth: 0, CondTags: basic}).Analyze(h).Exits {
		if len(ex.Results) != 1 {
			return false
		}
		n++
		e := ast.Unparen(ex.Results[0])
		if v := core.ConstVal(info, e); v != nil && v.Kind() == constant.Bool {
			if constant.BoolVal(v) == val && !ex.St.Has(live) {
				ok = false
			}
			continue
		}
		// `return p.IsClosed()` / `return !p.IsClosed()`
		neg := false
		if u, isU := e.(*ast.UnaryExpr); isU && u.Op == token.NOT {
			neg, e = true, ast.Unparen(u.X)
		}
		if c, isC := e.(*ast.CallExpr); isC {
			if sel, isS := ast.Unparen(c.Fun).(*ast.SelectorExpr); isS && sel.Sel.Name == "IsClosed" && core.ObjOf(info, sel.X) == p {
				// answers val exactly when IsClosed() == (val != neg): open iff that is false
				if (val != neg) == false {
					continue
				}
			}
		}
		if !ex.St.Has(live) {
			ok = false
		}
	}
	lc.fed[key] = ok && n > 0
	return ok && n > 0
}
