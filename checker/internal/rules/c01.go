package rules

import (
	"go/ast"
	"go/token"
	"go/types"
	"sort"
	"strings"

	"golang.org/x/tools/go/packages"

	"seatalint/internal/core"
	"seatalint/internal/flow"
)

func init() { register("C01", checkC01) }

// undoWorld gathers the anchors shared by C01, C09 and C10.
type undoWorld struct {
	atMgr      *types.Named
	rollback   *core.FuncInfo   // AT BranchRollback
	runUndo    []*core.FuncInfo // live UndoLogManager.RunUndo implementations reachable from rollback
	undoFns    []*core.FuncInfo // functions that open the undo transaction (call sql BeginTx and reach ExecuteOn)
	chain      []*core.FuncInfo // everything reachable from runUndo inside the undo packages
	executors  []*core.FuncInfo // live UndoExecutor.ExecuteOn implementations
	getUndoExe *core.FuncInfo
}

func isBeginTx(f *types.Func) bool {
	return stdMethod(f, pSQL, "Conn", "BeginTx") || stdMethod(f, pSQL, "DB", "BeginTx") || stdMethod(f, pSQL, "DB", "Begin")
}

func resolveUndoWorld(r *core.Run, rule string) *undoWorld {
	w := r.W
	u := &undoWorld{}
	u.atMgr = managerFor(r, "BranchTypeAT")
	if u.atMgr == nil {
		r.Anchor(rule, nil, "rm.ResourceManager implementation whose GetBranchType returns BranchTypeAT")
		return nil
	}
	u.rollback = r.Anchor(rule, methodInfo(w, u.atMgr, "BranchRollback"), "AT manager BranchRollback")
	if u.rollback == nil {
		return nil
	}
	// RunUndo implementations that the AT manager may reach: all repo implementations obtained from the registry,
	// minus those whose body is the trivial "return nil" of the embedded base (never registered).
	ifc := w.NamedType("pkg/datasource/sql/undo", "UndoLogManager")
	if ifc == nil {
		r.Anchor(rule, nil, "undo.UndoLogManager interface")
		return nil
	}
	registered := registeredUndoManagers(w)
	for _, n := range w.Implementers(ifc.Underlying().(*types.Interface)) {
		if w.IsTestFile(n.Obj().Pos()) || strings.Contains(n.Obj().Pkg().Path(), "/mock") {
			continue
		}
		if len(registered) > 0 && !registered[n] {
			continue
		}
		if fi := methodInfo(w, n, "RunUndo"); fi != nil {
			u.runUndo = append(u.runUndo, fi)
			r.Fn(fi)
		}
	}
	if len(u.runUndo) == 0 {
		r.Anchor(rule, nil, "a registered undo.UndoLogManager implementation with RunUndo")
		return nil
	}
	u.chain = reachFrom(w, u.runUndo, core.Module+"/pkg/datasource/sql/undo")
	for _, f := range u.chain {
		begins := false
		for _, cs := range w.Calls(f) {
			if isBeginTx(cs.Static) {
				begins = true
			}
		}
		if begins {
			u.undoFns = append(u.undoFns, f)
		}
		if f.Obj.Name() == "ExecuteOn" && isIfaceOrImpl(w, f.Obj, "pkg/datasource/sql/undo", "UndoExecutor", "ExecuteOn") {
			u.executors = append(u.executors, f)
		}
	}
	// the executor factory: function in the chain returning undo.UndoExecutor with a switch on SQLType
	ue := w.NamedType("pkg/datasource/sql/undo", "UndoExecutor")
	for _, f := range u.chain {
		sig := f.Obj.Type().(*types.Signature)
		if sig.Recv() == nil && sig.Results().Len() == 2 && ue != nil && types.Identical(sig.Results().At(0).Type(), ue) {
			u.getUndoExe = f
		}
	}
	return u
}

// registeredUndoManagers: the concrete types handed to undo.RegisterUndoLogManager anywhere in the repo.
func registeredUndoManagers(w *core.World) map[*types.Named]bool {
	out := map[*types.Named]bool{}
	reg := w.Func("pkg/datasource/sql/undo", "", "RegisterUndoLogManager")
	if reg == nil {
		return out
	}
	for _, cs := range w.Callers(reg.Obj) {
		if w.IsTestFile(cs.Call.Pos()) || len(cs.Call.Args) == 0 {
			continue
		}
		t := cs.Caller.Pkg.TypesInfo.TypeOf(cs.Call.Args[0])
		if p, ok := t.(*types.Pointer); ok {
			t = p.Elem()
		}
		if n, ok := t.(*types.Named); ok {
			out[n] = true
		}
	}
	return out
}

var c01Idioms = []idiom{
	{Fn: "", Callee: "database/sql/driver.(Valuer).Value", Kind: "dropped",
		Reason: "the scan slices of the undo executors hold database/sql Null* values whose Value() cannot fail (wherever the unwrapping is done)"},
	{Fn: "pkg/datasource/sql/undo/base.(BaseUndoLogManager).HasUndoLogTable", Callee: "database/sql.(Conn).QueryContext", Kind: "swallowed",
		Reason: "MySQL error 1146 (no such table) is the negative answer of this probe, returned as (false, nil); not on the rollback chain"},
	{Fn: "pkg/datasource/sql/undo/base.(BaseUndoLogManager).getSerializer", Callee: "", Kind: "",
		Reason: "placeholder"},
}

func checkC01(r *core.Run) {
	r.Explain = "Decided statically for every CFG path of the anchored functions: (C01.flush) no error of the statements that write the undo log in phase one (FlushUndoLog / InsertUndoLog implementations) is dropped, overwritten or turned into nil — a branch whose undo log was not written must not commit locally; (C01.pure) no function of the undo run consults package-level state that request paths mutate (no memo or remembered answer between rollbacks); (C01.status) the AT BranchRollback returns the 'rollbacked' status constant only where the error of UndoLogManager.RunUndo is known nil and a failure status everywhere else; (C01.errchain) every error-returning call on the call-graph chain RunUndo -> Undo -> GetUndoExecutor -> ExecuteOn (packages undo/*) is propagated or handled by an enumerated idiom, no failed call is followed by a provably-nil return, no deferred closure overwrites the named error result; (C01.tx) the sql.Tx begun by the undo routine is committed on every nil-error return and rolled back on every error return; (C01.delete) Commit is reached only after the undo-log delete (or the finished marker) succeeded; (C01.reverse) the replay loop runs after the log slice was reversed; (C01.dispatch) Insert/Delete/Update undo logs are dispatched to executors whose SQL templates are DELETE/INSERT/UPDATE. (C01.restore) a compensating statement executed inside a loop over the rows of an image is bound with values computed from that row inside the loop; NOT decided: that the replayed values equal the pre-transaction rows for any schema/value/configuration (undo(redo(db))==db), SQL text beyond the statement kind, database behaviour."
	r.Trusted = []string{"go/types, go/cfg", "database/sql semantics of Tx.Commit/Rollback", "CHA resolution of interface calls over repository types"}
	r.Assume = []string{"third-party UndoLogManager/UndoExecutor implementations are outside the claim"}
	u := resolveUndoWorld(r, "C01.anchor")
	if u == nil {
		return
	}
	c01Status(r, u)
	errDiscipline(r, "C01.errchain", u.chain, append(c01Idioms, idiom{Fn: core.ShortKey(u.rollback.Obj), Callee: "pkg/datasource/sql/undo.(UndoLogManager).RunUndo", Kind: "swallowed", Reason: "converted into a failure status (C01.status decides which)"}))
	r.Floor("C01.errchain", 25)
	// the flush side: the undo log is written in the business local transaction and a failed write is reported
	{
		var flush []*core.FuncInfo
		for _, f := range r.W.SortedFuncs() {
			if (f.Obj.Name() == "FlushUndoLog" || f.Obj.Name() == "InsertUndoLog") && isIfaceOrImpl(r.W, f.Obj, "pkg/datasource/sql/undo", "UndoLogManager", f.Obj.Name()) && !r.W.IsTestFile(f.Decl.Pos()) && !strings.Contains(f.Pkg.PkgPath, "/mock") {
				flush = append(flush, f)
			}
		}
		errDiscipline(r, "C01.flush", dedupFns(flush), c02Idioms)
		r.Floor("C01.flush", 5)
	}
	c01Tx(r, u, "C01")
	// the compensation is a function of the undo log alone
	pureOfRuntimeState(r, "C01.pure", "the undo run (records read, executor chosen, compensating statement built)", append(append([]*core.FuncInfo{u.rollback}, u.chain...), reachFrom(r.W, u.executors, pUndo)...), nil)
	r.Floor("C01.pure", 20)
	rowsErrChecked(r, "C01.errchain", append(append([]*core.FuncInfo{}, u.chain...), reachFrom(r.W, u.executors, pUndo)...))
	c01Reverse(r, u)
	c01Dispatch(r, u)
	c01RowValues(r)
	r.Floor("C01.status", 3)
	r.Floor("C01.tx", 3)
	r.Floor("C01.dispatch", 3)
}

// C01.status
func c01Status(r *core.Run, u *undoWorld) {
	w := r.W
	sp := &flow.Spec{W: w, Depth: 0, Classify: func(pkg *packages.Package, call *ast.CallExpr, callee *types.Func) []flow.Tag {
		if isIfaceOrImpl(w, callee, "pkg/datasource/sql/undo", "UndoLogManager", "RunUndo") {
			return []flow.Tag{"undo"}
		}
		return nil
	}}
	res := sp.Analyze(u.rollback)
	info := u.rollback.Pkg.TypesInfo
	failure := map[string]bool{"BranchStatusUnknown": true, "BranchStatusPhaseoneFailed": true, "BranchStatusPhasetwoRollbackFailedRetryable": true, "BranchStatusPhasetwoRollbackFailedUnretryable": true}
	nUndo := 0
	for _, cp := range res.Calls {
		if inSet("undo", cp.Tags...) {
			nUndo++
		}
	}
	if nUndo == 0 {
		r.Bad("C01.status", core.ShortKey(u.rollback.Obj)+" : no call to UndoLogManager.RunUndo", r.W.Pos(u.rollback.Decl.Pos()), "BranchRollback never runs the undo")
	}
	for _, ex := range res.Exits {
		r.Sites++
		c := ex.ResultConst(info, 0)
		role := exitRole(ex, func(t string) bool { return strings.HasSuffix(t, "undo") })
		key := core.ShortKey(u.rollback.Obj) + " " + role + " status=" + constName(c)
		pos := w.Pos(ex.Pos)
		switch {
		case c == nil:
			r.Undecided("C01.status", key, pos, "returned status is not a named constant; cannot decide truthfulness")
		case ex.St.Has("ok:undo"):
			r.Check(c.Name() == "BranchStatusPhasetwoRollbacked" || failure[c.Name()], "C01.status", key, pos,
				"undo succeeded on every path to this return", "after a successful undo the status must be PhasetwoRollbacked (or a failure), got "+c.Name())
		default:
			r.Check(failure[c.Name()], "C01.status", key, pos, "failure status on a path where undo is not known to have succeeded",
				"status "+c.Name()+" is returned on a path where RunUndo's error is not known to be nil: a failed undo would be reported as success")
		}
	}
}

func txTags(pkg *packages.Package, call *ast.CallExpr, callee *types.Func) []flow.Tag {
	switch {
	case isBeginTx(callee):
		return []flow.Tag{"begin"}
	case stdMethod(callee, pSQL, "Tx", "Commit"):
		return []flow.Tag{"commit"}
	case stdMethod(callee, pSQL, "Tx", "Rollback"):
		return []flow.Tag{"rollback"}
	}
	return nil
}

// C01.tx and C01.delete (shared with C10 under its own property id prefix).
func c01Tx(r *core.Run, u *undoWorld, prop string) {
	w := r.W
	if len(u.undoFns) == 0 {
		r.Anchor(prop+".tx", nil, "function on the RunUndo chain that begins a database/sql transaction")
		return
	}
	for _, fn := range u.undoFns {
		r.Fn(fn)
		// the transaction is begun on the very connection the undo statements run on: a transaction begun on the
		// pool (another connection) leaves the statements in autocommit — the row locks of the validation read are
		// released before the restore, and nothing is rolled back when a later statement fails
		{
			info := fn.Pkg.TypesInfo
			var beginOn, stmtsOn []string
			var beginPos token.Pos
			ast.Inspect(fn.Decl.Body, func(n ast.Node) bool {
				c, ok := n.(*ast.CallExpr)
				if !ok {
					return true
				}
				callee := core.Callee(info, c)
				sel, _ := ast.Unparen(c.Fun).(*ast.SelectorExpr)
				switch {
				case isBeginTx(callee) && sel != nil:
					beginOn = append(beginOn, core.ExprString(sel.X))
					beginPos = c.Pos()
				case sel != nil && callee != nil && callee.Pkg() != nil && callee.Pkg().Path() == pSQL && (strings.HasPrefix(callee.Name(), "Prepare") || strings.HasPrefix(callee.Name(), "Query") || strings.HasPrefix(callee.Name(), "Exec")):
					if rn := core.RecvNamed(callee); rn != nil && inSet(rn.Obj().Name(), "Conn", "DB", "Tx") {
						stmtsOn = append(stmtsOn, core.ExprString(sel.X))
					}
				case isIfaceOrImpl(w, callee, "pkg/datasource/sql/undo", "UndoExecutor", "ExecuteOn"):
					for _, a := range c.Args {
						if t := info.TypeOf(a); t != nil && (t.String() == "*database/sql.Conn" || t.String() == "*database/sql.Tx") {
							stmtsOn = append(stmtsOn, core.ExprString(a))
						}
					}
				}
				return true
			})
			same := len(beginOn) == 1 && len(stmtsOn) > 0
			txVar := ""
			ast.Inspect(fn.Decl.Body, func(n ast.Node) bool {
				if as, ok := n.(*ast.AssignStmt); ok && len(as.Rhs) == 1 && len(as.Lhs) >= 1 {
					if c, ok := ast.Unparen(as.Rhs[0]).(*ast.CallExpr); ok && isBeginTx(core.Callee(info, c)) {
						txVar = core.ExprString(as.Lhs[0])
					}
				}
				return true
			})
			for _, sOn := range stmtsOn {
				if len(beginOn) != 1 || (sOn != beginOn[0] && sOn != txVar) {
					same = false
				}
			}
			r.Sites++
			r.Check(same, prop+".tx", core.ShortKey(fn.Obj)+" : the undo statements run on the connection the transaction was begun on", w.Pos(beginPos),
				"begun on "+strings.Join(beginOn, ",")+", statements on "+strings.Join(uniq(stmtsOn), ","),
				"the transaction is begun on ["+strings.Join(beginOn, ",")+"] but the undo statements run on ["+strings.Join(uniq(stmtsOn), ",")+"]: they execute in autocommit on another connection, so the lock taken by the validation read is gone before the restore (a foreign write in between is overwritten) and a failing later statement leaves the earlier restores committed")
		}
		// paths on which the loop over the records ran are kept apart from those on which it did not (what is done
		// afterwards — delete or marker — may be chosen inside the loop, e.g. as a function value)
		var split []flow.Tag
		ast.Inspect(fn.Decl.Body, func(n ast.Node) bool {
			if rs, ok := n.(*ast.RangeStmt); ok {
				if id, ok := ast.Unparen(rs.X).(*ast.Ident); ok {
					if v, ok := fn.Pkg.TypesInfo.Uses[id].(*types.Var); ok && !v.IsField() && v.Parent() != v.Pkg().Scope() {
						split = append(split, flow.RangedTag(v))
					}
				}
			}
			return true
		})
		sp := &flow.Spec{W: w, Depth: 2, Split: split, Classify: func(pkg *packages.Package, call *ast.CallExpr, callee *types.Func) []flow.Tag {
			if t := txTags(pkg, call, callee); t != nil {
				return t
			}
			switch {
			case isIfaceOrImpl(w, callee, "pkg/datasource/sql/undo", "UndoExecutor", "ExecuteOn"):
				return []flow.Tag{"execute"}
			case isUndoLogDelete(w, callee):
				return []flow.Tag{"delete", "logdone"}
			case isMarkerInsert(w, callee):
				return []flow.Tag{"marker", "logdone"}
			case stdMethod(callee, pSQL, "DB", "Conn"):
				return []flow.Tag{"conn"}
			case stdMethod(callee, pSQL, "Conn", "Close"):
				return []flow.Tag{"connclose"}
			}
			return nil
		}}
		res := sp.Analyze(fn)
		errRes := namedErrResult(fn.Pkg, fn.Decl.Type)
		// deferred closures: do they roll back when the (named) error is non-nil at exit?
		deferRollbackOnErr := false
		ast.Inspect(fn.Decl.Body, func(n ast.Node) bool {
			ds, ok := n.(*ast.DeferStmt)
			if !ok {
				return true
			}
			if sub := deferredWhenErr(sp, fn, ds, errRes); sub != nil && sub.Sum != nil {
				if sub.Sum.MustAll["rollback"] {
					deferRollbackOnErr = true
				}
			} else if stdMethod(core.Callee(fn.Pkg.TypesInfo, ds.Call), pSQL, "Tx", "Rollback") {
				deferRollbackOnErr = true // defer tx.Rollback(): a no-op after Commit, rolls back otherwise
			}
			return true
		})
		interesting := func(t string) bool {
			return hasPrefixAny(t, "ok:begin", "ok:commit", "fail:commit", "rollback", "ok:logdone", "execute") && !strings.HasPrefix(t, "defer:")
		}
		for _, ex := range res.Exits {
			if !ex.St.Has("ok:begin") {
				continue // the transaction was not opened on this path
			}
			r.Sites++
			key := core.ShortKey(fn.Obj) + " " + exitRole(ex, interesting)
			pos := w.Pos(ex.Pos)
			committed := ex.St.Has("ok:commit")
			rolled := ex.St.Has("rollback") || (deferRollbackOnErr && errRes != nil) || ex.St.Has("defer:rollback")
			switch ex.Class {
			case flow.ExitOK:
				r.Check(committed, prop+".tx", key, pos, "nil is returned only after Commit returned nil",
					"nil error returned while the transaction begun by this function is not known committed (left open, or Commit failed): locks stay held and the caller reports success")
			case flow.ExitErr:
				r.Check(rolled && !committed, prop+".tx", key, pos, "error return rolls the transaction back (directly or by the deferred rollback)",
					"error return without rolling back the transaction begun by this function")
			default:
				commitItself := ex.ErrOrigin != nil && inSet("commit", ex.ErrOrigin.Tags...)
				r.Check(committed || rolled || commitItself, prop+".tx", key, pos, "transaction ended on this return",
					"return of an unknown error value with the transaction neither committed nor rolled back")
			}
		}
		// C01.delete: Commit only after the undo-log bookkeeping succeeded
		for _, cp := range res.Calls {
			if !inSet("commit", cp.Tags...) || cp.Defer {
				continue
			}
			r.Sites++
			key := core.ShortKey(fn.Obj) + " -> database/sql.(Tx).Commit"
			r.Check(cp.Before.Has("ok:logdone"), prop+".delete", key, w.Pos(cp.Call.Pos()),
				"Commit is dominated by a successful undo-log delete / finished-marker insert",
				"Commit can be reached without the undo-log delete (or finished marker) having succeeded: the branch's undo log would survive, or a retry would replay it")
		}
	}
}

// isUndoLogDelete: a function of the undo packages that prepares/executes the single-branch DELETE on the undo log.
func isUndoLogDelete(w *core.World, f *types.Func) bool {
	return isIfaceOrImpl(w, f, "pkg/datasource/sql/undo", "UndoLogManager", "DeleteUndoLog")
}

// isMarkerInsert: repo function on the undo chain that inserts a record with the global-finished status constant.
func isMarkerInsert(w *core.World, f *types.Func) bool {
	fi := w.Info(f)
	if fi == nil || !strings.HasPrefix(fi.Pkg.PkgPath, pUndo) {
		return false
	}
	found := false
	ast.Inspect(fi.Decl.Body, func(n ast.Node) bool {
		kv, ok := n.(*ast.KeyValueExpr)
		if !ok {
			return true
		}
		if k, ok := kv.Key.(*ast.Ident); ok && k.Name == "LogStatus" {
			if c := core.ConstObj(fi.Pkg.TypesInfo, kv.Value); c != nil && strings.Contains(c.Name(), "GlobalFinished") {
				found = true
			}
		}
		return true
	})
	return found
}

// C01.reverse: the replay loop is preceded by the in-place reversal of the decoded log slice.
func c01Reverse(r *core.Run, u *undoWorld) {
	w := r.W
	bul := w.NamedType("pkg/datasource/sql/undo", "BranchUndoLog")
	if bul == nil {
		r.Anchor("C01.reverse", nil, "undo.BranchUndoLog")
		return
	}
	// reversing methods: methods of BranchUndoLog containing a crossed element swap x[i], x[j] = x[j], x[i]
	reversers := map[*types.Func]bool{}
	for i := 0; i < bul.NumMethods(); i++ {
		m := w.Info(bul.Method(i))
		if m == nil {
			continue
		}
		ast.Inspect(m.Decl.Body, func(n ast.Node) bool {
			as, ok := n.(*ast.AssignStmt)
			if ok && len(as.Lhs) == 2 && len(as.Rhs) == 2 && as.Tok == token.ASSIGN &&
				core.ExprString(as.Lhs[0]) == core.ExprString(as.Rhs[1]) && core.ExprString(as.Lhs[1]) == core.ExprString(as.Rhs[0]) {
				if _, isIdx := as.Lhs[0].(*ast.IndexExpr); isIdx && loopMovesInward(m) {
					reversers[m.Obj] = true
				}
			}
			return true
		})
	}
	for _, fn := range u.undoFns {
		sp := &flow.Spec{W: w, Depth: 0, Classify: func(pkg *packages.Package, call *ast.CallExpr, callee *types.Func) []flow.Tag {
			if reversers[callee] {
				return []flow.Tag{"reverse"}
			}
			if isIfaceOrImpl(w, callee, "pkg/datasource/sql/undo", "UndoExecutor", "ExecuteOn") {
				return []flow.Tag{"execute"}
			}
			return nil
		}}
		res := sp.Analyze(fn)
		for _, cp := range res.Calls {
			if !inSet("execute", cp.Tags...) {
				continue
			}
			r.Sites++
			key := core.ShortKey(fn.Obj) + " -> UndoExecutor.ExecuteOn"
			okLoop := cp.InLoop && (cp.Before.Has("reverse") || descendingLoopAround(fn, cp.Call))
			r.Check(okLoop, "C01.reverse", key, w.Pos(cp.Call.Pos()), "every path to the replay passes the in-place reversal of the log slice",
				"the undo logs are replayed without first being reversed (a later statement's image would be restored before an earlier one's)")
		}
	}
}

// loopMovesInward: the method's loop increments one index and decrements the other (a real reversal).
func loopMovesInward(m *core.FuncInfo) bool {
	inc, dec := false, false
	ast.Inspect(m.Decl.Body, func(n ast.Node) bool {
		if s, ok := n.(*ast.IncDecStmt); ok {
			if s.Tok == token.INC {
				inc = true
			} else {
				dec = true
			}
		}
		return true
	})
	return inc && dec
}

// descendingLoopAround: the call sits in `for i := len(x)-1; i >= 0; i--`.
func descendingLoopAround(fn *core.FuncInfo, call *ast.CallExpr) bool {
	for _, n := range enclosing(fn.Decl.Body, call) {
		if fs, ok := n.(*ast.ForStmt); ok {
			if p, ok := fs.Post.(*ast.IncDecStmt); ok && p.Tok == token.DEC {
				return true
			}
		}
	}
	return false
}

// C01.dispatch
func c01Dispatch(r *core.Run, u *undoWorld) {
	w := r.W
	f := u.getUndoExe
	if f == nil {
		r.Anchor("C01.dispatch", nil, "factory returning undo.UndoExecutor on the RunUndo chain")
		return
	}
	r.Fn(f)
	info := f.Pkg.TypesInfo
	want := map[string]string{"SQLTypeInsert": "DELETE", "SQLTypeDelete": "INSERT", "SQLTypeUpdate": "UPDATE"}
	seen := map[string]bool{}
	hasDefaultErr := false
	ast.Inspect(f.Decl.Body, func(n ast.Node) bool {
		sw, ok := n.(*ast.SwitchStmt)
		if !ok {
			return true
		}
		for _, c := range sw.Body.List {
			cc := c.(*ast.CaseClause)
			if cc.List == nil {
				// default must return an error
				for _, s := range cc.Body {
					if rs, ok := s.(*ast.ReturnStmt); ok && len(rs.Results) == 2 && !isNilIdent(info, rs.Results[1]) {
						hasDefaultErr = true
					}
				}
				continue
			}
			for _, e := range cc.List {
				co := core.ConstObj(info, e)
				if co == nil {
					continue
				}
				r.Sites++
				kinds := map[string]bool{}
				var types_ []string
				ast.Inspect(cc, func(m ast.Node) bool {
					call, ok := m.(*ast.CallExpr)
					if !ok {
						return true
					}
					_, callees, _ := w.Resolve(info, call)
					for _, holderM := range callees {
						hm := w.Info(holderM)
						if hm == nil || w.IsTestFile(hm.Decl.Pos()) {
							continue
						}
						for _, t := range returnedTypes(hm) {
							ex := methodInfo(w, t, "ExecuteOn")
							if ex == nil {
								continue
							}
							types_ = append(types_, t.Obj().Name())
							for _, g := range reachFrom(w, []*core.FuncInfo{ex}, ex.Pkg.PkgPath) {
								for _, s := range stringConstsIn(g) {
									if k := firstWord(s); inSet(k, "INSERT", "UPDATE", "DELETE") {
										kinds[k] = true
									}
								}
							}
						}
					}
					return true
				})
				var ks []string
				for k := range kinds {
					ks = append(ks, k)
				}
				sort.Strings(ks)
				key := core.ShortKey(f.Obj) + " case " + co.Name()
				exp, known := want[co.Name()]
				seen[co.Name()] = true
				if !known {
					r.Undecided("C01.dispatch", key, w.Pos(e.Pos()), "no expected compensation registered for this SQL type in the checker's table")
					continue
				}
				r.Check(len(ks) == 1 && ks[0] == exp, "C01.dispatch", key, w.Pos(e.Pos()),
					"dispatches to "+strings.Join(types_, ",")+" whose statement templates are "+exp,
					"undo of "+co.Name()+" must compensate with "+exp+" but the executor(s) "+strings.Join(types_, ",")+" build "+strings.Join(ks, ","))
			}
		}
		return true
	})
	for k := range want {
		if !seen[k] {
			r.Bad("C01.dispatch", core.ShortKey(f.Obj)+" case "+k, w.Pos(f.Decl.Pos()), "no case for "+k+": such undo logs cannot be rolled back")
		}
	}
	r.Check(hasDefaultErr, "C01.dispatch", core.ShortKey(f.Obj)+" default", w.Pos(f.Decl.Pos()), "unknown SQL types are rejected with an error", "default branch does not return an error for an unknown SQL type")
}

// returnedTypes lists the named pointer types of the expressions returned by fn.
func returnedTypes(fn *core.FuncInfo) []*types.Named {
	var out []*types.Named
	ast.Inspect(fn.Decl.Body, func(n ast.Node) bool {
		if _, ok := n.(*ast.FuncLit); ok {
			return false
		}
		rs, ok := n.(*ast.ReturnStmt)
		if !ok {
			return true
		}
		for _, e := range rs.Results {
			t := fn.Pkg.TypesInfo.TypeOf(e)
			if p, ok := t.(*types.Pointer); ok {
				t = p.Elem()
			}
			if nt, ok := t.(*types.Named); ok {
				out = append(out, nt)
			}
		}
		return true
	})
	return out
}

// c01RowValues (C01.restore): in the undo executors a compensating statement executed inside a loop over the rows of
// an image is bound with values of the row being restored: every value handed to Exec is read from the loop's row
// variable, or from something computed from it inside the loop (a key list resolved once, from another row, carries
// that row's values — the statement then restores row after row onto one and the same row).
func c01RowValues(r *core.Run) {
	w := r.W
	n := 0
	siteIn := map[*core.FuncInfo]bool{}
	for _, f := range w.SortedFuncs() {
		if f.Pkg.PkgPath != pUndoExec || w.IsTestFile(f.Decl.Pos()) || f.Decl.Body == nil {
			continue
		}
		info := f.Pkg.TypesInfo
		ast.Inspect(f.Decl.Body, func(nd ast.Node) bool {
			rs, ok := nd.(*ast.RangeStmt)
			if !ok || rs.Value == nil {
				return true
			}
			sel, ok := ast.Unparen(rs.X).(*ast.SelectorExpr)
			if !ok || sel.Sel.Name != "Rows" {
				return true
			}
			rowVar, _ := core.ObjOf(info, rs.Value).(*types.Var)
			if rowVar == nil {
				return true
			}
			inLoop := func(p token.Pos) bool { return p >= rs.Body.Pos() && p < rs.Body.End() }
			var derived func(e ast.Expr, depth int) bool
			derived = func(e ast.Expr, depth int) bool {
				if e == nil || depth > 5 {
					return false
				}
				if mentions(info, e, rowVar) {
					return true
				}
				id, ok := ast.Unparen(e).(*ast.Ident)
				if !ok {
					// a selection / conversion of something derived
					switch x := ast.Unparen(e).(type) {
					case *ast.SelectorExpr:
						return derived(x.X, depth+1)
					case *ast.CallExpr:
						if tv, isConv := info.Types[x.Fun]; isConv && tv.IsType() && len(x.Args) == 1 {
							return derived(x.Args[0], depth+1)
						}
					case *ast.IndexExpr:
						return derived(x.X, depth+1)
					}
					return false
				}
				v, ok := info.Uses[id].(*types.Var)
				if !ok {
					return false
				}
				defs := localDefs(f, v)
				if len(defs) == 0 {
					return false
				}
				some := false
				for _, d := range defs {
					if !inLoop(d.rhs.Pos()) && !d.rng {
						return false // computed outside the loop over the rows
					}
					if d.rng && !inLoop(d.rhs.Pos()) {
						return false
					}
					rhs := ast.Unparen(d.rhs)
					if c, ok := rhs.(*ast.CallExpr); ok {
						if fid, ok := c.Fun.(*ast.Ident); ok && fid.Name == "append" && len(c.Args) >= 1 {
							for _, a := range c.Args[1:] {
								if !derived(a, depth+1) {
									return false
								}
							}
							some = true
							continue
						}
						if fid, ok := c.Fun.(*ast.Ident); ok && fid.Name == "make" {
							continue
						}
					}
					if !derived(rhs, depth+1) {
						return false
					}
					some = true
				}
				return some
			}
			ast.Inspect(rs.Body, func(m ast.Node) bool {
				c, ok := m.(*ast.CallExpr)
				if !ok {
					return true
				}
				callee := core.Callee(info, c)
				if !(stdMethod(callee, pSQL, "Stmt", "Exec") || stdMethod(callee, pSQL, "Stmt", "ExecContext") || stdMethod(callee, pDriver, "Stmt", "Exec")) {
					return true
				}
				n++
				siteIn[f] = true
				r.Sites++
				r.Fn(f)
				bad := ""
				for _, a := range c.Args {
					if t := info.TypeOf(a); t != nil && t.String() == "context.Context" {
						continue
					}
					if !derived(a, 0) {
						bad = core.ExprString(a)
					}
				}
				r.Check(bad == "", "C01.restore", core.ShortKey(f.Obj)+" binds the compensating statement with the values of the row it restores", w.Pos(c.Pos()),
					"every bound value is read from the loop's row", "the statement executed for each row of the image is bound with '"+bad+"', which is not computed from that row inside the loop: every row's old values are written onto the row whose key was resolved once, the other rows stay as the branch left them, and the branch is still reported as rolled back")
				return true
			})
			return true
		})
	}
	// every undo executor reaches such a per-row execution (its own, or one it shares with a sibling)
	execs := 0
	for _, f := range w.SortedFuncs() {
		if f.Pkg.PkgPath != pUndoExec || w.IsTestFile(f.Decl.Pos()) || f.Obj.Name() != "ExecuteOn" || core.RecvNamed(f.Obj) == nil {
			continue
		}
		if len(w.Calls(f)) == 0 {
			continue // the embedded base type's empty method
		}
		execs++
		found := false
		for g := range w.Reach([]*core.FuncInfo{f}, func(h *core.FuncInfo) bool { return h.Pkg != f.Pkg }) {
			if siteIn[g] {
				found = true
			}
		}
		r.Sites++
		r.Check(found, "C01.restore", core.ShortKey(f.Obj)+" executes its compensating statement per image row", w.Pos(f.Decl.Pos()), "a statement execution inside a loop over the image rows is reached", "no per-row statement execution found for this undo executor")
	}
	if n == 0 || execs < 3 {
		r.Bad("C01.restore", "compensating statements executed per image row", "", "fewer undo executors / per-row statement executions than confirmed by hand")
	}
}
