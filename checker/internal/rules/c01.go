package rules

import (
	"go/ast"
	"go/constant"
	"go/token"
	"go/types"
	"sort"
	"strings"

	"golang.org/x/tools/go/packages"

	"seatalint/internal/core"
	"seatalint/internal/flow"
)

func init() { register("C01", checkC01) }

// undoWorld gathers the anchors shared by C01, C09 and C10.
type undoWorld struct {
	atMgr      *types.Named
	rollback   *core.FuncInfo   // AT BranchRollback
	runUndo    []*core.FuncInfo // live UndoLogManager.RunUndo implementations reachable from rollback
	undoFns    []*core.FuncInfo // functions that open the undo transaction (call sql BeginTx and reach ExecuteOn)
	chain      []*core.FuncInfo // everything reachable from runUndo inside the undo packages
	executors  []*core.FuncInfo // live UndoExecutor.ExecuteOn implementations
	getUndoExe *core.FuncInfo
}

func isBeginTx(f *types.Func) bool {
	return stdMethod(f, pSQL, "Conn", "BeginTx") || stdMethod(f, pSQL, "DB", "BeginTx") || stdMethod(f, pSQL, "DB", "Begin")
}

func resolveUndoWorld(r *core.Run, rule string) *undoWorld {
	w := r.W
	u := &undoWorld{}
	u.atMgr = managerFor(r, "BranchTypeAT")
	if u.atMgr == nil {
		r.Anchor(rule, nil, "rm.ResourceManager implementation whose GetBranchType returns BranchTypeAT")
		return nil
	}
	u.rollback = r.Anchor(rule, methodInfo(w, u.atMgr, "BranchRollback"), "AT manager BranchRollback")
	if u.rollback == nil {
		return nil
	}
	// RunUndo implementations that the AT manager may reach: all repo implementations obtained from the registry,
	// minus those whose body is the trivial "return nil" of the embedded base (never registered).
	ifc := w.NamedType("pkg/datasource/sql/undo", "UndoLogManager")
	if ifc == nil {
		r.Anchor(rule, nil, "undo.UndoLogManager interface")
		return nil
	}
	registered := registeredUndoManagers(w)
	for _, n := range w.Implementers(ifc.Underlying().(*types.Interface)) {
		if w.IsTestFile(n.Obj().Pos()) || strings.Contains(n.Obj().Pkg().Path(), "/mock") {
			continue
		}
		if len(registered) > 0 && !registered[n] {
			continue
		}
		if fi := methodInfo(w, n, "RunUndo"); fi != nil {
			u.runUndo = append(u.runUndo, fi)
			r.Fn(fi)
		}
	}
	if len(u.runUndo) == 0 {
		r.Anchor(rule, nil, "a registered undo.UndoLogManager implementation with RunUndo")
		return nil
	}
	u.chain = reachFrom(w, u.runUndo, core.Module+"/pkg/datasource/sql/undo")
	for _, f := range u.chain {
		begins := false
		for _, cs := range w.Calls(f) {
			if isBeginTx(cs.Static) {
				begins = true
			}
		}
		if begins {
			u.undoFns = append(u.undoFns, f)
		}
		if f.Obj.Name() == "ExecuteOn" && isIfaceOrImpl(w, f.Obj, "pkg/datasource/sql/undo", "UndoExecutor", "ExecuteOn") {
			u.executors = append(u.executors, f)
		}
	}
	// the executor factory: function in the chain returning undo.UndoExecutor with a switch on SQLType
	ue := w.NamedType("pkg/datasource/sql/undo", "UndoExecutor")
	for _, f := range u.chain {
		sig := f.Obj.Type().(*types.Signature)
		if sig.Recv() == nil && sig.Results().Len() == 2 && ue != nil && types.Identical(sig.Results().At(0).Type(), ue) {
			u.getUndoExe = f
		}
	}
	return u
}

// registeredUndoManagers: the concrete types handed to undo.RegisterUndoLogManager anywhere in the repo.
func registeredUndoManagers(w *core.World) map[*types.Named]bool {
	out := map[*types.Named]bool{}
	reg := w.Func("pkg/datasource/sql/undo", "", "RegisterUndoLogManager")
	if reg == nil {
		return out
	}
	for _, cs := range w.Callers(reg.Obj) {
		if w.IsTestFile(cs.Call.Pos()) || len(cs.Call.Args) == 0 {
			continue
		}
		t := cs.Caller.Pkg.TypesInfo.TypeOf(cs.Call.Args[0])
		if p, ok := t.(*types.Pointer); ok {
			t = p.Elem()
		}
		if n, ok := t.(*types.Named); ok {
			out[n] = true
		}
	}
	return out
}

var c01Idioms = []idiom{
	{Fn: "", Callee: "database/sql/driver.(Valuer).Value", Kind: "dropped",
		Reason: "the scan slices of the undo executors hold database/sql Null* values whose Value() cannot fail (wherever the unwrapping is done)"},
	{Fn: "pkg/datasource/sql/undo/base.(BaseUndoLogManager).HasUndoLogTable", Callee: "database/sql.(Conn).QueryContext", Kind: "swallowed",
		Reason: "MySQL error 1146 (no such table) is the negative answer of this probe, returned as (false, nil); not on the rollback chain"},
	{Fn: "pkg/datasource/sql/undo/base.(BaseUndoLogManager).getSerializer", Callee: "", Kind: "",
		Reason: "placeholder"},
}

func checkC01(r *core.Run) {
	r.Explain = "Decided statically for every CFG path of the anchored functions: (C01.flush) no error of the statements that write the undo log in phase one (FlushUndoLog / InsertUndoLog implementations) is dropped, overwritten or turned into nil — a branch whose undo log was not written must not commit locally; (C01.flush, also) an exit of the flush that writes no undo log has passed, on their true edge, emptiness tests covering every image collection of the round — len(c)==0, a returned conjunction of such tests, or a universal predicate whose loop body answers false for an element with rows and never true before all elements were seen (evaluated for a nil element, one without rows, one with rows); (C01.pure) no function of the undo run consults package-level state that request paths mutate (no memo or remembered answer between rollbacks); (C01.status) the AT BranchRollback returns the 'rollbacked' status constant only where the error of UndoLogManager.RunUndo is known nil and a failure status everywhere else; (C01.errchain) every error-returning call on the call-graph chain RunUndo -> Undo -> GetUndoExecutor -> ExecuteOn (packages undo/*) is propagated or handled by an enumerated idiom, no failed call is followed by a provably-nil return, no deferred closure overwrites the named error result; (C01.tx) the sql.Tx begun by the undo routine is committed on every nil-error return and rolled back on every error return; (C01.delete) Commit is reached only after the undo-log delete (or the finished marker) succeeded; (C01.reverse) the replay loop runs after the log slice was reversed; (C01.dispatch) Insert/Delete/Update undo logs are dispatched to executors whose SQL templates are DELETE/INSERT/UPDATE. (C01.restore) a compensating statement executed inside a loop over the rows of an image is bound with values computed from that row inside the loop; NOT decided: that the replayed values equal the pre-transaction rows for any schema/value/configuration (undo(redo(db))==db), SQL text beyond the statement kind, database behaviour."
	r.Trusted = []string{"go/types, go/cfg", "database/sql semantics of Tx.Commit/Rollback", "CHA resolution of interface calls over repository types"}
	r.Assume = []string{"third-party UndoLogManager/UndoExecutor implementations are outside the claim"}
	u := resolveUndoWorld(r, "C01.anchor")
	if u == nil {
		return
	}
	c01Status(r, u)
	errDiscipline(r, "C01.errchain", u.chain, append(c01Idioms, idiom{Fn: core.ShortKey(u.rollback.Obj), Callee: "pkg/datasource/sql/undo.(UndoLogManager).RunUndo", Kind: "swallowed", Reason: "converted into a failure status (C01.status decides which)"}))
	r.Floor("C01.errchain", 25)
	// the flush side: the undo log is written in the business local transaction and a failed write is reported
	{
		var flush []*core.FuncInfo
		for _, f := range r.W.SortedFuncs() {
			if (f.Obj.Name() == "FlushUndoLog" || f.Obj.Name() == "InsertUndoLog") && isIfaceOrImpl(r.W, f.Obj, "pkg/datasource/sql/undo", "UndoLogManager", f.Obj.Name()) && !r.W.IsTestFile(f.Decl.Pos()) && !strings.Contains(f.Pkg.PkgPath, "/mock") {
				flush = append(flush, f)
			}
		}
		errDiscipline(r, "C01.flush", dedupFns(flush), c02Idioms)
		c01SkipFlush(r, dedupFns(flush))
		r.Floor("C01.flush", 5)
	}
	c01Tx(r, u, "C01")
	// the compensation is a function of the undo log alone
	pureOfRuntimeState(r, "C01.pure", "the undo run (records read, executor chosen, compensating statement built)", append(append([]*core.FuncInfo{u.rollback}, u.chain...), reachFrom(r.W, u.executors, pUndo)...), nil)
	r.Floor("C01.pure", 20)
	rowsErrChecked(r, "C01.errchain", append(append([]*core.FuncInfo{}, u.chain...), reachFrom(r.W, u.executors, pUndo)...))
	c01Reverse(r, u)
	c01Dispatch(r, u)
	c01RowValues(r)
	r.Floor("C01.status", 3)
	r.Floor("C01.tx", 3)
	r.Floor("C01.dispatch", 3)
}

// C01.status
func c01Status(r *core.Run, u *undoWorld) {
	w := r.W
	sp := &flow.Spec{W: w, Depth: 0, Classify: func(pkg *packages.Package, call *ast.CallExpr, callee *types.Func) []flow.Tag {
		if isIfaceOrImpl(w, callee, "pkg/datasource/sql/undo", "UndoLogManager", "RunUndo") {
			return []flow.Tag{"undo"}
		}
		return nil
	}}
	res := sp.Analyze(u.rollback)
	info := u.rollback.Pkg.TypesInfo
	failure := map[string]bool{"BranchStatusUnknown": true, "BranchStatusPhaseoneFailed": true, "BranchStatusPhasetwoRollbackFailedRetryable": true, "BranchStatusPhasetwoRollbackFailedUnretryable": true}
	nUndo := 0
	for _, cp := range res.Calls {
		if inSet("undo", cp.Tags...) {
			nUndo++
		}
	}
	if nUndo == 0 {
		r.Bad("C01.status", core.ShortKey(u.rollback.Obj)+" : no call to UndoLogManager.RunUndo", r.W.Pos(u.rollback.Decl.Pos()), "BranchRollback never runs the undo")
	}
	for _, ex := range res.Exits {
		r.Sites++
		c := ex.ResultConst(info, 0)
		role := exitRole(ex, func(t string) bool { return strings.HasSuffix(t, "undo") })
		key := core.ShortKey(u.rollback.Obj) + " " + role + " status=" + constName(c)
		pos := w.Pos(ex.Pos)
		switch {
		case c == nil:
			r.Undecided("C01.status", key, pos, "returned status is not a named constant; cannot decide truthfulness")
		case ex.St.Has("ok:undo"):
			r.Check(c.Name() == "BranchStatusPhasetwoRollbacked" || failure[c.Name()], "C01.status", key, pos,
				"undo succeeded on every path to this return", "after a successful undo the status must be PhasetwoRollbacked (or a failure), got "+c.Name())
		default:
			r.Check(failure[c.Name()], "C01.status", key, pos, "failure status on a path where undo is not known to have succeeded",
				"status "+c.Name()+" is returned on a path where RunUndo's error is not known to be nil: a failed undo would be reported as success")
		}
	}
}

func txTags(pkg *packages.Package, call *ast.CallExpr, callee *types.Func) []flow.Tag {
	switch {
	case isBeginTx(callee):
		return []flow.Tag{"begin"}
	case stdMethod(callee, pSQL, "Tx", "Commit"):
		return []flow.Tag{"commit"}
	case stdMethod(callee, pSQL, "Tx", "Rollback"):
		return []flow.Tag{"rollback"}
	}
	return nil
}

// C01.tx and C01.delete (shared with C10 under its own property id prefix).
func c01Tx(r *core.Run, u *undoWorld, prop string) {
	w := r.W
	if len(u.undoFns) == 0 {
		r.Anchor(prop+".tx", nil, "function on the RunUndo chain that begins a database/sql transaction")
		return
	}
	for _, fn := range u.undoFns {
		r.Fn(fn)
		// the transaction is begun on the very connection the undo statements run on: a transaction begun on the
		// pool (another connection) leaves the statements in autocommit — the row locks of the validation read are
		// released before the restore, and nothing is rolled back when a later statement fails
		{
			info := fn.Pkg.TypesInfo
			var beginOn, stmtsOn []string
			var beginPos token.Pos
			ast.Inspect(fn.Decl.Body, func(n ast.Node) bool {
				c, ok := n.(*ast.CallExpr)
				if !ok {
					return true
				}
				callee := core.Callee(info, c)
				sel, _ := ast.Unparen(c.Fun).(*ast.SelectorExpr)
				switch {
				case isBeginTx(callee) && sel != nil:
					beginOn = append(beginOn, core.ExprString(sel.X))
					beginPos = c.Pos()
				case sel != nil && callee != nil && callee.Pkg() != nil && callee.Pkg().Path() == pSQL && (strings.HasPrefix(callee.Name(), "Prepare") || strings.HasPrefix(callee.Name(), "Query") || strings.HasPrefix(callee.Name(), "Exec")):
					if rn := core.RecvNamed(callee); rn != nil && inSet(rn.Obj().Name(), "Conn", "DB", "Tx") {
						stmtsOn = append(stmtsOn, core.ExprString(sel.X))
					}
				case isIfaceOrImpl(w, callee, "pkg/datasource/sql/undo", "UndoExecutor", "ExecuteOn"):
					for _, a := range c.Args {
						if t := info.TypeOf(a); t != nil && (t.String() == "*database/sql.Conn" || t.String() == "*database/sql.Tx") {
							stmtsOn = append(stmtsOn, core.ExprString(a))
						}
					}
				}
				return true
			})
			same := len(beginOn) == 1 && len(stmtsOn) > 0
			txVar := ""
			ast.Inspect(fn.Decl.Body, func(n ast.Node) bool {
				if as, ok := n.(*ast.AssignStmt); ok && len(as.Rhs) == 1 && len(as.Lhs) >= 1 {
					if c, ok := ast.Unparen(as.Rhs[0]).(*ast.CallExpr); ok && isBeginTx(core.Callee(info, c)) {
						txVar = core.ExprString(as.Lhs[0])
					}
				}
				return true
			})
			for _, sOn := range stmtsOn {
				if len(beginOn) != 1 || (sOn != beginOn[0] && sOn != txVar) {
					same = false
				}
			}
			r.Sites++
			r.Check(same, prop+".tx", core.ShortKey(fn.Obj)+" : the undo statements run on the connection the transaction was begun on", w.Pos(beginPos),
				"begun on "+strings.Join(beginOn, ",")+", statements on "+strings.Join(uniq(stmtsOn), ","),
				"the transaction is begun on ["+strings.Join(beginOn, ",")+"] but the undo statements run on ["+strings.Join(uniq(stmtsOn), ",")+"]: they execute in autocommit on another connection, so the lock taken by the validation read is gone before the restore (a foreign write in between is overwritten) and a failing later statement leaves the earlier restores committed")
		}
		// paths on which the loop over the records ran are kept apart from those on which it did not (what is done
		// afterwards — delete or marker — may be chosen inside the loop, e.g. as a function value)
		var split []flow.Tag
		ast.Inspect(fn.Decl.Body, func(n ast.Node) bool {
			if rs, ok := n.(*ast.RangeStmt); ok {
				if id, ok := ast.Unparen(rs.X).(*ast.Ident); ok {
					if v, ok := fn.Pkg.TypesInfo.Uses[id].(*types.Var); ok && !v.IsField() && v.Parent() != v.Pkg().Scope() {
						split = append(split, flow.RangedTag(v))
					}
				}
			}
			return true
		})
		sp := &flow.Spec{W: w, Depth: 2, Split: split, Classify: func(pkg *packages.Package, call *ast.CallExpr, callee *types.Func) []flow.Tag {
			if t := txTags(pkg, call, callee); t != nil {
				return t
			}
			switch {
			case isIfaceOrImpl(w, callee, "pkg/datasource/sql/undo", "UndoExecutor", "ExecuteOn"):
				return []flow.Tag{"execute"}
			case isUndoLogDelete(w, callee):
				return []flow.Tag{"delete", "logdone"}
			case isMarkerInsert(w, callee):
				return []flow.Tag{"marker", "logdone"}
			case stdMethod(callee, pSQL, "DB", "Conn"):
				return []flow.Tag{"conn"}
			case stdMethod(callee, pSQL, "Conn", "Close"):
				return []flow.Tag{"connclose"}
			}
			return nil
		}}
		res := sp.Analyze(fn)
		errRes := namedErrResult(fn.Pkg, fn.Decl.Type)
		// deferred closures: do they roll back when the (named) error is non-nil at exit?
		deferRollbackOnErr := false
		ast.Inspect(fn.Decl.Body, func(n ast.Node) bool {
			ds, ok := n.(*ast.DeferStmt)
			if !ok {
				return true
			}
			if sub := deferredWhenErr(sp, fn, ds, errRes); sub != nil && sub.Sum != nil {
				if sub.Sum.MustAll["rollback"] {
					deferRollbackOnErr = true
				}
			} else if stdMethod(core.Callee(fn.Pkg.TypesInfo, ds.Call), pSQL, "Tx", "Rollback") {
				deferRollbackOnErr = true // defer tx.Rollback(): a no-op after Commit, rolls back otherwise
			}
			return true
		})
		interesting := func(t string) bool {
			return hasPrefixAny(t, "ok:begin", "ok:commit", "fail:commit", "rollback", "ok:logdone", "execute") && !strings.HasPrefix(t, "defer:")
		}
		for _, ex := range res.Exits {
			if !ex.St.Has("ok:begin") {
				continue // the transaction was not opened on this path
			}
			r.Sites++
			key := core.ShortKey(fn.Obj) + " " + exitRole(ex, interesting)
			pos := w.Pos(ex.Pos)
			committed := ex.St.Has("ok:commit")
			rolled := ex.St.Has("rollback") || (deferRollbackOnErr && errRes != nil) || ex.St.Has("defer:rollback")
			switch ex.Class {
			case flow.ExitOK:
				r.Check(committed, prop+".tx", key, pos, "nil is returned only after Commit returned nil",
					"nil error returned while the transaction begun by this function is not known committed (left open, or Commit failed): locks stay held and the caller reports success")
			case flow.ExitErr:
				r.Check(rolled && !committed, prop+".tx", key, pos, "error return rolls the transaction back (directly or by the deferred rollback)",
					"error return without rolling back the transaction begun by this function")
			default:
				commitItself := ex.ErrOrigin != nil && inSet("commit", ex.ErrOrigin.Tags...)
				r.Check(committed || rolled || commitItself, prop+".tx", key, pos, "transaction ended on this return",
					"return of an unknown error value with the transaction neither committed nor rolled back")
			}
		}
		// C01.delete: Commit only after the undo-log bookkeeping succeeded
		for _, cp := range res.Calls {
			if !inSet("commit", cp.Tags...) || cp.Defer {
				continue
			}
			r.Sites++
			key := core.ShortKey(fn.Obj) + " -> database/sql.(Tx).Commit"
			r.Check(cp.Before.Has("ok:logdone"), prop+".delete", key, w.Pos(cp.Call.Pos()),
				"Commit is dominated by a successful undo-log delete / finished-marker insert",
				"Commit can be reached without the undo-log delete (or finished marker) having succeeded: the branch's undo log would survive, or a retry would replay it")
		}
	}
}

// isUndoLogDelete: a function of the undo packages that prepares/executes the single-branch DELETE on the undo log.
func isUndoLogDelete(w *core.World, f *types.Func) bool {
	return isIfaceOrImpl(w, f, "pkg/datasource/sql/undo", "UndoLogManager", "DeleteUndoLog")
}

// isMarkerInsert: repo function on the undo chain that inserts a record with the global-finished status constant.
func isMarkerInsert(w *core.World, f *types.Func) bool {
	fi := w.Info(f)
	if fi == nil || !strings.HasPrefix(fi.Pkg.PkgPath, pUndo) {
		return false
	}
	found := false
	ast.Inspect(fi.Decl.Body, func(n ast.Node) bool {
		kv, ok := n.(*ast.KeyValueExpr)
		if !ok {
			return true
		}
		if k, ok := kv.Key.(*ast.Ident); ok && k.Name == "LogStatus" {
			if c := core.ConstObj(fi.Pkg.TypesInfo, kv.Value); c != nil && strings.Contains(c.Name(), "GlobalFinished") {
				found = true
			}
		}
		return true
	})
	return found
}

// C01.reverse: the replay loop is preceded by the in-place reversal of the decoded log slice.
func c01Reverse(r *core.Run, u *undoWorld) {
	w := r.W
	bul := w.NamedType("pkg/datasource/sql/undo", "BranchUndoLog")
	if bul == nil {
		r.Anchor("C01.reverse", nil, "undo.BranchUndoLog")
		return
	}
	// reversing methods: methods of BranchUndoLog containing a crossed element swap x[i], x[j] = x[j], x[i]
	reversers := map[*types.Func]bool{}
	for i := 0; i < bul.NumMethods(); i++ {
		m := w.Info(bul.Method(i))
		if m == nil {
			continue
		}
		ast.Inspect(m.Decl.Body, func(n ast.Node) bool {
			as, ok := n.(*ast.AssignStmt)
			if ok && len(as.Lhs) == 2 && len(as.Rhs) == 2 && as.Tok == token.ASSIGN &&
				core.ExprString(as.Lhs[0]) == core.ExprString(as.Rhs[1]) && core.ExprString(as.Lhs[1]) == core.ExprString(as.Rhs[0]) {
				if _, isIdx := as.Lhs[0].(*ast.IndexExpr); isIdx && loopMovesInward(m) {
					reversers[m.Obj] = true
				}
			}
			return true
		})
	}
	for _, fn := range u.undoFns {
		sp := &flow.Spec{W: w, Depth: 0, Classify: func(pkg *packages.Package, call *ast.CallExpr, callee *types.Func) []flow.Tag {
			if reversers[callee] {
				return []flow.Tag{"reverse"}
			}
			if isIfaceOrImpl(w, callee, "pkg/datasource/sql/undo", "UndoExecutor", "ExecuteOn") {
				return []flow.Tag{"execute"}
			}
			return nil
		}}
		res := sp.Analyze(fn)
		for _, cp := range res.Calls {
			if !inSet("execute", cp.Tags...) {
				continue
			}
			r.Sites++
			key := core.ShortKey(fn.Obj) + " -> UndoExecutor.ExecuteOn"
			okLoop := cp.InLoop && (cp.Before.Has("reverse") || descendingLoopAround(fn, cp.Call))
			r.Check(okLoop, "C01.reverse", key, w.Pos(cp.Call.Pos()), "every path to the replay passes the in-place reversal of the log slice",
				"the undo logs are replayed without first being reversed (a later statement's image would be restored before an earlier one's)")
		}
	}
}

// loopMovesInward: the method's loop increments one index and decrements the other (a real reversal).
func loopMovesInward(m *core.FuncInfo) bool {
	inc, dec := false, false
	ast.Inspect(m.Decl.Body, func(n ast.Node) bool {
		if s, ok := n.(*ast.IncDecStmt); ok {
			if s.Tok == token.INC {
				inc = true
			} else {
				dec = true
			}
		}
		return true
	})
	return inc && dec
}

// descendingLoopAround: the call sits in `for i := len(x)-1; i >= 0; i--`.
func descendingLoopAround(fn *core.FuncInfo, call *ast.CallExpr) bool {
	for _, n := range enclosing(fn.Decl.Body, call) {
		if fs, ok := n.(*ast.ForStmt); ok {
			if p, ok := fs.Post.(*ast.IncDecStmt); ok && p.Tok == token.DEC {
				return true
			}
		}
	}
	return false
}

// C01.dispatch
func c01Dispatch(r *core.Run, u *undoWorld) {
	w := r.W
	f := u.getUndoExe
	if f == nil {
		r.Anchor("C01.dispatch", nil, "factory returning undo.UndoExecutor on the RunUndo chain")
		return
	}
	r.Fn(f)
	info := f.Pkg.TypesInfo
	want := map[string]string{"SQLTypeInsert": "DELETE", "SQLTypeDelete": "INSERT", "SQLTypeUpdate": "UPDATE"}
	seen := map[string]bool{}
	hasDefaultErr := false
	ast.Inspect(f.Decl.Body, func(n ast.Node) bool {
		sw, ok := n.(*ast.SwitchStmt)
		if !ok {
			return true
		}
		for _, c := range sw.Body.List {
			cc := c.(*ast.CaseClause)
			if cc.List == nil {
				// default must return an error
				for _, s := range cc.Body {
					if rs, ok := s.(*ast.ReturnStmt); ok && len(rs.Results) == 2 && !isNilIdent(info, rs.Results[1]) {
						hasDefaultErr = true
					}
				}
				continue
			}
			for _, e := range cc.List {
				co := core.ConstObj(info, e)
				if co == nil {
					continue
				}
				r.Sites++
				kinds := map[string]bool{}
				var types_ []string
				ast.Inspect(cc, func(m ast.Node) bool {
					call, ok := m.(*ast.CallExpr)
					if !ok {
						return true
					}
					_, callees, _ := w.Resolve(info, call)
					for _, holderM := range callees {
						hm := w.Info(holderM)
						if hm == nil || w.IsTestFile(hm.Decl.Pos()) {
							continue
						}
						for _, t := range returnedTypes(hm) {
							ex := methodInfo(w, t, "ExecuteOn")
							if ex == nil {
								continue
							}
							types_ = append(types_, t.Obj().Name())
							for _, g := range reachFrom(w, []*core.FuncInfo{ex}, ex.Pkg.PkgPath) {
								for _, s := range stringConstsIn(g) {
									if k := firstWord(s); inSet(k, "INSERT", "UPDATE", "DELETE") {
										kinds[k] = true
									}
								}
							}
						}
					}
					return true
				})
				var ks []string
				for k := range kinds {
					ks = append(ks, k)
				}
				sort.Strings(ks)
				key := core.ShortKey(f.Obj) + " case " + co.Name()
				exp, known := want[co.Name()]
				seen[co.Name()] = true
				if !known {
					r.Undecided("C01.dispatch", key, w.Pos(e.Pos()), "no expected compensation registered for this SQL type in the checker's table")
					continue
				}
				r.Check(len(ks) == 1 && ks[0] == exp, "C01.dispatch", key, w.Pos(e.Pos()),
					"dispatches to "+strings.Join(types_, ",")+" whose statement templates are "+exp,
					"undo of "+co.Name()+" must compensate with "+exp+" but the executor(s) "+strings.Join(types_, ",")+" build "+strings.Join(ks, ","))
			}
		}
		return true
	})
	for k := range want {
		if !seen[k] {
			r.Bad("C01.dispatch", core.ShortKey(f.Obj)+" case "+k, w.Pos(f.Decl.Pos()), "no case for "+k+": such undo logs cannot be rolled back")
		}
	}
	r.Check(hasDefaultErr, "C01.dispatch", core.ShortKey(f.Obj)+" default", w.Pos(f.Decl.Pos()), "unknown SQL types are rejected with an error", "default branch does not return an error for an unknown SQL type")
}

// returnedTypes lists the named pointer types of the expressions returned by fn.
func returnedTypes(fn *core.FuncInfo) []*types.Named {
	var out []*types.Named
	ast.Inspect(fn.Decl.Body, func(n ast.Node) bool {
		if _, ok := n.(*ast.FuncLit); ok {
			return false
		}
		rs, ok := n.(*ast.ReturnStmt)
		if !ok {
			return true
		}
		for _, e := range rs.Results {
			t := fn.Pkg.TypesInfo.TypeOf(e)
			if p, ok := t.(*types.Pointer); ok {
				t = p.Elem()
			}
			if nt, ok := t.(*types.Named); ok {
				out = append(out, nt)
			}
		}
		return true
	})
	return out
}

// c01RowValues (C01.restore): in the undo executors a compensating statement executed inside a loop over the rows of
// an image is bound with values of the row being restored: every value handed to Exec is read from the loop's row
// variable, or from something computed from it inside the loop (a key list resolved once, from another row, carries
// that row's values — the statement then restores row after row onto one and the same row).
func c01RowValues(r *core.Run) {
	w := r.W
	n := 0
	siteIn := map[*core.FuncInfo]bool{}
	var imgSites []c01ImgSite
	for _, f := range w.SortedFuncs() {
		if f.Pkg.PkgPath != pUndoExec || w.IsTestFile(f.Decl.Pos()) || f.Decl.Body == nil {
			continue
		}
		info := f.Pkg.TypesInfo
		ast.Inspect(f.Decl.Body, func(nd ast.Node) bool {
			rs, ok := nd.(*ast.RangeStmt)
			if !ok || rs.Value == nil {
				return true
			}
			sel, ok := ast.Unparen(rs.X).(*ast.SelectorExpr)
			if !ok || sel.Sel.Name != "Rows" {
				return true
			}
			rowVar, _ := core.ObjOf(info, rs.Value).(*types.Var)
			if rowVar == nil {
				return true
			}
			inLoop := func(p token.Pos) bool { return p >= rs.Body.Pos() && p < rs.Body.End() }
			var derived func(e ast.Expr, depth int) bool
			derived = func(e ast.Expr, depth int) bool {
				if e == nil || depth > 5 {
					return false
				}
				if mentions(info, e, rowVar) {
					return true
				}
				id, ok := ast.Unparen(e).(*ast.Ident)
				if !ok {
					// a selection / conversion of something derived
					switch x := ast.Unparen(e).(type) {
					case *ast.SelectorExpr:
						return derived(x.X, depth+1)
					case *ast.CallExpr:
						if tv, isConv := info.Types[x.Fun]; isConv && tv.IsType() && len(x.Args) == 1 {
							return derived(x.Args[0], depth+1)
						}
					case *ast.IndexExpr:
						return derived(x.X, depth+1)
					}
					return false
				}
				v, ok := info.Uses[id].(*types.Var)
				if !ok {
					return false
				}
				defs := localDefs(f, v)
				if len(defs) == 0 {
					return false
				}
				some := false
				for _, d := range defs {
					if !inLoop(d.rhs.Pos()) && !d.rng {
						return false // computed outside the loop over the rows
					}
					if d.rng && !inLoop(d.rhs.Pos()) {
						return false
					}
					rhs := ast.Unparen(d.rhs)
					if c, ok := rhs.(*ast.CallExpr); ok {
						if fid, ok := c.Fun.(*ast.Ident); ok && fid.Name == "append" && len(c.Args) >= 1 {
							for _, a := range c.Args[1:] {
								if !derived(a, depth+1) {
									return false
								}
							}
							some = true
							continue
						}
						if fid, ok := c.Fun.(*ast.Ident); ok && fid.Name == "make" {
							continue
						}
					}
					if !derived(rhs, depth+1) {
						return false
					}
					some = true
				}
				return some
			}
			ast.Inspect(rs.Body, func(m ast.Node) bool {
				c, ok := m.(*ast.CallExpr)
				if !ok {
					return true
				}
				callee := core.Callee(info, c)
				if !(stdMethod(callee, pSQL, "Stmt", "Exec") || stdMethod(callee, pSQL, "Stmt", "ExecContext") || stdMethod(callee, pDriver, "Stmt", "Exec")) {
					return true
				}
				n++
				siteIn[f] = true
				imgSites = append(imgSites, c01ImgSite{f, sel.X})
				r.Sites++
				r.Fn(f)
				bad := ""
				for _, a := range c.Args {
					if t := info.TypeOf(a); t != nil && t.String() == "context.Context" {
						continue
					}
					if !derived(a, 0) {
						bad = core.ExprString(a)
					}
				}
				r.Check(bad == "", "C01.restore", core.ShortKey(f.Obj)+" binds the compensating statement with the values of the row it restores", w.Pos(c.Pos()),
					"every bound value is read from the loop's row", "the statement executed for each row of the image is bound with '"+bad+"', which is not computed from that row inside the loop: every row's old values are written onto the row whose key was resolved once, the other rows stay as the branch left them, and the branch is still reported as rolled back")
				return true
			})
			return true
		})
	}
	// every undo executor reaches such a per-row execution (its own, or one it shares with a sibling)
	execs := 0
	for _, f := range w.SortedFuncs() {
		if f.Pkg.PkgPath != pUndoExec || w.IsTestFile(f.Decl.Pos()) || f.Obj.Name() != "ExecuteOn" || core.RecvNamed(f.Obj) == nil {
			continue
		}
		if len(w.Calls(f)) == 0 {
			continue // the embedded base type's empty method
		}
		execs++
		found := false
		for g := range w.Reach([]*core.FuncInfo{f}, func(h *core.FuncInfo) bool { return h.Pkg != f.Pkg }) {
			if siteIn[g] {
				found = true
			}
		}
		r.Sites++
		r.Check(found, "C01.restore", core.ShortKey(f.Obj)+" executes its compensating statement per image row", w.Pos(f.Decl.Pos()), "a statement execution inside a loop over the image rows is reached", "no per-row statement execution found for this undo executor")
		if found {
			c01WhichImage(r, f, imgSites)
		}
	}
	if n == 0 || execs < 3 {
		r.Bad("C01.restore", "compensating statements executed per image row", "", "fewer undo executors / per-row statement executions than confirmed by hand")
	}
}

type c01ImgSite struct {
	f *core.FuncInfo
	x ast.Expr // the image whose Rows the per-row execution ranges over
}

type c01ImgOrigin struct {
	fn   *core.FuncInfo // where the undo log's field is selected; nil: not resolved
	name string
}

// c01ImageOrigins follows the image expression of a per-row loop back to the selection of the undo log's BeforeImage
// or AfterImage field: through local variables, and through a parameter to the arguments of the package's callers.
func c01ImageOrigins(w *core.World, fn *core.FuncInfo, e ast.Expr, depth int) []c01ImgOrigin {
	unresolved := []c01ImgOrigin{{nil, core.ExprString(e)}}
	if depth > 4 {
		return unresolved
	}
	info := fn.Pkg.TypesInfo
	e = ast.Unparen(e)
	if u, ok := e.(*ast.UnaryExpr); ok && u.Op == token.AND {
		e = ast.Unparen(u.X)
	}
	if st, ok := e.(*ast.StarExpr); ok {
		e = ast.Unparen(st.X)
	}
	switch x := e.(type) {
	case *ast.SelectorExpr:
		if fld, ok := info.Uses[x.Sel].(*types.Var); ok && fld.IsField() && inSet(fld.Name(), "BeforeImage", "AfterImage") {
			if t := info.TypeOf(x.X); t != nil && strings.HasSuffix(t.String(), ".SQLUndoLog") {
				return []c01ImgOrigin{{fn, fld.Name()}}
			}
		}
	case *ast.Ident:
		v, ok := info.Uses[x].(*types.Var)
		if !ok {
			return unresolved
		}
		sig := fn.Obj.Type().(*types.Signature)
		for i := 0; i < sig.Params().Len(); i++ {
			if sig.Params().At(i) != v {
				continue
			}
			var out []c01ImgOrigin
			for _, cs := range w.Callers(fn.Obj) {
				if cs.Caller == nil || cs.Caller.Pkg.PkgPath != pUndoExec || w.IsTestFile(cs.Call.Pos()) {
					continue
				}
				if i >= len(cs.Call.Args) || cs.Call.Ellipsis.IsValid() {
					return unresolved
				}
				out = append(out, c01ImageOrigins(w, cs.Caller, cs.Call.Args[i], depth+1)...)
			}
			if len(out) == 0 {
				return unresolved
			}
			return out
		}
		defs := localDefs(fn, v)
		if len(defs) == 0 {
			return unresolved
		}
		var out []c01ImgOrigin
		for _, d := range defs {
			if d.idx >= 0 || d.rng {
				return unresolved
			}
			out = append(out, c01ImageOrigins(w, fn, d.rhs, depth+1)...)
		}
		return out
	}
	return unresolved
}

// c01WhichImage (C01.restore): an undo executor restores from the image that holds the rows to restore. The
// executor that compensates with a DELETE (undo of an insert) ranges over the after image — the before image of an
// insert is empty; the executors that compensate with an INSERT or an UPDATE (undo of a delete / an update) range over
// the before image — the after image of a delete is empty and that of an update holds the values the branch wrote.
// With the other image the loop runs over nothing (or writes the branch's own values back), no statement fails, and
// the branch is reported as rolled back with the table as the branch left it.
func c01WhichImage(r *core.Run, ex *core.FuncInfo, sites []c01ImgSite) {
	w := r.W
	recv := core.RecvNamed(ex.Obj)
	reach := map[*core.FuncInfo]bool{}
	kinds := map[string]bool{}
	for _, g := range reachFrom(w, []*core.FuncInfo{ex}, ex.Pkg.PkgPath) {
		reach[g] = true
		for _, s := range stringConstsIn(g) {
			if k := firstWord(s); inSet(k, "INSERT", "UPDATE", "DELETE") {
				kinds[k] = true
			}
		}
	}
	if len(kinds) != 1 {
		return // C01.dispatch reports an executor whose compensating statement kind is not unique
	}
	want := "BeforeImage"
	if kinds["DELETE"] {
		want = "AfterImage"
	}
	names := map[string]bool{}
	unresolved := ""
	for _, s := range sites {
		if !reach[s.f] {
			continue
		}
		for _, o := range c01ImageOrigins(w, s.f, s.x, 0) {
			switch {
			case o.fn == nil:
				unresolved = o.name
			case o.fn == ex || core.RecvNamed(o.fn.Obj) == recv:
				names[o.name] = true
			}
		}
	}
	key := core.ShortKey(ex.Obj) + " restores from the image that holds the rows to restore"
	r.Sites++
	if unresolved != "" || len(names) == 0 {
		r.Undecided("C01.restore", key, w.Pos(ex.Decl.Pos()), "cannot follow the image the per-row loop ranges over ('"+unresolved+"') back to the undo log's BeforeImage / AfterImage field")
		return
	}
	var got []string
	for k := range names {
		got = append(got, k)
	}
	sort.Strings(got)
	r.Check(len(got) == 1 && got[0] == want, "C01.restore", key, w.Pos(ex.Decl.Pos()),
		"the per-row loop ranges over the undo log's "+want,
		"this undo executor executes its compensating statement for the rows of "+strings.Join(got, " and ")+" where "+want+" holds the rows to restore: the loop runs over no row (or writes the branch's own values back), nothing fails, and the branch is answered as rolled back with the table as the branch left it")
}

// c01SkipFlush (C01.flush): the phase-one flush leaves without writing an undo log only when no recorded image holds
// a row. A branch whose undo log was skipped although it changed rows commits locally, and its rollback finds no log,
// leaves the marker and answers "rollbacked" with the rows still changed.
//
// Decided on the paths of the flush function: an exit that returns no error and has not passed the undo-log insert
// (a skip exit) must have passed, on their true edge, emptiness tests covering every image collection of the round
// (the RecordImages fields of the round-images struct). An emptiness test is `len(c) == 0`, or a predicate of the
// module with a body that is (a) one returned conjunction of such tests, or (b) a universal test over the
// collection: a loop over it that answers false for an element holding rows and does not answer true for any
// element before all were seen (read by evaluating the loop body for the three kinds of element: nil, no rows, rows).
func c01SkipFlush(r *core.Run, flush []*core.FuncInfo) {
	w := r.W
	n := 0
	for _, f := range flush {
		if f.Decl.Body == nil {
			continue
		}
		isInsert := func(callee *types.Func) bool {
			return callee != nil && strings.HasPrefix(callee.Name(), "InsertUndoLog") && callee != f.Obj
		}
		direct := false
		for _, cs := range w.Calls(f) {
			if isInsert(cs.Static) {
				direct = true
			}
			for _, d := range cs.Callees {
				if isInsert(d) {
					direct = true
				}
			}
		}
		if !direct {
			continue // hands the work to the flush of another manager
		}
		// the collections of the round: RecordImages-typed fields of the struct the images are read from
		var need []*types.Var
		seenNeed := map[*types.Var]bool{}
		ast.Inspect(f.Decl.Body, func(nd ast.Node) bool {
			e, ok := nd.(ast.Expr)
			if !ok {
				return true
			}
			if fv := c01CollField(w, f, e, 0); fv != nil {
				if st := c01OwnerStruct(fv); st != nil {
					for i := 0; i < st.NumFields(); i++ {
						if types.Identical(st.Field(i).Type(), fv.Type()) && !seenNeed[st.Field(i)] {
							seenNeed[st.Field(i)] = true
							need = append(need, st.Field(i))
						}
					}
				}
			}
			return true
		})
		if len(need) == 0 {
			r.Undecided("C01.flush", core.ShortKey(f.Obj)+" : image collections of the round", w.Pos(f.Decl.Pos()), "cannot find the image collections the flush reads")
			continue
		}
		why := map[string]string{}
		sp := &flow.Spec{W: w, Depth: 0,
			Classify: func(pkg *packages.Package, call *ast.CallExpr, callee *types.Func) []flow.Tag {
				if isInsert(callee) {
					return []flow.Tag{"insert"}
				}
				return nil
			},
			CondTags: func(pkg *packages.Package, cond ast.Expr, branch bool) []flow.Tag {
				if !branch {
					return nil
				}
				var out []flow.Tag
				for _, fv := range c01EmptyCover(w, f, cond, 0, why) {
					out = append(out, "empty:"+fv.Name())
				}
				return out
			}}
		res := sp.Analyze(f)
		r.Fn(f)
		for _, ex := range res.Exits {
			if ex.Class == flow.ExitErr || ex.St.Has("insert") {
				continue
			}
			n++
			r.Sites++
			var missing []string
			for _, fv := range need {
				if !ex.St.Has("empty:" + fv.Name()) {
					m := fv.Name()
					if y := why[fv.Name()]; y != "" {
						m += " (" + y + ")"
					}
					missing = append(missing, m)
				}
			}
			role := exitRole(ex, func(t string) bool { return strings.HasPrefix(t, "empty:") })
			r.Check(len(missing) == 0, "C01.flush", core.ShortKey(f.Obj)+" "+role+" : no undo log only when no image holds a row", w.Pos(ex.Pos),
				"every image collection tested empty (all elements) on the way to this return",
				"this return writes no undo log although "+strings.Join(missing, ", ")+" was not shown to hold no row: a branch that changed rows commits without an undo log, and its rollback answers 'rollbacked' with the rows still changed")
		}
	}
	if n == 0 {
		r.Undecided("C01.flush", "INSTANCE-FLOOR C01.flush skip exits", "", "the flush has no exit that skips the undo log (the pinned tree has two: nothing recorded / only empty images)")
	}
}

func c01OwnerStruct(fv *types.Var) *types.Struct {
	if fv.Pkg() == nil {
		return nil
	}
	sc := fv.Pkg().Scope()
	for _, nm := range sc.Names() {
		tn, ok := sc.Lookup(nm).(*types.TypeName)
		if !ok {
			continue
		}
		st, ok := tn.Type().Underlying().(*types.Struct)
		if !ok {
			continue
		}
		for i := 0; i < st.NumFields(); i++ {
			if st.Field(i) == fv {
				return st
			}
		}
	}
	return nil
}

func c01IsImages(t types.Type) bool {
	if t == nil {
		return false
	}
	n, ok := t.(*types.Named)
	return ok && n.Obj().Name() == "RecordImages" && n.Obj().Pkg() != nil && strings.HasSuffix(n.Obj().Pkg().Path(), "pkg/datasource/sql/types")
}

// c01CollField: the RecordImages field an expression denotes: x.f, a getter whose body is `return r.f`, or a local
// variable assigned once from one of these
func c01CollField(w *core.World, f *core.FuncInfo, e ast.Expr, depth int) *types.Var {
	if depth > 3 {
		return nil
	}
	info := f.Pkg.TypesInfo
	if !c01IsImages(info.TypeOf(e)) {
		return nil
	}
	switch x := ast.Unparen(e).(type) {
	case *ast.SelectorExpr:
		if fv, ok := info.Uses[x.Sel].(*types.Var); ok && fv.IsField() {
			return fv
		}
	case *ast.CallExpr:
		g := w.Info(core.Callee(info, x))
		if g == nil || g.Decl.Body == nil || len(g.Decl.Body.List) != 1 {
			return nil
		}
		if rs, ok := g.Decl.Body.List[0].(*ast.ReturnStmt); ok && len(rs.Results) == 1 {
			return c01CollField(w, g, rs.Results[0], depth+1)
		}
	case *ast.Ident:
		if v, ok := info.Uses[x].(*types.Var); ok && !v.IsField() {
			if defs := localDefs(f, v); len(defs) == 1 && defs[0].idx < 0 && !defs[0].rng {
				return c01CollField(w, f, defs[0].rhs, depth+1)
			}
		}
	}
	return nil
}

// c01EmptyCover: the collections the condition, when true, shows to hold no row
func c01EmptyCover(w *core.World, f *core.FuncInfo, cond ast.Expr, depth int, why map[string]string) []*types.Var {
	if depth > 3 {
		return nil
	}
	info := f.Pkg.TypesInfo
	switch x := ast.Unparen(cond).(type) {
	case *ast.BinaryExpr:
		switch x.Op {
		case token.LAND:
			return append(c01EmptyCover(w, f, x.X, depth, why), c01EmptyCover(w, f, x.Y, depth, why)...)
		case token.EQL:
			// len(c) == 0
			if c, ok := ast.Unparen(x.X).(*ast.CallExpr); ok && len(c.Args) == 1 {
				if id, ok := ast.Unparen(c.Fun).(*ast.Ident); ok && id.Name == "len" {
					if v := core.ConstVal(info, x.Y); v != nil && v.Kind() == constant.Int && v.String() == "0" {
						if fv := c01CollField(w, f, c.Args[0], 0); fv != nil {
							return []*types.Var{fv}
						}
					}
				}
			}
		}
	case *ast.CallExpr:
		g := w.Info(core.Callee(info, x))
		if g == nil || g.Decl.Body == nil {
			return nil
		}
		// (a) one returned conjunction of emptiness tests (on the fields of the receiver)
		if len(g.Decl.Body.List) == 1 {
			if rs, ok := g.Decl.Body.List[0].(*ast.ReturnStmt); ok && len(rs.Results) == 1 {
				return c01EmptyCover(w, g, rs.Results[0], depth+1, why)
			}
		}
		// (b) a universal test over the receiver / the collection handed in
		var coll ast.Expr
		if sel, ok := ast.Unparen(x.Fun).(*ast.SelectorExpr); ok && g.Decl.Recv != nil && c01IsImages(info.TypeOf(sel.X)) {
			coll = sel.X
		} else {
			for _, a := range x.Args {
				if c01IsImages(info.TypeOf(a)) {
					coll = a
				}
			}
		}
		if coll == nil {
			return nil
		}
		fv := c01CollField(w, f, coll, 0)
		if fv == nil {
			return nil
		}
		if bad := c01UniversalEmpty(w, g); bad != "" {
			why[fv.Name()] = core.ShortKey(g.Obj) + " " + bad
			return nil
		}
		return []*types.Var{fv}
	}
	return nil
}

// c01UniversalEmpty returns "" when g answers true only if every element of the images collection it ranges over is
// nil or holds no row.
func c01UniversalEmpty(w *core.World, g *core.FuncInfo) string {
	info := g.Pkg.TypesInfo
	var loop *ast.RangeStmt
	for _, st := range g.Decl.Body.List {
		if rs, ok := st.(*ast.RangeStmt); ok && c01IsImages(info.TypeOf(rs.X)) {
			loop = rs
		}
	}
	if loop == nil || loop.Value == nil {
		return "is not a loop over the collection"
	}
	elem := core.ObjOf(info, loop.Value)
	if elem == nil {
		return "has no element variable"
	}
	// statements before the loop may answer true only for the empty collection
	for _, st := range g.Decl.Body.List {
		if st == ast.Stmt(loop) {
			break
		}
		ok := true
		ast.Inspect(st, func(n ast.Node) bool {
			if rs, isRet := n.(*ast.ReturnStmt); isRet && len(rs.Results) == 1 {
				if v := core.ConstVal(info, rs.Results[0]); v == nil || v.Kind() != constant.Bool || constant.BoolVal(v) {
					ifs, isIf := st.(*ast.IfStmt)
					if !isIf || !c01LenZero(info, ifs.Cond) {
						ok = false
					}
				}
			}
			return true
		})
		if !ok {
			return "answers before looking at the elements (" + w.Pos(st.Pos()) + ")"
		}
	}
	for _, class := range []string{"nil", "norows", "rows"} {
		out := c01RunElem(w, g, loop.Body.List, elem, class, 0)
		switch {
		case out == "unknown":
			return "has a loop body this rule cannot evaluate (" + w.Pos(loop.Body.Pos()) + ")"
		case class == "rows" && out != "false":
			return "does not answer false for an element that holds rows (" + w.Pos(loop.Body.Pos()) + ")"
		case class != "rows" && out == "true":
			return "answers true at the first element without rows, whatever the later elements hold (" + w.Pos(loop.Body.Pos()) + ")"
		}
	}
	return ""
}

func c01LenZero(info *types.Info, cond ast.Expr) bool {
	be, ok := ast.Unparen(cond).(*ast.BinaryExpr)
	if !ok || be.Op != token.EQL {
		return false
	}
	c, ok := ast.Unparen(be.X).(*ast.CallExpr)
	if !ok || len(c.Args) != 1 {
		return false
	}
	id, ok := ast.Unparen(c.Fun).(*ast.Ident)
	v := core.ConstVal(info, be.Y)
	return ok && id.Name == "len" && v != nil && v.String() == "0"
}

// c01RunElem evaluates the statements of the loop body for one kind of element: "true" / "false" (returned),
// "next" (continue), "fall" (ran off the end of the statements), "unknown"
func c01RunElem(w *core.World, g *core.FuncInfo, stmts []ast.Stmt, elem types.Object, class string, depth int) string {
	info := g.Pkg.TypesInfo
	for _, st := range stmts {
		switch x := st.(type) {
		case *ast.IfStmt:
			if x.Init != nil {
				return "unknown"
			}
			v := c01EvalElem(w, g, x.Cond, elem, class, depth)
			var sub string
			switch v {
			case 1:
				sub = c01RunElem(w, g, x.Body.List, elem, class, depth)
			case 0:
				switch e := x.Else.(type) {
				case nil:
					sub = "fall"
				case *ast.BlockStmt:
					sub = c01RunElem(w, g, e.List, elem, class, depth)
				case *ast.IfStmt:
					sub = c01RunElem(w, g, []ast.Stmt{e}, elem, class, depth)
				}
			default:
				return "unknown"
			}
			if sub != "fall" {
				return sub
			}
		case *ast.BranchStmt:
			if x.Tok == token.CONTINUE && x.Label == nil {
				return "next"
			}
			return "unknown"
		case *ast.ReturnStmt:
			if len(x.Results) != 1 {
				return "unknown"
			}
			switch c01EvalElem(w, g, x.Results[0], elem, class, depth) {
			case 1:
				return "true"
			case 0:
				return "false"
			}
			return "unknown"
		case *ast.ExprStmt, *ast.EmptyStmt:
			// logging and the like
		default:
			return "unknown"
		}
	}
	_ = info
	return "fall"
}

// c01EvalElem: 1 true, 0 false, -1 unknown — for an element of the given kind
func c01EvalElem(w *core.World, g *core.FuncInfo, e ast.Expr, elem types.Object, class string, depth int) int {
	info := g.Pkg.TypesInfo
	if v := core.ConstVal(info, e); v != nil && v.Kind() == constant.Bool {
		if constant.BoolVal(v) {
			return 1
		}
		return 0
	}
	isElem := func(x ast.Expr) bool { return core.ObjOf(info, x) == elem }
	rowsLen := func(x ast.Expr) bool {
		c, ok := ast.Unparen(x).(*ast.CallExpr)
		if !ok || len(c.Args) != 1 {
			return false
		}
		id, ok := ast.Unparen(c.Fun).(*ast.Ident)
		if !ok || id.Name != "len" {
			return false
		}
		sel, ok := ast.Unparen(c.Args[0]).(*ast.SelectorExpr)
		return ok && sel.Sel.Name == "Rows" && isElem(sel.X)
	}
	not := func(v int) int {
		if v < 0 {
			return v
		}
		return 1 - v
	}
	switch x := ast.Unparen(e).(type) {
	case *ast.UnaryExpr:
		if x.Op == token.NOT {
			return not(c01EvalElem(w, g, x.X, elem, class, depth))
		}
	case *ast.BinaryExpr:
		switch x.Op {
		case token.LOR:
			a := c01EvalElem(w, g, x.X, elem, class, depth)
			if a == 1 {
				return 1
			}
			b := c01EvalElem(w, g, x.Y, elem, class, depth)
			if a == 0 {
				return b
			}
			if b == 1 {
				return 1
			}
			return -1
		case token.LAND:
			a := c01EvalElem(w, g, x.X, elem, class, depth)
			if a == 0 {
				return 0
			}
			b := c01EvalElem(w, g, x.Y, elem, class, depth)
			if a == 1 {
				return b
			}
			if b == 0 {
				return 0
			}
			return -1
		case token.EQL, token.NEQ:
			if isElem(x.X) && isNilIdent(info, x.Y) {
				v := 0
				if class == "nil" {
					v = 1
				}
				if x.Op == token.NEQ {
					v = 1 - v
				}
				return v
			}
			if rowsLen(x.X) {
				if c := core.ConstVal(info, x.Y); c != nil && c.String() == "0" {
					if class == "nil" {
						return -1
					}
					v := 0
					if class == "norows" {
						v = 1
					}
					if x.Op == token.NEQ {
						v = 1 - v
					}
					return v
				}
			}
		case token.GTR:
			if rowsLen(x.X) {
				if c := core.ConstVal(info, x.Y); c != nil && c.String() == "0" {
					if class == "nil" {
						return -1
					}
					if class == "rows" {
						return 1
					}
					return 0
				}
			}
		case token.LSS:
			if rowsLen(x.X) {
				if c := core.ConstVal(info, x.Y); c != nil && c.String() == "1" {
					if class == "nil" {
						return -1
					}
					if class == "norows" {
						return 1
					}
					return 0
				}
			}
		}
	case *ast.CallExpr:
		// a predicate of the module on the element with one returned expression
		h := w.Info(core.Callee(info, x))
		if h == nil || h.Decl.Body == nil || len(h.Decl.Body.List) != 1 || depth > 1 {
			return -1
		}
		rs, ok := h.Decl.Body.List[0].(*ast.ReturnStmt)
		if !ok || len(rs.Results) != 1 {
			return -1
		}
		var sub types.Object
		if sel, ok := ast.Unparen(x.Fun).(*ast.SelectorExpr); ok && isElem(sel.X) {
			sub = recvVarOf(h)
		} else {
			for i, a := range x.Args {
				if isElem(a) && i < len(paramObjs(h)) {
					sub = paramObjs(h)[i]
				}
			}
		}
		if sub == nil {
			return -1
		}
		return c01EvalElem(w, h, rs.Results[0], sub, class, depth+1)
	}
	return -1
}
