package rules

import (
	"go/ast"
	"go/token"
	"go/types"
	"sort"
	"strings"

	"golang.org/x/tools/go/packages"

	"seatalint/internal/core"
	"seatalint/internal/flow"
)

func init() { register("C04", checkC04) }

const pBackoff = core.Module + "/pkg/util/backoff"

func isSendSync(f *types.Func) bool {
	return core.IsMethod(f, pGetty, "GettyRemotingClient", "SendSyncRequest")
}

// launcherCond: CondTags establishing "launcher" where a role expression is known equal to the Launcher constant.
func launcherCond(pkg *packages.Package, cond ast.Expr, branch bool) []flow.Tag {
	be, ok := ast.Unparen(cond).(*ast.BinaryExpr)
	if !ok || (be.Op != token.EQL && be.Op != token.NEQ) {
		return nil
	}
	c := core.ConstObj(pkg.TypesInfo, be.Y)
	if c == nil {
		c = core.ConstObj(pkg.TypesInfo, be.X)
	}
	if c == nil || c.Name() != "Launcher" || c.Pkg().Path() != pTM {
		return nil
	}
	if (be.Op == token.EQL) == branch {
		return []flow.Tag{"launcher"}
	}
	return []flow.Tag{"notlauncher"}
}

func checkC04(r *core.Run) {
	r.Explain = "Decided statically on every CFG path: (C04.decision) the boolean handed to the second phase is the conjunction of 'no panic' and 'no business error', commit and rollback requests sit on mutually exclusive branches of it and both only under the Launcher role guard (in commitOrRollback and again in GlobalTransactionManager.Commit/Rollback); (C04.panic) a recovered panic reaches the returned error or is re-raised; (C04.surface) the deferred closure never replaces a failure by nil, the second-phase error reaches the result, errors.Wrap is never applied to a possibly-nil error, type assertions on the reply are dominated by a successful request, Commit/Rollback return nil only after a request succeeded; (C04.retry) retry loops test Backoff.Ongoing, break only on success, wait on every continuing path, and the backoff's Err() is non-nil exactly when Ongoing() is false (formula agreement); (C04.begin) a failed begin returns before the second phase is installed. NOT decided: number of attempts for a given fault sequence, timing, MaxRetries==0 meaning 'forever'."
	r.Explain += " Round 8: (C04.decision, also) the second phase is skipped only when the context is in no global transaction: the guard in front of commit/rollback is IsGlobalTx(ctx) alone, not a role or joined flag."
	r.Trusted = []string{"go/types, go/cfg", "github.com/pkg/errors.Wrap returns nil for a nil error", "recover() semantics"}
	w := r.W
	with := r.Anchor("C04.anchor", w.Func("pkg/tm", "", "WithGlobalTx"), "tm.WithGlobalTx")
	if with == nil {
		return
	}
	info := with.Pkg.TypesInfo
	named := namedErrResult(with.Pkg, with.Decl.Type)
	gtm := w.NamedType("pkg/tm", "GlobalTransactionManager")
	commitM, rollbackM := w.MethodOf(gtm, "Commit"), w.MethodOf(gtm, "Rollback")
	beginM := w.MethodOf(gtm, "Begin")
	reachP2 := newReach(w, 3, func(f *types.Func) bool { return f == commitM || f == rollbackM })
	reachBegin := newReach(w, 3, func(f *types.Func) bool { return f == beginM })
	// the deferred closure that performs the second phase: contains a call reaching GlobalTransactionManager.Commit
	var p2lit *ast.FuncLit
	ast.Inspect(with.Decl.Body, func(n ast.Node) bool {
		ds, ok := n.(*ast.DeferStmt)
		if !ok {
			return true
		}
		lit, ok := ast.Unparen(ds.Call.Fun).(*ast.FuncLit)
		if !ok {
			return true
		}
		ast.Inspect(lit.Body, func(m ast.Node) bool {
			if c, ok := m.(*ast.CallExpr); ok {
				if f := core.Callee(info, c); f != nil && reachP2.Hits(f) && w.Info(f) != nil {
					p2lit = lit
				}
			}
			return true
		})
		return true
	})
	if p2lit == nil || named == nil {
		r.Anchor("C04.decision", nil, "deferred closure of WithGlobalTx that calls the second phase, and a named error result")
		return
	}
	// the dispatcher: the function that calls both GlobalTransactionManager.Commit and .Rollback itself — or, taking
	// a boolean, reaches both through helpers / function values it selects between (commit and rollback as the
	// `send` of an action chosen by the flag); of several nested ones the innermost
	var p2fn *core.FuncInfo
	for _, f := range w.SortedFuncs() {
		if f.Pkg.PkgPath != pTM || w.IsTestFile(f.Decl.Pos()) {
			continue
		}
		c, rb := false, false
		for _, cs := range w.Calls(f) {
			c = c || cs.Static == commitM
			rb = rb || cs.Static == rollbackM
		}
		if c && rb {
			p2fn = f
		}
	}
	if p2fn == nil {
		reachC := newReach(w, 2, func(f *types.Func) bool { return f == commitM })
		reachR := newReach(w, 2, func(f *types.Func) bool { return f == rollbackM })
		var cands []*core.FuncInfo
		for _, f := range w.SortedFuncs() {
			if f.Pkg.PkgPath != pTM || w.IsTestFile(f.Decl.Pos()) || f == with || f.Obj == commitM || f.Obj == rollbackM {
				continue
			}
			hasBool, errRes := false, false
			sig := f.Obj.Type().(*types.Signature)
			for i := 0; i < sig.Params().Len(); i++ {
				if b, ok := sig.Params().At(i).Type().Underlying().(*types.Basic); ok && b.Kind() == types.Bool {
					hasBool = true
				}
			}
			if _, ok := core.HasErrorResult(sig); ok && sig.Results().Len() == 1 {
				errRes = true
			}
			if hasBool && errRes && reachC.Hits(f.Obj) && reachR.Hits(f.Obj) {
				cands = append(cands, f)
			}
		}
		// the outermost: the one no other candidate calls... a chooser helper returns the action, not an error
		if len(cands) == 1 {
			p2fn = cands[0]
		}
	}
	if p2fn == nil {
		r.Anchor("C04.decision", nil, "function of pkg/tm that dispatches to GlobalTransactionManager.Commit and .Rollback")
		return
	}
	r.Fn(p2fn)
	// the unit that decides: the closure itself, or the helper it hands recover() and the result to
	// (`re = helper(ctx, recover(), re)`); recObj / errObj are the recovered value and the business error inside it
	type unit struct {
		fn             *core.FuncInfo // nil: the closure
		body           *ast.BlockStmt
		recObj, errObj types.Object
	}
	u := unit{body: p2lit.Body, errObj: named}
	ast.Inspect(p2lit.Body, func(n ast.Node) bool {
		if as, ok := n.(*ast.AssignStmt); ok && len(as.Lhs) == 1 && len(as.Rhs) == 1 {
			if c, ok := as.Rhs[0].(*ast.CallExpr); ok {
				if id, ok := c.Fun.(*ast.Ident); ok && id.Name == "recover" {
					if _, isB := info.Uses[id].(*types.Builtin); isB {
						u.recObj = core.ObjOf(info, as.Lhs[0])
					}
				}
			}
		}
		return true
	})
	isRecover := func(e ast.Expr) bool {
		if c, ok := ast.Unparen(e).(*ast.CallExpr); ok {
			if id, ok := c.Fun.(*ast.Ident); ok && id.Name == "recover" {
				_, isB := info.Uses[id].(*types.Builtin)
				return isB
			}
		}
		return u.recObj != nil && isObj(info, e, u.recObj)
	}
	ast.Inspect(p2lit.Body, func(n ast.Node) bool {
		as, ok := n.(*ast.AssignStmt)
		if !ok || len(as.Lhs) != 1 || len(as.Rhs) != 1 || !isObj(info, as.Lhs[0], named) {
			return true
		}
		c, ok := ast.Unparen(as.Rhs[0]).(*ast.CallExpr)
		if !ok {
			return true
		}
		h := w.Info(core.Callee(info, c))
		if h == nil || h.Pkg.PkgPath != pTM || !reachP2.Hits(h.Obj) || h == p2fn {
			return true
		}
		ps := paramObjs(h)
		hu := unit{fn: h, body: h.Decl.Body}
		for ai, a := range c.Args {
			if ai >= len(ps) {
				break
			}
			if isRecover(a) {
				hu.recObj = ps[ai]
			}
			if isObj(info, a, named) {
				hu.errObj = ps[ai]
			}
		}
		if hu.recObj != nil && hu.errObj != nil {
			u = hu
			r.Fn(h)
		}
		return true
	})
	uinfo := info
	ufn := with
	if u.fn != nil {
		uinfo, ufn = u.fn.Pkg.TypesInfo, u.fn
	}
	var p2call *ast.CallExpr
	ast.Inspect(u.body, func(n ast.Node) bool {
		if c, ok := n.(*ast.CallExpr); ok && core.Callee(uinfo, c) == p2fn.Obj {
			p2call = c
		}
		return true
	})
	if p2call == nil {
		// the deciding unit calls a function that passes the decision on to the dispatcher (a role switch around
		// a helper that sends commit or rollback): that function is the one handed the flag
		ast.Inspect(u.body, func(n ast.Node) bool {
			c, ok := n.(*ast.CallExpr)
			if !ok || p2call != nil {
				return true
			}
			g := w.Info(core.Callee(uinfo, c))
			if g == nil || g.Pkg.PkgPath != pTM || g == with || g == p2fn {
				return true
			}
			hasBool := false
			for _, p := range paramObjs(g) {
				if b, ok := p.Type().Underlying().(*types.Basic); ok && b.Kind() == types.Bool {
					hasBool = true
				}
			}
			if hasBool && w.CallPath(g, func(x *types.Func) bool { return x == p2fn.Obj }, 2) != nil {
				p2call, p2fn = c, g
				r.Fn(g)
			}
			return true
		})
	}
	keyW := core.ShortKey(with.Obj)
	if p2call == nil {
		r.Bad("C04.decision", keyW+" : second-phase flag", w.Pos(p2lit.Pos()), "cannot find the call of the commit/rollback dispatcher in the deferred closure or the helper it delegates to")
		return
	}
	// ---- C04.decision: the flag is (no panic) && (no business error)
	flagIdx := -1
	if sig, ok := p2fn.Obj.Type().(*types.Signature); ok {
		for i := 0; i < sig.Params().Len(); i++ {
			if b, ok := sig.Params().At(i).Type().Underlying().(*types.Basic); ok && b.Kind() == types.Bool {
				flagIdx = i
			}
		}
	}
	// the second phase runs whenever the scope holds a transaction when the business is over: the tests on the way
	// to the call ask tm.IsGlobalTx of the scope's context and nothing else (a scope "only joined", a mode, a flag
	// taken before begin: a RequiresNew scope entered with a transaction launches one of its own)
	{
		guard := ""
		for _, anc := range enclosing(u.body, p2call) {
			ifs, isIf := anc.(*ast.IfStmt)
			if !isIf || p2call.Pos() < ifs.Body.Pos() || p2call.End() > ifs.Body.End() {
				continue
			}
			// the if whose Init or Cond contains the call itself is not a guard of it
			if ifs.Cond.Pos() <= p2call.Pos() && p2call.End() <= ifs.Cond.End() {
				continue
			}
			c, isCall := ast.Unparen(ifs.Cond).(*ast.CallExpr)
			if !isCall || !core.IsPkgFunc(core.Callee(uinfo, c), pTM, "IsGlobalTx") {
				guard = core.ExprString(ifs.Cond)
			}
		}
		r.Sites++
		r.Check(guard == "", "C04.decision", keyW+" : the second phase depends on holding a transaction only", w.Pos(p2call.Pos()), "guarded by tm.IsGlobalTx(ctx) alone",
			"the second phase is under '"+guard+"': a scope that launched a transaction of its own while it was entered with one (RequiresNew nested in a transaction, or on a callee's context) never commits or rolls it back — the transaction hangs until the coordinator times it out")
	}
	if u.recObj == nil || flagIdx < 0 || flagIdx >= len(p2call.Args) {
		r.Bad("C04.decision", keyW+" : second-phase flag", w.Pos(p2call.Pos()), "cannot find the recover() value or the boolean decision argument of the second-phase call")
		return
	}
	{
		arg := resolveLocalBoolIn(uinfo, u.body, p2call.Args[flagIdx])
		nilOf := map[types.Object]bool{}
		okShape := conjunctsAllNilTests(uinfo, arg, nilOf)
		decided := okShape && nilOf[u.recObj] && nilOf[u.errObj]
		if !decided && u.fn == nil {
			// not written as a conjunction of nil tests in place (the outcome may be kept in an object with a
			// method that answers "did the business succeed"): the deciding closure is evaluated for the three
			// cases — nothing recovered and no business error, a recovered panic, a business error — and the flag
			// it hands to the second phase must be true, false, false
			var errLoc ast.Expr
			var bizParam types.Object
			for _, p := range paramObjs(with) {
				if _, ok := p.Type().Underlying().(*types.Signature); ok {
					bizParam = p
				}
			}
			ast.Inspect(with.Decl.Body, func(n ast.Node) bool {
				if as, ok := n.(*ast.AssignStmt); ok && len(as.Lhs) == 1 && len(as.Rhs) == 1 {
					if c, ok := ast.Unparen(as.Rhs[0]).(*ast.CallExpr); ok {
						if id, ok := ast.Unparen(c.Fun).(*ast.Ident); ok && bizParam != nil && info.Uses[id] == bizParam {
							errLoc = as.Lhs[0]
						}
					}
				}
				return true
			})
			eval := func(recNonNil, errNonNil bool) int8 {
				isRec := func(pkg *packages.Package, call *ast.CallExpr) bool {
					id, ok := call.Fun.(*ast.Ident)
					if !ok || id.Name != "recover" {
						return false
					}
					_, isB := pkg.TypesInfo.Uses[id].(*types.Builtin)
					return isB
				}
				sp := &flow.Spec{W: w, Depth: 0, Inline: 3, Classify: func(pkg *packages.Package, call *ast.CallExpr, callee *types.Func) []flow.Tag {
					if call == p2call {
						return []flow.Tag{"p2"}
					}
					return nil
				}}
				if recNonNil {
					sp.AssumeNonNil = isRec
				} else {
					sp.AssumeNil = isRec
				}
				res := sp.AnalyzeLitSeed(with.Pkg, p2lit, func(st *flow.State) {
					if errLoc != nil {
						if o := sp.ObjOfExpr(info, errLoc); o != nil {
							st.SetNil(o, !errNonNil)
						}
					}
				})
				var v int8 = -1
				for _, cp := range res.Calls {
					if !inSet("p2", cp.Tags...) {
						continue
					}
					b := cp.ArgBool[flagIdx]
					if b == 0 || (v != -1 && v != b) {
						return 0
					}
					v = b
				}
				if v == -1 {
					return 0
				}
				return v
			}
			decided = errLoc != nil && eval(false, false) == 1 && eval(true, false) == 2 && eval(false, true) == 2
		}
		r.Sites++
		r.Check(decided, "C04.decision", keyW+" : commit iff no panic and no business error", w.Pos(p2call.Pos()),
			"decision = (recover()==nil) && (business error==nil)", "the commit/rollback decision '"+core.ExprString(arg)+"' is not the conjunction of 'no panic' and 'no business error': a failed or panicking callback could be committed")
	}
	// ---- second-phase function: commit / rollback exclusive, under the launcher guard
	{
		flag := paramObjs(p2fn)[flagIdx]
		var sp *flow.Spec
		sp = &flow.Spec{W: w, Depth: 0, Fork: true, Split: []flow.Tag{"flag:true", "flag:false"},
			// (a helper may turn the flag into the action to run: the function continues per way out of it)
			CondTags: func(pkg *packages.Package, cond ast.Expr, branch bool) []flow.Tag {
				out := launcherCond(pkg, cond, branch)
				c := ast.Unparen(cond)
				neg := false
				if u, ok := c.(*ast.UnaryExpr); ok && u.Op == token.NOT {
					c, neg = ast.Unparen(u.X), true
				}
				if id, ok := c.(*ast.Ident); ok {
					if o := pkg.TypesInfo.Uses[id]; o != nil && sp.RootOf(o) == flag {
						if branch != neg {
							out = append(out, "flag:true")
						} else {
							out = append(out, "flag:false")
						}
					}
				}
				return out
			},
			Classify: func(pkg *packages.Package, call *ast.CallExpr, callee *types.Func) []flow.Tag {
				switch callee {
				case commitM:
					return []flow.Tag{"commit"}
				case rollbackM:
					return []flow.Tag{"rollback"}
				}
				return nil
			}}
		res := sp.Analyze(p2fn)
		nc, nr := 0, 0
		type siteKey struct {
			call   *ast.CallExpr
			commit bool
		}
		counted := map[siteKey]bool{}
		for _, cp := range res.Calls {
			r.Sites++
			k := core.ShortKey(p2fn.Obj) + " -> " + core.ShortKey(cp.Callee)
			// (a call site met once per partition of the analysis is one site; a call through a function value that
			// is the commit in one partition and the rollback in the other is one site of each)
			sk := siteKey{cp.Call, inSet("commit", cp.Tags...)}
			first := !counted[sk]
			counted[sk] = true
			if inSet("commit", cp.Tags...) {
				if first {
					nc++
				}
				r.Check(cp.Before.IsTrue(flag) && cp.Before.Has("launcher") && !cp.Before.Maybe("rollback"), "C04.decision", k, w.Pos(cp.Call.Pos()),
					"commit only when the flag is true, role is Launcher, no rollback before", "the commit request is reachable with the success flag not known true, outside the Launcher guard, or after a rollback")
			} else {
				if first {
					nr++
				}
				r.Check(cp.Before.IsFalse(flag) && cp.Before.Has("launcher") && !cp.Before.Maybe("commit"), "C04.decision", k, w.Pos(cp.Call.Pos()),
					"rollback only when the flag is false, role is Launcher, no commit before", "the rollback request is reachable with the success flag not known false, outside the Launcher guard, or after a commit")
			}
		}
		if nc != 1 || nr != 1 {
			r.Bad("C04.decision", core.ShortKey(p2fn.Obj)+" : one commit site and one rollback site", w.Pos(p2fn.Decl.Pos()), "expected exactly one commit and one rollback call site")
		}
		errDiscipline(r, "C04.surface", []*core.FuncInfo{p2fn}, nil)
	}
	// ---- C04.panic and C04.surface on the deciding unit
	assignsResult := func(pkg *packages.Package, as *ast.AssignStmt) []flow.Tag {
		for _, l := range as.Lhs {
			if isObj(pkg.TypesInfo, l, named) {
				return []flow.Tag{"resultset"}
			}
		}
		return nil
	}
	panicTag := func(pkg *packages.Package, call *ast.CallExpr, callee *types.Func) []flow.Tag {
		if id, ok := call.Fun.(*ast.Ident); ok && id.Name == "panic" {
			if _, isB := pkg.TypesInfo.Uses[id].(*types.Builtin); isB {
				return []flow.Tag{"repanic"}
			}
		}
		if call == p2call {
			return []flow.Tag{"p2"}
		}
		return nil
	}
	// run the unit from "business returned nil" with an assumption about one call; answer per exit whether the
	// failure surfaces: closure -> the named result is set (or re-panic); helper -> it returns a non-nil error
	surfaces := func(assume func(pkg *packages.Package, call *ast.CallExpr) bool, recNonNil bool, only string) (bool, int) {
		sp := &flow.Spec{W: w, Depth: 0, Inline: -1, Split: []flow.Tag{"p2"}, AssignTags: assignsResult, Classify: panicTag, AssumeNonNil: assume}
		var res *flow.Result
		if u.fn == nil {
			res = sp.AnalyzeLitSeed(with.Pkg, p2lit, func(s *flow.State) { s.SetNil(named, true) })
		} else {
			res = sp.AnalyzeSeed(u.fn, func(s *flow.State) {
				s.SetNil(u.errObj, true)
				if recNonNil {
					s.SetNil(u.recObj, false)
				}
			})
		}
		okAll, n := len(res.Exits) > 0 || sumHas(res, "repanic"), 0
		for _, ex := range res.Exits {
			if only != "" && !ex.St.Maybe(only) {
				continue
			}
			n++
			good := ex.St.Has("repanic")
			if u.fn == nil {
				good = good || ex.St.Has("resultset")
			} else {
				good = good || ex.Class == flow.ExitErr
			}
			if !good {
				okAll = false
			}
		}
		return okAll, n
	}
	{
		okAll, _ := surfaces(func(pkg *packages.Package, call *ast.CallExpr) bool {
			id, ok := call.Fun.(*ast.Ident)
			return ok && id.Name == "recover"
		}, true, "")
		r.Sites++
		r.Check(okAll, "C04.panic", keyW+" : recovered panic surfaces", w.Pos(p2lit.Pos()),
			"whenever recover() is non-nil the closure sets the returned error or re-panics", "with a recovered panic and a nil business error the closure can finish without setting the returned error or re-panicking: the caller sees success")
	}
	{
		okAll, n := surfaces(func(pkg *packages.Package, call *ast.CallExpr) bool { return call == p2call }, false, "p2")
		r.Sites++
		r.Check(okAll && n > 0, "C04.surface", keyW+" : second-phase error surfaces", w.Pos(p2lit.Pos()),
			"a failed second phase sets the returned error", "a failed commit/rollback can leave the returned error nil")
	}
	_ = ufn
	for _, c := range deferClobbers(with) {
		r.Bad("C04.surface", keyW+" : deferred closure replaces the result unguarded ("+c.Text+")", w.Pos(c.Pos), "the deferred closure can replace a non-nil result by a value that does not keep it")
	}
	r.OK("C04.surface", keyW+" : deferred closure keeps an earlier failure", w.Pos(p2lit.Pos()), "assignments to the named result either keep the old value or are guarded")
	// ---- C04.begin: the second phase is installed only after begin succeeded; business runs after begin
	{
		sp := &flow.Spec{W: w, Depth: 0, Classify: func(pkg *packages.Package, call *ast.CallExpr, callee *types.Func) []flow.Tag {
			if callee != nil && callee.Pkg() != nil && callee.Pkg().Path() == pTM && reachBegin.Hits(callee) && w.Info(callee) != nil {
				return []flow.Tag{"begin"}
			}
			return nil
		}}
		found := false
		sp.Visit = func(pkg *packages.Package, n ast.Node, st *flow.State) {
			if ds, ok := n.(*ast.DeferStmt); ok && ast.Unparen(ds.Call.Fun) == ast.Expr(p2lit) {
				found = true
				r.Sites++
				r.Check(st.Has("ok:begin"), "C04.begin", keyW+" : second phase installed after begin succeeded", w.Pos(ds.Pos()),
					"the deferred second phase is registered only through the nil-error edge of begin", "the deferred commit/rollback is installed on a path where begin has not succeeded: a transaction that was never begun would be ended")
			}
		}
		res := sp.Analyze(with)
		for _, ex := range res.Exits {
			if ex.St.Has("fail:begin") {
				r.Sites++
				r.Check(ex.Class != flow.ExitOK, "C04.begin", keyW+" : begin failure returned", w.Pos(ex.Pos), "begin failure is returned", "a failed begin returns nil")
			}
		}
		if !found {
			r.Bad("C04.begin", keyW+" : second phase installed after begin succeeded", w.Pos(with.Decl.Pos()), "defer of the second phase not found on the CFG")
		}
	}
	// ---- Commit / Rollback of the transaction manager
	for _, m := range []*types.Func{commitM, rollbackM} {
		fi := r.Anchor("C04.anchor", w.Info(m), "GlobalTransactionManager."+m.Name())
		if fi == nil {
			continue
		}
		c04EndRequest(r, fi)
	}
	c04Backoff(r)
	r.Floor("C04.decision", 3)
	r.Floor("C04.surface", 8)
	c07FreshInit(r, "C04.decision")
	r.Floor("C04.retry", 3)
}

func sumHas(res *flow.Result, t string) bool { return res.Sum != nil && res.Sum.May[t] }

// resolveLocalBool follows a single local assignment of a boolean identifier inside the literal.
func resolveLocalBool(fn *core.FuncInfo, lit *ast.FuncLit, e ast.Expr) ast.Expr {
	id, ok := ast.Unparen(e).(*ast.Ident)
	if !ok {
		return e
	}
	obj := fn.Pkg.TypesInfo.Uses[id]
	var rhs ast.Expr
	n := 0
	ast.Inspect(lit.Body, func(x ast.Node) bool {
		if as, ok := x.(*ast.AssignStmt); ok && len(as.Lhs) == len(as.Rhs) {
			for i, l := range as.Lhs {
				if core.ObjOf(fn.Pkg.TypesInfo, l) == obj {
					n++
					rhs = as.Rhs[i]
				}
			}
		}
		return true
	})
	if n == 1 {
		return rhs
	}
	return e
}

// resolveLocalBoolIn follows a single local assignment of a boolean identifier inside body.
func resolveLocalBoolIn(info *types.Info, body *ast.BlockStmt, e ast.Expr) ast.Expr {
	id, ok := ast.Unparen(e).(*ast.Ident)
	if !ok {
		return e
	}
	obj := info.Uses[id]
	var rhs ast.Expr
	n := 0
	ast.Inspect(body, func(x ast.Node) bool {
		if as, ok := x.(*ast.AssignStmt); ok && len(as.Lhs) == len(as.Rhs) {
			for i, l := range as.Lhs {
				if core.ObjOf(info, l) == obj {
					n++
					rhs = as.Rhs[i]
				}
			}
		}
		return true
	})
	if n == 1 {
		return rhs
	}
	return e
}

// conjunctsAllNilTests: e is a conjunction of `v == nil` tests; records the tested variables.
func conjunctsAllNilTests(info *types.Info, e ast.Expr, out map[types.Object]bool) bool {
	e = ast.Unparen(e)
	be, ok := e.(*ast.BinaryExpr)
	if !ok {
		return false
	}
	if be.Op == token.LAND {
		return conjunctsAllNilTests(info, be.X, out) && conjunctsAllNilTests(info, be.Y, out)
	}
	if be.Op != token.EQL {
		return false
	}
	var v ast.Expr
	if isNilIdent(info, be.Y) {
		v = be.X
	} else if isNilIdent(info, be.X) {
		v = be.Y
	} else {
		return false
	}
	o := core.ObjOf(info, v)
	if o == nil {
		return false
	}
	out[o] = true
	return true
}

// c04Budget: the retry budget of a second-phase request is the one configured for that request: every backoff
// constructed on the way (in the function or in helpers of the package analysed in its context) takes its MaxRetries
// from config.<Phase>RetryCount, the phase being the function's own (Commit / Rollback), not the other one's.
func c04Budget(r *core.Run, fi *core.FuncInfo) {
	w := r.W
	key := core.ShortKey(fi.Obj)
	own, other := fi.Obj.Name()+"RetryCount", "RollbackRetryCount"
	if fi.Obj.Name() == "Rollback" {
		other = "CommitRetryCount"
	}
	res := (&flow.Spec{W: w, Depth: 0, Inline: 3, Classify: func(pkg *packages.Package, call *ast.CallExpr, callee *types.Func) []flow.Tag {
		if core.IsPkgFunc(callee, core.Module+"/pkg/util/backoff", "New") && len(call.Args) == 2 {
			return []flow.Tag{"bnew"}
		}
		return nil
	}}).Analyze(fi)
	n := 0
	for _, cp := range res.Calls {
		if !inSet("bnew", cp.Tags...) {
			continue
		}
		n++
		r.Sites++
		at := cp.Fn
		if at == nil {
			at = fi
		}
		o, ok := litFieldOrigin(at, cp.Call.Args[1], "MaxRetries", 4)
		if ok && at != fi {
			// in the helper's terms: translate its parameters into what this function passes
			o = originViaStr(fi, at, o, 4)
		}
		r.Check(ok && strings.Contains(o, "."+own) && !strings.Contains(o, "."+other), "C04.retry", key+" : retry budget is the configured "+own, w.Pos(cp.Call.Pos()), "MaxRetries <- "+o,
			"the retry budget of "+fi.Obj.Name()+" derives from "+o+", not from the configured "+own+": with the two counts configured differently the request is retried fewer (or more) times than configured")
	}
	if n == 0 {
		r.Bad("C04.retry", key+" : retry budget is the configured "+own, w.Pos(fi.Decl.Pos()), "no backoff is constructed for the second-phase request")
	}
}

// c04EndRequest: rules on GlobalTransactionManager.Commit / Rollback.
func c04EndRequest(r *core.Run, fi *core.FuncInfo) {
	w := r.W
	info := fi.Pkg.TypesInfo
	key := core.ShortKey(fi.Obj)
	c04Budget(r, fi)
	isWrap := func(f *types.Func) bool {
		if f == nil || f.Pkg() == nil || f.Pkg().Path() != "github.com/pkg/errors" {
			return false
		}
		return inSet(f.Name(), "Wrap", "Wrapf", "WithStack", "WithMessage", "WithMessagef")
	}
	sp := &flow.Spec{W: w, Depth: 0, Split: []flow.Tag{"terminated", "bferr"},
		// a loop left because Ongoing() was false has Err() != nil (formula agreement checked by C04.retry)
		Contradict: [][2]flow.Tag{{"terminated", "ok:bferr"}},
		Classify: func(pkg *packages.Package, call *ast.CallExpr, callee *types.Func) []flow.Tag {
			switch {
			// what Err() answered holds for the moment it was asked only: any later step that takes time
			// (a request, a wait, the next look at Ongoing) forgets it
			case isSendSync(callee):
				return []flow.Tag{"send", "-ok:bferr", "-fail:bferr"}
			case core.IsMethod(callee, pBackoff, "Backoff", "Ongoing"):
				return []flow.Tag{"ongoing", "-ok:bferr", "-fail:bferr"}
			case core.IsMethod(callee, pBackoff, "Backoff", "Wait"):
				return []flow.Tag{"wait", "-ok:bferr", "-fail:bferr"}
			case core.IsMethod(callee, pBackoff, "Backoff", "Err"):
				return []flow.Tag{"bferr"}
			case isWrap(callee):
				return []flow.Tag{"wrap"}
			}
			return nil
		},
		CondTags: func(pkg *packages.Package, cond ast.Expr, branch bool) []flow.Tag {
			out := launcherCond(pkg, cond, branch)
			// loop left because Ongoing() answered false => the backoff is terminated => Err() != nil (C04.retry formula agreement)
			if c, ok := ast.Unparen(cond).(*ast.CallExpr); ok && core.IsMethod(core.Callee(pkg.TypesInfo, c), pBackoff, "Backoff", "Ongoing") && !branch {
				out = append(out, "terminated")
			}
			if be, ok := ast.Unparen(cond).(*ast.BinaryExpr); ok && (be.Op == token.NEQ || be.Op == token.EQL) && isNilIdent(pkg.TypesInfo, be.Y) {
				if c, ok := ast.Unparen(be.X).(*ast.CallExpr); ok && core.IsMethod(core.Callee(pkg.TypesInfo, c), pBackoff, "Backoff", "Err") {
					errIsNil := (be.Op == token.EQL) == branch
					if errIsNil {
						out = append(out, "#not:terminated")
					}
				}
			}
			return out
		}}
	nAssert := 0
	sp.Visit = func(pkg *packages.Package, n ast.Node, st *flow.State) {
		ast.Inspect(n, func(x ast.Node) bool {
			switch t := x.(type) {
			case *ast.FuncLit:
				return false
			case *ast.TypeAssertExpr:
				if t.Type == nil {
					return true
				}
				// single-value assertion? (the two-value form appears as the sole RHS of a 2-LHS assignment)
				if as, ok := n.(*ast.AssignStmt); ok && len(as.Lhs) == 2 && len(as.Rhs) == 1 && ast.Unparen(as.Rhs[0]) == ast.Expr(t) {
					return true
				}
				o := core.ObjOf(info, t.X)
				if o == nil {
					return true
				}
				nAssert++
				r.Sites++
				r.Check(st.Has("ok:send"), "C04.surface", key+" : reply type assertion after a successful request", w.Pos(t.Pos()),
					"the single-value type assertion on the reply is reached only after a request succeeded", "a single-value type assertion on the reply is reachable without a successful request (nil interface: it panics)")
			}
			return true
		})
	}
	res := sp.Analyze(fi)
	nSend := 0
	for _, cp := range res.Calls {
		switch {
		case inSet("send", cp.Tags...):
			nSend++
			r.Sites++
			r.Check(cp.Before.Has("launcher") && cp.InLoop && cp.Before.Has("true:ongoing"), "C04.decision", key+" -> SendSyncRequest", w.Pos(cp.Call.Pos()),
				"the request is sent only by the Launcher, inside the retry loop guarded by Ongoing", "the end request can be sent outside the Launcher guard or outside the Ongoing-guarded retry loop")
		case inSet("wrap", cp.Tags...):
			r.Sites++
			r.Check(len(cp.Call.Args) > 0 && cp.Before.ExprNil(info, cp.Call.Args[0]) == 2, "C04.surface", key+" -> errors."+cp.Callee.Name()+" on a non-nil error", w.Pos(cp.Call.Pos()),
				"the wrapped error is known non-nil", "errors."+cp.Callee.Name()+" is applied to an error that may be nil on this path; it then returns nil and the failure (e.g. a cancelled context) becomes success")
		}
	}
	if nSend != 1 {
		r.Bad("C04.decision", key+" -> SendSyncRequest", w.Pos(fi.Decl.Pos()), "expected exactly one request site")
	}
	for _, ex := range res.Exits {
		r.Sites++
		role := exitRole(ex, func(t string) bool { return inSet(t, "ok:send", "notlauncher", "terminated", "launcher") })
		k := key + " " + role
		if ex.Class == flow.ExitErr {
			r.OK("C04.surface", k, w.Pos(ex.Pos), "error return")
			continue
		}
		okc := ex.St.Has("ok:send") || ex.St.Has("notlauncher")
		if ex.Class == flow.ExitEither && (ex.OkImplies["ok:send"] || ex.OkImplies["notlauncher"]) {
			// the error handed on is nil only for a participant / after a successful request
			okc = true
		}
		r.Check(okc, "C04.surface", k, w.Pos(ex.Pos), "nil is returned only after a request succeeded (or for a participant)",
			"a possibly-nil error is returned on a path where no request has succeeded (e.g. context already cancelled): silent success without asking the coordinator")
	}
	// retry loop shape: in the function itself or in a helper of the package it sends through
	n := 0
	loopFns := []*core.FuncInfo{fi}
	for _, cs := range w.Calls(fi) {
		if h := w.Info(cs.Static); h != nil && h.Pkg == fi.Pkg && h != fi {
			loopFns = append(loopFns, h)
		}
	}
	for _, lf := range dedupFns(loopFns) {
		linfo := lf.Pkg.TypesInfo
		ast.Inspect(lf.Decl.Body, func(x ast.Node) bool {
			fs, ok := x.(*ast.ForStmt)
			if !ok {
				return true
			}
			cc, ok := fs.Cond.(*ast.CallExpr)
			if !ok || !core.IsMethod(core.Callee(linfo, cc), pBackoff, "Backoff", "Ongoing") {
				return true
			}
			n++
			r.Sites++
			r.Fn(lf)
			okShape, why := retryLoopShape(linfo, fs, recvObj(linfo, cc))
			r.Check(okShape, "C04.retry", key+" : retry loop shape", w.Pos(fs.Pos()), "breaks only on err == nil, waits on every continuing path", why)
			return true
		})
	}
	if n == 0 {
		r.Bad("C04.retry", key+" : retry loop shape", w.Pos(fi.Decl.Pos()), "no loop over Backoff.Ongoing")
	}
}

// retryLoopShape: body has a top-level Wait on the loop's backoff, no continue, and every break is under `err == nil`.
func retryLoopShape(info *types.Info, fs *ast.ForStmt, bo types.Object) (bool, string) {
	waits := false
	for _, s := range fs.Body.List {
		if es, ok := s.(*ast.ExprStmt); ok {
			if c, ok := es.X.(*ast.CallExpr); ok && core.IsMethod(core.Callee(info, c), pBackoff, "Backoff", "Wait") && recvObj(info, c) == bo {
				waits = true
			}
		}
	}
	if !waits {
		return false, "the loop body does not call Wait on its backoff at top level: the retry counter never advances"
	}
	bad := ""
	var walk func(n ast.Node, guards []ast.Expr)
	walk = func(n ast.Node, guards []ast.Expr) {
		switch x := n.(type) {
		case *ast.IfStmt:
			walk(x.Body, append(append([]ast.Expr{}, guards...), x.Cond))
			if x.Else != nil {
				walk(x.Else, guards)
			}
		case *ast.BlockStmt:
			for _, s := range x.List {
				walk(s, guards)
			}
		case *ast.BranchStmt:
			if x.Tok == token.CONTINUE {
				bad = "the loop contains 'continue', skipping Wait"
			}
			if x.Tok == token.BREAK {
				ok := false
				for _, g := range guards {
					if impliesErrNil(info, g) {
						ok = true
					}
				}
				if !ok {
					bad = "the loop breaks under a condition that does not imply err == nil"
				}
			}
		case *ast.ForStmt, *ast.RangeStmt, *ast.SwitchStmt, *ast.SelectStmt, *ast.FuncLit:
			// nested constructs own their break
		}
	}
	walk(fs.Body, nil)
	return bad == "", bad
}

// impliesErrNil: cond is `e == nil` for an error-typed e, or a disjunction containing only such tests / errors.Is on it.
func impliesErrNil(info *types.Info, cond ast.Expr) bool {
	be, ok := ast.Unparen(cond).(*ast.BinaryExpr)
	if !ok {
		return false
	}
	if be.Op == token.EQL && isNilIdent(info, be.Y) {
		t := info.TypeOf(be.X)
		return t != nil && types.Identical(t, types.Universe.Lookup("error").Type())
	}
	return false
}

// ---- formula agreement between Backoff.Ongoing and Backoff.Err

type atom struct {
	text string
	neg  bool
}

// dnf: set of clauses, each a set of literals
type clause []string

func negOp(op token.Token) token.Token {
	switch op {
	case token.EQL:
		return token.NEQ
	case token.NEQ:
		return token.EQL
	case token.LSS:
		return token.GEQ
	case token.GEQ:
		return token.LSS
	case token.GTR:
		return token.LEQ
	case token.LEQ:
		return token.GTR
	}
	return token.ILLEGAL
}

// lit renders a comparison canonically; negation flips the operator.
func lit(e ast.Expr, neg bool) (string, bool) {
	be, ok := ast.Unparen(e).(*ast.BinaryExpr)
	if !ok {
		return "", false
	}
	op := be.Op
	if neg {
		op = negOp(op)
	}
	if op == token.ILLEGAL {
		return "", false
	}
	// canonical: use only ==, !=, <, >=  (a > b  ->  b < a ; a <= b -> b >= a)
	x, y := core.ExprString(be.X), core.ExprString(be.Y)
	switch op {
	case token.GTR:
		op, x, y = token.LSS, y, x
	case token.LEQ:
		op, x, y = token.GEQ, y, x
	}
	return x + " " + op.String() + " " + y, true
}

// toDNF converts a boolean expression over comparisons into DNF (neg pushes a negation inwards).
func toDNF(e ast.Expr, neg bool) ([]clause, bool) {
	e = ast.Unparen(e)
	switch x := e.(type) {
	case *ast.UnaryExpr:
		if x.Op == token.NOT {
			return toDNF(x.X, !neg)
		}
	case *ast.BinaryExpr:
		isAnd := x.Op == token.LAND
		isOr := x.Op == token.LOR
		if isAnd || isOr {
			a, ok1 := toDNF(x.X, neg)
			b, ok2 := toDNF(x.Y, neg)
			if !ok1 || !ok2 {
				return nil, false
			}
			if isAnd != neg { // conjunction
				var out []clause
				for _, ca := range a {
					for _, cb := range b {
						out = append(out, append(append(clause{}, ca...), cb...))
					}
				}
				return out, true
			}
			return append(a, b...), true
		}
		if l, ok := lit(x, neg); ok {
			return []clause{{l}}, true
		}
	case *ast.CallExpr:
		// a predicate of the same type whose body is one boolean return over the same receiver stands for that
		// expression (b.retriesExhausted() with `return b.cfg.MaxRetries != 0 && ...`)
		if dnfInline != nil {
			if body := dnfInline(x); body != nil {
				return toDNF(body, neg)
			}
		}
	}
	return nil, false
}

// dnfInline, when set, answers the boolean expression a predicate call stands for (nil if it is not one)
var dnfInline func(c *ast.CallExpr) ast.Expr

func canonDNF(cs []clause) string {
	var parts []string
	for _, c := range cs {
		m := map[string]bool{}
		for _, l := range c {
			m[l] = true
		}
		var ls []string
		for l := range m {
			ls = append(ls, l)
		}
		sort.Strings(ls)
		parts = append(parts, strings.Join(ls, " && "))
	}
	sort.Strings(parts)
	return strings.Join(parts, "  ||  ")
}

// c04Backoff: Err() != nil  <=>  !Ongoing()
func c04Backoff(r *core.Run) {
	w := r.W
	on := r.Anchor("C04.retry", w.Func("pkg/util/backoff", "Backoff", "Ongoing"), "backoff.Backoff.Ongoing")
	er := r.Anchor("C04.retry", w.Func("pkg/util/backoff", "Backoff", "Err"), "backoff.Backoff.Err")
	if on == nil || er == nil {
		return
	}
	var onExpr ast.Expr
	if len(on.Decl.Body.List) == 1 {
		if rs, ok := on.Decl.Body.List[0].(*ast.ReturnStmt); ok && len(rs.Results) == 1 {
			onExpr = rs.Results[0]
		}
	}
	key := "pkg/util/backoff.(Backoff).Err non-nil <=> !Ongoing()"
	dnfDepth := 0
	dnfInline = func(c *ast.CallExpr) ast.Expr {
		if dnfDepth > 3 || len(c.Args) != 0 {
			return nil
		}
		g := w.Info(core.Callee(on.Pkg.TypesInfo, c))
		if g == nil || g.Pkg != on.Pkg || g.Decl.Body == nil || len(g.Decl.Body.List) != 1 || g.Decl.Recv == nil {
			return nil
		}
		rs, ok := g.Decl.Body.List[0].(*ast.ReturnStmt)
		if !ok || len(rs.Results) != 1 {
			return nil
		}
		// same receiver name at the call and in the predicate, so that the operands read alike
		sel, ok := ast.Unparen(c.Fun).(*ast.SelectorExpr)
		if !ok || len(g.Decl.Recv.List) != 1 || len(g.Decl.Recv.List[0].Names) != 1 || core.ExprString(sel.X) != g.Decl.Recv.List[0].Names[0].Name {
			return nil
		}
		dnfDepth++
		return rs.Results[0]
	}
	defer func() { dnfInline = nil }()
	if onExpr == nil {
		r.Undecided("C04.retry", key, w.Pos(on.Decl.Pos()), "Ongoing is not a single boolean return expression")
		return
	}
	notOngoing, ok := toDNF(onExpr, true)
	if !ok {
		r.Undecided("C04.retry", key, w.Pos(on.Decl.Pos()), "Ongoing's expression leaves the comparison/&&/|| vocabulary")
		return
	}
	// Err: sequence of `if cond { return <non-nil> }` followed by `return nil`
	var errDNF []clause
	shape := true
	// a value read once into a local (`if e := b.ctx.Err(); e != nil`, or `e := ...` before the tests) stands for
	// the expression it was read from
	subst := map[string]string{}
	define := func(st ast.Stmt) bool {
		as, ok := st.(*ast.AssignStmt)
		if !ok || as.Tok != token.DEFINE || len(as.Lhs) != 1 || len(as.Rhs) != 1 {
			return false
		}
		id, ok := as.Lhs[0].(*ast.Ident)
		if !ok {
			return false
		}
		subst[id.Name] = core.ExprString(as.Rhs[0])
		return true
	}
	rename := func(cs []clause) []clause {
		for i := range cs {
			for j := range cs[i] {
				for from, to := range subst {
					cs[i][j] = replaceToken(" "+cs[i][j], " "+from, " "+to)[1:]
				}
			}
		}
		return cs
	}
	for i, s := range er.Decl.Body.List {
		switch x := s.(type) {
		case *ast.AssignStmt:
			if !define(x) {
				shape = false
			}
		case *ast.IfStmt:
			if x.Init != nil && !define(x.Init) {
				shape = false
				break
			}
			if x.Else != nil || len(x.Body.List) != 1 {
				shape = false
				break
			}
			rs, ok := x.Body.List[0].(*ast.ReturnStmt)
			if !ok || len(rs.Results) != 1 || isNilIdent(er.Pkg.TypesInfo, rs.Results[0]) {
				shape = false
				break
			}
			c, ok := toDNF(x.Cond, false)
			if !ok {
				shape = false
				break
			}
			errDNF = append(errDNF, rename(c)...)
		case *ast.ReturnStmt:
			if i != len(er.Decl.Body.List)-1 || len(x.Results) != 1 || !isNilIdent(er.Pkg.TypesInfo, x.Results[0]) {
				shape = false
			}
		default:
			shape = false
		}
	}
	if !shape {
		r.Undecided("C04.retry", key, w.Pos(er.Decl.Pos()), "Err() is not a chain of `if cond { return err }` ending in `return nil`")
		return
	}
	a, b := canonDNF(notOngoing), canonDNF(errDNF)
	r.Sites++
	r.Check(a == b, "C04.retry", key, w.Pos(er.Decl.Pos()), "Err() is non-nil exactly when Ongoing() is false: "+a,
		"Backoff.Err() is non-nil under {"+b+"} but Ongoing() is false under {"+a+"}: a loop that ends because Ongoing() is false can see Err()==nil (or the converse), so the post-loop failure test is wrong")
}
