package rules

import (
	"go/ast"
	"go/constant"
	"go/token"
	"go/types"
	"sort"
	"strings"

	"golang.org/x/tools/go/packages"

	"seatalint/internal/core"
	"seatalint/internal/flow"
)

const (
	pSQL      = "database/sql"
	pDriver   = "database/sql/driver"
	pRM       = core.Module + "/pkg/rm"
	pTM       = core.Module + "/pkg/tm"
	pBranch   = core.Module + "/pkg/protocol/branch"
	pMessage  = core.Module + "/pkg/protocol/message"
	pUndo     = core.Module + "/pkg/datasource/sql/undo"
	pDSSQL    = core.Module + "/pkg/datasource/sql"
	pTypes    = core.Module + "/pkg/datasource/sql/types"
	pGetty    = core.Module + "/pkg/remoting/getty"
	pExecAT   = core.Module + "/pkg/datasource/sql/exec/at"
	pUndoExec = core.Module + "/pkg/datasource/sql/undo/executor"
)

// managerFor finds the rm.ResourceManager implementation whose GetBranchType returns the named constant.
func managerFor(r *core.Run, constName string) *types.Named {
	w := r.W
	iface := w.Interface("pkg/rm", "ResourceManager")
	if iface == nil {
		return nil
	}
	for _, n := range w.Implementers(iface) {
		if w.IsTestFile(n.Obj().Pos()) || strings.Contains(n.Obj().Pkg().Path(), "/mock") {
			continue
		}
		m := w.Info(w.MethodOf(n, "GetBranchType"))
		if m == nil {
			continue
		}
		ok := false
		ast.Inspect(m.Decl.Body, func(x ast.Node) bool {
			if rs, isRet := x.(*ast.ReturnStmt); isRet && len(rs.Results) == 1 {
				if c := core.ConstObj(m.Pkg.TypesInfo, rs.Results[0]); c != nil && c.Name() == constName && c.Pkg().Path() == pBranch {
					ok = true
				}
			}
			return true
		})
		if ok {
			return n
		}
	}
	return nil
}

// methodInfo returns the FuncInfo of method name on named type n.
func methodInfo(w *core.World, n *types.Named, name string) *core.FuncInfo {
	if n == nil {
		return nil
	}
	return w.Info(w.MethodOf(n, name))
}

// isIfaceOrImpl reports whether f is the interface method pkg.iface.name or a repo implementation of it.
func isIfaceOrImpl(w *core.World, f *types.Func, pkgRel, iface, name string) bool {
	if f == nil || f.Name() != name {
		return false
	}
	it := w.NamedType(pkgRel, iface)
	if it == nil {
		return false
	}
	if core.IsMethod(f, it.Obj().Pkg().Path(), iface, name) {
		return true
	}
	ifc, _ := it.Underlying().(*types.Interface)
	rn := core.RecvNamed(f)
	if ifc == nil || rn == nil {
		return false
	}
	if _, isI := rn.Underlying().(*types.Interface); isI {
		// another interface embedding / re-declaring the method (e.g. a wider interface)
		if o, _, _ := types.LookupFieldOrMethod(rn, true, nil, name); o != nil {
			for i := 0; i < ifc.NumMethods(); i++ {
				if ifc.Method(i).Name() == name && types.Identical(ifc.Method(i).Type(), f.Type()) {
					return true
				}
			}
		}
		return false
	}
	return types.Implements(rn, ifc) || types.Implements(types.NewPointer(rn), ifc)
}

// stdMethod reports whether f is method recv.name of package pkgPath (value or pointer receiver).
func stdMethod(f *types.Func, pkgPath, recv, name string) bool {
	return core.IsMethod(f, pkgPath, recv, name)
}

// errKey builds a construct key for a call inside a function.
func callKey(fn *core.FuncInfo, callee *types.Func, call *ast.CallExpr) string {
	c := "dynamic call " + core.ExprString(call.Fun)
	if callee != nil {
		c = core.ShortKey(callee)
	}
	return core.ShortKey(fn.Obj) + " -> " + c
}

// exitRole describes a return by what precedes it (never by line): the sorted derived events that hold there.
func exitRole(ex *flow.Exit, interesting func(string) bool) string {
	var parts []string
	for _, t := range ex.St.MustTags() {
		if interesting == nil || interesting(t) {
			parts = append(parts, t)
		}
	}
	if len(parts) == 0 {
		return "return[" + ex.Class + "]"
	}
	return "return[" + ex.Class + "] after {" + strings.Join(parts, ",") + "}"
}

// reachFrom returns the repo functions reachable from roots restricted to packages with one of the prefixes.
func reachFrom(w *core.World, roots []*core.FuncInfo, pkgPrefixes ...string) []*core.FuncInfo {
	in := func(f *core.FuncInfo) bool {
		for _, p := range pkgPrefixes {
			if strings.HasPrefix(f.Pkg.PkgPath, p) {
				return true
			}
		}
		return len(pkgPrefixes) == 0
	}
	seen := w.Reach(roots, func(f *core.FuncInfo) bool { return !in(f) })
	var out []*core.FuncInfo
	for f := range seen {
		if in(f) && !w.IsTestFile(f.Decl.Pos()) {
			out = append(out, f)
		}
	}
	sort.Slice(out, func(i, j int) bool { return out[i].String() < out[j].String() })
	return out
}

// enclosing returns the stack of nodes from root down to the node containing pos.
func enclosing(root ast.Node, target ast.Node) []ast.Node {
	var stack, found []ast.Node
	ast.Inspect(root, func(n ast.Node) bool {
		if found != nil {
			return false
		}
		if n == nil {
			stack = stack[:len(stack)-1]
			return true
		}
		stack = append(stack, n)
		if n == target {
			found = append([]ast.Node{}, stack...)
			return false
		}
		return true
	})
	return found
}

// condImplies reports whether cond being `branch` implies `obj == nil` (wantNil) or `obj != nil`.
func condImpliesNil(info *types.Info, cond ast.Expr, branch bool, obj types.Object, wantNil bool) bool {
	cond = ast.Unparen(cond)
	switch x := cond.(type) {
	case *ast.UnaryExpr:
		if x.Op == token.NOT {
			return condImpliesNil(info, x.X, !branch, obj, wantNil)
		}
	case *ast.BinaryExpr:
		switch x.Op {
		case token.LAND:
			if branch {
				return condImpliesNil(info, x.X, true, obj, wantNil) || condImpliesNil(info, x.Y, true, obj, wantNil)
			}
		case token.LOR:
			if !branch {
				return condImpliesNil(info, x.X, false, obj, wantNil) || condImpliesNil(info, x.Y, false, obj, wantNil)
			}
		case token.EQL, token.NEQ:
			var other ast.Expr
			if isNilIdent(info, x.Y) {
				other = x.X
			} else if isNilIdent(info, x.X) {
				other = x.Y
			} else {
				return false
			}
			if core.ObjOf(info, other) != obj {
				return false
			}
			isNil := (x.Op == token.EQL) == branch
			return isNil == wantNil
		}
	}
	return false
}

func isNilIdent(info *types.Info, e ast.Expr) bool {
	id, ok := ast.Unparen(e).(*ast.Ident)
	if !ok {
		return false
	}
	_, isNil := info.Uses[id].(*types.Nil)
	return isNil
}

// namedErrResult returns the object of the function's named error result (nil when unnamed).
func namedErrResult(pkg *packages.Package, ft *ast.FuncType) types.Object {
	if ft.Results == nil {
		return nil
	}
	for _, f := range ft.Results.List {
		if t := pkg.TypesInfo.TypeOf(f.Type); t != nil && types.Identical(t, types.Universe.Lookup("error").Type()) {
			if len(f.Names) > 0 {
				return pkg.TypesInfo.Defs[f.Names[len(f.Names)-1]]
			}
		}
	}
	return nil
}

// deferClobbers finds assignments to the named error result inside deferred closures that are not
// guarded by "result == nil" (so they can replace an earlier failure by nil).
type clobber struct {
	Pos  token.Pos
	Text string
}

func deferClobbers(fn *core.FuncInfo) []clobber {
	res := namedErrResult(fn.Pkg, fn.Decl.Type)
	if res == nil {
		return nil
	}
	info := fn.Pkg.TypesInfo
	var out []clobber
	ast.Inspect(fn.Decl.Body, func(n ast.Node) bool {
		ds, ok := n.(*ast.DeferStmt)
		if !ok {
			return true
		}
		lit, ok := ast.Unparen(ds.Call.Fun).(*ast.FuncLit)
		if !ok {
			return true
		}
		ast.Inspect(lit.Body, func(m ast.Node) bool {
			as, ok := m.(*ast.AssignStmt)
			if !ok {
				return true
			}
			for i, l := range as.Lhs {
				id, ok := ast.Unparen(l).(*ast.Ident)
				if !ok || info.Uses[id] != res {
					continue
				}
				// value assigned: accept when it provably keeps a failure (wraps the old value)
				if len(as.Rhs) == len(as.Lhs) && mentions(info, as.Rhs[i], res) {
					continue
				}
				if guardedByNil(info, lit.Body, as, res) {
					continue
				}
				if keepsFailure(fn, lit, res) || neverLosesFailure(fn) {
					continue
				}
				out = append(out, clobber{Pos: as.Pos(), Text: core.ExprString(l) + " " + as.Tok.String() + " " + rhsString(as)})
			}
			return true
		})
		return true
	})
	return out
}

func rhsString(as *ast.AssignStmt) string {
	var p []string
	for _, e := range as.Rhs {
		p = append(p, core.ExprString(e))
	}
	return strings.Join(p, ", ")
}

func mentions(info *types.Info, e ast.Expr, obj types.Object) bool {
	found := false
	ast.Inspect(e, func(n ast.Node) bool {
		if id, ok := n.(*ast.Ident); ok && info.Uses[id] == obj {
			found = true
		}
		return !found
	})
	return found
}

// guardedByNil: the statement lies in a branch that is only taken when obj == nil.
func guardedByNil(info *types.Info, root ast.Node, stmt ast.Node, obj types.Object) bool {
	st := enclosing(root, stmt)
	for i := len(st) - 2; i >= 0; i-- {
		ifs, ok := st[i].(*ast.IfStmt)
		if !ok {
			continue
		}
		child := st[i+1]
		if child == ifs.Body {
			if condImpliesNil(info, ifs.Cond, true, obj, true) {
				return true
			}
		} else if child == ifs.Else {
			if condImpliesNil(info, ifs.Cond, false, obj, true) {
				return true
			}
		} else if child == ifs.Init || child == ifs.Cond {
			// `if err = f(); err != nil` : the assignment is the init statement itself; look further out
			continue
		}
	}
	return false
}

// stringConstsIn collects string constants (literals and named) used in the function body.
func stringConstsIn(fn *core.FuncInfo) []string {
	var out []string
	ast.Inspect(fn.Decl.Body, func(n ast.Node) bool {
		e, ok := n.(ast.Expr)
		if !ok {
			return true
		}
		if v := core.ConstVal(fn.Pkg.TypesInfo, e); v != nil && v.Kind() == constant.String {
			out = append(out, constant.StringVal(v))
			return false
		}
		return true
	})
	return out
}

// firstWord upper-cases the first SQL keyword of s.
func firstWord(s string) string {
	f := strings.Fields(s)
	if len(f) == 0 {
		return ""
	}
	return strings.ToUpper(f[0])
}

// recvObj returns the object of the receiver expression of a method call x.m(...), when x is an identifier.
func recvObj(info *types.Info, call *ast.CallExpr) types.Object {
	sel, ok := ast.Unparen(call.Fun).(*ast.SelectorExpr)
	if !ok {
		return nil
	}
	return core.ObjOf(info, sel.X)
}

// paramObj returns the i-th parameter object of a function declaration.
func paramObjs(fn *core.FuncInfo) []types.Object {
	var out []types.Object
	for _, f := range fn.Decl.Type.Params.List {
		for _, n := range f.Names {
			out = append(out, fn.Pkg.TypesInfo.Defs[n])
		}
	}
	return out
}

// sameIdentObj reports whether e is an identifier denoting obj.
func isObj(info *types.Info, e ast.Expr, obj types.Object) bool {
	id, ok := ast.Unparen(e).(*ast.Ident)
	return ok && obj != nil && (info.Uses[id] == obj || info.Defs[id] == obj)
}

func constName(c *types.Const) string {
	if c == nil {
		return "<non-constant>"
	}
	return c.Name()
}

func inSet(s string, set ...string) bool {
	for _, x := range set {
		if s == x {
			return true
		}
	}
	return false
}

// reachCache memoises "function f reaches a callee satisfying pred within depth frames".
type reachCache struct {
	w     *core.World
	pred  func(*types.Func) bool
	depth int
	memo  map[*types.Func]bool
}

func newReach(w *core.World, depth int, pred func(*types.Func) bool) *reachCache {
	return &reachCache{w: w, pred: pred, depth: depth, memo: map[*types.Func]bool{}}
}

// Hits reports whether a call to f is, or may lead to, a call satisfying pred.
func (rc *reachCache) Hits(f *types.Func) bool {
	if f == nil {
		return false
	}
	if rc.pred(f) {
		return true
	}
	if v, ok := rc.memo[f]; ok {
		return v
	}
	rc.memo[f] = false
	var targets []*types.Func
	if core.IsIfaceMethod(f) {
		targets = rc.w.Impls(f)
	} else {
		targets = []*types.Func{f}
	}
	hit := false
	for _, t := range targets {
		fi := rc.w.Info(t)
		if fi == nil || rc.w.IsTestFile(fi.Decl.Pos()) {
			continue
		}
		if rc.w.CallPath(fi, rc.pred, rc.depth) != nil {
			hit = true
			break
		}
	}
	rc.memo[f] = hit
	return hit
}

// driverIface returns database/sql/driver's interface by name through any repo package importing it.
func driverIface(w *core.World, name string) *types.Interface {
	for _, p := range w.Pkgs {
		for _, imp := range p.Types.Imports() {
			if imp.Path() == pDriver {
				if o := imp.Scope().Lookup(name); o != nil {
					i, _ := o.Type().Underlying().(*types.Interface)
					return i
				}
			}
		}
	}
	return nil
}

// implementsDriver reports whether f is a method of a repo type implementing the named database/sql/driver interface.
func implementsDriver(w *core.World, f *types.Func, iface string) bool {
	n := core.RecvNamed(f)
	it := driverIface(w, iface)
	if n == nil || it == nil {
		return false
	}
	if _, isI := n.Underlying().(*types.Interface); isI {
		return false
	}
	isM := false
	for i := 0; i < it.NumMethods(); i++ {
		if it.Method(i).Name() == f.Name() {
			isM = true
		}
	}
	if !isM {
		return false
	}
	return types.Implements(types.NewPointer(n), it) || types.Implements(n, it)
}

// driverImplsIn lists the named types of pkgRel implementing the driver interface.
func driverImplsIn(w *core.World, pkgRel, iface string) []*types.Named {
	it := driverIface(w, iface)
	if it == nil {
		return nil
	}
	var out []*types.Named
	for _, n := range w.Implementers(it) {
		if n.Obj().Pkg().Path() == core.Module+"/"+pkgRel && !w.IsTestFile(n.Obj().Pos()) {
			out = append(out, n)
		}
	}
	return out
}

func isDriverTxCommit(f *types.Func) bool   { return stdMethod(f, pDriver, "Tx", "Commit") }
func isDriverTxRollback(f *types.Func) bool { return stdMethod(f, pDriver, "Tx", "Rollback") }

// boolArg returns the constant boolean value of argument i of a call.
func boolArg(info *types.Info, call *ast.CallExpr, i int) (val, ok bool) {
	if i >= len(call.Args) {
		return false, false
	}
	v := core.ConstVal(info, call.Args[i])
	if v == nil || v.Kind() != constant.Bool {
		return false, false
	}
	return constant.BoolVal(v), true
}

// rowsErrChecked: a result set that is iterated with `for X.Next()` (database/sql Rows or the proxy's ScanRows)
// ends either because the rows are exhausted or because reading failed; only X.Err() tells which. Every exit that
// reports success after such a loop has asked X.Err() and seen nil (or returns its answer).
func rowsErrChecked(r *core.Run, rule string, fns []*core.FuncInfo) int {
	w := r.W
	n := 0
	isRows := func(t types.Type) bool {
		if t == nil {
			return false
		}
		s := t.String()
		return s == "*database/sql.Rows" || strings.HasSuffix(s, "/pkg/datasource/sql/util.ScanRows")
	}
	for _, f := range dedupFns(fns) {
		if f == nil || f.Decl.Body == nil || w.IsTestFile(f.Decl.Pos()) {
			continue
		}
		info := f.Pkg.TypesInfo
		var rowsObj types.Object
		ast.Inspect(f.Decl.Body, func(x ast.Node) bool {
			fs, ok := x.(*ast.ForStmt)
			if !ok || fs.Cond == nil {
				return true
			}
			if c, ok := ast.Unparen(fs.Cond).(*ast.CallExpr); ok {
				if sel, ok := ast.Unparen(c.Fun).(*ast.SelectorExpr); ok && sel.Sel.Name == "Next" && isRows(info.TypeOf(sel.X)) {
					rowsObj = core.ObjOf(info, sel.X)
				}
			}
			return true
		})
		if rowsObj == nil {
			continue
		}
		r.Fn(f)
		sp := &flow.Spec{W: w, Depth: 0, Classify: func(pkg *packages.Package, call *ast.CallExpr, callee *types.Func) []flow.Tag {
			if recvObj(pkg.TypesInfo, call) != rowsObj || callee == nil {
				return nil
			}
			switch callee.Name() {
			case "Next":
				return []flow.Tag{"next"}
			case "Err":
				return []flow.Tag{"rowserr"}
			}
			return nil
		}}
		res := sp.Analyze(f)
		for _, ex := range res.Exits {
			if ex.Class == flow.ExitErr || !ex.St.Maybe("next") {
				continue
			}
			// a function without an error result: only the exits taken after Next answered false are judged
			// (an exit from inside the loop is that function's way of giving up)
			if ex.Class == flow.ExitNoErr && !ex.St.Maybe("false:next") {
				continue
			}
			n++
			r.Sites++
			via := ex.ErrOrigin != nil && inSet("rowserr", ex.ErrOrigin.Tags...)
			okc := ex.St.Has("ok:rowserr") || via
			if ex.Class == flow.ExitNoErr {
				okc = ex.St.Has("rowserr")
			}
			r.Check(okc, rule, core.ShortKey(f.Obj)+" "+exitRole(ex, func(t string) bool { return strings.HasSuffix(t, "rowserr") })+" : the rows were read to the end (Err() asked) before success is reported", w.Pos(ex.Pos),
				rowsObj.Name()+".Err() is nil on this path", "the loop over "+rowsObj.Name()+".Next() also ends when reading fails (lock wait timeout, killed query, lost connection); this exit reports success without having asked "+rowsObj.Name()+".Err(): a truncated or empty result is taken for the real rows")
		}
	}
	return n
}

// deferredWhenErr analyses what a deferred call does when the function's named error result is non-nil at exit:
// a deferred closure (which tests the captured result), or a deferred call of a function of the package that is
// handed the address of the result (`defer m.rollbackOnError(tx, &err)`, which tests `*p`). nil: not such a defer.
func deferredWhenErr(sp *flow.Spec, fn *core.FuncInfo, ds *ast.DeferStmt, errRes types.Object) *flow.Result {
	if errRes == nil {
		return nil
	}
	info := fn.Pkg.TypesInfo
	if lit, ok := ast.Unparen(ds.Call.Fun).(*ast.FuncLit); ok {
		return sp.AnalyzeLitSeed(fn.Pkg, lit, func(s *flow.State) { s.SetNil(errRes, false) })
	}
	h := sp.W.Info(core.Callee(info, ds.Call))
	if h == nil || h.Pkg != fn.Pkg || h.Decl.Body == nil {
		return nil
	}
	ps := paramObjs(h)
	var ptr types.Object
	for i, a := range ds.Call.Args {
		if u, ok := ast.Unparen(a).(*ast.UnaryExpr); ok && u.Op == token.AND && i < len(ps) && core.ObjOf(info, u.X) == errRes {
			ptr = ps[i]
		}
	}
	if ptr == nil {
		return nil
	}
	saved := sp.AssumeCond
	defer func() { sp.AssumeCond = saved }()
	sp.AssumeCond = func(pkg *packages.Package, cond ast.Expr) (bool, bool) {
		be, ok := ast.Unparen(cond).(*ast.BinaryExpr)
		if !ok || (be.Op != token.EQL && be.Op != token.NEQ) {
			return false, false
		}
		x, y := ast.Unparen(be.X), ast.Unparen(be.Y)
		if isNilIdent(pkg.TypesInfo, x) {
			x, y = y, x
		}
		if !isNilIdent(pkg.TypesInfo, y) {
			return false, false
		}
		st, ok := x.(*ast.StarExpr)
		if !ok || core.ObjOf(pkg.TypesInfo, st.X) != ptr {
			return false, false
		}
		return true, be.Op == token.NEQ
	}
	// the pointer parameter is not reassigned in the helper
	reassigned := false
	ast.Inspect(h.Decl.Body, func(n ast.Node) bool {
		if as, ok := n.(*ast.AssignStmt); ok {
			for _, l := range as.Lhs {
				if core.ObjOf(h.Pkg.TypesInfo, l) == ptr {
					reassigned = true
				}
			}
		}
		return true
	})
	if reassigned {
		return nil
	}
	return sp.AnalyzeSeed(h, nil)
}

// recoverSurfaces: a function with an error result that recovers from a panic in a deferred closure returns, after
// the recovery, whatever its *named* results hold — the zero values if they are unnamed, i.e. (.., nil): success.
// Every such function among fns must therefore name its error result and assign it (a non-nil value, or re-panic)
// on every path of the closure where recover() answered non-nil.
func recoverSurfaces(r *core.Run, rule string, fns []*core.FuncInfo) int {
	w := r.W
	n := 0
	for _, f := range dedupFns(fns) {
		if f == nil || f.Decl.Body == nil || w.IsTestFile(f.Decl.Pos()) {
			continue
		}
		info := f.Pkg.TypesInfo
		sig := f.Obj.Type().(*types.Signature)
		if _, has := core.HasErrorResult(sig); !has {
			continue
		}
		errRes := namedErrResult(f.Pkg, f.Decl.Type)
		ast.Inspect(f.Decl.Body, func(x ast.Node) bool {
			ds, ok := x.(*ast.DeferStmt)
			if !ok {
				return true
			}
			lit, ok := ast.Unparen(ds.Call.Fun).(*ast.FuncLit)
			if !ok {
				return true
			}
			// recover() bound to a variable (or tested directly)
			var rec types.Object
			hasRecover := false
			ast.Inspect(lit.Body, func(y ast.Node) bool {
				switch z := y.(type) {
				case *ast.AssignStmt:
					if len(z.Rhs) == 1 {
						if c, ok := ast.Unparen(z.Rhs[0]).(*ast.CallExpr); ok {
							if id, ok := c.Fun.(*ast.Ident); ok && id.Name == "recover" && info.Uses[id] == types.Universe.Lookup("recover") {
								hasRecover = true
								rec = core.ObjOf(info, z.Lhs[0])
							}
						}
					}
				case *ast.CallExpr:
					if id, ok := z.Fun.(*ast.Ident); ok && id.Name == "recover" && info.Uses[id] == types.Universe.Lookup("recover") {
						hasRecover = true
					}
				}
				return true
			})
			if !hasRecover {
				return true
			}
			n++
			r.Sites++
			r.Fn(f)
			key := core.ShortKey(f.Obj) + " : a recovered panic reaches the returned error"
			if errRes == nil {
				r.Bad(rule, key, w.Pos(lit.Pos()), "the function recovers from a panic but its error result is unnamed: after the recovery it returns the zero values — a nil error — whatever the deferred closure assigned to its locals, so the caller takes a method that panicked part-way for one that succeeded")
				return true
			}
			if rec == nil {
				r.Undecided(rule, key, w.Pos(lit.Pos()), "recover() is not bound to a variable the closure tests")
				return true
			}
			sp := &flow.Spec{W: w, Depth: 0, AssignTags: func(pkg *packages.Package, as *ast.AssignStmt) []flow.Tag {
				for i, l := range as.Lhs {
					if core.ObjOf(pkg.TypesInfo, l) == errRes {
						if i < len(as.Rhs) && isNilIdent(pkg.TypesInfo, as.Rhs[i]) {
							return []flow.Tag{"-seterr"}
						}
						return []flow.Tag{"seterr"}
					}
				}
				return nil
			}, Classify: func(pkg *packages.Package, call *ast.CallExpr, callee *types.Func) []flow.Tag {
				if id, ok := call.Fun.(*ast.Ident); ok && id.Name == "panic" {
					return []flow.Tag{"repanic"}
				}
				return nil
			}}
			res := sp.AnalyzeLitSeed(f.Pkg, lit, func(s *flow.State) { s.SetNil(rec, false) })
			okAll := true
			for _, ex := range res.Exits {
				if !ex.St.Has("seterr") && !ex.St.Has("repanic") {
					okAll = false
				}
			}
			r.Check(okAll, rule, key, w.Pos(lit.Pos()), "whenever recover() is non-nil the closure assigns the named error result (or re-panics)",
				"with a recovered panic the closure can finish without assigning the function's error result: the caller sees a nil error for a method that panicked part-way")
			return true
		})
	}
	return n
}

// keepsFailure: entered with the named error result non-nil, the deferred literal leaves it non-nil on every path
// (it may replace the error by another one — a failed clean-up's — but never by nil).
func keepsFailure(fn *core.FuncInfo, lit *ast.FuncLit, res types.Object) bool {
	if curWorld == nil {
		return false
	}
	sp := &flow.Spec{W: curWorld, Depth: 0}
	r := sp.AnalyzeLitSeed(fn.Pkg, lit, func(s *flow.State) { s.SetNil(res, false) })
	if len(r.Exits) == 0 {
		return false
	}
	for _, ex := range r.Exits {
		if !ex.St.IsNonNil(res) {
			return false
		}
	}
	return true
}

// neverLosesFailure: followed exit by exit (the deferred literals run where the function leaves, from the state of
// that exit), no exit that carried a non-nil error before the deferred literals ran carries anything else after
// them — e.g. because the named result is nil whenever the literal that assigns it runs.
func neverLosesFailure(fn *core.FuncInfo) bool {
	if curWorld == nil {
		return false
	}
	if v, ok := neverLosesMemo[fn]; ok {
		return v
	}
	res := (&flow.Spec{W: curWorld, Depth: 0, DeferAtExit: true}).Analyze(fn)
	ok := len(res.Exits) > 0
	for _, ex := range res.Exits {
		if ex.PreClass == "" {
			continue // no deferred literal ran on this exit
		}
		if ex.PreClass != flow.ExitOK && ex.Class != flow.ExitErr {
			ok = false
		}
	}
	neverLosesMemo[fn] = ok
	return ok
}

var neverLosesMemo = map[*core.FuncInfo]bool{}
