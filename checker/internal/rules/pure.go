package rules

import (
	"go/ast"
	"go/token"
	"go/types"
	"sort"
	"strings"
	"sync"

	"seatalint/internal/core"
)

// Purity with respect to run-time state: a function that must be a function of its arguments (the compensating
// statement of an undo log, the lock key of a row set, the branch identifier of a request) must not consult a
// package-level variable that request paths mutate — a memo keyed by less than the inputs, a "seen" set, a shared
// scratch value — because then one request's result depends on which requests ran before it.
//
// A package-level variable is *mutated at run time* when a function reachable from the request entry points
// (requestRoots) assigns it (or an element of it) or calls a mutating method on it (sync.Map Store/Delete/
// LoadOrStore/LoadAndDelete/Swap/CompareAndSwap/Range-with-delete is not tracked, sync.Pool Put/Get, append
// assigned back is an assignment). Variables only written by initialisation (config loading, sync.Once bodies,
// functions reachable only from init roots) are configuration, not state.

var (
	mutGlobalsOnce sync.Once
	mutGlobals     map[*types.Var]string // var -> where it is mutated
	mutGlobalsW    *core.World
)

var mutatingMethods = map[string]bool{"Store": true, "Delete": true, "LoadOrStore": true, "LoadAndDelete": true, "Swap": true, "CompareAndSwap": true, "CompareAndDelete": true,
	"Put": true, "Get": true, // sync.Pool: the value handed out is shared with whoever put it
	"Add": true, "Inc": true, "Dec": true, "Set": true, "Reset": true, "Write": true, "WriteString": true}

func runtimeMutatedGlobals(w *core.World) map[*types.Var]string {
	if mutGlobalsW == w && mutGlobals != nil {
		return mutGlobals
	}
	out := map[*types.Var]string{}
	roots := requestRoots(w)
	reach := w.Reach(roots, nil)
	isGlobal := func(info *types.Info, e ast.Expr) *types.Var {
		e = ast.Unparen(e)
		for {
			switch x := e.(type) {
			case *ast.IndexExpr:
				e = ast.Unparen(x.X)
				continue
			case *ast.StarExpr:
				e = ast.Unparen(x.X)
				continue
			case *ast.SelectorExpr:
				// pkg.Var or global.field
				if v, ok := info.Uses[x.Sel].(*types.Var); ok && !v.IsField() && v.Pkg() != nil && v.Parent() == v.Pkg().Scope() {
					return v
				}
				e = ast.Unparen(x.X)
				continue
			}
			break
		}
		if id, ok := e.(*ast.Ident); ok {
			if v, ok := info.Uses[id].(*types.Var); ok && v.Pkg() != nil && v.Parent() == v.Pkg().Scope() && strings.HasPrefix(v.Pkg().Path(), core.Module) {
				return v
			}
		}
		return nil
	}
	for f := range reach {
		if w.IsTestFile(f.Decl.Pos()) || strings.Contains(f.Pkg.PkgPath, "/mock") || f.Decl.Body == nil {
			continue
		}
		if calledOnlyThroughOnce(w, f) {
			continue
		}
		info := f.Pkg.TypesInfo
		inOnce := map[ast.Node]bool{}
		ast.Inspect(f.Decl.Body, func(n ast.Node) bool {
			if c, ok := n.(*ast.CallExpr); ok && stdMethod(core.Callee(info, c), "sync", "Once", "Do") && len(c.Args) == 1 {
				ast.Inspect(c.Args[0], func(m ast.Node) bool {
					inOnce[m] = true
					return true
				})
			}
			return true
		})
		note := func(v *types.Var, n ast.Node) {
			if v == nil || inOnce[n] {
				return
			}
			if _, ok := out[v]; !ok {
				out[v] = core.ShortKey(f.Obj) + " (" + w.Pos(n.Pos()) + ")"
			}
		}
		ast.Inspect(f.Decl.Body, func(n ast.Node) bool {
			switch x := n.(type) {
			case *ast.AssignStmt:
				for _, l := range x.Lhs {
					note(isGlobal(info, l), n)
				}
			case *ast.IncDecStmt:
				note(isGlobal(info, x.X), n)
			case *ast.CallExpr:
				if id, ok := x.Fun.(*ast.Ident); ok && id.Name == "delete" && len(x.Args) == 2 {
					note(isGlobal(info, x.Args[0]), n)
				}
				if sel, ok := ast.Unparen(x.Fun).(*ast.SelectorExpr); ok && mutatingMethods[sel.Sel.Name] {
					if callee := core.Callee(info, x); callee != nil && callee.Pkg() != nil && (callee.Pkg().Path() == "sync" || callee.Pkg().Path() == "sync/atomic" || strings.HasPrefix(callee.Pkg().Path(), "go.uber.org/atomic") || callee.Pkg().Path() == "bytes" || callee.Pkg().Path() == "strings") {
						// only a direct global receiver: v.Store(...), pkg.v.Store(...)
						rx := ast.Unparen(sel.X)
						switch g := rx.(type) {
						case *ast.Ident:
							if v, ok := info.Uses[g].(*types.Var); ok && v.Pkg() != nil && v.Parent() == v.Pkg().Scope() && strings.HasPrefix(v.Pkg().Path(), core.Module) {
								note(v, n)
							}
						case *ast.SelectorExpr:
							if v, ok := info.Uses[g.Sel].(*types.Var); ok && !v.IsField() && v.Pkg() != nil && v.Parent() == v.Pkg().Scope() && strings.HasPrefix(v.Pkg().Path(), core.Module) {
								note(v, n)
							}
						}
					}
				}
			}
			return true
		})
	}
	mutGlobals, mutGlobalsW = out, w
	return out
}

// pureOfRuntimeState records, per function, whether it consults run-time mutated package-level state.
// exempt: variable name -> reason (frozen, confirmed by reading).
func pureOfRuntimeState(r *core.Run, rule, what string, fns []*core.FuncInfo, exempt map[string]string) {
	w := r.W
	mut := runtimeMutatedGlobals(w)
	for _, f := range dedupFns(fns) {
		if f == nil || f.Decl.Body == nil || w.IsTestFile(f.Decl.Pos()) {
			continue
		}
		r.Fn(f)
		r.Sites++
		info := f.Pkg.TypesInfo
		var bad []string
		seen := map[*types.Var]bool{}
		ast.Inspect(f.Decl.Body, func(n ast.Node) bool {
			id, ok := n.(*ast.Ident)
			if !ok {
				return true
			}
			v, ok := info.Uses[id].(*types.Var)
			if !ok || seen[v] {
				return true
			}
			if where, isMut := mut[v]; isMut {
				seen[v] = true
				name := v.Pkg().Name() + "." + v.Name()
				if _, ok := exempt[name]; ok {
					return true
				}
				bad = append(bad, name+" (mutated by "+where+")")
			}
			return true
		})
		sort.Strings(bad)
		r.Check(len(bad) == 0, rule, core.ShortKey(f.Obj)+" consults no run-time mutated package state", w.Pos(f.Decl.Pos()), what+" depends on its inputs only",
			what+" also depends on package-level state that request paths change: "+strings.Join(bad, "; ")+" — the result for one request then depends on which requests ran before it (a memo keyed by less than the inputs, a remembered answer)")
	}
}

// noPooledResult: a value a function returns does not alias an object it took from a pool (sync.Pool, the gost
// bytes pools) — the object goes back to the pool when the function returns (or later), and the next taker
// overwrites the bytes the caller still holds. Returning a copy (append([]T(nil), x...), string(x), bytes.Clone) is fine.
func noPooledResult(r *core.Run, rule string, fns []*core.FuncInfo) {
	w := r.W
	isPoolTake := func(f *types.Func) bool {
		if f == nil || f.Pkg() == nil {
			return false
		}
		if f.Pkg().Path() == "sync" && f.Name() == "Get" {
			if rn := core.RecvNamed(f); rn != nil && rn.Obj().Name() == "Pool" {
				return true
			}
		}
		if strings.HasSuffix(f.Pkg().Path(), "dubbogo/gost/bytes") && (strings.HasPrefix(f.Name(), "Acquire") || strings.HasPrefix(f.Name(), "Get")) {
			return true
		}
		return false
	}
	for _, f := range dedupFns(fns) {
		if f == nil || f.Decl.Body == nil || w.IsTestFile(f.Decl.Pos()) {
			continue
		}
		info := f.Pkg.TypesInfo
		pooled := map[types.Object]string{}
		ast.Inspect(f.Decl.Body, func(n ast.Node) bool {
			as, ok := n.(*ast.AssignStmt)
			if !ok || len(as.Rhs) != 1 || len(as.Lhs) == 0 {
				return true
			}
			takes := ""
			ast.Inspect(as.Rhs[0], func(m ast.Node) bool {
				if c, ok := m.(*ast.CallExpr); ok && isPoolTake(core.Callee(info, c)) {
					takes = core.ExprString(c.Fun)
				}
				return true
			})
			if takes != "" {
				if o := core.ObjOf(info, as.Lhs[0]); o != nil {
					pooled[o] = takes
				}
			}
			return true
		})
		if len(pooled) == 0 {
			continue
		}
		// derive: variables defined from expressions mentioning a pooled (or derived) variable, three rounds
		for round := 0; round < 3; round++ {
			ast.Inspect(f.Decl.Body, func(n ast.Node) bool {
				as, ok := n.(*ast.AssignStmt)
				if !ok || len(as.Rhs) != 1 || len(as.Lhs) == 0 {
					return true
				}
				for p, how := range pooled {
					if mentions(info, as.Rhs[0], p) {
						if o := core.ObjOf(info, as.Lhs[0]); o != nil {
							if _, seen := pooled[o]; !seen {
								pooled[o] = how
							}
						}
					}
				}
				return true
			})
		}
		isCopy := func(e ast.Expr) bool {
			c, ok := ast.Unparen(e).(*ast.CallExpr)
			if !ok {
				return false
			}
			if tv, ok := info.Types[c.Fun]; ok && tv.IsType() {
				if b, ok := tv.Type.Underlying().(*types.Basic); ok && b.Info()&types.IsString != 0 {
					return true
				}
			}
			if id, ok := ast.Unparen(c.Fun).(*ast.Ident); ok && id.Name == "append" && len(c.Args) >= 1 {
				return !func() bool { // first arg must not be pooled
					for p := range pooled {
						if mentions(info, c.Args[0], p) {
							return true
						}
					}
					return false
				}()
			}
			if g := core.Callee(info, c); g != nil && g.Name() == "Clone" {
				return true
			}
			return false
		}
		ast.Inspect(f.Decl.Body, func(n ast.Node) bool {
			if _, ok := n.(*ast.FuncLit); ok {
				return false
			}
			rs, ok := n.(*ast.ReturnStmt)
			if !ok {
				return true
			}
			for _, e := range rs.Results {
				if isCopy(e) {
					continue
				}
				for p, how := range pooled {
					if mentions(info, e, p) {
						r.Sites++
						r.Fn(f)
						r.Bad(rule, core.ShortKey(f.Obj)+" returns nothing that aliases a pooled object", w.Pos(rs.Pos()), "the returned '"+core.ExprString(e)+"' aliases '"+p.Name()+"', taken from a pool ("+how+"): once it is back in the pool the next taker overwrites the bytes the caller still holds — with two messages in flight one goes out carrying the other's content")
						return true
					}
				}
			}
			return true
		})
	}
}

// noSingletonState: a method of a type of which the program keeps one shared instance (a package-level variable of
// that type / pointer to it, handed to every user) does not write the instance's fields on request paths (plain
// assignment, ++, or a sync/atomic store / add / swap on the field's address): what one stream / request leaves
// there changes what the next one is answered. fns: the methods (and helpers) to examine.
func noSingletonState(r *core.Run, rule, what string, fns []*core.FuncInfo) {
	w := r.W
	singleton := func(n *types.Named) string {
		for _, p := range w.ByPath {
			if !strings.HasPrefix(p.PkgPath, core.Module) || strings.Contains(p.PkgPath, "/mock") {
				continue
			}
			sc := p.Types.Scope()
			for _, name := range sc.Names() {
				v, ok := sc.Lookup(name).(*types.Var)
				if !ok {
					continue
				}
				t := v.Type()
				if pt, ok := t.(*types.Pointer); ok {
					t = pt.Elem()
				}
				if t == types.Type(n) {
					return p.Types.Name() + "." + v.Name()
				}
			}
		}
		return ""
	}
	for _, f := range dedupFns(fns) {
		if f == nil || f.Decl.Body == nil || w.IsTestFile(f.Decl.Pos()) {
			continue
		}
		rn := core.RecvNamed(f.Obj)
		rv := recvVarOf(f)
		if rn == nil || rv == nil {
			continue
		}
		inst := singleton(rn)
		if inst == "" {
			continue
		}
		info := f.Pkg.TypesInfo
		r.Fn(f)
		r.Sites++
		var bad []string
		isRecvField := func(e ast.Expr) string {
			sel, ok := ast.Unparen(e).(*ast.SelectorExpr)
			if !ok || core.ObjOf(info, sel.X) != rv {
				return ""
			}
			if v, ok := info.Uses[sel.Sel].(*types.Var); ok && v.IsField() {
				return v.Name()
			}
			return ""
		}
		ast.Inspect(f.Decl.Body, func(n ast.Node) bool {
			switch x := n.(type) {
			case *ast.AssignStmt:
				for _, l := range x.Lhs {
					if fld := isRecvField(l); fld != "" {
						bad = append(bad, fld+" (assigned at "+w.Pos(x.Pos())+")")
					}
				}
			case *ast.IncDecStmt:
				if fld := isRecvField(x.X); fld != "" {
					bad = append(bad, fld+" (changed at "+w.Pos(x.Pos())+")")
				}
			case *ast.CallExpr:
				callee := core.Callee(info, x)
				if callee == nil || callee.Pkg() == nil {
					return true
				}
				mut := inSet(callee.Name(), "Store", "Add", "Swap", "CompareAndSwap", "StoreUint32", "StoreUint64", "StoreInt32", "StoreInt64", "AddUint32", "AddUint64", "AddInt32", "AddInt64", "SwapUint32", "SwapInt32", "CompareAndSwapUint32", "CompareAndSwapInt32", "StorePointer", "Inc", "Dec", "Set")
				if !mut || !(callee.Pkg().Path() == "sync/atomic" || strings.HasPrefix(callee.Pkg().Path(), "go.uber.org/atomic") || callee.Pkg().Path() == "sync") {
					return true
				}
				// atomic.StoreX(&h.f, v)  /  h.f.Store(v)
				for _, a := range x.Args {
					if u, ok := ast.Unparen(a).(*ast.UnaryExpr); ok && u.Op == token.AND {
						if fld := isRecvField(u.X); fld != "" {
							bad = append(bad, fld+" ("+callee.Name()+" at "+w.Pos(x.Pos())+")")
						}
					}
				}
				if sel, ok := ast.Unparen(x.Fun).(*ast.SelectorExpr); ok {
					if fld := isRecvField(sel.X); fld != "" {
						bad = append(bad, fld+" ("+callee.Name()+" at "+w.Pos(x.Pos())+")")
					}
				}
			}
			return true
		})
		sort.Strings(bad)
		r.Check(len(bad) == 0, rule, core.ShortKey(f.Obj)+" keeps no state in the shared instance "+inst, w.Pos(f.Decl.Pos()), what+" depends on its inputs only",
			what+" writes fields of the one instance every user shares ("+inst+"): "+strings.Join(bad, "; ")+" — what one stream or request leaves there changes what another is answered (a memo keyed by too little)")
	}
}
