package rules

import (
	"go/ast"
	"go/token"
	"go/types"
	"sort"
	"strings"

	"seatalint/internal/core"
)

// origin is the value-flow engine (DESIGN §1.4 C) in its AST form: a canonical description of where
// the value of an expression comes from inside one function, following single assignments of local
// variables (flow-insensitive; several assignments give phi(...)). Parameters, constants, callees
// (resolved by go/types) and field paths are the leaves.
func origin(fn *core.FuncInfo, e ast.Expr, depth int) string {
	info := fn.Pkg.TypesInfo
	if e == nil {
		return "<none>"
	}
	if depth <= 0 {
		return "…"
	}
	e = ast.Unparen(e)
	switch x := e.(type) {
	case *ast.BasicLit:
		return "lit:" + x.Value
	case *ast.Ident:
		o := info.Uses[x]
		if o == nil {
			o = info.Defs[x]
		}
		switch v := o.(type) {
		case *types.Const:
			return "const:" + v.Name()
		case *types.Nil:
			return "nil"
		case *types.Var:
			if v.IsField() {
				return "field:" + v.Name()
			}
			if isParam(fn, v) {
				return "param:" + v.Name()
			}
			if v.Pkg() != nil && v.Parent() == v.Pkg().Scope() {
				return "global:" + v.Pkg().Name() + "." + v.Name()
			}
			defs := localDefs(fn, v)
			if len(defs) == 0 {
				return "var:" + v.Name()
			}
			var outs []string
			for _, d := range defs {
				if d.idx >= 0 {
					outs = append(outs, origin(fn, d.rhs, depth-1)+"#"+string(rune('0'+d.idx)))
				} else if d.rng {
					outs = append(outs, "range("+origin(fn, d.rhs, depth-1)+")")
				} else {
					outs = append(outs, origin(fn, d.rhs, depth-1))
				}
			}
			outs = uniq(outs)
			if len(outs) == 1 {
				return outs[0]
			}
			sort.Strings(outs)
			return "phi(" + strings.Join(outs, " | ") + ")"
		case *types.Func:
			return "func:" + core.ShortKey(v)
		}
		return "id:" + x.Name
	case *ast.SelectorExpr:
		if c := core.ConstObj(info, x); c != nil {
			return "const:" + c.Name()
		}
		if v, ok := info.Uses[x.Sel].(*types.Var); ok && !v.IsField() {
			return "global:" + v.Pkg().Name() + "." + v.Name()
		}
		if f, ok := info.Uses[x.Sel].(*types.Func); ok {
			return "func:" + core.ShortKey(f)
		}
		return origin(fn, x.X, depth) + "." + x.Sel.Name
	case *ast.StarExpr:
		return "*" + origin(fn, x.X, depth)
	case *ast.UnaryExpr:
		return x.Op.String() + origin(fn, x.X, depth)
	case *ast.BinaryExpr:
		return "(" + origin(fn, x.X, depth) + " " + x.Op.String() + " " + origin(fn, x.Y, depth) + ")"
	case *ast.IndexExpr:
		return origin(fn, x.X, depth) + "[" + origin(fn, x.Index, depth) + "]"
	case *ast.TypeAssertExpr:
		return origin(fn, x.X, depth) + ".(type)"
	case *ast.CallExpr:
		if tv, ok := info.Types[x.Fun]; ok && tv.IsType() && len(x.Args) == 1 {
			return origin(fn, x.Args[0], depth) // conversion
		}
		var args []string
		for _, a := range x.Args {
			args = append(args, origin(fn, a, depth-1))
		}
		callee := core.Callee(info, x)
		name := "dyn:" + core.ExprString(x.Fun)
		if callee != nil {
			name = core.ShortKey(callee)
		} else if id, ok := x.Fun.(*ast.Ident); ok {
			if _, isB := info.Uses[id].(*types.Builtin); isB {
				name = "builtin:" + id.Name
			}
		}
		recv := ""
		if sel, ok := ast.Unparen(x.Fun).(*ast.SelectorExpr); ok && callee != nil && callee.Type().(*types.Signature).Recv() != nil {
			recv = "recv=" + origin(fn, sel.X, depth-1) + ";"
		}
		return "call:" + name + "(" + recv + strings.Join(args, ", ") + ")"
	case *ast.CompositeLit:
		var parts []string
		for _, el := range x.Elts {
			if kv, ok := el.(*ast.KeyValueExpr); ok {
				parts = append(parts, origin(fn, kv.Key, depth-1)+": "+origin(fn, kv.Value, depth-1))
			} else {
				parts = append(parts, origin(fn, el, depth-1))
			}
		}
		t := "?"
		if tt := info.TypeOf(x); tt != nil {
			t = types.TypeString(tt, func(p *types.Package) string { return p.Name() })
		}
		return "lit:" + t + "{" + strings.Join(parts, ", ") + "}"
	case *ast.FuncLit:
		return "funclit"
	}
	return "expr:" + core.ExprString(e)
}

func isParam(fn *core.FuncInfo, v *types.Var) bool {
	sig := fn.Obj.Type().(*types.Signature)
	for i := 0; i < sig.Params().Len(); i++ {
		if sig.Params().At(i) == v {
			return true
		}
	}
	return sig.Recv() == v
}

type localDef struct {
	rhs ast.Expr
	idx int // result index for multi-value assignments, -1 otherwise
	rng bool
}

// localDefs collects every assignment to v in fn (including closures).
func localDefs(fn *core.FuncInfo, v *types.Var) []localDef {
	info := fn.Pkg.TypesInfo
	var out []localDef
	ast.Inspect(fn.Decl.Body, func(n ast.Node) bool {
		switch x := n.(type) {
		case *ast.AssignStmt:
			if x.Tok != token.ASSIGN && x.Tok != token.DEFINE {
				for _, l := range x.Lhs {
					if core.ObjOf(info, l) == v {
						out = append(out, localDef{rhs: &ast.BinaryExpr{X: l, Op: token.ADD, Y: x.Rhs[0]}, idx: -1})
					}
				}
				return true
			}
			for i, l := range x.Lhs {
				if id, ok := ast.Unparen(l).(*ast.Ident); ok && (info.Defs[id] == v || info.Uses[id] == v) {
					if len(x.Rhs) == len(x.Lhs) {
						out = append(out, localDef{rhs: x.Rhs[i], idx: -1})
					} else if len(x.Rhs) == 1 {
						out = append(out, localDef{rhs: x.Rhs[0], idx: i})
					}
				}
			}
		case *ast.ValueSpec:
			for i, nm := range x.Names {
				if info.Defs[nm] == v {
					if len(x.Values) == len(x.Names) {
						out = append(out, localDef{rhs: x.Values[i], idx: -1})
					} else if len(x.Values) == 1 {
						out = append(out, localDef{rhs: x.Values[0], idx: i})
					} else {
						out = append(out, localDef{rhs: &ast.BasicLit{Kind: token.STRING, Value: "zero"}, idx: -1})
					}
				}
			}
		case *ast.RangeStmt:
			if x.Key != nil && core.ObjOf(info, x.Key) == v || x.Value != nil && core.ObjOf(info, x.Value) == v {
				out = append(out, localDef{rhs: x.X, idx: -1, rng: true})
			}
		}
		return true
	})
	return out
}

// litField returns the value expression of field name in a composite literal.
func litField(cl *ast.CompositeLit, name string) ast.Expr {
	for _, el := range cl.Elts {
		if kv, ok := el.(*ast.KeyValueExpr); ok {
			if k, ok := kv.Key.(*ast.Ident); ok && k.Name == name {
				return kv.Value
			}
		}
	}
	return nil
}

// findCompositeLit finds the composite literal of the named struct type (by type name) that is e,
// or that initialises the single-assigned variable e.
func findCompositeLit(fn *core.FuncInfo, e ast.Expr) *ast.CompositeLit {
	info := fn.Pkg.TypesInfo
	e = ast.Unparen(e)
	if u, ok := e.(*ast.UnaryExpr); ok && u.Op == token.AND {
		e = ast.Unparen(u.X)
	}
	if cl, ok := e.(*ast.CompositeLit); ok {
		return cl
	}
	if id, ok := e.(*ast.Ident); ok {
		if v, ok := info.Uses[id].(*types.Var); ok {
			defs := localDefs(fn, v)
			if len(defs) == 1 {
				return findCompositeLit(fn, defs[0].rhs)
			}
		}
	}
	return nil
}
