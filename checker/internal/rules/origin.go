package rules

import (
	"go/ast"
	"go/constant"
	"go/token"
	"go/types"
	"golang.org/x/tools/go/packages"
	"sort"
	"strings"

	"seatalint/internal/core"
)

// origin is the value-flow engine (DESIGN §1.4 C) in its AST form: a canonical description of where
// the value of an expression comes from inside one function, following single assignments of local
// variables (flow-insensitive; several assignments give phi(...)). Parameters, constants, callees
// (resolved by go/types) and field paths are the leaves.
func origin(fn *core.FuncInfo, e ast.Expr, depth int) string {
	info := fn.Pkg.TypesInfo
	if e == nil {
		return "<none>"
	}
	if depth <= 0 {
		return "…"
	}
	e = ast.Unparen(e)
	switch x := e.(type) {
	case *ast.BasicLit:
		return "lit:" + x.Value
	case *ast.Ident:
		o := info.Uses[x]
		if o == nil {
			o = info.Defs[x]
		}
		switch v := o.(type) {
		case *types.Const:
			return "const:" + v.Name()
		case *types.Nil:
			return "nil"
		case *types.Var:
			if v.IsField() {
				return "field:" + v.Name()
			}
			if isParam(fn, v) {
				return "param:" + v.Name()
			}
			if v.Pkg() != nil && v.Parent() == v.Pkg().Scope() {
				return "global:" + v.Pkg().Name() + "." + v.Name()
			}
			defs := localDefs(fn, v)
			if len(defs) == 0 {
				return "var:" + v.Name()
			}
			var outs []string
			for _, d := range defs {
				if d.idx >= 0 {
					if c, ok := ast.Unparen(d.rhs).(*ast.CallExpr); ok {
						if through, ok := originThroughHelper(fn, c, d.idx, depth-1); ok {
							outs = append(outs, through)
							continue
						}
					}
					outs = append(outs, origin(fn, d.rhs, depth-1)+"#"+string(rune('0'+d.idx)))
				} else if d.rng {
					outs = append(outs, "range("+origin(fn, d.rhs, depth-1)+")")
				} else {
					outs = append(outs, origin(fn, d.rhs, depth-1))
				}
			}
			outs = uniq(outs)
			if len(outs) == 1 {
				return outs[0]
			}
			sort.Strings(outs)
			return "phi(" + strings.Join(outs, " | ") + ")"
		case *types.Func:
			return "func:" + core.ShortKey(v)
		}
		return "id:" + x.Name
	case *ast.SelectorExpr:
		if c := core.ConstObj(info, x); c != nil {
			return "const:" + c.Name()
		}
		if v, ok := info.Uses[x.Sel].(*types.Var); ok && !v.IsField() {
			return "global:" + v.Pkg().Name() + "." + v.Name()
		}
		if f, ok := info.Uses[x.Sel].(*types.Func); ok {
			return "func:" + core.ShortKey(f)
		}
		return origin(fn, x.X, depth) + "." + x.Sel.Name
	case *ast.StarExpr:
		return "*" + origin(fn, x.X, depth)
	case *ast.UnaryExpr:
		return x.Op.String() + origin(fn, x.X, depth)
	case *ast.BinaryExpr:
		return "(" + origin(fn, x.X, depth) + " " + x.Op.String() + " " + origin(fn, x.Y, depth) + ")"
	case *ast.IndexExpr:
		return origin(fn, x.X, depth) + "[" + origin(fn, x.Index, depth) + "]"
	case *ast.TypeAssertExpr:
		return origin(fn, x.X, depth) + ".(type)"
	case *ast.CallExpr:
		if tv, ok := info.Types[x.Fun]; ok && tv.IsType() && len(x.Args) == 1 {
			return origin(fn, x.Args[0], depth) // conversion
		}
		if originFollowSingle {
			if through, ok := originThroughHelper(fn, x, 0, depth); ok {
				return through
			}
		}
		var args []string
		for _, a := range x.Args {
			args = append(args, origin(fn, a, depth-1))
		}
		callee := core.Callee(info, x)
		name := "dyn:" + core.ExprString(x.Fun)
		if callee != nil {
			name = core.ShortKey(callee)
		} else if id, ok := x.Fun.(*ast.Ident); ok {
			if _, isB := info.Uses[id].(*types.Builtin); isB {
				name = "builtin:" + id.Name
			}
		}
		recv := ""
		if sel, ok := ast.Unparen(x.Fun).(*ast.SelectorExpr); ok && callee != nil && callee.Type().(*types.Signature).Recv() != nil {
			recv = "recv=" + origin(fn, sel.X, depth-1) + ";"
		}
		return "call:" + name + "(" + recv + strings.Join(args, ", ") + ")"
	case *ast.CompositeLit:
		var parts []string
		for _, el := range x.Elts {
			if kv, ok := el.(*ast.KeyValueExpr); ok {
				parts = append(parts, origin(fn, kv.Key, depth-1)+": "+origin(fn, kv.Value, depth-1))
			} else {
				parts = append(parts, origin(fn, el, depth-1))
			}
		}
		t := "?"
		if tt := info.TypeOf(x); tt != nil {
			t = types.TypeString(tt, func(p *types.Package) string { return p.Name() })
		}
		return "lit:" + t + "{" + strings.Join(parts, ", ") + "}"
	case *ast.FuncLit:
		return "funclit"
	}
	return "expr:" + core.ExprString(e)
}

func isParam(fn *core.FuncInfo, v *types.Var) bool {
	sig := fn.Obj.Type().(*types.Signature)
	for i := 0; i < sig.Params().Len(); i++ {
		if sig.Params().At(i) == v {
			return true
		}
	}
	return sig.Recv() == v
}

type localDef struct {
	rhs ast.Expr
	idx int // result index for multi-value assignments, -1 otherwise
	rng bool
}

// localDefs collects every assignment to v in fn (including closures).
func localDefs(fn *core.FuncInfo, v *types.Var) []localDef {
	info := fn.Pkg.TypesInfo
	var out []localDef
	ast.Inspect(fn.Decl.Body, func(n ast.Node) bool {
		switch x := n.(type) {
		case *ast.AssignStmt:
			if x.Tok != token.ASSIGN && x.Tok != token.DEFINE {
				for _, l := range x.Lhs {
					if core.ObjOf(info, l) == v {
						out = append(out, localDef{rhs: &ast.BinaryExpr{X: l, Op: token.ADD, Y: x.Rhs[0]}, idx: -1})
					}
				}
				return true
			}
			for i, l := range x.Lhs {
				if id, ok := ast.Unparen(l).(*ast.Ident); ok && (info.Defs[id] == v || info.Uses[id] == v) {
					if len(x.Rhs) == len(x.Lhs) {
						out = append(out, localDef{rhs: x.Rhs[i], idx: -1})
					} else if len(x.Rhs) == 1 {
						out = append(out, localDef{rhs: x.Rhs[0], idx: i})
					}
				}
			}
		case *ast.ValueSpec:
			for i, nm := range x.Names {
				if info.Defs[nm] == v {
					if len(x.Values) == len(x.Names) {
						out = append(out, localDef{rhs: x.Values[i], idx: -1})
					} else if len(x.Values) == 1 {
						out = append(out, localDef{rhs: x.Values[0], idx: i})
					} else {
						out = append(out, localDef{rhs: &ast.BasicLit{Kind: token.STRING, Value: "zero"}, idx: -1})
					}
				}
			}
		case *ast.RangeStmt:
			if x.Key != nil && core.ObjOf(info, x.Key) == v || x.Value != nil && core.ObjOf(info, x.Value) == v {
				out = append(out, localDef{rhs: x.X, idx: -1, rng: true})
			}
		}
		return true
	})
	return out
}

// litField returns the value expression of field name in a composite literal.
func litField(cl *ast.CompositeLit, name string) ast.Expr {
	for _, el := range cl.Elts {
		if kv, ok := el.(*ast.KeyValueExpr); ok {
			if k, ok := kv.Key.(*ast.Ident); ok && k.Name == name {
				return kv.Value
			}
		}
	}
	return nil
}

// findCompositeLit finds the composite literal of the named struct type (by type name) that is e,
// or that initialises the single-assigned variable e.
func findCompositeLit(fn *core.FuncInfo, e ast.Expr) *ast.CompositeLit {
	info := fn.Pkg.TypesInfo
	e = ast.Unparen(e)
	if u, ok := e.(*ast.UnaryExpr); ok && u.Op == token.AND {
		e = ast.Unparen(u.X)
	}
	if cl, ok := e.(*ast.CompositeLit); ok {
		return cl
	}
	if id, ok := e.(*ast.Ident); ok {
		if v, ok := info.Uses[id].(*types.Var); ok {
			defs := localDefs(fn, v)
			if len(defs) == 1 {
				return findCompositeLit(fn, defs[0].rhs)
			}
		}
	}
	return nil
}

// litFieldOrigin: the origin (in fn's terms) of field `field` of the struct value e denotes — a composite literal
// written in fn (directly or through a local), or one returned by a constructor helper of fn's package
// (v := newT(a, b) with a single `return T{...}`), whose parameters are replaced by the call's arguments.
func litFieldOrigin(fn *core.FuncInfo, e ast.Expr, field string, depth int) (string, bool) {
	if cl := findCompositeLit(fn, e); cl != nil {
		return origin(fn, litField(cl, field), depth), true
	}
	info := fn.Pkg.TypesInfo
	e = ast.Unparen(e)
	if id, ok := e.(*ast.Ident); ok {
		if v, ok := info.Uses[id].(*types.Var); ok {
			if defs := localDefs(fn, v); len(defs) == 1 && defs[0].idx < 0 {
				e = ast.Unparen(defs[0].rhs)
			}
		}
	}
	call, ok := e.(*ast.CallExpr)
	if !ok || curWorld == nil {
		return "", false
	}
	h := curWorld.Info(core.Callee(info, call))
	if h == nil || h.Pkg != fn.Pkg || h.Decl.Body == nil || h == fn {
		return "", false
	}
	var rets []*ast.ReturnStmt
	ast.Inspect(h.Decl.Body, func(n ast.Node) bool {
		if _, isLit := n.(*ast.FuncLit); isLit {
			return false
		}
		if rs, ok := n.(*ast.ReturnStmt); ok {
			rets = append(rets, rs)
		}
		return true
	})
	if len(rets) != 1 || len(rets[0].Results) != 1 {
		return "", false
	}
	cl := findCompositeLit(h, rets[0].Results[0])
	if cl == nil {
		return "", false
	}
	fe := litField(cl, field)
	o := origin(h, fe, depth)
	// a parameter of the constructor that the constructor itself reassigns is not simply what the caller passed
	if id, ok := ast.Unparen(fe).(*ast.Ident); ok {
		if v, ok := h.Pkg.TypesInfo.Uses[id].(*types.Var); ok && isParam(h, v) {
			if defs := localDefs(h, v); len(defs) > 0 {
				parts := []string{o}
				for _, d := range defs {
					parts = append(parts, origin(h, d.rhs, depth-1))
				}
				o = "phi(" + strings.Join(uniq(parts), " | ") + ")"
			}
		}
	}
	return substParams(o, h, call, fn, depth), true
}

var originBusy = map[*types.Func]bool{}

// originFollowHelpers: set by the rules that want multi-result helpers looked through (opt-in: other rules
// recognise helpers by what they are).
var originFollowHelpers bool

// originFollowSingle: single-result helpers too (a helper that wraps one call: nextID() { return int32(c.gen.Inc()) }).
var originFollowSingle bool

// originThroughHelper: the call goes to a small helper of the same package (a body, every return hands back the same
// thing for result idx): the value's origin is what the helper returns, with the helper's parameters replaced by
// the origins of the arguments. This keeps value-origin rules indifferent to extract-function refactorings.
// Only helpers that themselves build the value from other calls/parameters are looked through — a helper whose
// return for idx is a literal, a composite literal or anything mentioning its own locals beyond one level stays opaque.
func originThroughHelper(fn *core.FuncInfo, call *ast.CallExpr, idx int, depth int) (string, bool) {
	if curWorld == nil || depth <= 0 || !(originFollowHelpers || originFollowSingle) {
		return "", false
	}
	callee := core.Callee(fn.Pkg.TypesInfo, call)
	h := curWorld.Info(callee)
	if h == nil || h.Pkg != fn.Pkg || h.Decl.Body == nil || originBusy[callee] || h == fn {
		return "", false
	}
	sig := callee.Type().(*types.Signature)
	if sig.Variadic() || idx >= sig.Results().Len() {
		return "", false
	}
	// only multi-result helpers or helpers whose single result is produced by a further call are looked through:
	// builders (one result, composite literal inside) are what the rules want to see by name
	var rets []string
	originBusy[callee] = true
	okAll := true
	ast.Inspect(h.Decl.Body, func(n ast.Node) bool {
		if _, isLit := n.(*ast.FuncLit); isLit {
			return false
		}
		rs, ok := n.(*ast.ReturnStmt)
		if !ok {
			return true
		}
		if len(rs.Results) == 1 && sig.Results().Len() > 1 {
			// return g(..) forwarding a multi-value call: result idx of the helper is result idx of g
			if c, ok := ast.Unparen(rs.Results[0]).(*ast.CallExpr); ok {
				if through, ok := originThroughHelper(h, c, idx, depth); ok {
					rets = append(rets, through)
				} else {
					rets = append(rets, origin(h, c, depth)+"#"+string(rune('0'+idx)))
				}
				return true
			}
		}
		if len(rs.Results) != sig.Results().Len() {
			okAll = false // bare return
			return true
		}
		e := rs.Results[idx]
		if id, ok := ast.Unparen(e).(*ast.Ident); ok {
			if _, isNil := h.Pkg.TypesInfo.Uses[id].(*types.Nil); isNil {
				return true // error-path zero value
			}
		}
		if cl, ok := ast.Unparen(e).(*ast.CompositeLit); ok && len(cl.Elts) == 0 {
			return true // zero value on an error path
		}
		if mc, ok := ast.Unparen(e).(*ast.CallExpr); ok {
			if id, ok := mc.Fun.(*ast.Ident); ok && id.Name == "make" {
				if _, isB := h.Pkg.TypesInfo.Uses[id].(*types.Builtin); isB {
					return true // a fresh empty map / slice: the "nothing there" answer
				}
			}
		}
		if bl, ok := ast.Unparen(e).(*ast.BasicLit); ok && (bl.Value == `""` || bl.Value == "0") && len(rs.Results) > 1 && idx != len(rs.Results)-1 {
			// zero value next to `false` / a non-nil error: the "nothing found" return
			last := ast.Unparen(rs.Results[len(rs.Results)-1])
			if v := core.ConstVal(h.Pkg.TypesInfo, last); v != nil && v.Kind() == constant.Bool && !constant.BoolVal(v) {
				return true
			}
			if t := h.Pkg.TypesInfo.TypeOf(last); t != nil && types.Identical(t, types.Universe.Lookup("error").Type()) {
				if id, ok := last.(*ast.Ident); !ok || id.Name != "nil" {
					return true
				}
			}
		}
		rets = append(rets, origin(h, e, depth))
		return true
	})
	delete(originBusy, callee)
	rets = uniq(rets)
	if !okAll || len(rets) != 1 || strings.HasPrefix(rets[0], "lit:") || strings.Contains(rets[0], "var:") || rets[0] == "nil" {
		return "", false
	}
	return substParams(rets[0], h, call, fn, depth), true
}

// substParams rewrites an origin computed inside helper h (in terms of h's parameters) into the terms of the
// caller fn, using the arguments of the call.
func substParams(out string, h *core.FuncInfo, call *ast.CallExpr, fn *core.FuncInfo, depth int) string {
	sig := h.Obj.Type().(*types.Signature)
	// substitute parameters (longest names first so that 'ctx' does not eat 'ctx2')
	ps := paramObjs(h)
	type sub struct{ from, to string }
	var subs []sub
	for i, p := range ps {
		if i < len(call.Args) && !(sig.Variadic() && i == len(ps)-1) {
			subs = append(subs, sub{"param:" + p.Name(), origin(fn, call.Args[i], depth)})
		}
	}
	// the variadic parameter stands for the remaining arguments
	if sig.Variadic() && len(ps) > 0 && !call.Ellipsis.IsValid() {
		var rest []string
		for i := len(ps) - 1; i < len(call.Args); i++ {
			rest = append(rest, origin(fn, call.Args[i], depth))
		}
		subs = append(subs, sub{"param:" + ps[len(ps)-1].Name(), "variadic(" + strings.Join(rest, ", ") + ")"})
	}
	if sig.Recv() != nil {
		if sel, ok := ast.Unparen(call.Fun).(*ast.SelectorExpr); ok && h.Decl.Recv != nil && len(h.Decl.Recv.List) > 0 && len(h.Decl.Recv.List[0].Names) > 0 {
			subs = append(subs, sub{"param:" + h.Decl.Recv.List[0].Names[0].Name, origin(fn, sel.X, depth)})
		}
	}
	sort.Slice(subs, func(i, j int) bool { return len(subs[i].from) > len(subs[j].from) })
	// two-step replacement through placeholders, so that substituted text is not substituted again
	for i, sb := range subs {
		out = replaceToken(out, sb.from, "\x00"+string(rune('A'+i))+"\x00")
	}
	for i, sb := range subs {
		out = strings.ReplaceAll(out, "\x00"+string(rune('A'+i))+"\x00", sb.to)
	}
	return out
}

// originVia: the origin of an expression that sits in function at, expressed in the terms of top, which calls at
// (an extracted helper analysed in top's context). With at == top (or nil) it is origin(top, e).
func originVia(top, at *core.FuncInfo, e ast.Expr, depth int) string {
	if at == nil || at == top {
		return origin(top, e, depth)
	}
	return originViaStr(top, at, origin(at, e, depth), depth)
}

// originViaStr: an origin already computed in the terms of function at, translated into the terms of top.
func originViaStr(top, at *core.FuncInfo, o string, depth int) string {
	if at == nil || at == top {
		return o
	}
	var sites []*ast.CallExpr
	ast.Inspect(top.Decl.Body, func(n ast.Node) bool {
		if c, ok := n.(*ast.CallExpr); ok && sameFunc(core.Callee(top.Pkg.TypesInfo, c), at.Obj) {
			sites = append(sites, c)
		}
		return true
	})
	if len(sites) == 0 {
		// one level further: top -> mid -> at
		var out []string
		ast.Inspect(top.Decl.Body, func(n ast.Node) bool {
			if c, ok := n.(*ast.CallExpr); ok && curWorld != nil {
				if mid := curWorld.Info(core.Callee(top.Pkg.TypesInfo, c)); mid != nil && mid != top && mid != at && mid.Pkg == top.Pkg && mid.Decl.Body != nil {
					ast.Inspect(mid.Decl.Body, func(m ast.Node) bool {
						if c2, ok := m.(*ast.CallExpr); ok && sameFunc(core.Callee(mid.Pkg.TypesInfo, c2), at.Obj) {
							out = append(out, substParams(substParams(o, at, c2, mid, depth), mid, c, top, depth))
						}
						return true
					})
				}
			}
			return true
		})
		out = uniq(out)
		if len(out) == 1 {
			return out[0]
		}
		return o + "@" + core.ShortKey(at.Obj)
	}
	var outs []string
	for _, c := range sites {
		outs = append(outs, substParams(o, at, c, top, depth))
	}
	outs = uniq(outs)
	if len(outs) == 1 {
		return outs[0]
	}
	return "phi(" + strings.Join(outs, " | ") + ")"
}

// replaceToken replaces from where it is not followed by an identifier character.
func replaceToken(s, from, to string) string {
	var b strings.Builder
	for {
		i := strings.Index(s, from)
		if i < 0 {
			b.WriteString(s)
			return b.String()
		}
		end := i + len(from)
		if end < len(s) {
			c := s[end]
			if c == '_' || c >= '0' && c <= '9' || c >= 'a' && c <= 'z' || c >= 'A' && c <= 'Z' {
				b.WriteString(s[:end])
				s = s[end:]
				continue
			}
		}
		b.WriteString(s[:i])
		b.WriteString(to)
		s = s[end:]
	}
}

// findLitDeep finds the composite literal a struct-valued expression of fn denotes, looking through locals, through
// a helper of the package that returns one (single return statement) and through field selections of such values
// (registration.param with registration := prepare(..) returning T{param: P{...}}). owner is the function the
// literal is written in.
func findLitDeep(fn *core.FuncInfo, e ast.Expr, depth int) (*ast.CompositeLit, *core.FuncInfo) {
	if depth <= 0 || e == nil {
		return nil, nil
	}
	if cl := findCompositeLit(fn, e); cl != nil {
		return cl, fn
	}
	info := fn.Pkg.TypesInfo
	e = ast.Unparen(e)
	if u, ok := e.(*ast.UnaryExpr); ok && u.Op == token.AND {
		e = ast.Unparen(u.X)
	}
	switch x := e.(type) {
	case *ast.Ident:
		if v, ok := info.Uses[x].(*types.Var); ok && !isParam(fn, v) {
			if defs := localDefs(fn, v); len(defs) == 1 && !defs[0].rng {
				if defs[0].idx > 0 {
					return nil, nil
				}
				return findLitDeep(fn, defs[0].rhs, depth-1)
			}
		}
	case *ast.CallExpr:
		if curWorld == nil {
			return nil, nil
		}
		h := curWorld.Info(core.Callee(info, x))
		if h == nil || h.Pkg != fn.Pkg || h.Decl.Body == nil || h == fn {
			return nil, nil
		}
		var rets []*ast.ReturnStmt
		ast.Inspect(h.Decl.Body, func(n ast.Node) bool {
			if _, isLit := n.(*ast.FuncLit); isLit {
				return false
			}
			if rs, ok := n.(*ast.ReturnStmt); ok {
				rets = append(rets, rs)
			}
			return true
		})
		// the value-carrying return: the last one whose first result is not a zero literal / nil
		var val ast.Expr
		for _, rs := range rets {
			if len(rs.Results) == 0 {
				continue
			}
			r0 := ast.Unparen(rs.Results[0])
			if id, ok := r0.(*ast.Ident); ok && id.Name == "nil" {
				continue
			}
			if cl, ok := r0.(*ast.CompositeLit); ok && len(cl.Elts) == 0 {
				continue
			}
			if u, ok := r0.(*ast.UnaryExpr); ok && u.Op == token.AND {
				if cl, ok := ast.Unparen(u.X).(*ast.CompositeLit); ok && len(cl.Elts) == 0 {
					continue
				}
			}
			if val != nil {
				return nil, nil // several value-carrying returns
			}
			val = rs.Results[0]
		}
		if val == nil {
			return nil, nil
		}
		return findLitDeep(h, val, depth-1)
	case *ast.SelectorExpr:
		if outer, owner := findLitDeep(fn, x.X, depth-1); outer != nil {
			if fv := litField(outer, x.Sel.Name); fv != nil {
				return findLitDeep(owner, fv, depth-1)
			}
		}
	}
	return nil, nil
}

// sameFunc: the same declared function (an instantiated generic function or method is its declaration)
func sameFunc(a, b *types.Func) bool {
	return a != nil && b != nil && a.Origin() == b.Origin()
}

// litFuncInfo wraps a function literal (e.g. one stored in a field of a package-level struct literal) so that the
// origin machinery can read it like a declared helper of the package.
func litFuncInfo(pkg *packages.Package, lit *ast.FuncLit) *core.FuncInfo {
	sig, ok := pkg.TypesInfo.TypeOf(lit).(*types.Signature)
	if !ok {
		return nil
	}
	return &core.FuncInfo{
		Obj:  types.NewFunc(lit.Pos(), pkg.Types, "func-literal", sig),
		Decl: &ast.FuncDecl{Name: ast.NewIdent("func-literal"), Type: lit.Type, Body: lit.Body},
		Pkg:  pkg,
	}
}

// fieldFuncOf: call is `x.F(..)` in function at, where x is the receiver of at and F a func-typed field; top calls
// at on a package-level variable initialised by a struct literal that is never written (`handlerVar.handle(..)`):
// the function literal (or declared function) that literal stores in F.
func fieldFuncOf(top, at *core.FuncInfo, call *ast.CallExpr) (*ast.FuncLit, *types.Func, *packages.Package) {
	if curWorld == nil || at == nil || at.Decl.Recv == nil || len(at.Decl.Recv.List) != 1 || len(at.Decl.Recv.List[0].Names) != 1 {
		return nil, nil, nil
	}
	sel, ok := ast.Unparen(call.Fun).(*ast.SelectorExpr)
	if !ok {
		return nil, nil, nil
	}
	fld, ok := at.Pkg.TypesInfo.Uses[sel.Sel].(*types.Var)
	if !ok || !fld.IsField() {
		return nil, nil, nil
	}
	rid, ok := ast.Unparen(sel.X).(*ast.Ident)
	if !ok || at.Pkg.TypesInfo.Uses[rid] != at.Pkg.TypesInfo.Defs[at.Decl.Recv.List[0].Names[0]] {
		return nil, nil, nil
	}
	var outLit *ast.FuncLit
	var outFn *types.Func
	var outPkg *packages.Package
	n := 0
	ast.Inspect(top.Decl.Body, func(m ast.Node) bool {
		c, ok := m.(*ast.CallExpr)
		if !ok || !sameFunc(core.Callee(top.Pkg.TypesInfo, c), at.Obj) {
			return true
		}
		cs, ok := ast.Unparen(c.Fun).(*ast.SelectorExpr)
		if !ok {
			return true
		}
		var v *types.Var
		switch x := ast.Unparen(cs.X).(type) {
		case *ast.Ident:
			v, _ = top.Pkg.TypesInfo.Uses[x].(*types.Var)
		case *ast.SelectorExpr:
			v, _ = top.Pkg.TypesInfo.Uses[x.Sel].(*types.Var)
		}
		lit, lp := curWorld.PkgVarLit(v)
		if lit == nil {
			return true
		}
		for _, el := range lit.Elts {
			kv, ok := el.(*ast.KeyValueExpr)
			if !ok {
				continue
			}
			if kid, ok := kv.Key.(*ast.Ident); ok && kid.Name == fld.Name() {
				n++
				switch y := ast.Unparen(kv.Value).(type) {
				case *ast.FuncLit:
					outLit, outPkg = y, lp
				case *ast.Ident:
					outFn, _ = lp.TypesInfo.Uses[y].(*types.Func)
					outPkg = lp
				case *ast.SelectorExpr:
					outFn, _ = lp.TypesInfo.Uses[y.Sel].(*types.Func)
					outPkg = lp
				}
			}
		}
		return true
	})
	if n != 1 {
		return nil, nil, nil
	}
	return outLit, outFn, outPkg
}
