package rules

import (
	"go/ast"
	"go/constant"
	"go/token"
	"go/types"
	"strings"

	"golang.org/x/tools/go/packages"

	"seatalint/internal/core"
	"seatalint/internal/flow"
)

func init() {
	register("C09", checkC09)
	register("C10", checkC10)
}

// validationFn: the method of the undo executor package returning (bool, error) that reads UndoConfig.DataValidation.
func validationFn(w *core.World) *core.FuncInfo {
	for _, f := range w.SortedFuncs() {
		if f.Pkg.PkgPath != pUndoExec || w.IsTestFile(f.Decl.Pos()) {
			continue
		}
		sig := f.Obj.Type().(*types.Signature)
		if sig.Results().Len() != 2 {
			continue
		}
		if b, ok := sig.Results().At(0).Type().(*types.Basic); !ok || b.Kind() != types.Bool {
			continue
		}
		reads := false
		ast.Inspect(f.Decl.Body, func(n ast.Node) bool {
			if sel, ok := n.(*ast.SelectorExpr); ok && sel.Sel.Name == "DataValidation" {
				reads = true
			}
			return true
		})
		if reads {
			return f
		}
	}
	return nil
}

func isSQLWrite(f *types.Func) bool {
	return stdMethod(f, pSQL, "Conn", "PrepareContext") || stdMethod(f, pSQL, "Conn", "ExecContext") || stdMethod(f, pSQL, "Stmt", "Exec") || stdMethod(f, pSQL, "Stmt", "ExecContext") ||
		stdMethod(f, pSQL, "Tx", "Exec") || stdMethod(f, pSQL, "Tx", "ExecContext")
}

func checkC09(r *core.Run) {
	r.Explain = "Decided statically: (C09.all) every UndoExecutor.ExecuteOn the holder can return reaches its first compensating statement (Prepare/Exec on the connection) only after dataValidationAndGoOn answered (true, nil), and returns without writing when it answers false; (C09.threeway) inside the validation (true,nil) is returned only when validation is disabled or equals(after, current); equals(before, after) or equals(before, current) yield (false,nil); everything else is a non-nil error; errors of IsRecordsEquals / the current-row query propagate; (C09.status) with C01.status that error reaches BranchRollback as a failure status and the undo transaction is rolled back (C01.tx), so neither rows nor undo log are touched. (C09.lock) the current rows are read with SELECT ... FOR UPDATE, so no foreign write can land between the comparison and the compensating statement; (C09.equal) structural part of the equality: in the records/rows comparison a field or nested comparison that answers 'not equal' makes the whole answer false, and the value normaliser of the field equality (the function answering (float64, true)) accepts numeric reflect kinds only, so strings, byte slices and times are compared exactly. (C09.equal, also) in a comparing loop nothing before the nested comparison moves on to the next element or leaves the loop; NOT decided: the remaining value semantics of the equality (floating-point comparison of 64-bit integers beyond 2^53, see C08's BIGINT finding) and the histories."
	r.Trusted = []string{"go/types, go/cfg", "database/sql"}
	w := r.W
	u := resolveUndoWorld(r, "C09.anchor")
	v := r.Anchor("C09.anchor", validationFn(w), "data validation method (bool, error) reading UndoConfig.DataValidation")
	if u == nil || v == nil {
		return
	}
	if len(u.executors) < 3 {
		r.Bad("C09.all", "INSTANCE-FLOOR live undo executors", "", "fewer than three live UndoExecutor.ExecuteOn implementations on the rollback chain")
	}
	for _, ex := range u.executors {
		r.Fn(ex)
		sp := &flow.Spec{W: w, Depth: 0, Classify: func(pkg *packages.Package, call *ast.CallExpr, callee *types.Func) []flow.Tag {
			switch {
			case callee == v.Obj:
				return []flow.Tag{"validate"}
			case isSQLWrite(callee):
				return []flow.Tag{"write"}
			}
			return nil
		}}
		res := sp.Analyze(ex)
		nW := 0
		for _, cp := range res.Calls {
			if !inSet("write", cp.Tags...) {
				continue
			}
			nW++
			r.Sites++
			r.Check(cp.Before.Has("ok:validate") && cp.Before.Has("true:validate"), "C09.all", core.ShortKey(ex.Obj)+" -> "+core.ShortKey(cp.Callee), w.Pos(cp.Call.Pos()),
				"compensating statement only after the validation answered (true, nil)", "a compensating statement can be prepared/executed without the data validation having answered (true, nil): a row changed by somebody else would be overwritten")
		}
		if nW == 0 {
			// an executor without any write is the no-op base
			continue
		}
		for _, e := range res.Exits {
			if e.St.Has("false:validate") {
				r.Sites++
				r.Check(!e.St.Maybe("write"), "C09.all", core.ShortKey(ex.Obj)+" return after validation answered false", w.Pos(e.Pos), "nothing written", "a statement is executed although the validation said not to go on")
			}
			if e.St.Has("fail:validate") {
				r.Sites++
				r.Check(e.Class != flow.ExitOK && !e.St.Maybe("write"), "C09.all", core.ShortKey(ex.Obj)+" return after validation failed", w.Pos(e.Pos), "validation error returned, nothing written", "a validation error (dirty data) is swallowed or followed by a write")
			}
		}
	}
	// ---- C09.threeway
	r.Fn(v)
	info := v.Pkg.TypesInfo
	var eqFn *types.Func
	classifyEq := func(call *ast.CallExpr) string {
		if len(call.Args) != 2 {
			return ""
		}
		// (the comparison may sit in a helper of the package that is handed the images: its parameters stand for
		// the arguments of the call in the validation function)
		at := v
		for _, h := range withCallees(w, v, 2)[1:] {
			if h.Decl.Pos() <= call.Pos() && call.End() <= h.Decl.End() {
				at = h
			}
		}
		side := func(e ast.Expr) string {
			o := originVia(v, at, e, 4)
			switch {
			case strings.HasSuffix(o, ".BeforeImage"):
				return "b"
			case strings.HasSuffix(o, ".AfterImage"):
				return "a"
			case strings.HasPrefix(o, "call:") && strings.Contains(o, "#0"):
				return "c"
			}
			return "?"
		}
		return side(call.Args[0]) + side(call.Args[1])
	}
	sp := &flow.Spec{W: w, Depth: 0,
		Classify: func(pkg *packages.Package, call *ast.CallExpr, callee *types.Func) []flow.Tag {
			if callee != nil && callee.Pkg() != nil && callee.Pkg().Path() == pUndoExec {
				sig := callee.Type().(*types.Signature)
				if sig.Params().Len() == 2 && sig.Results().Len() == 2 && strings.HasSuffix(sig.Params().At(0).Type().String(), "types.RecordImage") {
					eqFn = callee
					return []flow.Tag{"eq-" + classifyEq(call)}
				}
				if sig.Results().Len() == 2 && strings.HasSuffix(sig.Results().At(0).Type().String(), "types.RecordImage") {
					return []flow.Tag{"current"}
				}
			}
			return nil
		},
		CondTags: func(pkg *packages.Package, cond ast.Expr, branch bool) []flow.Tag {
			if sel, ok := ast.Unparen(cond).(*ast.SelectorExpr); ok && sel.Sel.Name == "DataValidation" {
				if branch {
					return []flow.Tag{"validation-on"}
				}
				return []flow.Tag{"validation-off"}
			}
			return nil
		}}
	res := sp.Analyze(v)
	for _, e := range res.Exits {
		r.Sites++
		val := ""
		if len(e.Results) == 2 {
			if cv := core.ConstVal(info, e.Results[0]); cv != nil && cv.Kind() == constant.Bool {
				val = cv.String()
			}
		}
		role := exitRole(e, func(t string) bool {
			return strings.HasPrefix(t, "true:eq-") || strings.HasPrefix(t, "false:eq-") || strings.HasPrefix(t, "validation-") || strings.HasPrefix(t, "fail:")
		})
		key := core.ShortKey(v.Obj) + " " + role + " answers " + val
		switch {
		case e.Class == flow.ExitErr:
			r.Check(val != "true", "C09.threeway", key, w.Pos(e.Pos), "error path does not say go on", "an error return that says go on")
		case val == "true":
			r.Check(e.St.Has("validation-off") || (e.St.Has("true:eq-ac") && e.St.Has("ok:eq-ac")), "C09.threeway", key, w.Pos(e.Pos), "go on only when validation is off or current == after image",
				"(true, nil) is returned on a path where the current rows are not known to equal the after image: rollback would overwrite a foreign write")
		case val == "false":
			r.Check(e.St.Has("true:eq-ba") || e.St.Has("true:eq-bc"), "C09.threeway", key, w.Pos(e.Pos), "stop without error only when nothing changed or the rows already equal the before image",
				"(false, nil) — stop silently, rollback reports success — is returned although the rows are not known to equal the before image")
		default:
			r.Undecided("C09.threeway", key, w.Pos(e.Pos), "answer is not a boolean constant")
		}
	}
	// the dirty case is an error: some exit has false:eq-ac and false:eq-bc and is an error
	dirty := false
	for _, e := range res.Exits {
		if e.St.Has("false:eq-ac") && e.St.Has("false:eq-bc") && e.Class == flow.ExitErr {
			dirty = true
		}
	}
	r.Sites++
	r.Check(dirty, "C09.threeway", core.ShortKey(v.Obj)+" dirty rows are an error", w.Pos(v.Decl.Pos()), "current != after and current != before returns an error", "no error return for rows that differ from both images")
	fns := []*core.FuncInfo{v}
	if eqFn != nil {
		fns = append(fns, w.Info(eqFn))
	}
	for _, f := range reachFrom(w, []*core.FuncInfo{v}, pUndoExec) {
		fns = append(fns, f)
	}
	errDiscipline(r, "C09.threeway", dedupFns(fns), c01Idioms)
	// ---- C09.lock: the read of the current rows is a locking read
	{
		n := 0
		for _, f := range dedupFns(append(reachFrom(w, []*core.FuncInfo{v}, pUndoExec), v)) {
			queries := false
			for _, cs := range w.Calls(f) {
				if cs.Static != nil && cs.Static.Pkg() != nil && cs.Static.Pkg().Path() == pSQL && strings.HasPrefix(cs.Static.Name(), "Query") {
					queries = true
				}
			}
			if !queries {
				continue
			}
			r.Fn(f)
			// the statement text: in the querying function or in a helper of the package it calls to build it
			texts := stringConstsIn(f)
			for _, cs := range w.Calls(f) {
				if h := w.Info(cs.Static); h != nil && h.Pkg == f.Pkg && h != f {
					texts = append(texts, stringConstsIn(h)...)
				}
			}
			for _, c := range uniq(texts) {
				if firstWord(c) != "SELECT" {
					continue
				}
				n++
				r.Sites++
				r.Check(strings.Contains(strings.ToUpper(c), "FOR UPDATE"), "C09.lock", core.ShortKey(f.Obj)+" reads the current rows with a locking read", w.Pos(f.Decl.Pos()), "SELECT ... FOR UPDATE",
					"the rows are compared with the after image after a plain snapshot read ('"+c+"'): a foreign write that is uncommitted, or commits between this read and the compensating statement, is not seen, and the before image is written over it while rollback reports success")
			}
		}
		if n == 0 {
			r.Bad("C09.lock", "current-rows query of the data validation", w.Pos(v.Decl.Pos()), "no SELECT text found in the functions that query the current rows")
		}
	}
	if eqFn != nil {
		c09Equal(r, w.Info(eqFn))
	} else {
		r.Anchor("C09.equal", nil, "records equality function called by the validation")
	}
	r.Floor("C09.equal", 3)
	// ---- C09.status (shared with C01)
	c01StatusAs(r, u, "C09.status")
	c01Tx(r, u, "C09")
	r.Floor("C09.all", 8)
	r.Floor("C09.threeway", 10)
	r.Floor("C09.status", 3)
}

// c01StatusAs runs the status-truthfulness rule under another rule id.
func c01StatusAs(r *core.Run, u *undoWorld, rule string) {
	sub := core.NewRun(r.Property, r.Tier, r.VerifDir, r.W)
	c01Status(sub, u)
	for _, o := range sub.Obls {
		switch o.Verdict {
		case core.Discharged:
			r.OK(rule, o.Key, o.Pos, o.Msg)
		case core.Violated:
			r.Bad(rule, o.Key, o.Pos, o.Msg)
		default:
			r.Undecided(rule, o.Key, o.Pos, o.Msg)
		}
	}
	r.Sites += sub.Sites
}

func checkC10(r *core.Run) {
	r.Explain = "Decided statically: (C10.status) every delivery of a branch rollback answers 'rollbacked' only on the nil-error edge of its own undo run (no answer remembered from an earlier delivery); (C10.tx) the undo routine runs in one database/sql transaction that is committed on every nil return and rolled back on every error return (shared with C01.tx), so a failed attempt leaves no partial compensation; (C10.marker) when no undo-log record exists the routine inserts a record whose status is the global-finished constant before Commit, and that constant is not one for which CanUndo answers true, so a repeated delivery returns without replaying and a late phase one cannot insert its undo log; (C10.late) the late flush inserts with the same statement and the same (branch_id, xid) argument positions as the marker, and its error reaches the AT commit's failure path (C02.fail). (C10.late, also) whoever inserts into undo_log through the insert functions returns every failure of the insert as an error, recognised or not. NOT decided: database state after retries at each statement index; the unique index itself (schema)."
	r.Explain += " Round 8: (C10.late, also) the undo-log INSERT is a plain INSERT — no ON DUPLICATE KEY / IGNORE / REPLACE / ON CONFLICT form that would turn the duplicate of a rollback marker into success."
	r.Trusted = []string{"go/types, go/cfg", "database/sql", "unique (xid, branch_id) index on undo_log (schema)"}
	w := r.W
	u := resolveUndoWorld(r, "C10.anchor")
	if u == nil {
		return
	}
	c01Tx(r, u, "C10")
	// a repeated delivery is answered 'rollbacked' only when this delivery's own undo run returned nil (shared with C01.status)
	c01StatusAs(r, u, "C10.status")
	r.Floor("C10.status", 2)
	// ---- C10.marker
	for _, fn := range u.undoFns {
		// "no record" may be told from the loop over the records having run or from the number of records read:
		// the two are kept together per collection the routine ranges over
		split := []flow.Tag{"sawrecord"}
		ast.Inspect(fn.Decl.Body, func(n ast.Node) bool {
			if rs, ok := n.(*ast.RangeStmt); ok {
				if id, ok := ast.Unparen(rs.X).(*ast.Ident); ok {
					if v, ok := fn.Pkg.TypesInfo.Uses[id].(*types.Var); ok && !v.IsField() && v.Parent() != v.Pkg().Scope() {
						split = append(split, flow.RangedTag(v))
					}
				}
			}
			return true
		})
		sp := &flow.Spec{W: w, Depth: 2, Split: split,
			Classify: func(pkg *packages.Package, call *ast.CallExpr, callee *types.Func) []flow.Tag {
				switch {
				case isMarkerInsert(w, callee):
					return []flow.Tag{"marker"}
				case isUndoLogDelete(w, callee):
					return []flow.Tag{"delete"}
				case stdMethod(callee, pSQL, "Tx", "Commit"):
					return []flow.Tag{"commit"}
				case isIfaceOrImpl(w, callee, "pkg/datasource/sql/undo", "UndoExecutor", "ExecuteOn"):
					return []flow.Tag{"execute", "sawrecord"}
				case core.IsMethod(callee, pUndo, "UndologRecord", "CanUndo"):
					return []flow.Tag{"canundo", "sawrecord"}
				}
				return nil
			}}
		res := sp.Analyze(fn)
		nMarker := 0
		for _, cp := range res.Calls {
			switch {
			case inSet("marker", cp.Tags...):
				nMarker++
				r.Sites++
				r.Check(!cp.Before.Maybe("sawrecord") && !cp.Before.Maybe("commit"), "C10.marker", core.ShortKey(fn.Obj)+" -> marker insert only when no record was found", w.Pos(cp.Call.Pos()),
					"the finished marker is inserted on the path that saw no undo-log record, before Commit", "the finished marker can be inserted after records were processed or after Commit")
			case inSet("commit", cp.Tags...) && !cp.Defer:
				if !cp.Before.Has("sawrecord") {
					r.Sites++
					r.Check(cp.Before.Has("ok:marker"), "C10.marker", core.ShortKey(fn.Obj)+" -> Commit on the no-record path after the marker", w.Pos(cp.Call.Pos()),
						"no record: the marker insert succeeded before Commit", "the transaction commits on the path without any undo-log record although the finished marker was not inserted: a late phase one could still flush its undo log and commit")
				}
			}
		}
		if nMarker == 0 {
			r.Bad("C10.marker", core.ShortKey(fn.Obj)+" -> marker insert only when no record was found", w.Pos(fn.Decl.Pos()), "the undo routine never inserts the global-finished marker")
		}
		// a record that cannot be undone (marker present) ends without replay
		for _, ex := range res.Exits {
			if ex.St.Has("false:canundo") {
				r.Sites++
				r.Check(!ex.St.Maybe("delete") && !ex.St.Maybe("marker") && ex.Class != flow.ExitErr, "C10.marker", core.ShortKey(fn.Obj)+" return when the record cannot be undone", w.Pos(ex.Pos),
					"a repeated delivery after the marker replays nothing and reports no error", "after a record that cannot be undone the routine still replays, deletes, or fails")
			}
		}
	}
	// the marker's status constant is not undoable
	canUndo := w.Func("pkg/datasource/sql/undo", "UndologRecord", "CanUndo")
	if r.Anchor("C10.marker", canUndo, "undo.UndologRecord.CanUndo") != nil {
		info := canUndo.Pkg.TypesInfo
		var undoable []constant.Value
		ast.Inspect(canUndo.Decl.Body, func(n ast.Node) bool {
			if be, ok := n.(*ast.BinaryExpr); ok {
				if v := core.ConstVal(info, be.Y); v != nil {
					undoable = append(undoable, v)
				}
			}
			return true
		})
		for _, f := range u.chain {
			if !isMarkerInsert(w, f.Obj) {
				continue
			}
			r.Fn(f)
			ast.Inspect(f.Decl.Body, func(n ast.Node) bool {
				kv, ok := n.(*ast.KeyValueExpr)
				if !ok {
					return true
				}
				if k, ok := kv.Key.(*ast.Ident); ok && k.Name == "LogStatus" {
					v := core.ConstVal(f.Pkg.TypesInfo, kv.Value)
					r.Sites++
					clash := false
					for _, uv := range undoable {
						if v != nil && constant.Compare(constant.ToInt(v), token.EQL, constant.ToInt(uv)) {
							clash = true
						}
					}
					r.Check(v != nil && len(undoable) == 1 && !clash, "C10.marker", core.ShortKey(f.Obj)+" marker status is not undoable", w.Pos(kv.Pos()), "CanUndo is false for the marker's status", "the marker's status value is one CanUndo accepts: a repeated rollback would try to replay the empty marker")
				}
				return true
			})
		}
	}
	// ---- C10.late: marker insert and late flush use the same INSERT with (branch_id, xid) first
	var insertFns []*core.FuncInfo
	for _, f := range w.SortedFuncs() {
		if f.Pkg.PkgPath != pUndoBase || w.IsTestFile(f.Decl.Pos()) {
			continue
		}
		for _, cs := range w.Calls(f) {
			if g := w.Info(cs.Static); g != nil && g.Pkg.PkgPath == pUndoBase {
				isInsert, keyed := false, false
				for _, s := range stringConstsIn(g) {
					if firstWord(s) == "INSERT" {
						isInsert = true
					}
					if strings.Contains(strings.ReplaceAll(strings.ToLower(s), " ", ""), "(branch_id,xid,") {
						keyed = true
					}
				}
				// (the statement put together from pieces — a builder, a column-list constant)
				if strings.Contains(strings.ReplaceAll(strings.ToLower(strings.Join(stringConstsIn(g), "")), " ", ""), "(branch_id,xid,") {
					keyed = true
				}
				if isInsert && keyed {
					insertFns = append(insertFns, f)
					// the insert is a plain INSERT: the unique (xid, branch_id) key is what makes the late flush of a
					// branch that was already rolled back fail — an upsert / ignore / replace form lets it through
					soft := ""
					for _, s := range stringConstsIn(g) {
						u := strings.ToUpper(s)
						for _, kw := range []string{"ON DUPLICATE KEY", "INSERT IGNORE", "REPLACE INTO", "ON CONFLICT"} {
							if strings.Contains(u, kw) {
								soft = kw
							}
						}
					}
					r.Sites++
					r.Check(soft == "", "C10.late", core.ShortKey(g.Obj)+" : the undo-log insert fails on an existing (xid, branch_id)", w.Pos(g.Decl.Pos()), "plain INSERT",
						"the undo_log INSERT is written with "+soft+": where a record for (xid, branch_id) exists — the marker a rollback left — the statement succeeds instead of failing, so the late phase one of a rolled-back branch flushes, commits locally and its writes stay")
				}
			}
		}
	}
	insertFns = dedupFns(insertFns)
	r.Sites++
	r.Check(len(insertFns) >= 2, "C10.late", "marker insert and late flush share the undo-log INSERT statement", "", "both insert paths use the same statement builder", "expected two functions (driver.Conn and *sql.Conn flavour) using the same undo_log INSERT statement; found "+itoa(len(insertFns)))
	for _, f := range insertFns {
		r.Fn(f)
		info := f.Pkg.TypesInfo
		ast.Inspect(f.Decl.Body, func(n ast.Node) bool {
			c, ok := n.(*ast.CallExpr)
			if !ok {
				return true
			}
			callee := core.Callee(info, c)
			if !(stdMethod(callee, pSQL, "Stmt", "Exec") || stdMethod(callee, pDriver, "Stmt", "Exec")) {
				return true
			}
			args := c.Args
			if len(args) == 1 {
				// the list of bound values: a literal, a list built by a helper of the package, or (passed as
				// xs...) a list copied element by element from such a list
				src := ast.Unparen(args[0])
				if c.Ellipsis.IsValid() {
					if id, ok := src.(*ast.Ident); ok {
						xo := info.Uses[id]
						ast.Inspect(f.Decl.Body, func(m ast.Node) bool {
							rs, ok := m.(*ast.RangeStmt)
							if !ok || rs.Value == nil {
								return true
							}
							vo := core.ObjOf(info, rs.Value)
							for _, st := range rs.Body.List {
								as, ok := st.(*ast.AssignStmt)
								if !ok || len(as.Lhs) != 1 || len(as.Rhs) != 1 || core.ObjOf(info, as.Lhs[0]) != xo {
									continue
								}
								if ap, ok := ast.Unparen(as.Rhs[0]).(*ast.CallExpr); ok && len(ap.Args) == 2 && !ap.Ellipsis.IsValid() {
									if fid, ok := ap.Fun.(*ast.Ident); ok && fid.Name == "append" && core.ObjOf(info, ap.Args[0]) == xo && vo != nil && core.ObjOf(info, ap.Args[1]) == vo && len(rs.Body.List) == 1 {
										src = ast.Unparen(rs.X)
									}
								}
							}
							return true
						})
					}
				}
				if cl, _ := findLitDeep(f, src, 3); cl != nil {
					args = cl.Elts
				}
			}
			r.Sites++
			okArgs := len(args) >= 2 && strings.HasSuffix(core.ExprString(args[0]), ".BranchID") && strings.HasSuffix(core.ExprString(args[1]), ".XID")
			r.Check(okArgs, "C10.late", core.ShortKey(f.Obj)+" binds (BranchID, XID) first", w.Pos(c.Pos()), "arguments (record.BranchID, record.XID, ...) match the statement's (branch_id, xid, ...)", "the insert binds its first two arguments in an order other than (BranchID, XID): marker and late flush would not collide on the unique key")
			return true
		})
	}
	errDiscipline(r, "C10.late", insertFns, nil)
	// whoever inserts through them hands every failure of the insert on — also one it recognises (a duplicate key
	// means a row of this branch exists: the late flush's real undo log, or the marker; telling which needs a read,
	// so "already there" is not an answer the marker step may give itself)
	isIns := map[*types.Func]bool{}
	for _, f := range insertFns {
		isIns[f.Obj] = true
	}
	for _, f := range w.SortedFuncs() {
		if f.Pkg.PkgPath != pUndoBase || w.IsTestFile(f.Decl.Pos()) || isIns[f.Obj] {
			continue
		}
		calls := false
		for _, cs := range w.Calls(f) {
			if isIns[cs.Static] {
				calls = true
			}
		}
		if !calls {
			continue
		}
		r.Fn(f)
		res := (&flow.Spec{W: w, Depth: 0, Classify: func(pkg *packages.Package, call *ast.CallExpr, callee *types.Func) []flow.Tag {
			if isIns[callee] {
				return []flow.Tag{"ins"}
			}
			return nil
		}}).Analyze(f)
		for _, ex := range res.Exits {
			if ex.St.Has("fail:ins") {
				r.Sites++
				r.Check(ex.Class == flow.ExitErr, "C10.late", core.ShortKey(f.Obj)+" "+exitRole(ex, func(t string) bool { return t == "fail:ins" || strings.HasPrefix(t, "matched:") })+" : a failed undo-log insert is an error", w.Pos(ex.Pos),
					"the insert's failure is returned", "after the undo-log insert failed this return can carry a nil error: a duplicate key (the row of a late phase one, or the marker) is taken for success, the rollback is answered although nothing blocked or compensated the late commit")
			}
		}
	}
	r.Floor("C10.tx", 3)
	r.Floor("C10.marker", 4)
	r.Floor("C10.late", 3)
}

func itoa(i int) string {
	return strings.TrimSpace(strings.Replace(constant.MakeInt64(int64(i)).String(), " ", "", -1))
}

// c09Equal: structure of the equality used by the three-way check.
func c09Equal(r *core.Run, eq *core.FuncInfo) {
	w := r.W
	if eq == nil {
		r.Anchor("C09.equal", nil, "records equality function")
		return
	}
	boolFirst := func(f *types.Func) bool {
		if f == nil {
			return false
		}
		res := f.Type().(*types.Signature).Results()
		if res.Len() == 0 {
			return false
		}
		b, ok := res.At(0).Type().Underlying().(*types.Basic)
		return ok && b.Kind() == types.Bool
	}
	seen := map[*core.FuncInfo]bool{}
	var leaves []*core.FuncInfo
	var walk func(f *core.FuncInfo, d int)
	walk = func(f *core.FuncInfo, d int) {
		if f == nil || seen[f] || d > 6 {
			return
		}
		seen[f] = true
		r.Fn(f)
		// wherever two float64 values meet on this chain they are compared with == (also inside a helper that answers
		// (equal, ok)): a difference, an ordering or a rounding between them is a tolerance
		{
			finfo := f.Pkg.TypesInfo
			isF64 := func(e ast.Expr) bool {
				t := finfo.TypeOf(e)
				if t == nil || core.ConstVal(finfo, e) != nil {
					return false
				}
				b, ok := t.Underlying().(*types.Basic)
				return ok && b.Kind() == types.Float64
			}
			ast.Inspect(f.Decl.Body, func(n ast.Node) bool {
				be, ok := n.(*ast.BinaryExpr)
				if !ok || !isF64(be.X) || !isF64(be.Y) {
					return true
				}
				switch be.Op {
				case token.EQL, token.NEQ:
				default:
					r.Sites++
					r.Bad("C09.equal", core.ShortKey(f.Obj)+" compares numbers exactly", w.Pos(be.Pos()), "two column values normalised to float64 meet in '"+core.ExprString(be)+"', which is not plain equality (a tolerance, a rounding): every integer column goes through the same normalisation, so a small change of a large BIGINT compares equal — 'before image == after image, nothing to undo', and a foreign write within the tolerance is overwritten")
				}
				return true
			})
			// helpers answering (equal, ok) are part of the chain although their false is not a verdict
			for _, cs := range w.Calls(f) {
				if h := w.Info(cs.Static); h != nil && h != f && strings.Contains(h.Pkg.PkgPath, "/pkg/datasource/sql") && boolFirst(cs.Static) && len(cs.Call.Args) >= 2 {
					if rs := cs.Static.Type().(*types.Signature).Results(); rs.Len() == 2 {
						if b, isB := rs.At(1).Type().Underlying().(*types.Basic); isB && b.Kind() == types.Bool {
							walk(h, d+1)
						}
					}
				}
			}
		}
		// a helper comparing two floating-point numbers must be exact equality: the normaliser turns every numeric
		// kind (BIGINT counters, epoch milliseconds, amounts) into float64, a tolerance makes a small change of a
		// large integer "no change" and the undo of that column is skipped
		if sig := f.Obj.Type().(*types.Signature); sig.Params().Len() == 2 && sig.Params().At(0).Type().String() == "float64" && sig.Params().At(1).Type().String() == "float64" {
			exact := false
			if len(f.Decl.Body.List) == 1 {
				if rs, ok := f.Decl.Body.List[0].(*ast.ReturnStmt); ok && len(rs.Results) == 1 {
					if be, ok := ast.Unparen(rs.Results[0]).(*ast.BinaryExpr); ok && be.Op == token.EQL {
						ps := paramObjs(f)
						if len(ps) == 2 && (isObj(f.Pkg.TypesInfo, be.X, ps[0]) && isObj(f.Pkg.TypesInfo, be.Y, ps[1]) || isObj(f.Pkg.TypesInfo, be.X, ps[1]) && isObj(f.Pkg.TypesInfo, be.Y, ps[0])) {
							exact = true
						}
					}
				}
			}
			r.Sites++
			r.Check(exact, "C09.equal", core.ShortKey(f.Obj)+" compares numbers exactly", w.Pos(f.Decl.Pos()), "a == b", "two column values normalised to float64 are compared by "+f.Obj.Name()+", which is not plain equality (a tolerance, a rounding): every integer column goes through the same normalisation, so a small change of a large BIGINT compares equal — 'before image == after image, nothing to undo', and a foreign write within the tolerance is overwritten")
			leaves = append(leaves, f)
			return
		}
		sp := &flow.Spec{W: w, Depth: 0, Split: []flow.Tag{"false:eq"}, Classify: func(pkg *packages.Package, call *ast.CallExpr, callee *types.Func) []flow.Tag {
			if callee != nil && w.Info(callee) != nil && boolFirst(callee) && strings.Contains(callee.Pkg().Path(), "/pkg/datasource/sql") && len(call.Args) >= 2 {
				// (a verdict: `equal` or `equal, err`; a second bool says whether the comparison applied at all —
				// `equal, ok := numericEqual(x, y)` — and false then is not "differs")
				rs := callee.Type().(*types.Signature).Results()
				if rs.Len() == 2 {
					if b, isB := rs.At(1).Type().Underlying().(*types.Basic); isB && b.Kind() == types.Bool {
						return nil
					}
				}
				return []flow.Tag{"eq"}
			}
			return nil
		}}
		res := sp.Analyze(f)
		nested := false
		for _, cp := range res.Calls {
			if inSet("eq", cp.Tags...) {
				nested = true
				walk(w.Info(cp.Callee), d+1)
			}
		}
		if !nested {
			leaves = append(leaves, f)
			return
		}
		info := f.Pkg.TypesInfo
		// every pair the loop visits is compared: in a loop whose body holds a nested comparison nothing before
		// that comparison can move on to the next element (`continue`) or leave the loop (`break`) — a skipped
		// field is a field a foreign write can change unnoticed
		ast.Inspect(f.Decl.Body, func(n ast.Node) bool {
			var body *ast.BlockStmt
			switch x := n.(type) {
			case *ast.RangeStmt:
				body = x.Body
			case *ast.ForStmt:
				body = x.Body
			default:
				return true
			}
			var cmp *ast.CallExpr
			for _, cp := range res.Calls {
				if inSet("eq", cp.Tags...) && cp.Call.Pos() >= body.Pos() && cp.Call.End() <= body.End() && (cmp == nil || cp.Call.Pos() < cmp.Pos()) {
					// only comparisons directly in this loop (not in a nested loop)
					direct := true
					ast.Inspect(body, func(m ast.Node) bool {
						switch y := m.(type) {
						case *ast.RangeStmt:
							if cp.Call.Pos() >= y.Body.Pos() && cp.Call.End() <= y.Body.End() {
								direct = false
							}
						case *ast.ForStmt:
							if cp.Call.Pos() >= y.Body.Pos() && cp.Call.End() <= y.Body.End() {
								direct = false
							}
						}
						return true
					})
					if direct {
						cmp = cp.Call
					}
				}
			}
			if cmp == nil {
				return true
			}
			skip := ""
			var scan func(m ast.Node) bool
			scan = func(m ast.Node) bool {
				switch y := m.(type) {
				case *ast.FuncLit, *ast.RangeStmt, *ast.ForStmt, *ast.SwitchStmt, *ast.SelectStmt, *ast.TypeSwitchStmt:
					if m != ast.Node(body) {
						// a break inside a nested loop / switch leaves that construct only; a continue still skips
						ast.Inspect(y, func(k ast.Node) bool {
							if b, ok := k.(*ast.BranchStmt); ok && b.Tok == token.CONTINUE && b.Pos() < cmp.Pos() {
								if _, isLoop := y.(*ast.SwitchStmt); isLoop {
									skip = w.Pos(b.Pos())
								}
							}
							return true
						})
						return false
					}
				case *ast.BranchStmt:
					if y.Pos() < cmp.Pos() && (y.Tok == token.CONTINUE || y.Tok == token.BREAK || y.Tok == token.GOTO) {
						skip = w.Pos(y.Pos()) + " ('" + y.Tok.String() + "')"
					}
				}
				return true
			}
			ast.Inspect(body, scan)
			r.Sites++
			r.Check(skip == "", "C09.equal", core.ShortKey(f.Obj)+" compares every pair its loop visits", w.Pos(body.Pos()), "nothing before the comparison skips an element",
				"the loop can move past an element at "+skip+" before comparing it: a column (or row) that meets that condition — e.g. a value a foreign writer set to NULL — is left out of the comparison, the rows count as unchanged and the undo overwrites the foreign write")
			return true
		})
		for _, ex := range res.Exits {
			if !ex.St.Has("false:eq") || len(ex.Results) == 0 {
				continue
			}
			r.Sites++
			v := core.ConstVal(info, ex.Results[0])
			r.Check(v != nil && v.Kind() == constant.Bool && !constant.BoolVal(v), "C09.equal", core.ShortKey(f.Obj)+" a differing field makes the records unequal", w.Pos(ex.Pos),
				"returns false after a nested comparison answered false", "after a field/row comparison answered 'not equal' the function does not return false: a foreign change would be taken for the after image and overwritten by the undo")
		}
	}
	walk(eq, 0)
	// the leaf equality: its normaliser answers (x, true) for numeric kinds only
	numeric := map[string]bool{"Int": true, "Int8": true, "Int16": true, "Int32": true, "Int64": true, "Uint": true, "Uint8": true, "Uint16": true, "Uint32": true, "Uint64": true, "Uintptr": true, "Float32": true, "Float64": true}
	for _, leaf := range leaves {
		cands := []*core.FuncInfo{leaf}
		for _, cs := range w.Calls(leaf) {
			if fi := w.Info(cs.Static); fi != nil {
				cands = append(cands, fi)
			}
		}
		for _, f := range dedupFns(cands) {
			sig := f.Obj.Type().(*types.Signature)
			if sig.Results().Len() != 2 || sig.Results().At(0).Type().String() != "float64" || !boolFirst2(sig) {
				continue
			}
			r.Fn(f)
			info := f.Pkg.TypesInfo
			var stack []ast.Node
			ast.Inspect(f.Decl.Body, func(n ast.Node) bool {
				if n == nil {
					stack = stack[:len(stack)-1]
					return true
				}
				stack = append(stack, n)
				rs, ok := n.(*ast.ReturnStmt)
				if !ok || len(rs.Results) != 2 {
					return true
				}
				if v := core.ConstVal(info, rs.Results[1]); v != nil && v.Kind() == constant.Bool && !constant.BoolVal(v) {
					return true
				}
				// the enclosing case clause of a switch over reflect.Value.Kind()
				var labels []string
				found := false
				for i := len(stack) - 1; i >= 0 && !found; i-- {
					cc, ok := stack[i].(*ast.CaseClause)
					if !ok || i < 2 {
						continue
					}
					sw, ok := stack[i-2].(*ast.SwitchStmt)
					if !ok || sw.Tag == nil {
						continue
					}
					if c, ok := ast.Unparen(sw.Tag).(*ast.CallExpr); !ok || core.Callee(info, c) == nil || core.Callee(info, c).Name() != "Kind" {
						continue
					}
					found = true
					if cc.List == nil {
						labels = append(labels, "default")
					}
					for _, l := range cc.List {
						if c := core.ConstObj(info, l); c != nil {
							labels = append(labels, c.Name())
						} else {
							labels = append(labels, core.ExprString(l))
						}
					}
				}
				r.Sites++
				key := core.ShortKey(f.Obj) + " normalises " + strings.Join(labels, ",")
				if !found {
					r.Bad("C09.equal", core.ShortKey(f.Obj)+" normalises outside a switch over the value's kind", w.Pos(rs.Pos()), "a value is normalised to float64 for comparison without its kind having been established as numeric")
					return true
				}
				var bad []string
				for _, l := range labels {
					if !numeric[l] {
						bad = append(bad, l)
					}
				}
				r.Check(len(bad) == 0, "C09.equal", key, w.Pos(rs.Pos()), "numeric kinds only", "values of kind "+strings.Join(bad, ",")+" are compared after conversion to float64: different texts that parse to the same number ('00777' / '777') count as equal, so a foreign write is taken for the after image and overwritten")
				return true
			})
		}
	}
}

func boolFirst2(sig *types.Signature) bool {
	b, ok := sig.Results().At(1).Type().Underlying().(*types.Basic)
	return ok && b.Kind() == types.Bool
}
