package rules

import (
	"fmt"
	"go/ast"
	"go/constant"
	"go/token"
	"go/types"
	"sort"
	"strings"

	"seatalint/internal/core"
)

// Layout extraction (DESIGN §1.4 D): for straight-line encoders/decoders over the bytes.ByteBuffer helper
// vocabulary, the ordered sequence (wire kind, field, guard, scale, truncation). Syntax-tree extraction over a
// closed vocabulary, not symbolic execution; anything outside the vocabulary is reported as undecided.

const pBytes = core.Module + "/pkg/util/bytes"

type wireOp struct {
	Kind  string         // u8 u16 u32 u64 str8 str16 str32 str64 raw
	Field string         // leaf field name of the message
	Guard string         // e.g. ResultCode==ResultCodeFailed
	Scale string         // e.g. /1e6 or *1e6
	Trunc string         // truncation bound constant (encoders)
	Arg   ast.Expr       // the written value expression (encoders)
	Fn    *core.FuncInfo // function containing the operation
	Pos   token.Pos
}

func (o wireOp) String() string {
	s := o.Kind + " " + o.Field
	if o.Guard != "" {
		s += " [" + o.Guard + "]"
	}
	if o.Scale != "" {
		s += " scale" + o.Scale
	}
	return s
}

func writeKind(f *types.Func) string {
	if f == nil || f.Pkg() == nil || f.Pkg().Path() != pBytes {
		return ""
	}
	switch f.Name() {
	case "WriteByte":
		return "u8"
	case "WriteUint16":
		return "u16"
	case "WriteUint32":
		return "u32"
	case "WriteUint64", "WriteInt64":
		return "u64"
	case "WriteString8Length", "WriteBytes8Length":
		return "str8"
	case "WriteString16Length", "WriteBytes16Length":
		return "str16"
	case "WriteString32Length", "WriteBytes32Length":
		return "str32"
	case "WriteString64Length", "WriteBytes64Length":
		return "str64"
	case "Write", "WriteString":
		return "raw"
	}
	return ""
}

func readKind(f *types.Func) string {
	if f == nil || f.Pkg() == nil || f.Pkg().Path() != pBytes {
		return ""
	}
	switch f.Name() {
	case "ReadByte", "ReadUint8":
		return "u8"
	case "ReadUInt16", "ReadUint16":
		return "u16"
	case "ReadUInt32", "ReadUint32":
		return "u32"
	case "ReadUInt64", "ReadUint64", "ReadInt64":
		return "u64"
	case "ReadString8Length", "ReadBytes8Length":
		return "str8"
	case "ReadString16Length", "ReadBytes16Length":
		return "str16"
	case "ReadString32Length", "ReadBytes32Length":
		return "str32"
	case "ReadString64Length", "ReadBytes64Length":
		return "str64"
	case "ReadBytes", "Read", "ReadString8", "Read1String16", "ReadString32", "ReadString64":
		return "raw"
	}
	return ""
}

type layoutX struct {
	w     *core.World
	fn    *core.FuncInfo
	info  *types.Info
	dir   string // enc | dec
	ops   []wireOp
	undec []string
	depth int
}

// extractLayout returns the wire layout of an Encode or Decode method.
func extractLayout(w *core.World, fn *core.FuncInfo, dir string, depth int) ([]wireOp, []string) {
	x := &layoutX{w: w, fn: fn, info: fn.Pkg.TypesInfo, dir: dir, depth: depth}
	x.stmts(fn.Decl.Body.List, "")
	return x.ops, x.undec
}

func (x *layoutX) stmts(list []ast.Stmt, guard string) {
	for _, s := range list {
		x.stmt(s, guard)
	}
}

// guardOf renders `X.F == CONST` / bare bool field conditions.
func (x *layoutX) guardOf(cond ast.Expr) (string, bool) {
	cond = ast.Unparen(cond)
	switch c := cond.(type) {
	case *ast.BinaryExpr:
		if c.Op == token.EQL || c.Op == token.NEQ {
			f := leafField(c.X)
			k := core.ConstObj(x.info, c.Y)
			if f != "" && k != nil {
				return f + c.Op.String() + k.Name(), true
			}
		}
	case *ast.SelectorExpr:
		if f := leafField(c); f != "" {
			return f, true
		}
	}
	return "", false
}

func leafField(e ast.Expr) string {
	e = ast.Unparen(e)
	if sel, ok := e.(*ast.SelectorExpr); ok {
		if _, isPkg := sel.X.(*ast.Ident); isPkg || true {
			return sel.Sel.Name
		}
	}
	return ""
}

func (x *layoutX) stmt(s ast.Stmt, guard string) {
	switch st := s.(type) {
	case *ast.IfStmt:
		// truncation: if len(X) > C { v = X[:C] }
		if be, ok := ast.Unparen(st.Cond).(*ast.BinaryExpr); ok && (be.Op == token.GTR || be.Op == token.GEQ) {
			if c, ok := ast.Unparen(be.X).(*ast.CallExpr); ok {
				if id, ok := c.Fun.(*ast.Ident); ok && id.Name == "len" {
					if !x.hasWireOps(st.Body) {
						return // handled through truncOf when the variable is written
					}
				}
			}
		}
		// boolean written as constant byte: if F { write(1) } else { write(0) }
		if st.Else != nil {
			if g, ok := x.guardOf(st.Cond); ok && !strings.ContainsAny(g, "=!") {
				if eb, ok := st.Else.(*ast.BlockStmt); ok {
					k1, k2 := x.singleConstWrite(st.Body), x.singleConstWrite(eb)
					if k1 != "" && k1 == k2 {
						x.ops = append(x.ops, wireOp{Kind: k1, Field: g, Guard: guard, Pos: st.Pos()})
						return
					}
				}
			}
		}
		if x.dir == "dec" && !x.hasWireOps(st.Body) && (st.Else == nil || !x.hasWireOpsStmt(st.Else)) {
			return // value interpretation (if v == 1 { data.F = true }), no wire effect
		}
		g, ok := x.guardOf(st.Cond)
		if !ok {
			if x.hasWireOps(st.Body) {
				x.undec = append(x.undec, fmt.Sprintf("%s: wire operations under a condition outside the vocabulary: %s", x.w.Pos(st.Pos()), core.ExprString(st.Cond)))
			}
			return
		}
		if guard != "" {
			g = guard + "&&" + g
		}
		x.stmts(st.Body.List, g)
		if st.Else != nil {
			if x.hasWireOpsStmt(st.Else) {
				x.undec = append(x.undec, fmt.Sprintf("%s: wire operations in an else branch", x.w.Pos(st.Else.Pos())))
			}
		}
	case *ast.ExprStmt:
		x.expr(st.X, guard, nil)
	case *ast.AssignStmt:
		for i, r := range st.Rhs {
			var lhs ast.Expr
			if len(st.Lhs) == len(st.Rhs) {
				lhs = st.Lhs[i]
			} else if len(st.Lhs) > 0 {
				lhs = st.Lhs[0]
			}
			x.expr(r, guard, lhs)
		}
	case *ast.ReturnStmt:
		for _, r := range st.Results {
			x.expr(r, guard, nil)
		}
	case *ast.DeclStmt, *ast.EmptyStmt:
	case *ast.ForStmt, *ast.RangeStmt, *ast.SwitchStmt, *ast.TypeSwitchStmt, *ast.SelectStmt, *ast.GoStmt, *ast.DeferStmt:
		if x.hasWireOpsStmt(s) {
			x.undec = append(x.undec, fmt.Sprintf("%s: wire operations inside a loop/switch (outside the straight-line vocabulary)", x.w.Pos(s.Pos())))
		}
	case *ast.BlockStmt:
		x.stmts(st.List, guard)
	}
}

func (x *layoutX) hasWireOps(b *ast.BlockStmt) bool { return x.hasWireOpsStmt(b) }

func (x *layoutX) hasWireOpsStmt(s ast.Stmt) bool {
	found := false
	ast.Inspect(s, func(n ast.Node) bool {
		if c, ok := n.(*ast.CallExpr); ok {
			f := core.Callee(x.info, c)
			if writeKind(f) != "" || readKind(f) != "" || x.delegate(c) != nil || x.wireHelper(c) != nil {
				found = true
			}
		}
		return !found
	})
	return found
}

// singleConstWrite: the block is exactly one write of a constant.
func (x *layoutX) singleConstWrite(b *ast.BlockStmt) string {
	if len(b.List) != 1 {
		return ""
	}
	es, ok := b.List[0].(*ast.ExprStmt)
	if !ok {
		return ""
	}
	c, ok := es.X.(*ast.CallExpr)
	if !ok || len(c.Args) != 1 {
		return ""
	}
	k := writeKind(core.Callee(x.info, c))
	if k == "" || core.ConstVal(x.info, c.Args[0]) == nil {
		return ""
	}
	return k
}

// delegate: call of Encode/Decode on an embedded codec (a type implementing codec.Codec's methods).
func (x *layoutX) delegate(c *ast.CallExpr) *core.FuncInfo {
	f := core.Callee(x.info, c)
	if f == nil || (f.Name() != "Encode" && f.Name() != "Decode") || f == x.fn.Obj {
		return nil
	}
	fi := x.w.Info(f)
	if fi == nil || fi.Pkg != x.fn.Pkg || core.RecvNamed(f) == nil {
		return nil
	}
	if (x.dir == "enc") != (f.Name() == "Encode") {
		return nil
	}
	return fi
}

// wireHelper: call of a function of the codec's own package that is handed the byte buffer and itself performs
// wire operations (a shared header encoder/decoder). Its operations are part of the caller's layout, in place.
func (x *layoutX) wireHelper(c *ast.CallExpr) *core.FuncInfo {
	f := core.Callee(x.info, c)
	fi := x.w.Info(f)
	if fi == nil || fi.Pkg != x.fn.Pkg || fi.Decl.Body == nil || fi == x.fn || x.depth <= 0 {
		return nil
	}
	if f.Name() == "Encode" || f.Name() == "Decode" {
		return nil
	}
	takesBuf := false
	sig := f.Type().(*types.Signature)
	for i := 0; i < sig.Params().Len(); i++ {
		t := sig.Params().At(i).Type()
		if p, ok := t.(*types.Pointer); ok {
			t = p.Elem()
		}
		if n, ok := t.(*types.Named); ok && n.Obj().Name() == "ByteBuffer" && n.Obj().Pkg() != nil && n.Obj().Pkg().Path() == pBytes {
			takesBuf = true
		}
	}
	if !takesBuf {
		return nil
	}
	sub := &layoutX{w: x.w, fn: fi, info: fi.Pkg.TypesInfo, dir: x.dir, depth: x.depth - 1}
	if !sub.hasWireOpsStmt(fi.Decl.Body) {
		return nil
	}
	return fi
}

// expr scans an expression for wire operations in evaluation order.
func (x *layoutX) expr(e ast.Expr, guard string, lhs ast.Expr) {
	ast.Inspect(e, func(n ast.Node) bool {
		c, ok := n.(*ast.CallExpr)
		if !ok {
			return true
		}
		if d := x.delegate(c); d != nil {
			if x.depth <= 0 {
				x.undec = append(x.undec, "delegation too deep at "+x.w.Pos(c.Pos()))
				return false
			}
			ops, und := extractLayout(x.w, d, x.dir, x.depth-1)
			for _, o := range ops {
				if guard != "" {
					if o.Guard != "" {
						o.Guard = guard + "&&" + o.Guard
					} else {
						o.Guard = guard
					}
				}
				x.ops = append(x.ops, o)
			}
			x.undec = append(x.undec, und...)
			return false
		}
		if h := x.wireHelper(c); h != nil {
			ops, und := extractLayout(x.w, h, x.dir, x.depth-1)
			for _, o := range ops {
				if guard != "" {
					if o.Guard != "" {
						o.Guard = guard + "&&" + o.Guard
					} else {
						o.Guard = guard
					}
				}
				if o.Fn == nil {
					o.Fn = h
				}
				x.ops = append(x.ops, o)
			}
			x.undec = append(x.undec, und...)
			return false
		}
		f := core.Callee(x.info, c)
		if k := writeKind(f); k != "" && x.dir == "enc" {
			var val ast.Expr
			if strings.HasPrefix(k, "str") {
				if len(c.Args) > 0 {
					val = c.Args[0]
				}
			} else if len(c.Args) == 1 {
				val = c.Args[0]
			}
			op := wireOp{Kind: k, Guard: guard, Pos: c.Pos(), Arg: val, Fn: x.fn}
			fields, scale, trunc := x.valueInfo(val, 4)
			op.Scale, op.Trunc = scale, trunc
			if len(fields) == 1 {
				op.Field = fields[0]
			} else {
				op.Field = "?" + strings.Join(fields, "|")
				x.undec = append(x.undec, fmt.Sprintf("%s: cannot attribute the written value %s to one message field (%v)", x.w.Pos(c.Pos()), core.ExprString(val), fields))
			}
			x.ops = append(x.ops, op)
			return false
		}
		if k := readKind(f); k != "" && x.dir == "dec" {
			op := wireOp{Kind: k, Guard: guard, Pos: c.Pos()}
			op.Scale = x.scaleThrough(e)
			op.Field = x.readTarget(lhs, e)
			if op.Field == "" {
				op.Field = "?"
				x.undec = append(x.undec, fmt.Sprintf("%s: cannot attribute the value read here to a message field", x.w.Pos(c.Pos())))
			}
			x.ops = append(x.ops, op)
			return false
		}
		return true
	})
}

// scaleThrough: scaleOf, also through conversion helpers of the codec's package with one returned expression
// (`buf.WriteUint32(timeoutToMillis(data.Timeout))`)
func (x *layoutX) scaleThrough(e ast.Expr) string {
	out := scaleOf(x.info, e)
	if e == nil {
		return out
	}
	ast.Inspect(e, func(n ast.Node) bool {
		c, ok := n.(*ast.CallExpr)
		if !ok {
			return true
		}
		g := x.w.Info(core.Callee(x.info, c))
		if g == nil || g.Pkg != x.fn.Pkg || g.Decl.Body == nil || len(g.Decl.Body.List) != 1 {
			return true
		}
		if rs, ok := g.Decl.Body.List[0].(*ast.ReturnStmt); ok && len(rs.Results) == 1 {
			out += scaleOf(g.Pkg.TypesInfo, rs.Results[0])
		}
		return true
	})
	return out
}

// scaleOf renders multiplications/divisions by literals in the expression.
func scaleOf(info *types.Info, e ast.Expr) string {
	out := ""
	ast.Inspect(e, func(n ast.Node) bool {
		if be, ok := n.(*ast.BinaryExpr); ok && (be.Op == token.MUL || be.Op == token.QUO) {
			if v := core.ConstVal(info, be.Y); v != nil {
				out += be.Op.String() + constant.ToFloat(v).ExactString()
			}
		}
		return true
	})
	return out
}

// valueInfo: message fields an encoder's value derives from, arithmetic scale and truncation bound.
func (x *layoutX) valueInfo(e ast.Expr, depth int) (fields []string, scale, trunc string) {
	if e == nil || depth == 0 {
		return nil, "", ""
	}
	set := map[string]bool{}
	var walk func(e ast.Expr, d int)
	walk = func(e ast.Expr, d int) {
		if d == 0 {
			return
		}
		scale += x.scaleThrough(e)
		ast.Inspect(e, func(n ast.Node) bool {
			switch v := n.(type) {
			case *ast.SelectorExpr:
				if fv, ok := x.info.Uses[v.Sel].(*types.Var); ok && fv.IsField() {
					set[v.Sel.Name] = true
					return false
				}
			case *ast.SliceExpr:
				if v.High != nil {
					if c := core.ConstVal(x.info, v.High); c != nil {
						trunc = c.ExactString()
					}
				}
			case *ast.CallExpr:
				// f(text) of the codec's package cutting its parameter to a constant: the truncation is in the helper
				if g := x.w.Info(core.Callee(x.info, v)); g != nil && g.Pkg == x.fn.Pkg && g.Decl.Body != nil && len(v.Args) == 1 {
					if ps := paramObjs(g); len(ps) == 1 {
						ast.Inspect(g.Decl.Body, func(m ast.Node) bool {
							if se, ok := m.(*ast.SliceExpr); ok && se.High != nil && core.ObjOf(g.Pkg.TypesInfo, se.X) == ps[0] {
								if c := core.ConstVal(g.Pkg.TypesInfo, se.High); c != nil {
									trunc = c.ExactString()
								}
							}
							return true
						})
					}
				}
			case *ast.Ident:
				if lv, ok := x.info.Uses[v].(*types.Var); ok && !lv.IsField() && !isParam(x.fn, lv) {
					for _, def := range localDefs(x.fn, lv) {
						if def.idx >= 0 {
							continue
						}
						if bl, ok := def.rhs.(*ast.BasicLit); ok {
							// a literal assigned under `if data.F` : the field of the guarding condition
							_ = bl
							for _, f := range x.guardFieldsOfAssign(lv) {
								set[f] = true
							}
							continue
						}
						walk(def.rhs, d-1)
					}
				}
			}
			return true
		})
	}
	walk(e, depth)
	for f := range set {
		fields = append(fields, f)
	}
	sort.Strings(fields)
	return
}

// guardFieldsOfAssign: fields tested by if-conditions enclosing literal assignments to v.
func (x *layoutX) guardFieldsOfAssign(v *types.Var) []string {
	var out []string
	ast.Inspect(x.fn.Decl.Body, func(n ast.Node) bool {
		ifs, ok := n.(*ast.IfStmt)
		if !ok {
			return true
		}
		assigns := false
		ast.Inspect(ifs.Body, func(m ast.Node) bool {
			if as, ok := m.(*ast.AssignStmt); ok {
				for _, l := range as.Lhs {
					if core.ObjOf(x.info, l) == v {
						assigns = true
					}
				}
			}
			return true
		})
		if assigns {
			if f := leafField(ifs.Cond); f != "" {
				out = append(out, f)
			} else if g, ok := x.guardOf(ifs.Cond); ok {
				out = append(out, strings.FieldsFunc(g, func(r rune) bool { return r == '=' || r == '!' })[0])
			}
		}
		return true
	})
	return out
}

// readTarget: the message field a decoded value ends up in.
func (x *layoutX) readTarget(lhs ast.Expr, rhs ast.Expr) string {
	if lhs == nil {
		return ""
	}
	lhs = ast.Unparen(lhs)
	if sel, ok := lhs.(*ast.SelectorExpr); ok {
		return sel.Sel.Name
	}
	id, ok := lhs.(*ast.Ident)
	if !ok {
		return ""
	}
	v := core.ObjOf(x.info, id)
	if v == nil {
		return ""
	}
	set := map[string]bool{}
	ast.Inspect(x.fn.Decl.Body, func(n ast.Node) bool {
		switch s := n.(type) {
		case *ast.AssignStmt:
			for i, l := range s.Lhs {
				if sel, ok := ast.Unparen(l).(*ast.SelectorExpr); ok && i < len(s.Rhs) && mentions(x.info, s.Rhs[i], v) {
					set[sel.Sel.Name] = true
				}
			}
		case *ast.KeyValueExpr:
			if k, ok := s.Key.(*ast.Ident); ok && mentions(x.info, s.Value, v) {
				set[k.Name] = true
			}
		case *ast.IfStmt:
			if mentions(x.info, s.Cond, v) {
				ast.Inspect(s.Body, func(m ast.Node) bool {
					if as, ok := m.(*ast.AssignStmt); ok {
						for _, l := range as.Lhs {
							if sel, ok := ast.Unparen(l).(*ast.SelectorExpr); ok {
								set[sel.Sel.Name] = true
							}
						}
					}
					return true
				})
			}
		}
		return true
	})
	var fs []string
	for f := range set {
		fs = append(fs, f)
	}
	sort.Strings(fs)
	if len(fs) == 1 {
		return fs[0]
	}
	return ""
}

func layoutString(ops []wireOp) string {
	var p []string
	for _, o := range ops {
		p = append(p, o.String())
	}
	return strings.Join(p, "; ")
}
