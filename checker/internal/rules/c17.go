package rules

import (
	"fmt"
	"go/ast"
	"go/constant"
	"go/token"
	"go/types"
	"regexp"
	"sort"
	"strings"

	"golang.org/x/tools/go/packages"

	"seatalint/internal/core"
	"seatalint/internal/flow"
)

func init() { register("C17", checkC17) }

const pXA = core.Module + "/pkg/datasource/sql/xa"

func isXARes(w *core.World, f *types.Func, name string) bool {
	return isIfaceOrImpl(w, f, "pkg/datasource/sql/xa", "XAResource", name)
}

func checkC17(r *core.Run) {
	r.Explain = "Decided statically: (C17.pure) phase two consults no package-level state that request paths mutate; (C17.id, also) the text of the branch identifier (String() of what XaIdBuild returns — the id of every XA command and the key the connection is kept under) is built from the whole xid and the whole branch id and nothing on the way cuts it; (C17.reset) every boolean state field of the XA connection (and of the embedded Conn) that some method raises to true is lowered again by a function the per-branch life cycle reaches (BeginTx, Commit, Rollback, ResetSession) — a pooled connection is reused without Close, so a flag only lowered in Close/CloseForce stays raised for every later branch and, when it guards XA END / XA ROLLBACK, leaves those branches active; (C17.order) in the XA connection's BeginTx the branch registration dominates (through its nil-error edge) the construction of the branch identifier, which dominates XAResource.Start; failure edges return an error; (C17.id) every xid argument of XAResource.Start/End/XAPrepare/Commit/Rollback is the String() of an identifier built by XaIdBuild from the global xid and the branch id (the connection's identifier field is only ever assigned such a value; phase two builds it with the same function from the request's Xid and BranchId); (C17.legal) in phase one End precedes XAPrepare through its nil-error edge, XAResource.Commit is reachable only from the phase-two BranchCommit, and the driver.Tx handed to the application ends and prepares the branch on Commit; (C17.surface) every failure of end / timeout check / prepare reaches the caller as a non-nil error, also through the implicit-transaction wrapper; (C17.status) phase-two success constants only with a nil error; (C17.nil) the nil target stored in Tx for XA mode is never dereferenced from an XA path. NOT decided: the database's own XA state machine; phase two arriving on another process."
	r.Explain += " Round 8: (C17.reset, also) the condition under which the connection is marked kept implies the condition under which Close leaves a kept connection open — read as propositional formulas over their calls and comparisons (one-return helpers expanded, guard clauses and the call sites of an unexported helper included) and checked for every truth assignment."
	r.Trusted = []string{"go/types, go/cfg", "XAResource implementations issue the XA statement named by the method"}
	w := r.W
	xc := w.NamedType("pkg/datasource/sql", "XAConn")
	txT := w.NamedType("pkg/datasource/sql", "Tx")
	if xc == nil || txT == nil {
		r.Anchor("C17.anchor", nil, "sql.XAConn / sql.Tx")
		return
	}
	idBuild := w.Func("pkg/datasource/sql", "", "XaIdBuild")
	begin := r.Anchor("C17.order", methodInfo(w, xc, "BeginTx"), "XAConn.BeginTx")
	if idBuild == nil {
		r.Anchor("C17.id", nil, "XaIdBuild")
		return
	}
	c17IDText(r, idBuild)
	c17KeptAgreement(r, xc)
	reg := newReach(w, 3, func(f *types.Func) bool { return isBranchRegister(w, f) })
	startR := newReach(w, 2, func(f *types.Func) bool { return isXARes(w, f, "Start") })
	// ---- C17.order
	if begin != nil {
		idR := newReach(w, 2, func(f *types.Func) bool { return f == idBuild.Obj })
		sp := &flow.Spec{W: w, Depth: 0, Inline: 3, Classify: func(pkg *packages.Package, call *ast.CallExpr, callee *types.Func) []flow.Tag {
			if callee == idBuild.Obj {
				return []flow.Tag{"idbuild"}
			}
			if callee == nil || w.Info(callee) == nil || callee.Pkg().Path() != pDSSQL {
				return nil
			}
			// a step is named by the one thing it reaches; a function reaching several of them is a sequence of
			// steps (an extracted part of BeginTx) and is analysed in this context instead
			var kinds []flow.Tag
			if startR.Hits(callee) {
				kinds = append(kinds, "start")
			}
			if reg.Hits(callee) {
				kinds = append(kinds, "regstep")
			}
			if idR.Hits(callee) {
				kinds = append(kinds, "idbuild")
			}
			if len(kinds) == 1 && kinds[0] != "idbuild" {
				return kinds
			}
			return nil
		}}
		res := sp.Analyze(begin)
		key := core.ShortKey(begin.Obj)
		seen := map[string]bool{}
		for _, cp := range res.Calls {
			switch {
			case inSet("idbuild", cp.Tags...):
				seen["id"] = true
				r.Sites++
				r.Check(cp.Before.Has("ok:regstep"), "C17.order", key+" -> XaIdBuild after the branch is registered", w.Pos(cp.Call.Pos()), "the identifier uses the branch id the coordinator assigned", "the branch identifier is built on a path where registration has not succeeded (the branch id is not assigned yet)")
				if len(cp.Call.Args) == 2 {
					a, b := originVia(begin, cp.Fn, cp.Call.Args[0], 3), originVia(begin, cp.Fn, cp.Call.Args[1], 3)
					r.Check(strings.HasSuffix(a, ".txCtx.XID") && strings.HasSuffix(b, ".txCtx.BranchID"), "C17.id", key+" : identifier = XaIdBuild(global xid, branch id)", w.Pos(cp.Call.Pos()), a+", "+b, "the branch identifier is built from ("+a+", "+b+") instead of the global xid and the coordinator-assigned branch id")
				}
			case inSet("start", cp.Tags...):
				seen["start"] = true
				r.Sites++
				r.Check(cp.Before.Has("ok:regstep") && cp.Before.Has("idbuild"), "C17.order", key+" -> XA START after registration and identifier", w.Pos(cp.Call.Pos()), "registered before XA START", "XA START can be issued before the branch is registered with the coordinator (or before its identifier exists)")
			}
		}
		if !seen["id"] || !seen["start"] {
			r.Bad("C17.order", key+" steps present", w.Pos(begin.Decl.Pos()), "BeginTx no longer builds the identifier and starts the branch")
		}
		for _, ex := range res.Exits {
			if ex.St.HasAny("fail:regstep", "fail:start") || ex.St.Maybe("fail:regstep") || ex.St.Maybe("fail:start") {
				r.Sites++
				r.Check(ex.Class != flow.ExitOK, "C17.order", key+" "+exitRole(ex, func(t string) bool { return strings.HasPrefix(t, "fail:") })+" returns an error", w.Pos(ex.Pos), "failure surfaces", "a failed registration / XA START returns nil")
			}
		}
	}
	// ---- C17.id: every xid argument of XAResource calls
	var idField *types.Var
	if st, ok := xc.Underlying().(*types.Struct); ok {
		for i := 0; i < st.NumFields(); i++ {
			if strings.HasSuffix(st.Field(i).Type().String(), "XABranchXid") {
				idField = st.Field(i)
			}
		}
	}
	for _, f := range w.SortedFuncs() {
		if f.Pkg.PkgPath != pDSSQL || w.IsTestFile(f.Decl.Pos()) {
			continue
		}
		info := f.Pkg.TypesInfo
		// assignments to the identifier field
		ast.Inspect(f.Decl.Body, func(n ast.Node) bool {
			as, ok := n.(*ast.AssignStmt)
			if !ok {
				return true
			}
			for i, l := range as.Lhs {
				sel, ok := ast.Unparen(l).(*ast.SelectorExpr)
				if !ok || idField == nil || info.Uses[sel.Sel] != idField || i >= len(as.Rhs) {
					continue
				}
				r.Sites++
				r.Fn(f)
				o := origin(f, as.Rhs[i], 3)
				r.Check(o == "nil" || strings.HasPrefix(o, "call:pkg/datasource/sql.XaIdBuild("), "C17.id", core.ShortKey(f.Obj)+" assigns the connection's branch identifier", w.Pos(as.Pos()), o, "the connection's branch identifier is assigned from "+o+", not from XaIdBuild(xid, branch id)")
			}
			return true
		})
		for _, cs := range w.Calls(f) {
			name := ""
			for _, m := range []string{"Start", "End", "XAPrepare", "Commit", "Rollback"} {
				if isXARes(w, cs.Static, m) && core.RecvNamed(cs.Static) != nil && core.RecvNamed(cs.Static).Obj().Pkg().Path() == pXA {
					name = m
				}
			}
			if name == "" || len(cs.Call.Args) < 2 {
				continue
			}
			r.Sites++
			r.Fn(f)
			o := origin(f, cs.Call.Args[1], 4)
			okID := false
			switch {
			case idField != nil && strings.Contains(o, ".String(recv="+"param:") && strings.Contains(o, "."+idField.Name()+";"):
				okID = true
			case strings.Contains(o, ".String(recv=param:"):
				// a parameter of identifier type: every caller passes an XaIdBuild result or the connection's field
				okID = c17CallersPassID(w, f, idField, 3)
			}
			r.Check(okID, "C17.id", core.ShortKey(f.Obj)+" -> XAResource."+name+" uses the branch identifier", w.Pos(cs.Call.Pos()), o, "XAResource."+name+" is called with "+o+", which is not the String() of the branch identifier built by XaIdBuild")
		}
	}
	// ---- C17.legal / C17.surface: phase-one end (XAConn.Commit)
	if cm := r.Anchor("C17.legal", methodInfo(w, xc, "Commit"), "XAConn.Commit"); cm != nil {
		endR := newReach(w, 2, func(f *types.Func) bool { return isXARes(w, f, "End") })
		rbR := newReach(w, 2, func(f *types.Func) bool { return isXARes(w, f, "Rollback") })
		prepR := newReach(w, 2, func(f *types.Func) bool { return isXARes(w, f, "XAPrepare") })
		sp := &flow.Spec{W: w, Depth: 1, Inline: 3, Classify: func(pkg *packages.Package, call *ast.CallExpr, callee *types.Func) []flow.Tag {
			switch {
			case isXARes(w, callee, "XAPrepare"):
				return []flow.Tag{"prepare"}
			case isXARes(w, callee, "Commit"):
				return []flow.Tag{"xacommit"}
			case isXARes(w, callee, "End") || (callee != nil && w.Info(callee) != nil && core.RecvNamed(callee) == xc && endR.Hits(callee) && !rbR.Hits(callee) && !prepR.Hits(callee)):
				// (a method reaching both END and PREPARE is an extracted sequence: analysed in this context)
				return []flow.Tag{"end"}
			case callee != nil && w.Info(callee) != nil && core.RecvNamed(callee) == xc && strings.Contains(strings.ToLower(callee.Name()), "timeout"):
				if rbR.Hits(callee) {
					return []flow.Tag{"timeoutcheck", "rbstep"}
				}
				return []flow.Tag{"timeoutcheck"}
			case isXARes(w, callee, "Rollback") || (callee != nil && w.Info(callee) != nil && core.RecvNamed(callee) == xc && rbR.Hits(callee) && !endR.Hits(callee) && !prepR.Hits(callee)):
				return []flow.Tag{"rbstep"}
			}
			return nil
		}}
		res := sp.Analyze(cm)
		key := core.ShortKey(cm.Obj)
		nPrep := 0
		for _, cp := range res.Calls {
			// a branch is rolled back only after XA END has been issued for it: MySQL refuses XA ROLLBACK in the
			// ACTIVE state (XAER_RMFAIL), the branch then stays open on the pooled connection
			if inSet("rbstep", cp.Tags...) {
				r.Sites++
				r.Check(cp.Before.Has("end"), "C17.legal", key+" -> "+core.ShortKey(cp.Callee)+" (XA ROLLBACK) only after XA END was issued", w.Pos(cp.Call.Pos()), "END before ROLLBACK",
					"a step that rolls the branch back (XA ROLLBACK) can run before XA END was issued for it: not a legal XA sequence — the database refuses the rollback of an ACTIVE branch, which then stays open on the pooled connection and swallows later statements")
			}
			if inSet("prepare", cp.Tags...) {
				nPrep++
				r.Sites++
				r.Check(cp.Before.Has("ok:end"), "C17.legal", key+" -> XA PREPARE after a successful XA END", w.Pos(cp.Call.Pos()), "END(TMSUCCESS) succeeded before PREPARE", "XA PREPARE can be issued without a successful XA END before it")
			}
			if inSet("xacommit", cp.Tags...) {
				r.Bad("C17.legal", key+" -> XAResource.Commit in phase one", w.Pos(cp.Call.Pos()), "phase one commits the XA branch itself")
			}
		}
		if nPrep == 0 {
			r.Bad("C17.legal", key+" -> XA PREPARE after a successful XA END", w.Pos(cm.Decl.Pos()), "phase one never prepares the branch")
		}
		for _, ex := range res.Exits {
			if ex.St.HasAny("fail:end", "fail:timeoutcheck", "fail:prepare") || ex.St.Maybe("fail:end") || ex.St.Maybe("fail:timeoutcheck") || ex.St.Maybe("fail:prepare") {
				r.Sites++
				role := exitRole(ex, func(t string) bool { return strings.HasPrefix(t, "fail:") })
				// the failure handler's result is handed on: the failure surfaces exactly when the handler yields
				// an error on every path, which is its own obligation below (one finding at its root, not one per
				// return that relies on it)
				if ex.Class != flow.ExitErr && len(ex.Results) == 1 {
					if c, ok := ast.Unparen(ex.Results[0]).(*ast.CallExpr); ok {
						if h := core.Callee(cm.Pkg.TypesInfo, c); h != nil && core.RecvNamed(h) == xc && strings.HasSuffix(h.Name(), "ErrorHandle") {
							r.OK("C17.surface", key+" hands on the result of "+h.Name()+" after a failed step", w.Pos(ex.Pos), "surfaces iff "+h.Name()+" always returns an error (checked as its own obligation)")
							continue
						}
					}
				}
				r.Check(ex.Class == flow.ExitErr, "C17.surface", key+" "+role+" returns an error", w.Pos(ex.Pos), "failure before prepare surfaces",
					"after a failed end / timeout check / prepare the method returns a value that can be nil (the result of the rollback): the caller sees the statement as successful although the branch was rolled back")
			}
		}
	}
	// the error-handling helper always yields an error
	for _, f := range w.SortedFuncs() {
		if core.RecvNamed(f.Obj) != xc || w.IsTestFile(f.Decl.Pos()) || !strings.HasSuffix(f.Obj.Name(), "ErrorHandle") {
			continue
		}
		r.Fn(f)
		res := (&flow.Spec{W: w}).Analyze(f)
		for _, ex := range res.Exits {
			r.Sites++
			r.Check(ex.Class == flow.ExitErr, "C17.surface", core.ShortKey(f.Obj)+" always returns an error", w.Pos(ex.Pos), "non-nil on every path", "the failure handler returns nil when its own cleanup succeeds: the original failure is lost")
		}
	}
	// the implicit-transaction wrapper
	if wr := methodInfo(w, xc, "createNewTxOnExecIfNeed"); wr != nil {
		r.Fn(wr)
		cmObj := w.MethodOf(xc, "Commit")
		sp := &flow.Spec{W: w, Depth: 0, Classify: func(pkg *packages.Package, call *ast.CallExpr, callee *types.Func) []flow.Tag {
			if callee == cmObj {
				return []flow.Tag{"xaend"}
			}
			return nil
		}}
		res := sp.Analyze(wr)
		n := 0
		for _, ex := range res.Exits {
			if ex.St.Maybe("fail:xaend") || ex.St.Has("fail:xaend") {
				n++
				r.Sites++
				r.Check(ex.Class == flow.ExitErr || (ex.Class == flow.ExitEither && !ex.St.Maybe("fail:xaend")), "C17.surface", core.ShortKey(wr.Obj)+" failed end/prepare returns an error", w.Pos(ex.Pos), "surfaces", "the implicit transaction returns the statement's result with a nil error although ending/preparing the XA branch failed")
			}
		}
		if n == 0 {
			r.OK("C17.surface", core.ShortKey(wr.Obj)+" failed end/prepare returns an error", w.Pos(wr.Decl.Pos()), "no exit after a failed end/prepare other than error returns")
		}
	} else {
		r.Anchor("C17.surface", nil, "XAConn.createNewTxOnExecIfNeed")
	}
	// XAResource.Commit only from phase two
	mgr := managerFor(r, "BranchTypeXA")
	for _, f := range w.SortedFuncs() {
		if w.IsTestFile(f.Decl.Pos()) || f.Pkg.PkgPath != pDSSQL {
			continue
		}
		for _, cs := range w.Calls(f) {
			if isXARes(w, cs.Static, "Commit") && core.RecvNamed(cs.Static).Obj().Pkg().Path() == pXA {
				// f is the wrapper; its callers must be the manager's BranchCommit
				okAll := true
				who := ""
				for _, c2 := range w.Callers(f.Obj) {
					if w.IsTestFile(c2.Call.Pos()) {
						continue
					}
					if mgr == nil || core.RecvNamed(c2.Caller.Obj) != mgr || c2.Caller.Obj.Name() != "BranchCommit" {
						okAll = false
						who = core.ShortKey(c2.Caller.Obj)
					}
				}
				r.Sites++
				r.Check(okAll, "C17.legal", core.ShortKey(f.Obj)+" (XA COMMIT) is called only by the phase-two BranchCommit", w.Pos(cs.Call.Pos()), "phase two only", "XA COMMIT is also reachable from "+who+": a branch could be committed before the coordinator decided")
			}
		}
	}
	// the driver.Tx handed to the application: Commit must end and prepare the branch
	for _, n := range driverImplsIn(w, "pkg/datasource/sql", "Tx") {
		if begin == nil {
			break
		}
		isXATx := false
		for _, t := range returnedTypes(begin) {
			if t == n {
				isXATx = true
			}
		}
		if !isXATx || n == txT {
			continue
		}
		cmt := methodInfo(w, n, "Commit")
		if cmt == nil {
			continue
		}
		r.Fn(cmt)
		r.Sites++
		reachesPrepare := w.CallPath(cmt, func(f *types.Func) bool { return isXARes(w, f, "XAPrepare") }, 4) != nil
		r.Check(reachesPrepare, "C17.legal", core.ShortKey(cmt.Obj)+" ends and prepares the XA branch", w.Pos(cmt.Decl.Pos()), "Commit reaches XA END / XA PREPARE",
			"the driver.Tx returned by the XA connection's BeginTx does nothing on Commit: in an explicit transaction the branch is started but never ended or prepared, so the coordinator's phase-two XA COMMIT hits a branch that is still active")
	}
	// ---- C17.status
	c17Status(r, mgr)
	// the XA statements themselves: an XAResource method answers nil only when its statement was executed
	// without error (no error code is "success in disguise": XAER_NOTA also means the prepared branch is gone)
	{
		var fs []*core.FuncInfo
		if xi := w.Interface("pkg/datasource/sql/xa", "XAResource"); xi != nil {
			for _, n := range w.Implementers(xi) {
				if w.IsTestFile(n.Obj().Pos()) || strings.Contains(n.Obj().Pkg().Path(), "/mock") {
					continue
				}
				for _, m := range []string{"Start", "End", "XAPrepare", "Commit", "Rollback"} {
					if f := methodInfo(w, n, m); f != nil {
						fs = append(fs, f)
					}
				}
			}
		}
		for _, m := range []string{"XaCommit", "XaRollback", "XaRollbackByBranchId", "termination"} {
			if f := methodInfo(w, xc, m); f != nil {
				fs = append(fs, f)
			}
		}
		if len(fs) < 6 {
			r.Bad("C17.status", "INSTANCE-FLOOR XAResource statement methods", "", "fewer XA statement methods than confirmed by hand")
		}
		errDiscipline(r, "C17.status", dedupFns(fs), nil)
	}
	// ---- C17.nil
	c17Nil(r, xc, txT)
	c17Cleared(r, xc)
	c17Reset(r, xc)
	if mgr != nil {
		var fs []*core.FuncInfo
		for _, n := range []string{"BranchCommit", "BranchRollback"} {
			if m := methodInfo(w, mgr, n); m != nil {
				fs = append(fs, m)
			}
		}
		phase2 := dedupFns(append(fs, reachFrom(w, fs, pDSSQL)...))
		pureOfRuntimeState(r, "C17.pure", "phase two of the XA resource manager", phase2, nil)
		r.Floor("C17.pure", 4)
		// a phase-two request closes only connections that are its own: the receiver, a parameter, or a value this
		// invocation created — never one taken out of state shared between requests (a field Swap/Load), which
		// may still carry another request's XA COMMIT / XA ROLLBACK
		nClose := 0
		for _, f := range phase2 {
			if w.IsTestFile(f.Decl.Pos()) || f.Decl.Body == nil {
				continue
			}
			info := f.Pkg.TypesInfo
			ast.Inspect(f.Decl.Body, func(n ast.Node) bool {
				c, ok := n.(*ast.CallExpr)
				if !ok {
					return true
				}
				sel, ok := ast.Unparen(c.Fun).(*ast.SelectorExpr)
				if !ok || (sel.Sel.Name != "Close" && sel.Sel.Name != "CloseForce") {
					return true
				}
				t := info.TypeOf(sel.X)
				if t == nil || !(strings.HasSuffix(t.String(), "driver.Conn") || strings.HasSuffix(t.String(), "sql.XAConn") || strings.HasSuffix(t.String(), "sql.Conn")) {
					return true
				}
				// root variable of the receiver expression
				root := ast.Unparen(sel.X)
				for {
					if s2, ok := root.(*ast.SelectorExpr); ok {
						root = ast.Unparen(s2.X)
						continue
					}
					break
				}
				id, ok := root.(*ast.Ident)
				if !ok {
					return true
				}
				v, ok := info.Uses[id].(*types.Var)
				if !ok {
					return true
				}
				nClose++
				r.Sites++
				r.Fn(f)
				key := core.ShortKey(f.Obj) + " closes " + core.ExprString(sel.X) + ", a connection of this request"
				if isParam(f, v) {
					r.OK("C17.pure", key, w.Pos(c.Pos()), "receiver or parameter")
					return true
				}
				o := origin(f, id, 4)
				shared := strings.Contains(o, ".Swap(") || strings.Contains(o, ".Load(") || strings.Contains(o, ".LoadAndDelete(") || strings.Contains(o, ".LoadOrStore(") || strings.HasPrefix(o, "global:")
				r.Check(!shared, "C17.pure", key, w.Pos(c.Pos()), "origin "+o, "the connection closed here was taken out of state shared between requests ("+o+"): it may be the one another phase-two request is still sending its XA COMMIT / XA ROLLBACK on — that branch then gets neither")
				return true
			})
		}
		_ = nClose
	}
	r.Floor("C17.reset", 2)
	r.Floor("C17.order", 3)
	r.Floor("C17.id", 8)
	r.Floor("C17.legal", 3)
	r.Floor("C17.surface", 4)
	r.Floor("C17.status", 2)
	r.Floor("C17.nil", 1)
}

// c17CallersPassID: every caller of f passes, for the identifier-typed parameter, XaIdBuild(...) (possibly through a
// one-line wrapper), the connection's identifier field, or its own identifier parameter (recursively).
func c17CallersPassID(w *core.World, f *core.FuncInfo, idField *types.Var, depth int) bool {
	if depth == 0 {
		return false
	}
	idx := -1
	sig := f.Obj.Type().(*types.Signature)
	for i := 0; i < sig.Params().Len(); i++ {
		if strings.HasSuffix(sig.Params().At(i).Type().String(), "XAXid") || strings.HasSuffix(sig.Params().At(i).Type().String(), "XABranchXid") {
			idx = i
		}
	}
	if idx < 0 {
		return false
	}
	n := 0
	type site struct {
		caller *core.FuncInfo
		arg    ast.Expr
	}
	var sites []site
	for _, cs := range w.Callers(f.Obj) {
		if w.IsTestFile(cs.Call.Pos()) || idx >= len(cs.Call.Args) {
			continue
		}
		sites = append(sites, site{cs.Caller, cs.Call.Args[idx]})
	}
	// calls through a struct field the function is stored in ((*XAConn).XaCommit in a table of phase-two actions)
	for _, vc := range w.ValueCallers(f.Obj) {
		if w.IsTestFile(vc.Call.Pos()) || idx+vc.Shift >= len(vc.Call.Args) {
			continue
		}
		sites = append(sites, site{vc.Caller, vc.Call.Args[idx+vc.Shift]})
	}
	for _, cs := range sites {
		n++
		o := origin(cs.caller, cs.arg, 4)
		switch {
		case strings.HasPrefix(o, "call:pkg/datasource/sql.XaIdBuild("):
		case idField != nil && strings.HasSuffix(o, "."+idField.Name()):
		case strings.HasPrefix(o, "call:pkg/datasource/sql.(XAResourceManager).xaIDBuilder("):
			// wrapper: must itself return XaIdBuild(its params)
			g := w.Func("pkg/datasource/sql", "XAResourceManager", "xaIDBuilder")
			if g == nil {
				return false
			}
			if pureIDBuilder(g) != "" {
				return false
			}
		case strings.HasPrefix(o, "param:"):
			if !c17CallersPassID(w, cs.caller, idField, depth-1) {
				return false
			}
		default:
			return false
		}
	}
	return n > 0
}

func c17Status(r *core.Run, mgr *types.Named) {
	w := r.W
	if mgr == nil {
		r.Anchor("C17.status", nil, "XA resource manager")
		return
	}
	for _, ph := range []struct{ m, ok, act string }{{"BranchCommit", "BranchStatusPhasetwoCommitted", "XaCommit"}, {"BranchRollback", "BranchStatusPhasetwoRollbacked", "XaRollback"}} {
		fn := methodInfo(w, mgr, ph.m)
		if fn == nil {
			continue
		}
		r.Fn(fn)
		info := fn.Pkg.TypesInfo
		actR := newReach(w, 2, func(f *types.Func) bool {
			return isXARes(w, f, strings.TrimPrefix(ph.act, "Xa"))
		})
		res := (&flow.Spec{W: w, Depth: 0, Classify: func(pkg *packages.Package, call *ast.CallExpr, callee *types.Func) []flow.Tag {
			if callee != nil && w.Info(callee) != nil && actR.Hits(callee) && core.RecvNamed(callee) != nil && core.RecvNamed(callee).Obj().Name() == "XAConn" {
				return []flow.Tag{"action"}
			}
			return nil
		}}).Analyze(fn)
		// the identifier is built from the request
		for _, cs := range w.Calls(fn) {
			if cs.Static != nil && cs.Static.Name() == "xaIDBuilder" && len(cs.Call.Args) == 2 {
				if g := w.Info(cs.Static); g != nil {
					r.Fn(g)
					r.Sites++
					why := pureIDBuilder(g)
					r.Check(why == "", "C17.id", core.ShortKey(g.Obj)+" : the phase-two identifier is a function of (xid, branch id) alone", w.Pos(g.Decl.Pos()), "every return is XaIdBuild(xid, branchId)",
						"the identifier handed to phase two is not always XaIdBuild of this request's xid and branch id ("+why+"): a value remembered from another branch of the same global transaction makes XA COMMIT / XA ROLLBACK address the wrong branch, while the prepared one gets neither")
				}
				a, b := origin(fn, cs.Call.Args[0], 3), origin(fn, cs.Call.Args[1], 3)
				r.Sites++
				r.Check(strings.HasSuffix(a, ".Xid") && strings.HasSuffix(b, ".BranchId") && strings.HasPrefix(a, "param:"), "C17.id", core.ShortKey(fn.Obj)+" : phase-two identifier from the request's Xid and BranchId", w.Pos(cs.Call.Pos()), a+", "+b, "phase two builds the branch identifier from ("+a+", "+b+")")
			}
		}
		for _, ex := range res.Exits {
			c := ex.ResultConst(info, 0)
			r.Sites++
			k := core.ShortKey(fn.Obj) + " " + exitRole(ex, func(t string) bool { return strings.HasSuffix(t, "action") }) + " status=" + constName(c)
			if c != nil && c.Name() == ph.ok {
				r.Check(ex.St.Has("ok:action") && ex.Class == flow.ExitOK, "C17.status", k, w.Pos(ex.Pos), "success only after the XA statement succeeded", "the success status is returned on a path where the XA "+strings.TrimPrefix(ph.act, "Xa")+" is not known to have succeeded")
			} else {
				r.Check(c != nil && !strings.HasSuffix(c.Name(), "ted") && !strings.HasSuffix(c.Name(), "cked") || (c != nil && strings.Contains(c.Name(), "Failed")), "C17.status", k, w.Pos(ex.Pos), "failure status", "unexpected status on a failure path")
			}
		}
	}
}

// c17Nil: the XA-mode Tx has a nil target; methods dereferencing it must not be reachable from XA paths.
func c17Nil(r *core.Run, xc, txT *types.Named) {
	w := r.W
	// does any call hand nil to the option that sets Tx.target?
	nilStored := false
	for _, f := range w.SortedFuncs() {
		if f.Pkg.PkgPath != pDSSQL || w.IsTestFile(f.Decl.Pos()) {
			continue
		}
		for _, cs := range w.Calls(f) {
			if cs.Static != nil && cs.Static.Name() == "withOriginTx" && len(cs.Call.Args) == 1 && isNilIdent(f.Pkg.TypesInfo, cs.Call.Args[0]) {
				nilStored = true
			}
		}
	}
	if !nilStored {
		r.OK("C17.nil", "no nil target is stored into sql.Tx", "", "withOriginTx is never called with nil")
		return
	}
	// methods of Tx calling a method on field target without a nil guard
	unguarded := map[*types.Func]bool{}
	for i := 0; i < txT.NumMethods(); i++ {
		m := w.Info(txT.Method(i))
		if m == nil {
			continue
		}
		info := m.Pkg.TypesInfo
		var targetCond func(pkg *packages.Package, cond ast.Expr, branch bool) []flow.Tag
		targetCond = func(pkg *packages.Package, cond ast.Expr, branch bool) []flow.Tag {
			// (also as a predicate of the type with one returned comparison: `if !tx.hasLocalTx() { return nil }`)
			c0 := ast.Unparen(cond)
			if u, isNot := c0.(*ast.UnaryExpr); isNot && u.Op == token.NOT {
				return targetCond(pkg, u.X, !branch)
			}
			if call, isCall := c0.(*ast.CallExpr); isCall {
				if h := w.Info(core.Callee(pkg.TypesInfo, call)); h != nil && h.Pkg == m.Pkg && h.Decl.Body != nil && len(h.Decl.Body.List) == 1 {
					if rs, isRet := h.Decl.Body.List[0].(*ast.ReturnStmt); isRet && len(rs.Results) == 1 {
						return targetCond(h.Pkg, rs.Results[0], branch)
					}
				}
				return nil
			}
			be, ok := c0.(*ast.BinaryExpr)
			if !ok || (be.Op != token.EQL && be.Op != token.NEQ) || !isNilIdent(pkg.TypesInfo, be.Y) {
				return nil
			}
			if sel, ok := ast.Unparen(be.X).(*ast.SelectorExpr); ok && sel.Sel.Name == "target" {
				if (be.Op == token.NEQ) == branch {
					return []flow.Tag{"target-nonnil"}
				}
			}
			return nil
		}
		sp := &flow.Spec{W: w, CondTags: targetCond, Classify: func(pkg *packages.Package, call *ast.CallExpr, callee *types.Func) []flow.Tag {
			if sel, ok := ast.Unparen(call.Fun).(*ast.SelectorExpr); ok {
				if fs, ok := ast.Unparen(sel.X).(*ast.SelectorExpr); ok && fs.Sel.Name == "target" {
					if v, ok := info.Uses[fs.Sel].(*types.Var); ok && v.IsField() {
						return []flow.Tag{"deref"}
					}
				}
			}
			return nil
		}}
		res := sp.Analyze(m)
		for _, cp := range res.Calls {
			if inSet("deref", cp.Tags...) && !cp.Before.Has("target-nonnil") {
				unguarded[m.Obj] = true
			}
		}
	}
	// reachable from methods declared on XAConn?
	n := 0
	for _, f := range w.SortedFuncs() {
		if core.RecvNamed(f.Obj) != xc || w.IsTestFile(f.Decl.Pos()) {
			continue
		}
		for _, cs := range w.Calls(f) {
			hit := ""
			for _, c := range cs.Callees {
				if unguarded[c] {
					hit = core.ShortKey(c)
				}
				// one wrapper level inside Tx (Commit -> commitOnLocal)
				if g := w.Info(c); g != nil && core.RecvNamed(c) == txT {
					for _, cs2 := range w.Calls(g) {
						for _, c2 := range cs2.Callees {
							if unguarded[c2] {
								hit = core.ShortKey(c2)
							}
						}
					}
				}
			}
			if hit != "" {
				n++
				r.Sites++
				r.Bad("C17.nil", core.ShortKey(f.Obj)+" -> "+hit+" dereferences the nil XA target", w.Pos(cs.Call.Pos()), "in XA mode sql.Tx is created with a nil target (withOriginTx(nil)); this XA path calls "+hit+", which calls a method on that nil interface: the rollback of an XA branch panics")
			}
		}
	}
	if n == 0 {
		r.OK("C17.nil", "XA paths never dereference the nil Tx target", "", "every method of sql.Tx that uses its target is nil-guarded or unreachable from XAConn")
	}
}

// c17ResetExempt: flags whose life deliberately spans more than one branch life cycle, with the reason.
var c17ResetExempt = map[string]string{
	"XAConn.isConnKept": "the connection is held from phase one to phase two on purpose; lowered by releaseIfNecessary when the coordinator's XA COMMIT / XA ROLLBACK terminates the branch",
}

// c17Reset: boolean state fields raised by a method are lowered within the per-branch life cycle.
func c17Reset(r *core.Run, xc *types.Named) {
	w := r.W
	if xc == nil {
		return
	}
	owners := []*types.Named{xc}
	if st, ok := xc.Underlying().(*types.Struct); ok {
		for i := 0; i < st.NumFields(); i++ {
			if f := st.Field(i); f.Embedded() {
				t := f.Type()
				if p, ok := t.(*types.Pointer); ok {
					t = p.Elem()
				}
				if n, ok := t.(*types.Named); ok && n.Obj().Pkg() == xc.Obj().Pkg() {
					owners = append(owners, n)
				}
			}
		}
	}
	// life-cycle roots: the methods database/sql drives for every transaction on a pooled connection
	var roots []*core.FuncInfo
	for _, o := range owners {
		for _, name := range []string{"BeginTx", "Commit", "Rollback", "ResetSession"} {
			if m := methodInfo(w, o, name); m != nil {
				roots = append(roots, m)
			}
		}
	}
	if len(roots) < 3 {
		r.Anchor("C17.reset", nil, "BeginTx/Commit/Rollback/ResetSession of the XA connection")
		return
	}
	cycle := map[*core.FuncInfo]bool{}
	for _, f := range reachFrom(w, roots, core.Module+"/pkg/datasource/sql") {
		cycle[f] = true
	}
	for _, f := range roots {
		cycle[f] = true
	}
	type use struct{ raised, lowered []string }
	uses := map[*types.Var]*use{}
	lowerIn := map[*types.Var]bool{}
	for _, f := range w.SortedFuncs() {
		if w.IsTestFile(f.Decl.Pos()) || f.Decl.Body == nil || f.Pkg.PkgPath != xc.Obj().Pkg().Path() {
			continue
		}
		info := f.Pkg.TypesInfo
		ast.Inspect(f.Decl.Body, func(n ast.Node) bool {
			as, ok := n.(*ast.AssignStmt)
			if !ok || len(as.Lhs) != len(as.Rhs) {
				return true
			}
			for i, l := range as.Lhs {
				sel, ok := ast.Unparen(l).(*ast.SelectorExpr)
				if !ok {
					continue
				}
				fv, ok := info.Uses[sel.Sel].(*types.Var)
				if !ok || !fv.IsField() {
					continue
				}
				if b, ok := fv.Type().Underlying().(*types.Basic); !ok || b.Kind() != types.Bool {
					continue
				}
				owned := false
				for _, o := range owners {
					if st, ok := o.Underlying().(*types.Struct); ok {
						for j := 0; j < st.NumFields(); j++ {
							if st.Field(j) == fv {
								owned = true
							}
						}
					}
				}
				if !owned {
					continue
				}
				u := uses[fv]
				if u == nil {
					u = &use{}
					uses[fv] = u
				}
				v := core.ConstVal(info, as.Rhs[i])
				at := core.ShortKey(f.Obj)
				if v != nil && v.Kind() == constant.Bool && !constant.BoolVal(v) {
					u.lowered = append(u.lowered, at)
					if cycle[f] {
						lowerIn[fv] = true
					}
				} else {
					u.raised = append(u.raised, at)
				}
			}
			return true
		})
	}
	ownerOf := func(fv *types.Var) string {
		for _, o := range owners {
			if st, ok := o.Underlying().(*types.Struct); ok {
				for j := 0; j < st.NumFields(); j++ {
					if st.Field(j) == fv {
						return o.Obj().Name()
					}
				}
			}
		}
		return "?"
	}
	var fields []*types.Var
	for fv := range uses {
		fields = append(fields, fv)
	}
	sort.Slice(fields, func(i, j int) bool { return fields[i].Name() < fields[j].Name() })
	for _, fv := range fields {
		u := uses[fv]
		name := ownerOf(fv) + "." + fv.Name()
		r.Sites++
		key := "pkg/datasource/sql." + name + " raised flag is lowered within the branch life cycle"
		if len(u.raised) == 0 {
			r.OK("C17.reset", key, w.Pos(fv.Pos()), "never raised")
			continue
		}
		if why, ok := c17ResetExempt[name]; ok {
			r.OK("C17.reset", key, w.Pos(fv.Pos()), "exempt: "+why)
			continue
		}
		r.Check(lowerIn[fv], "C17.reset", key, w.Pos(fv.Pos()), "lowered by a function BeginTx/Commit/Rollback/ResetSession reach",
			"the flag is raised in "+strings.Join(u.raised, ", ")+" but lowered only in ["+strings.Join(u.lowered, ", ")+"], none of which the per-branch life cycle (BeginTx, Commit, Rollback, ResetSession) reaches: a pooled connection is reused without Close, so the flag stays raised for every later branch on it")
	}
}

// pureIDBuilder: every return of g is XaIdBuild(<param>, <param>) with two different parameters of g.
// Returns "" or what deviates.
func pureIDBuilder(g *core.FuncInfo) string {
	bad, n := "", 0
	ast.Inspect(g.Decl.Body, func(x ast.Node) bool {
		if _, ok := x.(*ast.FuncLit); ok {
			return false
		}
		rs, ok := x.(*ast.ReturnStmt)
		if !ok || len(rs.Results) != 1 {
			return true
		}
		n++
		c, ok := ast.Unparen(rs.Results[0]).(*ast.CallExpr)
		if !ok || core.Callee(g.Pkg.TypesInfo, c) == nil || core.Callee(g.Pkg.TypesInfo, c).Name() != "XaIdBuild" || len(c.Args) != 2 {
			bad = "returns '" + core.ExprString(rs.Results[0]) + "'"
			return true
		}
		a, b := origin(g, c.Args[0], 2), origin(g, c.Args[1], 2)
		if !strings.HasPrefix(a, "param:") || !strings.HasPrefix(b, "param:") || a == b {
			bad = "XaIdBuild(" + a + ", " + b + ")"
		}
		return true
	})
	if n == 0 {
		return "no return"
	}
	return bad
}

// c17Cleared: pointer fields of the XA connection that one of its methods sets to nil (the branch identifier in
// cleanXABranchContext) are not dereferenced afterwards in the same invocation: after a call on the receiver that
// may clear field F, and before F is assigned again or tested non-nil, there is no method call / field access
// through c.F and no call of a receiver method that dereferences c.F first thing (without testing it).
// A failure path that cleans the branch context and then formats its error message from the identifier panics
// instead of returning the error.
// c17ClearedExempt: methods where the cleaning call cannot clear the field, by an invariant the rule cannot see
// (confirmed by reading); the premise is re-checked on every run.
var c17ClearedExempt = map[string]string{
	"CloseForce": "only called on connections ranged out of the resource's keeper; a kept connection (isConnKept) keeps its identifier in cleanXABranchContext, so releaseIfNecessary finds it",
}

func c17Cleared(r *core.Run, xc *types.Named) {
	w := r.W
	st, ok := xc.Underlying().(*types.Struct)
	if !ok {
		return
	}
	var methods []*core.FuncInfo
	for _, f := range w.SortedFuncs() {
		if core.RecvNamed(f.Obj) == xc && !w.IsTestFile(f.Decl.Pos()) && f.Decl.Body != nil {
			methods = append(methods, f)
		}
	}
	onRecvField := func(f *core.FuncInfo, e ast.Expr) *types.Var {
		sel, ok := ast.Unparen(e).(*ast.SelectorExpr)
		if !ok {
			return nil
		}
		rv := recvVarOf(f)
		if rv == nil || core.ObjOf(f.Pkg.TypesInfo, sel.X) != rv {
			return nil
		}
		v, _ := f.Pkg.TypesInfo.Uses[sel.Sel].(*types.Var)
		if v == nil || !v.IsField() {
			return nil
		}
		return v
	}
	isRecvCall := func(f *core.FuncInfo, call *ast.CallExpr) *core.FuncInfo {
		sel, ok := ast.Unparen(call.Fun).(*ast.SelectorExpr)
		if !ok {
			return nil
		}
		rv := recvVarOf(f)
		if rv == nil || core.ObjOf(f.Pkg.TypesInfo, sel.X) != rv {
			return nil
		}
		g := w.Info(core.Callee(f.Pkg.TypesInfo, call))
		if g == nil || core.RecvNamed(g.Obj) != xc {
			return nil
		}
		return g
	}
	for i := 0; i < st.NumFields(); i++ {
		fld := st.Field(i)
		if _, isPtr := fld.Type().Underlying().(*types.Pointer); !isPtr {
			continue
		}
		// methods that may clear the field (directly; then through calls on the receiver, to a fixpoint)
		clears := map[*core.FuncInfo]bool{}
		for _, f := range methods {
			ast.Inspect(f.Decl.Body, func(n ast.Node) bool {
				if as, ok := n.(*ast.AssignStmt); ok {
					for i, l := range as.Lhs {
						if onRecvField(f, l) == fld && i < len(as.Rhs) && isNilIdent(f.Pkg.TypesInfo, as.Rhs[i]) {
							clears[f] = true
						}
					}
				}
				return true
			})
		}
		if len(clears) == 0 {
			continue
		}
		for changed := true; changed; {
			changed = false
			for _, f := range methods {
				if clears[f] {
					continue
				}
				ast.Inspect(f.Decl.Body, func(n ast.Node) bool {
					if c, ok := n.(*ast.CallExpr); ok {
						if g := isRecvCall(f, c); g != nil && clears[g] && !clears[f] {
							clears[f] = true
							changed = true
						}
					}
					return true
				})
			}
		}
		// dereference of c.F: a method call or field access through it
		derefIn := func(f *core.FuncInfo, n ast.Node) bool {
			hit := false
			ast.Inspect(n, func(m ast.Node) bool {
				if _, isLit := m.(*ast.FuncLit); isLit {
					return false
				}
				if sel, ok := m.(*ast.SelectorExpr); ok && onRecvField(f, sel.X) == fld {
					hit = true
				}
				return !hit
			})
			return hit
		}
		// methods that dereference the field before testing or assigning it (entry dereference)
		entryDeref := map[*core.FuncInfo]bool{}
		mkSpec := func(f *core.FuncInfo, onDeref func(pos token.Pos, what string, st *flow.State)) *flow.Spec {
			return &flow.Spec{W: w, Depth: 0, Inline: -1,
				Classify: func(pkg *packages.Package, call *ast.CallExpr, callee *types.Func) []flow.Tag {
					if g := isRecvCall(f, call); g != nil {
						var tags []flow.Tag
						if entryDeref[g] {
							tags = append(tags, "derefs")
						}
						if clears[g] {
							tags = append(tags, "cleared")
						}
						return tags
					}
					return nil
				},
				AssignTags: func(pkg *packages.Package, as *ast.AssignStmt) []flow.Tag {
					for i, l := range as.Lhs {
						if onRecvField(f, l) == fld && i < len(as.Rhs) {
							if isNilIdent(pkg.TypesInfo, as.Rhs[i]) {
								return []flow.Tag{"cleared"}
							}
							return []flow.Tag{"-cleared", "known"}
						}
					}
					return nil
				},
				CondTags: func(pkg *packages.Package, cond ast.Expr, branch bool) []flow.Tag {
					be, ok := ast.Unparen(cond).(*ast.BinaryExpr)
					if !ok || (be.Op != token.EQL && be.Op != token.NEQ) {
						return nil
					}
					x, y := be.X, be.Y
					if isNilIdent(pkg.TypesInfo, x) {
						x, y = y, x
					}
					if !isNilIdent(pkg.TypesInfo, y) || onRecvField(f, x) != fld {
						return nil
					}
					if (be.Op == token.NEQ) == branch {
						return []flow.Tag{"-cleared", "known"}
					}
					return nil
				},
				Visit: func(pkg *packages.Package, n ast.Node, st *flow.State) {
					if derefIn(f, n) {
						onDeref(n.Pos(), "c."+fld.Name(), st)
					}
				}}
		}
		for round := 0; round < 3; round++ {
			for _, f := range methods {
				if entryDeref[f] {
					continue
				}
				found := false
				sp := mkSpec(f, func(pos token.Pos, what string, st *flow.State) {
					if !st.Has("known") {
						found = true
					}
				})
				res := sp.Analyze(f)
				for _, cp := range res.Calls {
					if inSet("derefs", cp.Tags...) && !cp.Before.Has("known") {
						found = true
					}
				}
				if found {
					entryDeref[f] = true
				}
			}
		}
		// the rule: no dereference while the field may have been cleared in this invocation
		for _, f := range methods {
			bad := ""
			sp := mkSpec(f, func(pos token.Pos, what string, st *flow.State) {
				if st.Maybe("cleared") && bad == "" {
					bad = w.Pos(pos) + ": " + what + " is used"
				}
			})
			res := sp.Analyze(f)
			nSites := 0
			for _, cp := range res.Calls {
				if inSet("cleared", cp.Tags...) {
					nSites++
				}
				if inSet("derefs", cp.Tags...) && cp.Before.Maybe("cleared") && bad == "" {
					bad = w.Pos(cp.Call.Pos()) + ": " + core.ShortKey(cp.Callee) + " is called, which uses c." + fld.Name() + " without testing it"
				}
			}
			if nSites == 0 && !clears[f] {
				continue
			}
			r.Fn(f)
			r.Sites++
			if why, ok := c17ClearedExempt[f.Obj.Name()]; ok && bad != "" {
				// the exemption's premise is checked: every caller takes the connection out of the keeper
				premise := true
				nCallers := 0
				for _, cs := range w.Callers(f.Obj) {
					if w.IsTestFile(cs.Call.Pos()) {
						continue
					}
					nCallers++
					inKeeperRange := false
					if cs.InLit != nil {
						ast.Inspect(cs.Caller.Decl.Body, func(n ast.Node) bool {
							c, ok := n.(*ast.CallExpr)
							if !ok || len(c.Args) != 1 || ast.Unparen(c.Args[0]) != ast.Expr(cs.InLit) {
								return true
							}
							if sel, ok := ast.Unparen(c.Fun).(*ast.SelectorExpr); ok && sel.Sel.Name == "Range" {
								if inner, ok := ast.Unparen(sel.X).(*ast.CallExpr); ok {
									if g := core.Callee(cs.Caller.Pkg.TypesInfo, inner); g != nil && g.Name() == "GetKeeper" {
										inKeeperRange = true
									}
								}
							}
							return true
						})
					}
					if !inKeeperRange {
						premise = false
					}
				}
				if premise && nCallers > 0 {
					r.OK("C17.nil", core.ShortKey(f.Obj)+" does not use c."+fld.Name()+" after the branch context was cleaned", w.Pos(f.Decl.Pos()), "exempt: "+why)
					continue
				}
			}
			r.Check(bad == "", "C17.nil", core.ShortKey(f.Obj)+" does not use c."+fld.Name()+" after the branch context was cleaned", w.Pos(f.Decl.Pos()), "no use of the cleared field before it is set again",
				"after a call that may set c."+fld.Name()+" to nil, "+bad+": the failure path panics (nil pointer) instead of returning its error to the caller")
		}
	}
}

// c17IDText (C17.id): the text of the branch identifier — the String() of what XaIdBuild returns, used in every XA
// command and as the key under which the connection is kept for phase two — contains the whole global xid and the
// whole branch id: every value that can be returned is built from both fields, and nothing on the way cuts it (no
// slice or index expression, no width-limited formatting). Two branches of one global transaction differ in the
// last digits of the branch id only; a cut text gives them one identifier.
func c17IDText(r *core.Run, idBuild *core.FuncInfo) {
	w := r.W
	var idT *types.Named
	if sig, ok := idBuild.Obj.Type().(*types.Signature); ok && sig.Results().Len() >= 1 {
		t := sig.Results().At(0).Type()
		if p, isP := t.(*types.Pointer); isP {
			t = p.Elem()
		}
		idT, _ = t.(*types.Named)
	}
	str := methodInfo(w, idT, "String")
	if idT == nil || str == nil || str.Decl.Body == nil {
		r.Undecided("C17.id", "the branch identifier's String()", w.Pos(idBuild.Decl.Pos()), "XaIdBuild's result type has no String method with a body")
		return
	}
	r.Fn(str)
	info := str.Pkg.TypesInfo
	// every expression that can flow into a returned value
	var exprs []ast.Expr
	seen := map[types.Object]bool{}
	var add func(e ast.Expr, depth int)
	add = func(e ast.Expr, depth int) {
		if e == nil || depth > 5 {
			return
		}
		exprs = append(exprs, e)
		ast.Inspect(e, func(n ast.Node) bool {
			id, ok := n.(*ast.Ident)
			if !ok {
				return true
			}
			v, ok := info.Uses[id].(*types.Var)
			if !ok || v.IsField() || seen[v] || v.Parent() == v.Pkg().Scope() {
				return true
			}
			seen[v] = true
			for _, d := range localDefs(str, v) {
				add(d.rhs, depth+1)
			}
			return true
		})
	}
	ast.Inspect(str.Decl.Body, func(n ast.Node) bool {
		if rs, ok := n.(*ast.ReturnStmt); ok {
			for _, res := range rs.Results {
				add(res, 0)
			}
		}
		return true
	})
	cut := ""
	fields := map[string]bool{}
	for _, e := range exprs {
		ast.Inspect(e, func(n ast.Node) bool {
			switch x := n.(type) {
			case *ast.SliceExpr:
				cut = w.Pos(x.Pos()) + ": " + core.ExprString(x)
			case *ast.SelectorExpr:
				if v, ok := info.Uses[x.Sel].(*types.Var); ok && v.IsField() {
					fields[v.Name()] = true
				}
			case *ast.BasicLit:
				if x.Kind == token.STRING && strings.Contains(x.Value, "%.") {
					cut = w.Pos(x.Pos()) + ": format " + x.Value
				}
			}
			return true
		})
	}
	st, _ := idT.Underlying().(*types.Struct)
	var missing []string
	for i := 0; st != nil && i < st.NumFields(); i++ {
		fn := st.Field(i).Name()
		if (strings.EqualFold(fn, "xid") || strings.EqualFold(fn, "branchId")) && !fields[fn] {
			missing = append(missing, fn)
		}
	}
	r.Sites++
	why := ""
	switch {
	case cut != "":
		why = "the text is cut on its way (" + cut + ")"
	case len(missing) > 0:
		why = "the text does not contain " + strings.Join(missing, ", ")
	case len(fields) < 2:
		why = "the text is not built from the global xid and the branch id"
	}
	r.Check(why == "", "C17.id", core.ShortKey(str.Obj)+" : the identifier text holds the whole xid and the whole branch id", w.Pos(str.Decl.Pos()), "concatenation of both fields, uncut",
		why+": two branches of one global transaction (consecutive branch ids) can get the same identifier — their XA commands collide, the second connection replaces or loses its place under the shared key, and phase two addresses a connection that never prepared that branch")
}

// c17KeptAgreement (C17.reset): the connection of a prepared branch stays open for phase two. Read as propositional
// formulas over the calls and comparisons they are made of (one-return bool helpers expanded, receivers
// normalised), the condition under which the XA connection is marked kept (isConnKept = true: enclosing ifs, guard
// clauses before it, and the same at the call sites of an unexported helper that raises the flag) implies the
// condition under which a pool-initiated Close leaves a kept connection open — checked for every truth assignment
// of the atoms. A Close that asks another question closes the physical connection of a PREPARED branch while the
// keeper still hands it out for XA COMMIT / ROLLBACK. Shapes the reading does not recognise are left alone.
func c17KeptAgreement(r *core.Run, xc *types.Named) {
	w := r.W
	recvName := func(f *core.FuncInfo) string {
		if f.Decl.Recv != nil && len(f.Decl.Recv.List) == 1 && len(f.Decl.Recv.List[0].Names) == 1 {
			return f.Decl.Recv.List[0].Names[0].Name
		}
		return ""
	}
	atoms := map[string]bool{}
	var order []string
	// eval evaluates a condition of function f under the assignment env (atoms are registered on the way)
	var eval func(f *core.FuncInfo, e ast.Expr, env map[string]bool, depth int) bool
	eval = func(f *core.FuncInfo, e ast.Expr, env map[string]bool, depth int) bool {
		e = ast.Unparen(e)
		switch x := e.(type) {
		case *ast.BinaryExpr:
			switch x.Op {
			case token.LAND:
				a := eval(f, x.X, env, depth)
				b := eval(f, x.Y, env, depth)
				return a && b
			case token.LOR:
				a := eval(f, x.X, env, depth)
				b := eval(f, x.Y, env, depth)
				return a || b
			case token.NEQ, token.EQL:
				// x != c and x == c share the atom "x == c"
				key := c17Norm(types.ExprString(x.X), recvName(f)) + " == " + c17Norm(types.ExprString(x.Y), recvName(f))
				if !atoms[key] {
					atoms[key] = true
					order = append(order, key)
				}
				if x.Op == token.NEQ {
					return !env[key]
				}
				return env[key]
			}
		case *ast.UnaryExpr:
			if x.Op == token.NOT {
				return !eval(f, x.X, env, depth)
			}
		case *ast.CallExpr:
			if g := core.Callee(f.Pkg.TypesInfo, x); g != nil && len(x.Args) == 0 && depth < 3 {
				if gi := w.Info(g); gi != nil && gi.Decl.Body != nil && gi.Pkg == f.Pkg && len(gi.Decl.Body.List) == 1 {
					if rs, ok := gi.Decl.Body.List[0].(*ast.ReturnStmt); ok && len(rs.Results) == 1 {
						if b, ok := gi.Pkg.TypesInfo.TypeOf(rs.Results[0]).Underlying().(*types.Basic); ok && b.Info()&types.IsBoolean != 0 {
							return eval(gi, rs.Results[0], env, depth+1)
						}
					}
				}
			}
		}
		key := c17Norm(types.ExprString(e), recvName(f))
		if !atoms[key] {
			atoms[key] = true
			order = append(order, key)
		}
		return env[key]
	}
	mentionsKept := func(f *core.FuncInfo, e ast.Expr) bool {
		found := false
		var walk func(f *core.FuncInfo, e ast.Expr, depth int)
		walk = func(f *core.FuncInfo, e ast.Expr, depth int) {
			ast.Inspect(e, func(n ast.Node) bool {
				switch x := n.(type) {
				case *ast.SelectorExpr:
					if x.Sel.Name == "isConnKept" {
						found = true
					}
				case *ast.CallExpr:
					if g := core.Callee(f.Pkg.TypesInfo, x); g != nil && len(x.Args) == 0 && depth < 3 {
						if gi := w.Info(g); gi != nil && gi.Decl.Body != nil && gi.Pkg == f.Pkg && len(gi.Decl.Body.List) == 1 {
							if rs, ok := gi.Decl.Body.List[0].(*ast.ReturnStmt); ok && len(rs.Results) == 1 {
								walk(gi, rs.Results[0], depth+1)
							}
						}
					}
				}
				return true
			})
		}
		walk(f, e, 0)
		return found
	}
	terminates := func(b *ast.BlockStmt) bool {
		if b == nil || len(b.List) == 0 {
			return false
		}
		_, ok := b.List[len(b.List)-1].(*ast.ReturnStmt)
		return ok
	}
	// pathCond: the conjunction of conditions known where node x of f runs (enclosing ifs and earlier guard clauses)
	type lit struct {
		f   *core.FuncInfo
		e   ast.Expr
		neg bool
	}
	pathCond := func(f *core.FuncInfo, x ast.Node) []lit {
		var out []lit
		stack := enclosing(f.Decl.Body, x)
		for i, anc := range stack {
			switch a := anc.(type) {
			case *ast.IfStmt:
				if i+1 < len(stack) {
					if stack[i+1] == ast.Node(a.Body) {
						out = append(out, lit{f, a.Cond, false})
					} else if a.Else != nil && stack[i+1] == a.Else {
						out = append(out, lit{f, a.Cond, true})
					}
				}
			case *ast.BlockStmt:
				if i+1 < len(stack) {
					for _, st := range a.List {
						if st == stack[i+1] {
							break
						}
						if ifs, ok := st.(*ast.IfStmt); ok && ifs.Else == nil && terminates(ifs.Body) {
							out = append(out, lit{f, ifs.Cond, true})
						}
					}
				}
			}
		}
		return out
	}
	// the keeping side: one conjunction per site (with the call sites of an unexported helper), their disjunction
	var hold [][]lit
	var closeFn *core.FuncInfo
	var closeCond *lit
	shapes := true
	for _, f := range w.SortedFuncs() {
		if core.RecvNamed(f.Obj) != xc || w.IsTestFile(f.Decl.Pos()) || f.Decl.Body == nil {
			continue
		}
		info := f.Pkg.TypesInfo
		ast.Inspect(f.Decl.Body, func(n ast.Node) bool {
			switch x := n.(type) {
			case *ast.AssignStmt:
				if len(x.Lhs) == 1 && len(x.Rhs) == 1 {
					if sel, ok := ast.Unparen(x.Lhs[0]).(*ast.SelectorExpr); ok && sel.Sel.Name == "isConnKept" {
						v := core.ConstVal(info, x.Rhs[0])
						if v == nil {
							shapes = false // the flag is computed: another design
							return true
						}
						if v.String() != "true" {
							return true
						}
						own := pathCond(f, x)
						callers := w.Callers(f.Obj)
						if f.Obj.Exported() || len(callers) == 0 {
							hold = append(hold, own)
							return true
						}
						for _, cs := range callers {
							if cs.Caller == nil || cs.Caller.Decl.Body == nil || cs.InLit != nil || w.IsTestFile(cs.Call.Pos()) {
								if cs.Caller != nil && w.IsTestFile(cs.Call.Pos()) {
									continue
								}
								hold = append(hold, own)
								continue
							}
							hold = append(hold, append(append([]lit{}, own...), pathCond(cs.Caller, cs.Call)...))
						}
					}
				}
			case *ast.IfStmt:
				if f.Obj.Name() != "Close" || !mentionsKept(f, x.Cond) || !terminates(x.Body) {
					return true
				}
				closes := false
				ast.Inspect(x.Body, func(m ast.Node) bool {
					if c, ok := m.(*ast.CallExpr); ok {
						if g := core.Callee(info, c); g != nil && g.Name() == "Close" {
							closes = true
						}
					}
					return true
				})
				if closeCond != nil {
					shapes = false
					return true
				}
				closeFn = f
				closeCond = &lit{f, x.Cond, closes}
			}
			return true
		})
	}
	if !shapes || len(hold) == 0 || closeCond == nil {
		return // another design of keeping connections: C20.release and C17.legal cover what they can
	}
	// register the atoms
	evalAll := func(env map[string]bool) (h, c bool) {
		for _, conj := range hold {
			all := true
			for _, l := range conj {
				v := eval(l.f, l.e, env, 0)
				if l.neg {
					v = !v
				}
				if !v {
					all = false
				}
			}
			if all {
				h = true
			}
		}
		c = eval(closeCond.f, closeCond.e, env, 0)
		if closeCond.neg {
			c = !c
		}
		return
	}
	evalAll(map[string]bool{})
	sort.Strings(order)
	keptAtom := ""
	for _, a := range order {
		if strings.HasSuffix(a, ".isConnKept") {
			keptAtom = a
		}
	}
	if len(order) > 14 || keptAtom == "" {
		return
	}
	var free []string
	for _, a := range order {
		if a != keptAtom {
			free = append(free, a)
		}
	}
	counter := ""
	for m := 0; m < 1<<len(free) && counter == ""; m++ {
		env := map[string]bool{}
		for i, a := range free {
			env[a] = m&(1<<i) != 0
		}
		// the flag is raised by the keeping side's own assignment: it does not constrain the keeping condition
		env[keptAtom] = false
		h0, _ := evalAll(env)
		env[keptAtom] = true
		h1, c := evalAll(env)
		if (h0 || h1) && !c {
			var parts []string
			for _, a := range free {
				parts = append(parts, fmt.Sprintf("%s=%v", a, env[a]))
			}
			counter = strings.Join(parts, ", ")
		}
	}
	r.Sites++
	r.Fn(closeFn)
	r.Check(counter == "", "C17.reset", core.ShortKey(closeFn.Obj)+" leaves a kept connection open under the test it was kept under", w.Pos(closeFn.Decl.Pos()), "kept implies left open, for every value of: "+strings.Join(order, "; "),
		"with "+counter+" the connection is marked kept but Close does not leave it open: database/sql's Close (idle limit, lifetime) closes the physical connection of a PREPARED branch, and phase two sends XA COMMIT / ROLLBACK to a dead session")
}

// c17Norm replaces the receiver's name in the text of an expression.
func c17Norm(s, recv string) string {
	if recv == "" {
		return s
	}
	return regexp.MustCompile(`\b`+regexp.QuoteMeta(recv)+`\b`).ReplaceAllString(s, "recv")
}
