package rules

import (
	"go/ast"
	"go/constant"
	"go/token"
	"go/types"
	"sort"
	"strings"

	"golang.org/x/tools/go/packages"

	"seatalint/internal/core"
	"seatalint/internal/flow"
)

func init() { register("C16", checkC16) }

const (
	pExec   = core.Module + "/pkg/datasource/sql/exec"
	pParser = core.Module + "/pkg/datasource/sql/parser"
)

// gtxPred: does cond (taken on `branch`) imply that a global transaction / branch is in progress?
// Accepted predicates (confirmed by reading): tm.IsGlobalTx(ctx); TransactionMode compared with
// Local/ATMode/XAMode; BranchType() compared with BranchTypeUnknow; BranchID compared with 0;
// TransactionContext.OpenGlobalTransaction / IsBranchRegistered; ExecContext.IsRequireGlobalLock.
func gtxPred(info *types.Info, cond ast.Expr, branch bool) bool {
	cond = ast.Unparen(cond)
	switch x := cond.(type) {
	case *ast.UnaryExpr:
		if x.Op == token.NOT {
			return gtxPred(info, x.X, !branch)
		}
	case *ast.BinaryExpr:
		switch x.Op {
		case token.LAND:
			if branch {
				return gtxPred(info, x.X, true) || gtxPred(info, x.Y, true)
			}
			return gtxPred(info, x.X, false) && gtxPred(info, x.Y, false)
		case token.LOR:
			if branch {
				return gtxPred(info, x.X, true) && gtxPred(info, x.Y, true)
			}
			return gtxPred(info, x.X, false) || gtxPred(info, x.Y, false)
		case token.EQL, token.NEQ:
			eq := (x.Op == token.EQL) == branch
			c := core.ConstObj(info, x.Y)
			if c != nil {
				switch c.Name() {
				case "Local", "BranchTypeUnknow":
					return !eq
				case "ATMode", "XAMode", "BranchTypeAT", "BranchTypeXA", "BranchTypeTCC":
					return eq
				}
			}
			if v := core.ConstVal(info, x.Y); v != nil && v.Kind() == constant.Int && v.ExactString() == "0" {
				if sel, ok := ast.Unparen(x.X).(*ast.SelectorExpr); ok && sel.Sel.Name == "BranchID" {
					return !eq
				}
			}
			if v := core.ConstVal(info, x.Y); v != nil && v.Kind() == constant.String && constant.StringVal(v) == "" {
				if sel, ok := ast.Unparen(x.X).(*ast.SelectorExpr); ok && (sel.Sel.Name == "XID" || sel.Sel.Name == "Xid") {
					return !eq
				}
			}
		}
	case *ast.CallExpr:
		f := core.Callee(info, x)
		if f == nil {
			return false
		}
		if core.IsPkgFunc(f, pTM, "IsGlobalTx") {
			return branch
		}
		if rn := core.RecvNamed(f); rn != nil && rn.Obj().Name() == "TransactionContext" && inSet(f.Name(), "OpenGlobalTransaction", "IsBranchRegistered", "HasUndoLog", "HasLockKey") {
			return branch
		}
	case *ast.SelectorExpr:
		if x.Sel.Name == "IsRequireGlobalLock" {
			return branch
		}
	case *ast.Ident:
		// boolean computed from accepted predicates: `onceTx := tm.IsGlobalTx(ctx) && c.autoCommit`
		return false
	}
	return false
}

// proxyTypes: driver-interface implementations of pkg/datasource/sql.
func proxyTypes(w *core.World) []*types.Named {
	seen := map[*types.Named]bool{}
	var out []*types.Named
	for _, iface := range []string{"Conn", "Stmt", "Tx", "Connector", "Driver"} {
		for _, n := range driverImplsIn(w, "pkg/datasource/sql", iface) {
			if !seen[n] {
				seen[n] = true
				out = append(out, n)
			}
		}
	}
	sort.Slice(out, func(i, j int) bool { return out[i].Obj().Name() < out[j].Obj().Name() })
	return out
}

var driverMethodNames = map[string]bool{"Prepare": true, "PrepareContext": true, "Exec": true, "ExecContext": true, "Query": true, "QueryContext": true,
	"Begin": true, "BeginTx": true, "Commit": true, "Rollback": true, "Close": true, "ResetSession": true, "Ping": true, "Connect": true, "Open": true,
	"OpenConnector": true, "NumInput": true, "IsValid": true, "CheckNamedValue": true, "Driver": true}

func checkC16(r *core.Run) {
	r.Explain = "Decided statically: (C16.notraffic) on every call chain from a database/sql/driver entry point of the proxy types to a remoting sink (BranchRegister, BranchReport, LockQuery, SendSyncRequest) at least one call site is control-dependent on an accepted global-transaction predicate; (C16.forward) pass-through methods hand the target driver their own ctx / query / args (or the repo's value<->named conversion of them), never a fresh context, and use the executor's result only on its nil-error edge; (C16.noextra) outside a global transaction no failure source of the proxy's own (SQL parser, table-meta lookup) lies on the path of a statement; (C16.execctx) every ExecContext literal handed to an executor sets the non-boolean fields the live AT executors read. (C16.reset) when database/sql reuses a pooled connection (ResetSession delegating to the driver) the proxy's transaction context is a fresh one — or is cleared by a method that assigns every field of the context, the transaction mode included; (C16.once) a connection method that installs a one-statement transaction context (createOnceTxContext answered true) puts a fresh local context back on every exit, failing ones included — otherwise the connection keeps AT/XA mode and the old xid after the global transaction and later local work is treated as a branch; (C16.dispatch) the AT executor dispatch constructs an executor that issues statements of its own (image queries, lock queries) only on paths where tm.IsGlobalTx holds for the context of the current call — state kept in a TransactionContext is not accepted there, because a prepared statement keeps the context it was prepared with. (C16.noextra, also) a connection method that asks tm.IsGlobalTx assigns no field of the connection where the answer is no; NOT decided: result equivalence of arbitrary statement programs (differential behaviour)."
	r.Explain += " Round 8: (C16.forward) every non-error exit of a live AT executor's ExecContext may have run the application's statement (callback called or handed on)."
	r.Trusted = []string{"go/types, go/cfg", "CHA over repository types; database/sql/driver interfaces are the wrapped driver"}
	w := r.W
	pts := proxyTypes(w)
	if len(pts) < 6 {
		r.Anchor("C16.anchor", nil, "driver.Conn/Stmt/Tx/Connector/Driver implementations in pkg/datasource/sql")
		return
	}
	isProxy := map[*types.Named]bool{}
	for _, n := range pts {
		isProxy[n] = true
	}
	var entries []*core.FuncInfo
	for _, f := range w.SortedFuncs() {
		if f.Pkg.PkgPath != pDSSQL || w.IsTestFile(f.Decl.Pos()) {
			continue
		}
		if rn := core.RecvNamed(f.Obj); rn != nil && isProxy[rn] && driverMethodNames[f.Obj.Name()] {
			entries = append(entries, f)
		}
	}
	isSink := func(f *types.Func) bool {
		return isBranchRegister(w, f) || isBranchReport(w, f) || isLockQuery(w, f) || isSendSync(f)
	}
	// ---- per-call-site guardedness in the proxy and executor packages
	scope := func(f *core.FuncInfo) bool {
		return hasPrefixAny(f.Pkg.PkgPath, pDSSQL) && !strings.Contains(f.Pkg.PkgPath, "/mock") && !strings.HasPrefix(f.Pkg.PkgPath, pUndo+"/builder") && !w.IsTestFile(f.Decl.Pos())
	}
	guarded := map[*ast.CallExpr]bool{}
	analyseGuards := func(f *core.FuncInfo) {
		sp := &flow.Spec{W: w, Depth: 0,
			Classify: func(pkg *packages.Package, call *ast.CallExpr, callee *types.Func) []flow.Tag {
				// a helper of the package that answers a flag (`request, need := branchRegisterParam(ctx)`) is read
				// in the caller's context: the tests it made hold where the caller has tested the flag
				if g := w.Info(callee); g != nil && g.Pkg == pkg && g.Decl.Body != nil {
					rs := callee.Type().(*types.Signature).Results()
					nb := 0
					for i := 0; i < rs.Len(); i++ {
						if b, ok := rs.At(i).Type().Underlying().(*types.Basic); ok && b.Kind() == types.Bool {
							nb++
						}
					}
					if nb == 1 && rs.Len() == 2 {
						return nil
					}
				}
				return []flow.Tag{"c"}
			},
			CondTags: func(pkg *packages.Package, cond ast.Expr, branch bool) []flow.Tag {
				if gtxPred(pkg.TypesInfo, cond, branch) {
					return []flow.Tag{"gtx"}
				}
				return nil
			}}
		record := func(res *flow.Result) {
			for _, cp := range res.Calls {
				if cp.Before.Has("gtx") {
					guarded[cp.Call] = true
				}
			}
		}
		record(sp.Analyze(f))
		ast.Inspect(f.Decl.Body, func(n ast.Node) bool {
			if lit, ok := n.(*ast.FuncLit); ok {
				record(sp.AnalyzeLit(f.Pkg, lit))
			}
			return true
		})
	}
	for _, f := range w.SortedFuncs() {
		if scope(f) {
			analyseGuards(f)
		}
	}
	// interface calls: a target type all of whose constructions in the calling function are guarded is
	// itself only reached under the guard (the executor dispatch builds the transactional executors in the
	// branch where a global transaction exists and calls the chosen one after the join)
	// recvTypes: concrete types the receiver variable of an interface call can hold, from the constructor calls
	// assigned to it in the same function, each with whether some assignment is unguarded (mini points-to).
	// valueTypes: the concrete types an interface-typed expression of f can hold, each with whether some way of
	// producing it is unguarded (true = open). Followed: a local variable (its definitions), a constructor call,
	// a helper of the repository that itself hands back the interface (its return expressions, each guarded by the
	// helper's own tests or by the guard of the call to the helper), a function value taken from a dispatch table
	// (every function the table holds). nil: something the rule cannot see through.
	var valueTypes func(f *core.FuncInfo, e ast.Expr, outerGuarded bool, depth int) map[*types.Named]bool
	valueTypes = func(f *core.FuncInfo, e ast.Expr, outerGuarded bool, depth int) map[*types.Named]bool {
		if depth <= 0 {
			return nil
		}
		info := f.Pkg.TypesInfo
		out := map[*types.Named]bool{}
		add := func(t *types.Named, open bool) {
			if open {
				out[t] = true
			} else if _, seen := out[t]; !seen {
				out[t] = false
			}
		}
		merge := func(m map[*types.Named]bool) bool {
			if m == nil {
				return false
			}
			for t, open := range m {
				add(t, open)
			}
			return true
		}
		e = ast.Unparen(e)
		switch x := e.(type) {
		case *ast.Ident:
			v, ok := info.Uses[x].(*types.Var)
			if !ok || v.IsField() || isParam(f, v) {
				return nil
			}
			for _, d := range localDefs(f, v) {
				if bl, ok := d.rhs.(*ast.BasicLit); ok && bl.Value == "zero" {
					continue // `var x T` without a value
				}
				if d.idx > 0 || d.rng {
					return nil
				}
				if !merge(valueTypes(f, d.rhs, outerGuarded, depth)) {
					return nil
				}
			}
			return out
		case *ast.CallExpr:
			g := w.Info(core.Callee(info, x))
			open := !(guarded[x] || outerGuarded)
			var targets []*core.FuncInfo
			if g != nil {
				targets = []*core.FuncInfo{g}
			} else {
				for _, t := range w.TableTargets(f, x) {
					if ti := w.Info(t); ti != nil {
						targets = append(targets, ti)
					} else {
						return nil
					}
				}
			}
			if len(targets) == 0 {
				return nil
			}
			for _, g := range targets {
				ts := returnedTypes(g)
				if len(ts) == 0 {
					return nil
				}
				iface := false
				for _, t := range ts {
					if types.IsInterface(t) {
						iface = true
					}
				}
				if !iface {
					for _, t := range ts {
						add(t, open)
					}
					continue
				}
				// the callee hands out an interface value itself: what its returns can hold
				if g.Decl.Body == nil || !scope(g) {
					return nil
				}
				okAll := true
				ast.Inspect(g.Decl.Body, func(n ast.Node) bool {
					if _, isLit := n.(*ast.FuncLit); isLit {
						return false
					}
					rs, isRet := n.(*ast.ReturnStmt)
					if !isRet || len(rs.Results) == 0 {
						return true
					}
					if !merge(valueTypes(g, rs.Results[0], !open, depth-1)) {
						okAll = false
					}
					return true
				})
				if !okAll {
					return nil
				}
			}
			return out
		case *ast.UnaryExpr:
			if x.Op == token.AND {
				if cl, ok := ast.Unparen(x.X).(*ast.CompositeLit); ok {
					if nt, ok := info.TypeOf(cl).(*types.Named); ok {
						add(nt, !outerGuarded)
						return out
					}
				}
			}
		}
		return nil
	}
	recvTypes := func(f *core.FuncInfo, call *ast.CallExpr) map[*types.Named]bool {
		sel, ok := ast.Unparen(call.Fun).(*ast.SelectorExpr)
		if !ok {
			return nil
		}
		return valueTypes(f, sel.X, false, 3)
	}
	ctorGuard := func(f *core.FuncInfo, cs *core.CallSite, target *types.Func) bool {
		rt := recvTypes(f, cs.Call)
		if rt == nil {
			return false
		}
		open, known := rt[core.RecvNamed(target)]
		return !known || !open
	}
	// openEdges enumerates the callees of f reachable through call sites that are not guarded
	type edge struct {
		cs *core.CallSite
		to *types.Func
	}
	openEdges := func(f *core.FuncInfo) []edge {
		var out []edge
		for _, cs := range w.Calls(f) {
			if guarded[cs.Call] {
				continue
			}
			// calls through the wrapped driver's interfaces do not come back into the proxy
			if cs.Iface && cs.Static.Pkg() != nil && cs.Static.Pkg().Path() == pDriver {
				continue
			}
			for _, c := range cs.Callees {
				if cs.Iface && ctorGuard(f, cs, c) {
					continue
				}
				out = append(out, edge{cs, c})
			}
			if cs.Iface && len(cs.Callees) == 0 {
				out = append(out, edge{cs, cs.Static})
			}
		}
		return out
	}
	// ---- C16.notraffic: search over unguarded edges from statement / transaction entry points
	type node struct {
		f    *core.FuncInfo
		path []string
	}
	search := func(e *core.FuncInfo, hit func(*types.Func) bool) []string {
		var found []string
		seen := map[*core.FuncInfo]bool{e: true}
		q := []node{{e, []string{core.ShortKey(e.Obj)}}}
		for len(q) > 0 {
			n := q[0]
			q = q[1:]
			if len(n.path) > 10 {
				continue
			}
			for _, ed := range openEdges(n.f) {
				if hit(ed.to) || hit(ed.cs.Static) {
					found = append(found, strings.Join(append(append([]string{}, n.path...), core.ShortKey(ed.to)+" @"+w.Pos(ed.cs.Call.Pos())), " -> "))
					continue
				}
				g := w.Info(ed.to)
				if g == nil || seen[g] || (!scope(g) && !strings.HasPrefix(g.Pkg.PkgPath, pRM)) {
					continue
				}
				seen[g] = true
				q = append(q, node{g, append(append([]string{}, n.path...), core.ShortKey(ed.to))})
			}
		}
		return found
	}
	setupEntry := func(e *core.FuncInfo) bool {
		// opening a database registers the resource with the coordinator by design; these are not statement paths
		rn := core.RecvNamed(e.Obj)
		return implementsDriver(w, e.Obj, "Driver") || implementsDriver(w, e.Obj, "DriverContext") || implementsDriver(w, e.Obj, "Connector") || (rn != nil && strings.Contains(strings.ToLower(rn.Obj().Name()), "driver"))
	}
	for _, e := range entries {
		if setupEntry(e) {
			continue
		}
		r.Fn(e)
		leaks := search(e, isSink)
		r.Sites++
		leak := ""
		if len(leaks) > 0 {
			leak = leaks[0]
		}
		r.Check(leak == "", "C16.notraffic", core.ShortKey(e.Obj)+" reaches the coordinator only under a global-transaction guard", w.Pos(e.Decl.Pos()), "every chain to a remoting sink passes a guarded call site",
			"coordinator traffic is reachable without any global-transaction test on the way: "+leak)
	}
	// ---- C16.forward
	for _, e := range entries {
		c16Forward(r, e)
	}
	// ---- C16.noextra: the proxy's own failure sources reachable from a statement entry without a guard,
	// reported once per function that contains the unguarded call (root cause), with one witness chain
	isOwnFailure := func(f *types.Func) bool {
		return core.IsPkgFunc(f, pParser, "DoParser") || isIfaceOrImpl(w, f, "pkg/datasource/sql/datasource", "TableMetaCache", "GetTableMeta")
	}
	stmtEntries := map[string]bool{"Exec": true, "ExecContext": true, "Query": true, "QueryContext": true, "Prepare": true, "PrepareContext": true}
	root := map[string]string{}
	nStmt := 0
	for _, e := range entries {
		if !stmtEntries[e.Obj.Name()] || setupEntry(e) {
			continue
		}
		nStmt++
		for _, chain := range search(e, isOwnFailure) {
			parts := strings.Split(chain, " -> ")
			if len(parts) < 2 {
				continue
			}
			site := parts[len(parts)-2] + " -> " + strings.Split(parts[len(parts)-1], " @")[0]
			if _, ok := root[site]; !ok {
				root[site] = chain
			}
		}
	}
	var sites []string
	for s := range root {
		sites = append(sites, s)
	}
	sort.Strings(sites)
	for _, sname := range sites {
		r.Sites++
		r.Bad("C16.noextra", sname+" outside a global transaction", "", "a statement outside any global transaction still runs the proxy's own failure source: "+root[sname]+" (the bundled SQL parser rejects some valid MySQL, e.g. SHOW ENGINE INNODB STATUS): statements the bare driver accepts fail through the proxy")
	}
	r.Sites++
	r.Check(nStmt >= 10, "C16.noextra", "statement entry points examined", "", itoa(nStmt)+" Exec/Query/Prepare entry points searched for unguarded parser / metadata calls", "fewer statement entry points than confirmed by hand")
	c16ExecCtx(r)
	c16Dispatch(r)
	r.Floor("C16.dispatch", 5)
	c16Once(r)
	r.Floor("C16.once", 6)
	c16ResetSession(r)
	r.Floor("C16.reset", 1)
	c16Delegates(r)
	c16BusinessRuns(r)
	r.Floor("C16.notraffic", 25)
	r.Floor("C16.forward", 20)
	c16NoStateOutside(r)
	r.Floor("C16.noextra", 1)
	r.Floor("C16.execctx", 4)
}

// c16Forward: context / query / args forwarding and result use in one proxy method.
func c16Forward(r *core.Run, e *core.FuncInfo) {
	w := r.W
	info := e.Pkg.TypesInfo
	var ctxParam types.Object
	for _, p := range paramObjs(e) {
		if p.Type().String() == "context.Context" {
			ctxParam = p
		}
	}
	key := core.ShortKey(e.Obj)
	// every context argument passed anywhere in the method derives from the method's ctx parameter
	if ctxParam != nil {
		var fresh []string
		ast.Inspect(e.Decl.Body, func(n ast.Node) bool {
			c, ok := n.(*ast.CallExpr)
			if !ok {
				return true
			}
			for _, a := range c.Args {
				if t := info.TypeOf(a); t == nil || t.String() != "context.Context" {
					continue
				}
				if ac, ok := ast.Unparen(a).(*ast.CallExpr); ok && (core.IsPkgFunc(core.Callee(info, ac), "context", "Background") || core.IsPkgFunc(core.Callee(info, ac), "context", "TODO")) {
					fresh = append(fresh, core.ExprString(c.Fun)+"("+core.ExprString(a)+")")
				}
			}
			return true
		})
		r.Sites++
		r.Check(len(fresh) == 0, "C16.forward", key+" forwards its own context", w.Pos(e.Decl.Pos()), "no fresh context passed on", "the method receives a context but passes a fresh one on: "+strings.Join(fresh, ", ")+" — the caller's cancellation/deadline is lost and a global transaction carried by the context is not seen")
	}
	// calls on the wrapped driver: query/args are the method's own
	ast.Inspect(e.Decl.Body, func(n ast.Node) bool {
		c, ok := n.(*ast.CallExpr)
		if !ok {
			return true
		}
		f := core.Callee(info, c)
		if f == nil || f.Pkg() == nil || f.Pkg().Path() != pDriver || !driverMethodNames[f.Name()] {
			return true
		}
		for i, a := range c.Args {
			t := info.TypeOf(a)
			if t == nil {
				continue
			}
			o := origin(e, a, 4)
			okArg := true
			switch t.String() {
			case "string":
				okArg = strings.HasPrefix(o, "param:") || strings.HasPrefix(o, "var:") || strings.HasSuffix(o, ".query")
			case "[]database/sql/driver.NamedValue", "[]database/sql/driver.Value":
				okArg = strings.HasPrefix(o, "param:") || strings.HasPrefix(o, "var:") || strings.Contains(o, "util.NamedValueToValue(") || strings.Contains(o, "util.ValueToNamedValue(") || strings.Contains(o, "builtin:append(") || strings.Contains(o, "builtin:make(")
			case "database/sql/driver.TxOptions":
				// the isolation level / read-only flag the application asked for: the method's own parameter, not a
				// copy kept elsewhere (the transaction context is filled by the AT wrapper only)
				okArg = false
				for _, p := range paramObjs(e) {
					if o == "param:"+p.Name() {
						okArg = true
					}
				}
			default:
				continue
			}
			r.Sites++
			r.Check(okArg, "C16.forward", key+" -> driver."+f.Name()+" argument "+itoa(i+1)+" is the caller's", w.Pos(c.Pos()), o, "the wrapped driver receives "+o+" instead of the caller's own "+t.String())
		}
		return true
	})
	// executor result used only on its nil-error edge
	isExecStep := func(f *types.Func) bool {
		return f != nil && (isIfaceOrImpl(w, f, "pkg/datasource/sql/exec", "SQLExecutor", f.Name()) || (w.Info(f) != nil && w.Info(f).Pkg.PkgPath == pDSSQL && strings.Contains(f.Type().String(), "types.ExecResult")))
	}
	sp := &flow.Spec{W: w, Depth: 0, Classify: func(pkg *packages.Package, call *ast.CallExpr, callee *types.Func) []flow.Tag {
		if callee != nil && inSet(callee.Name(), "GetResult", "GetRows") && isIfaceOrImpl(w, callee, "pkg/datasource/sql/types", "ExecResult", callee.Name()) {
			return []flow.Tag{"useresult"}
		}
		if isExecStep(callee) {
			return []flow.Tag{"exec"}
		}
		return nil
	}}
	res := sp.Analyze(e)
	for _, cp := range res.Calls {
		if inSet("useresult", cp.Tags...) && cp.Before.Maybe("exec") {
			r.Sites++
			r.Check(cp.Before.Has("ok:exec"), "C16.forward", key+" uses the executor's result only when it succeeded", w.Pos(cp.Call.Pos()), "dominated by the nil-error edge", "the executor's result is dereferenced without checking its error: when the statement fails the result is nil and the proxy panics instead of returning the driver's error")
		}
	}
}

// c16ExecCtx: fields read by live AT executors vs fields set by each ExecContext literal.
func c16ExecCtx(r *core.Run) {
	w := r.W
	ec := w.NamedType("pkg/datasource/sql/types", "ExecContext")
	_, live := liveATExecutors(w)
	if ec == nil || len(live) == 0 {
		r.Anchor("C16.execctx", nil, "types.ExecContext and the live AT executors")
		return
	}
	st := ec.Underlying().(*types.Struct)
	isField := map[*types.Var]bool{}
	for i := 0; i < st.NumFields(); i++ {
		isField[st.Field(i)] = true
	}
	var roots []*core.FuncInfo
	for _, t := range live {
		if t.Obj().Name() == "plainExecutor" {
			continue
		}
		roots = append(roots, methodInfo(w, t, "ExecContext"))
	}
	read := map[string]bool{}
	for _, f := range reachFrom(w, roots, pExecAT) {
		ast.Inspect(f.Decl.Body, func(n ast.Node) bool {
			if sel, ok := n.(*ast.SelectorExpr); ok {
				if v, ok := f.Pkg.TypesInfo.Uses[sel.Sel].(*types.Var); ok && isField[v] {
					if b, ok := v.Type().Underlying().(*types.Basic); ok && b.Kind() == types.Bool {
						return true // false is a meaningful default
					}
					read[v.Name()] = true
				}
			}
			return true
		})
	}
	delete(read, "Values") // converted into NamedValues by ExecWithValue
	var need []string
	for f := range read {
		need = append(need, f)
	}
	sort.Strings(need)
	n := 0
	for _, f := range w.SortedFuncs() {
		if f.Pkg.PkgPath != pDSSQL || w.IsTestFile(f.Decl.Pos()) {
			continue
		}
		info := f.Pkg.TypesInfo
		ast.Inspect(f.Decl.Body, func(x ast.Node) bool {
			cl, ok := x.(*ast.CompositeLit)
			if !ok {
				return true
			}
			if t, ok := info.TypeOf(cl).(*types.Named); !ok || t != ec {
				return true
			}
			n++
			r.Sites++
			r.Fn(f)
			set := map[string]bool{}
			for _, el := range cl.Elts {
				if kv, ok := el.(*ast.KeyValueExpr); ok {
					if k, ok := kv.Key.(*ast.Ident); ok {
						set[k.Name] = true
					}
				}
			}
			if set["Values"] {
				set["NamedValues"] = true
			}
			// only a literal that travels with a caller-supplied context can meet a global transaction
			withCallerCtx := false
			ast.Inspect(f.Decl.Body, func(y ast.Node) bool {
				c, ok := y.(*ast.CallExpr)
				if !ok || len(c.Args) < 2 {
					return true
				}
				callee := core.Callee(info, c)
				if callee == nil || !isIfaceOrImpl(w, callee, "pkg/datasource/sql/exec", "SQLExecutor", callee.Name()) {
					return true
				}
				if findCompositeLit(f, c.Args[1]) != cl {
					return true
				}
				o := origin(f, c.Args[0], 3)
				if o != "call:context.Background()" && o != "call:context.TODO()" {
					withCallerCtx = true
				}
				return true
			})
			if !withCallerCtx {
				r.OK("C16.execctx", core.ShortKey(f.Obj)+" : ExecContext sets what the AT executors read", w.Pos(cl.Pos()), "handed over with a background context only: never inside a global transaction, the plain executor reads none of the missing fields")
				return true
			}
			var missing []string
			for _, fld := range need {
				if !set[fld] && fld != "ParseContext" && fld != "MetaDataMap" {
					missing = append(missing, fld)
				}
			}
			r.Check(len(missing) == 0, "C16.execctx", core.ShortKey(f.Obj)+" : ExecContext sets what the AT executors read", w.Pos(cl.Pos()), "sets "+strings.Join(need, ","),
				"this ExecContext leaves "+strings.Join(missing, ", ")+" unset, which the AT executors read: inside a global transaction the statement fails ('invalid conn') or looks up metadata of the wrong database instead of running")
			return true
		})
	}
	if n == 0 {
		r.Bad("C16.execctx", "ExecContext literals", "", "no ExecContext literal found in the proxy")
	}
}

// c16Dispatch: image-building executors are chosen only under tm.IsGlobalTx(ctx) of the current call.
func c16Dispatch(r *core.Run) {
	w := r.W
	dispatch, live := liveATExecutors(w)
	if dispatch == nil {
		r.Anchor("C16.dispatch", nil, "AT executor dispatch (SQLExecutor.ExecWithNamedValue in exec/at)")
		return
	}
	r.Fn(dispatch)
	// executors that talk to the database on their own
	own := map[*types.Named]bool{}
	for _, t := range live {
		ec := methodInfo(w, t, "ExecContext")
		if ec == nil {
			continue
		}
		fs := append(reachFrom(w, []*core.FuncInfo{ec}, pExecAT), ec)
		for _, f := range fs {
			for _, cs := range w.Calls(f) {
				if cs.Static != nil && cs.Static.Pkg() != nil && cs.Static.Pkg().Path() == "database/sql/driver" {
					own[t] = true
				}
				if cs.Static != nil && (isBranchRegister(w, cs.Static) || isLockQuery(w, cs.Static)) {
					own[t] = true
				}
			}
		}
	}
	var ctxParam types.Object
	for _, p := range paramObjs(dispatch) {
		if p.Type().String() == "context.Context" {
			ctxParam = p
		}
	}
	var sp *flow.Spec
	sp = &flow.Spec{W: w, Depth: 0, Split: []flow.Tag{"true:isglobal", "false:isglobal"},
		Classify: func(pkg *packages.Package, call *ast.CallExpr, callee *types.Func) []flow.Tag {
			// (inside a helper of the dispatch analysed in its context, the helper's ctx parameter stands for the dispatch's)
			if core.IsPkgFunc(callee, pTM, "IsGlobalTx") && len(call.Args) == 1 {
				if o := core.ObjOf(pkg.TypesInfo, call.Args[0]); o != nil && sp.RootOf(o) == ctxParam {
					return []flow.Tag{"isglobal"}
				}
			}
			if fi := w.Info(callee); fi != nil && fi.Pkg.PkgPath == pExecAT {
				for _, t := range returnedTypes(fi) {
					if own[t] {
						return []flow.Tag{"ctor:" + t.Obj().Name()}
					}
				}
			}
			return nil
		}}
	res := sp.Analyze(dispatch)
	for _, cp := range res.Calls {
		for _, t := range cp.Tags {
			if !strings.HasPrefix(t, "ctor:") {
				continue
			}
			r.Sites++
			r.Check(cp.Before.Has("true:isglobal"), "C16.dispatch", core.ShortKey(dispatch.Obj)+" -> "+strings.TrimPrefix(t, "ctor:")+" only inside a global transaction", w.Pos(cp.Call.Pos()),
				"constructed under tm.IsGlobalTx(ctx) of this call", "an executor that issues its own image / lock statements can be chosen although tm.IsGlobalTx(ctx) is not known to hold for this call (a TransactionContext captured by a prepared statement may be stale): outside a global transaction the proxy then sends statements the bare driver would not")
		}
	}
}

// c16Once: the one-statement transaction context is dropped on every exit of the method that installed it.
func c16Once(r *core.Run) {
	w := r.W
	// a statement entry of a proxy connection that installs a one-statement transaction context — assigns the
	// connection's txCtx fields XID / TransactionMode / GlobalLockRequire, itself or through a helper — puts a
	// fresh context back (c.txCtx = types.NewTxCtx(), inline, deferred, or by the function a helper handed back
	// for deferring) on every exit it was installed on, failing ones included
	ctxField := func(info *types.Info, e ast.Expr) (inner string, ok bool) {
		// <x>.txCtx.<F> or <x>.txCtx
		sel, isSel := ast.Unparen(e).(*ast.SelectorExpr)
		if !isSel {
			return "", false
		}
		if sel.Sel.Name == "txCtx" {
			return "", true
		}
		if in, isIn := ast.Unparen(sel.X).(*ast.SelectorExpr); isIn && in.Sel.Name == "txCtx" {
			return sel.Sel.Name, true
		}
		return "", false
	}
	n := 0
	for _, f := range w.SortedFuncs() {
		if f.Pkg.PkgPath != pDSSQL || w.IsTestFile(f.Decl.Pos()) || core.RecvNamed(f.Obj) == nil || f.Decl.Body == nil {
			continue
		}
		if !inSet(core.RecvNamed(f.Obj).Obj().Name(), "ATConn", "XAConn", "Conn") || !inSet(f.Obj.Name(), "PrepareContext", "QueryContext", "ExecContext", "Prepare", "Query", "Exec") {
			continue
		}
		sp := &flow.Spec{W: w, Depth: 0, Inline: 2, Fork: true, DeferAtExit: true, Split: []flow.Tag{"installed"},
			// (the context of an explicit or implicit transaction, installed by BeginTx and dropped when that
			// transaction ends, is another mechanism: C16.reset / C02.txclosed)
			NoDescend: func(f *types.Func) bool {
				return implementsDriver(w, f, "ConnBeginTx") || implementsDriver(w, f, "Conn") && f.Name() == "Begin"
			},
			AssignTags: func(pkg *packages.Package, as *ast.AssignStmt) []flow.Tag {
				for i, l := range as.Lhs {
					fld, ok := ctxField(pkg.TypesInfo, l)
					if !ok {
						continue
					}
					if fld == "" && i < len(as.Rhs) {
						if c, ok := ast.Unparen(as.Rhs[i]).(*ast.CallExpr); ok {
							if g := core.Callee(pkg.TypesInfo, c); g != nil && g.Name() == "NewTxCtx" {
								return []flow.Tag{"reset", "-installed"}
							}
						}
					}
					if inSet(fld, "XID", "TransactionMode", "GlobalLockRequire") {
						return []flow.Tag{"installed"}
					}
				}
				return nil
			}}
		res := sp.Analyze(f)
		installs := false
		for _, ap := range res.Assigns {
			if inSet("installed", ap.Tags...) {
				installs = true
			}
		}
		if !installs {
			continue
		}
		r.Fn(f)
		for _, ex := range res.Exits {
			n++
			r.Sites++
			role := exitRole(ex, func(t string) bool { return t == "installed" || t == "reset" })
			r.Check(!ex.St.Maybe("installed"), "C16.once", core.ShortKey(f.Obj)+" "+role+" drops the one-statement transaction context", w.Pos(ex.Pos),
				"fresh context put back (deferred or inline) wherever one was installed", "this exit leaves the one-statement transaction context (AT/XA mode, the global xid) on the connection: a later local transaction on the same connection is handled as a branch of a finished global transaction instead of being passed to the driver")
		}
	}
	if n == 0 {
		r.Undecided("C16.once", "statement entries installing a one-statement transaction context", "", "none found")
	}
}

// c16ResetSession: a reused pooled connection starts with a fresh (or completely cleared) transaction context.
func c16ResetSession(r *core.Run) {
	w := r.W
	conn := w.NamedType("pkg/datasource/sql", "Conn")
	f := methodInfo(w, conn, "ResetSession")
	if r.Anchor("C16.reset", f, "sql.Conn.ResetSession") == nil {
		return
	}
	tc := w.NamedType("pkg/datasource/sql/types", "TransactionContext")
	partial := ""
	sp := &flow.Spec{W: w, Depth: 0,
		Classify: func(pkg *packages.Package, call *ast.CallExpr, callee *types.Func) []flow.Tag {
			if callee == nil {
				return nil
			}
			if stdMethod(callee, pDriver, "SessionResetter", "ResetSession") {
				return []flow.Tag{"delegate"}
			}
			// a clearing method on the context: complete only if it assigns every field
			if g := w.Info(callee); g != nil && tc != nil && core.RecvNamed(callee) == tc {
				st, _ := tc.Underlying().(*types.Struct)
				assigned := map[string]bool{}
				ast.Inspect(g.Decl.Body, func(n ast.Node) bool {
					if as, ok := n.(*ast.AssignStmt); ok {
						for _, l := range as.Lhs {
							if sel, ok := ast.Unparen(l).(*ast.SelectorExpr); ok {
								assigned[sel.Sel.Name] = true
							}
							if se, ok := ast.Unparen(l).(*ast.StarExpr); ok && core.ExprString(se.X) != "" {
								for i := 0; st != nil && i < st.NumFields(); i++ {
									assigned[st.Field(i).Name()] = true // *t = TransactionContext{...}
								}
							}
						}
					}
					return true
				})
				var missing []string
				for i := 0; st != nil && i < st.NumFields(); i++ {
					if !assigned[st.Field(i).Name()] {
						missing = append(missing, st.Field(i).Name())
					}
				}
				if len(missing) == 0 {
					return []flow.Tag{"reset"}
				}
				partial = core.ShortKey(callee) + " leaves " + strings.Join(missing, ", ") + " as they were"
			}
			return nil
		},
		AssignTags: func(pkg *packages.Package, as *ast.AssignStmt) []flow.Tag {
			if len(as.Lhs) == 1 && len(as.Rhs) == 1 {
				if sel, ok := ast.Unparen(as.Lhs[0]).(*ast.SelectorExpr); ok && sel.Sel.Name == "txCtx" {
					if c, ok := ast.Unparen(as.Rhs[0]).(*ast.CallExpr); ok {
						if g := core.Callee(pkg.TypesInfo, c); g != nil && g.Name() == "NewTxCtx" {
							return []flow.Tag{"reset"}
						}
					}
				}
			}
			return nil
		}}
	res := sp.Analyze(f)
	n := 0
	for _, cp := range res.Calls {
		if !inSet("delegate", cp.Tags...) {
			continue
		}
		n++
		r.Sites++
		why := "the connection is handed back for reuse without a fresh transaction context"
		if partial != "" {
			why += " (" + partial + ")"
		}
		r.Check(cp.Before.Has("reset"), "C16.reset", core.ShortKey(f.Obj)+" starts the reused connection with a fresh transaction context", w.Pos(cp.Call.Pos()), "fresh context before delegating to the driver",
			why+": a connection that served a global-transaction branch keeps AT/XA mode, and the next local transaction on it is handled as a branch (no BEGIN reaches the database, Commit/Rollback do nothing)")
	}
	if n == 0 {
		r.Undecided("C16.reset", core.ShortKey(f.Obj)+" delegates to the driver's ResetSession", w.Pos(f.Decl.Pos()), "no call of driver.SessionResetter.ResetSession found")
	}
}

// c16Delegates: every exit of a statement entry of the proxy connections has passed the statement on — to the
// wrapped connection's method of the same kind, to the implicit-transaction wrapper, or to an executor. An exit
// taken before that (an "optimisation" answering driver.ErrSkip, a shortcut for some argument shapes) makes
// database/sql choose another path than it would with the bare driver.
func c16Delegates(r *core.Run) {
	w := r.W
	n := 0
	for _, tn := range []string{"Conn", "ATConn", "XAConn"} {
		t := w.NamedType("pkg/datasource/sql", tn)
		for _, mn := range []string{"ExecContext", "QueryContext", "PrepareContext", "Exec", "Query", "Prepare"} {
			f := methodInfo(w, t, mn)
			if f == nil || core.RecvNamed(f.Obj) != t {
				continue
			}
			r.Fn(f)
			sp := &flow.Spec{W: w, Depth: 0, Classify: func(pkg *packages.Package, call *ast.CallExpr, callee *types.Func) []flow.Tag {
				if callee == nil {
					return nil
				}
				nm := callee.Name()
				switch {
				case strings.HasPrefix(nm, "Exec") || strings.HasPrefix(nm, "Query") || strings.HasPrefix(nm, "Prepare"):
					return []flow.Tag{"delegated"}
				case nm == "createNewTxOnExecIfNeed" || nm == "BuildExecutor":
					return []flow.Tag{"delegated"}
				}
				return nil
			}, CondTags: func(pkg *packages.Package, cond ast.Expr, branch bool) []flow.Tag {
				// `x, ok := target.(driver.Iface)` answered false: the wrapped connection lacks that optional
				// interface, and saying so (driver.ErrSkip) is what the bare driver's missing method means too
				neg := false
				e := ast.Unparen(cond)
				if u, ok := e.(*ast.UnaryExpr); ok && u.Op == token.NOT {
					neg, e = true, ast.Unparen(u.X)
				}
				id, ok := e.(*ast.Ident)
				if !ok {
					return nil
				}
				v, ok := pkg.TypesInfo.Uses[id].(*types.Var)
				if !ok {
					return nil
				}
				for _, d := range localDefs(f, v) {
					if ta, ok := ast.Unparen(d.rhs).(*ast.TypeAssertExpr); ok && d.idx == 1 && ta.Type != nil {
						if t := pkg.TypesInfo.TypeOf(ta.Type); t != nil && strings.HasPrefix(t.String(), "database/sql/driver.") && neg == branch {
							return []flow.Tag{"unsupported"}
						}
					}
				}
				return nil
			}}
			res := sp.Analyze(f)
			for _, ex := range res.Exits {
				n++
				r.Sites++
				r.Check(ex.St.Has("delegated") || ex.St.Has("unsupported"), "C16.forward", core.ShortKey(f.Obj)+" "+exitRole(ex, nil)+" is reached only after the statement was passed on", w.Pos(ex.Pos), "delegated on every path",
					"this exit is taken without the statement having been passed to the wrapped connection / the transaction wrapper / an executor: for the statements that take it database/sql falls back to another path (prepare + execute, or an error) that the bare driver would not have taken")
			}
		}
	}
	if n < 10 {
		r.Bad("C16.forward", "INSTANCE-FLOOR exits of statement entries", "", "fewer statement-entry exits than confirmed by hand")
	}
}

// c16NoStateOutside (C16.noextra): a connection method that asks tm.IsGlobalTx for the context of the call keeps no
// state of its own on the path where the answer is no: it assigns no field of the connection there. What the proxy
// remembers outside a global transaction (a transaction handle, a context) is acted on later by its own clean-up
// paths — statements the application never issued.
func c16NoStateOutside(r *core.Run) {
	w := r.W
	n := 0
	for _, f := range w.SortedFuncs() {
		if f.Pkg.PkgPath != pDSSQL || w.IsTestFile(f.Decl.Pos()) || f.Decl.Body == nil {
			continue
		}
		rn := core.RecvNamed(f.Obj)
		rv := recvVarOf(f)
		if rn == nil || rv == nil || !inSet(rn.Obj().Name(), "XAConn", "ATConn", "Conn") {
			continue
		}
		asks := false
		for _, cs := range w.Calls(f) {
			if core.IsPkgFunc(cs.Static, pTM, "IsGlobalTx") {
				asks = true
			}
		}
		if !asks {
			continue
		}
		res := (&flow.Spec{W: w, Depth: 0, Inline: -1, Split: []flow.Tag{"false:isglobal", "true:isglobal"},
			Classify: func(pkg *packages.Package, call *ast.CallExpr, callee *types.Func) []flow.Tag {
				if core.IsPkgFunc(callee, pTM, "IsGlobalTx") {
					return []flow.Tag{"isglobal"}
				}
				return nil
			},
			AssignTags: func(pkg *packages.Package, as *ast.AssignStmt) []flow.Tag {
				for _, l := range as.Lhs {
					if sel, ok := ast.Unparen(l).(*ast.SelectorExpr); ok && core.ObjOf(pkg.TypesInfo, sel.X) == rv {
						if v, ok := pkg.TypesInfo.Uses[sel.Sel].(*types.Var); ok && v.IsField() {
							return []flow.Tag{"recvwrite"}
						}
					}
				}
				return nil
			}}).Analyze(f)
		n++
		r.Fn(f)
		r.Sites++
		bad := ""
		for _, ap := range res.Assigns {
			if inSet("recvwrite", ap.Tags...) && ap.Before.Has("false:isglobal") {
				bad = core.ExprString(ap.Stmt.Lhs[0]) + " at " + w.Pos(ap.Stmt.Pos())
			}
		}
		r.Check(bad == "", "C16.noextra", core.ShortKey(f.Obj)+" keeps no connection state outside a global transaction", w.Pos(f.Decl.Pos()), "no receiver field is assigned where IsGlobalTx answered false",
			"outside a global transaction the method stores "+bad+": the connection's own error / panic handling later acts on what it remembered (e.g. rolls the application's local transaction back when one statement fails), which the bare driver never does")
	}
	if n == 0 {
		r.Bad("C16.noextra", "connection methods that ask tm.IsGlobalTx", "", "none found")
	}
}

// c16BusinessRuns (C16.forward): an executor of the AT proxy hands the application's statement to the database on
// every path on which it reports success: each ExecContext of a live executor that is handed the business callback
// has called it on every exit that returns a nil error. (Whether a statement "has nothing to do" is for the database
// to say — its answer carries the affected count and last-insert id, and under READ COMMITTED the rows may exist by
// the time the statement runs.)
func c16BusinessRuns(r *core.Run) {
	w := r.W
	_, live := liveATExecutors(w)
	n := 0
	for _, t := range live {
		f := methodInfo(w, t, "ExecContext")
		if f == nil || f.Decl.Body == nil {
			continue
		}
		var cb types.Object
		for _, p := range paramObjs(f) {
			if _, ok := p.Type().Underlying().(*types.Signature); ok {
				cb = p
			}
		}
		if cb == nil {
			continue
		}
		sp := &flow.Spec{W: w, Depth: 0}
		sp.Classify = func(pkg *packages.Package, call *ast.CallExpr, callee *types.Func) []flow.Tag {
			// the callback itself, or a helper of the package that is handed it
			if id, ok := ast.Unparen(call.Fun).(*ast.Ident); ok && pkg.TypesInfo.Uses[id] != nil && sp.RootOf(pkg.TypesInfo.Uses[id]) == cb {
				return []flow.Tag{"business"}
			}
			// handed on: to another executor (a one-statement batch is given to the single-statement executor), or
			// to a step outside this package that runs it
			if w.Info(callee) == nil || w.Info(callee).Pkg != pkg || callee.Name() == "ExecContext" {
				for _, a := range call.Args {
					if id, ok := ast.Unparen(a).(*ast.Ident); ok && pkg.TypesInfo.Uses[id] != nil && sp.RootOf(pkg.TypesInfo.Uses[id]) == cb {
						return []flow.Tag{"business"}
					}
				}
			}
			return nil
		}
		res := sp.Analyze(f)
		r.Fn(f)
		for _, ex := range res.Exits {
			if ex.Class == flow.ExitErr {
				continue
			}
			n++
			r.Sites++
			// (may: the locking read runs the statement inside a retry loop whose bound is configuration)
			r.Check(ex.St.Maybe("business"), "C16.forward", core.ShortKey(f.Obj)+" "+exitRole(ex, func(t string) bool { return strings.HasSuffix(t, "business") })+" has run the application's statement", w.Pos(ex.Pos),
				"the business callback was called on every path to this return", "the executor reports success without having handed the application's statement to the database: affected count, last-insert id and — when a row appeared meanwhile — the data differ from what the bare driver gives")
		}
	}
	if n == 0 {
		r.Undecided("C16.forward", "AT executors calling the business callback", "", "none found")
	}
}
