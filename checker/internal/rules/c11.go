package rules

import (
	"go/ast"
	"go/token"
	"go/types"
	"strings"

	"golang.org/x/tools/go/packages"

	"seatalint/internal/core"
	"seatalint/internal/flow"
)

func init() { register("C11", checkC11) }

// ctxNeverCancelled: the context argument of every (transitive, bounded) caller derives from context.Background().
func ctxNeverCancelled(w *core.World, fn *core.FuncInfo, depth int, trail *[]string) bool {
	if depth == 0 {
		*trail = append(*trail, "bound reached at "+core.ShortKey(fn.Obj))
		return false
	}
	// which parameter is the context?
	idx := -1
	sig := fn.Obj.Type().(*types.Signature)
	for i := 0; i < sig.Params().Len(); i++ {
		if sig.Params().At(i).Type().String() == "context.Context" {
			idx = i
			break
		}
	}
	if idx < 0 {
		return true
	}
	callers := 0
	type site struct {
		caller *core.FuncInfo
		args   []ast.Expr
	}
	var sites []site
	for _, cs := range w.Callers(fn.Obj) {
		if w.IsTestFile(cs.Call.Pos()) || strings.Contains(cs.Caller.Pkg.PkgPath, "/mock") {
			continue
		}
		sites = append(sites, site{cs.Caller, cs.Call.Args})
	}
	// calls through a struct field the method is stored in (a method expression in a handler table)
	for _, vc := range w.ValueCallers(fn.Obj) {
		if w.IsTestFile(vc.Call.Pos()) || strings.Contains(vc.Caller.Pkg.PkgPath, "/mock") || vc.Shift > len(vc.Call.Args) {
			continue
		}
		sites = append(sites, site{vc.Caller, vc.Call.Args[vc.Shift:]})
	}
	for _, cs := range sites {
		callers++
		if idx >= len(cs.args) {
			return false
		}
		o := origin(cs.caller, cs.args[idx], 4)
		switch {
		case o == "call:context.Background()" || o == "call:context.TODO()":
			continue
		case strings.HasPrefix(o, "param:"):
			if !ctxNeverCancelled(w, cs.caller, depth-1, trail) {
				return false
			}
		default:
			*trail = append(*trail, core.ShortKey(cs.caller.Obj)+" passes "+o)
			return false
		}
	}
	if callers == 0 {
		*trail = append(*trail, core.ShortKey(fn.Obj)+" has no caller in the repository (exported entry point)")
		return false
	}
	return true
}

func checkC11(r *core.Run) {
	r.Explain = "Decided statically: (C11.handoff) the hand-over of a flushed batch to the commit worker cannot fail while the worker runs: the async worker passes a context that is never done (context.Background) and the pool's Do returns a non-nil error only as the Err() of a context, its queue send sits in a select without a default arm (it waits for room instead of dropping) — so the error branch after Do, which only logs, drops nothing; (C11.batch) a slice read by a closure that the async worker hands to another goroutine (worker pool or go statement) is freshly allocated in the handing function, or the function gives up its own reference (sets the source to nil / a new slice) — an alias of the collector's buffer, which is reset with [:0] and appended to again, would be overwritten before the closure runs; (C11.accept) the async worker's BranchCommit answers 'committed' only on paths where the request was put on the commit queue; an arm that gives up on ctx.Done() is tolerated only if every caller up the call graph (bound 4) passes a context derived from context.Background(); (C11.requeue) in the batch handler every failure branch (resource missing, connection not obtained, undo-log manager missing, delete failed) re-sends every affected item to the queue and does not go on to use what it failed to obtain; (C11.key) each delete is keyed by both identifiers of one element: the two slice arguments of BatchDeleteUndoLog are one-element literals built from the same element, both parameters reach the statement's argument list and the statement builder mentions both columns; (C11.alive) the consumer goroutine is started by the constructor and its loop has no exit. NOT decided: eventual completion, queue-pressure deadlock, batching schedules (liveness)."
	r.Trusted = []string{"go/types, go/cfg", "the commit worker pool is not closed while branch commits are accepted"}
	w := r.W
	aw := w.NamedType("pkg/datasource/sql", "AsyncWorker")
	bc := r.Anchor("C11.anchor", methodInfo(w, aw, "BranchCommit"), "AsyncWorker.BranchCommit")
	if bc == nil {
		return
	}
	// the queue field: the channel field of AsyncWorker that BranchCommit (or a helper of the package it calls)
	// sends on
	var queue *types.Var
	for f := range w.Reach([]*core.FuncInfo{bc}, func(g *core.FuncInfo) bool { return g.Pkg != bc.Pkg }) {
		if f.Pkg != bc.Pkg || f.Decl == nil || f.Decl.Body == nil || (f != bc && core.RecvNamed(f.Obj) != aw) {
			continue
		}
		ast.Inspect(f.Decl.Body, func(n ast.Node) bool {
			if s, ok := n.(*ast.SendStmt); ok {
				if sel, ok := ast.Unparen(s.Chan).(*ast.SelectorExpr); ok {
					if v, ok := f.Pkg.TypesInfo.Uses[sel.Sel].(*types.Var); ok && v.IsField() {
						if f == bc || queue == nil {
							queue = v
						}
					}
				}
			}
			return true
		})
	}
	if queue == nil {
		r.Anchor("C11.accept", nil, "send of the request on a channel field in AsyncWorker.BranchCommit")
		return
	}
	isQueueSend := func(info *types.Info, s ast.Stmt) bool {
		ss, ok := s.(*ast.SendStmt)
		if !ok {
			return false
		}
		sel, ok := ast.Unparen(ss.Chan).(*ast.SelectorExpr)
		return ok && info.Uses[sel.Sel] == queue
	}
	// ---- C11.accept: every way out of BranchCommit that answers 'committed' has put the request on the queue
	// (the send may be in a helper; the arm of a select that was taken is known in its body)
	{
		info := bc.Pkg.TypesInfo
		var ctxParam types.Object
		for _, p := range paramObjs(bc) {
			if p.Type().String() == "context.Context" {
				ctxParam = p
			}
		}
		spec := func() *flow.Spec {
			return &flow.Spec{W: w, Inline: 3,
				Classify: func(pkg *packages.Package, call *ast.CallExpr, callee *types.Func) []flow.Tag {
					if callee != nil && callee.Name() == "Done" && callee.Pkg() != nil && callee.Pkg().Path() == "context" {
						return []flow.Tag{"ctxdone"}
					}
					return nil
				},
				StmtTags: func(pkg *packages.Package, s ast.Stmt) []flow.Tag {
					if isQueueSend(pkg.TypesInfo, s) {
						return []flow.Tag{"queued"}
					}
					return nil
				},
				Contradict: [][2]flow.Tag{{"arm:ctxdone", "nevercancelled"}},
			}
		}
		type verdict struct {
			unqueued []string // exits answering committed without the request queued
			wrong    []*flow.Exit
			sends    bool
			res      *flow.Result
		}
		run := func(seed func(*flow.State)) verdict {
			var v verdict
			if seed != nil {
				v.res = spec().AnalyzeSeed(bc, seed)
			} else {
				v.res = spec().Analyze(bc)
			}
			for _, ex := range v.res.Exits {
				c := ex.ResultConst(info, 0)
				committed := c != nil && c.Name() == "BranchStatusPhasetwoCommitted" && ex.Class == flow.ExitOK
				if ex.St.Maybe("queued") {
					v.sends = true
				}
				switch {
				case ex.St.Has("queued") && !committed:
					v.wrong = append(v.wrong, ex)
				case !ex.St.Has("queued") && ex.Class != flow.ExitErr && (c == nil || c.Name() == "BranchStatusPhasetwoCommitted"):
					v.unqueued = append(v.unqueued, w.Pos(ex.Pos))
				}
			}
			return v
		}
		v := run(nil)
		r.Sites++
		key := core.ShortKey(bc.Obj) + " : committed only after the request is queued"
		switch {
		case !v.sends:
			r.Bad("C11.accept", key, w.Pos(bc.Decl.Pos()), "no send on the commit queue found")
		case len(v.unqueued) == 0:
			r.OK("C11.accept", key, w.Pos(bc.Decl.Pos()), "every path to the committed answer has queued the request")
		default:
			// the only way past the send may be an arm waiting for the caller's context, and no caller's context ends
			var trail []string
			never := ctxParam != nil
			sawDone := false
			for _, cp := range v.res.Calls {
				if !inSet("ctxdone", cp.Tags...) {
					continue
				}
				sawDone = true
				sel, ok := ast.Unparen(cp.Call.Fun).(*ast.SelectorExpr)
				if !ok || ctxParam == nil || originVia(bc, cp.Fn, sel.X, 4) != "param:"+ctxParam.Name() {
					never = false
					trail = append(trail, "arm '"+core.ExprString(cp.Call)+"' does not wait for the caller's context")
				}
			}
			never = never && sawDone && ctxNeverCancelled(w, bc, 4, &trail)
			if never {
				v2 := run(func(st *flow.State) {
					st.Must["nevercancelled"] = true
					st.May["nevercancelled"] = true
				})
				if len(v2.unqueued) > 0 {
					never = false
					trail = append(trail, "a path that does not wait for the context answers 'committed' at "+strings.Join(v2.unqueued, ","))
				}
			}
			r.Check(never, "C11.accept", key, w.Pos(bc.Decl.Pos()), "the give-up arm (<-ctx.Done()) falls through to 'committed', but every caller (bound 4) passes a context derived from context.Background(): the arm cannot fire",
				"a path answers 'committed' without queueing the request (exit at "+strings.Join(v.unqueued, ",")+"), and not only by an arm that cannot fire ("+strings.Join(trail, "; ")+"): the branch's undo log would never be deleted")
		}
		// the committed constant is the only status returned once the request is queued
		for _, ex := range v.res.Exits {
			r.Sites++
			bad := false
			for _, wx := range v.wrong {
				if wx == ex {
					bad = true
				}
			}
			c := ex.ResultConst(info, 0)
			if !ex.St.Maybe("queued") && !(c != nil && c.Name() == "BranchStatusPhasetwoCommitted" && ex.Class == flow.ExitOK) {
				// refused before anything was queued
				r.OK("C11.accept", core.ShortKey(bc.Obj)+" answers committed", w.Pos(ex.Pos), "request refused before it was queued")
				continue
			}
			r.Check(!bad && c != nil && c.Name() == "BranchStatusPhasetwoCommitted" && ex.Class == flow.ExitOK, "C11.accept", core.ShortKey(bc.Obj)+" answers committed", w.Pos(ex.Pos), "accepted request answered 'committed'", "an accepted request is not answered 'committed'/nil")
		}
	}
	// ---- C11.key, C11.requeue: the batch handler(s): functions of AsyncWorker calling BatchDeleteUndoLog
	var handlers []*core.FuncInfo
	for _, f := range w.SortedFuncs() {
		if core.RecvNamed(f.Obj) != aw || w.IsTestFile(f.Decl.Pos()) {
			continue
		}
		// the delete may be issued by a helper of the package that is not itself a method of the worker (a session
		// object holding the connection and the undo-log manager): the handler is the worker method calling it
		var reaches func(g *core.FuncInfo, d int) bool
		reaches = func(g *core.FuncInfo, d int) bool {
			for _, cs := range w.Calls(g) {
				if isIfaceOrImpl(w, cs.Static, "pkg/datasource/sql/undo", "UndoLogManager", "BatchDeleteUndoLog") {
					return true
				}
				if h := w.Info(cs.Static); h != nil && d > 0 && h.Pkg == f.Pkg && h != g && core.RecvNamed(h.Obj) != aw && h.Decl.Body != nil {
					if reaches(h, d-1) {
						return true
					}
				}
			}
			return false
		}
		if reaches(f, 2) {
			handlers = append(handlers, f)
		}
	}
	if len(handlers) == 0 {
		r.Anchor("C11.requeue", nil, "AsyncWorker method calling UndoLogManager.BatchDeleteUndoLog")
		return
	}
	for _, h := range handlers {
		r.Fn(h)
		info := h.Pkg.TypesInfo
		// the batch parameter (slice)
		var batch types.Object
		for _, p := range paramObjs(h) {
			if _, ok := p.Type().Underlying().(*types.Slice); ok {
				batch = p
			}
		}
		// rangeRequeues: the loop ranges over the slice variable `over` and sends the ranged element on the queue
		// unconditionally, with no way out of the loop
		rangeRequeues := func(fn *core.FuncInfo, rs *ast.RangeStmt, over types.Object) bool {
			if over == nil || !isObj(fn.Pkg.TypesInfo, rs.X, over) {
				return false
			}
			sends, early := false, false
			for _, s := range rs.Body.List {
				if ss, ok := s.(*ast.SendStmt); ok && isQueueSend(fn.Pkg.TypesInfo, ss) {
					o := origin(fn, ss.Value, 3)
					if strings.Contains(o, "param:"+over.Name()) || strings.Contains(o, "range(param:"+over.Name()+")") {
						sends = true
					}
				}
				// (the send may be a helper of the package that puts the one element it is handed on the queue)
				if es, ok := s.(*ast.ExprStmt); ok {
					if c, ok := ast.Unparen(es.X).(*ast.CallExpr); ok {
						if g := w.Info(core.Callee(fn.Pkg.TypesInfo, c)); g != nil && g.Pkg == fn.Pkg && g != fn && g.Decl.Body != nil {
							for pi, p := range paramObjs(g) {
								if pi >= len(c.Args) {
									continue
								}
								sendsParam := false
								for _, gs := range g.Decl.Body.List {
									if _, isRet := gs.(*ast.ReturnStmt); isRet {
										break
									}
									if ss, ok := gs.(*ast.SendStmt); ok && isQueueSend(g.Pkg.TypesInfo, ss) && isObj(g.Pkg.TypesInfo, ss.Value, p) {
										sendsParam = true
									}
								}
								if !sendsParam {
									continue
								}
								o := origin(fn, c.Args[pi], 3)
								if strings.Contains(o, "param:"+over.Name()) || strings.Contains(o, "range(param:"+over.Name()+")") {
									sends = true
								}
							}
						}
					}
				}
			}
			ast.Inspect(rs.Body, func(n ast.Node) bool {
				switch x := n.(type) {
				case *ast.BranchStmt:
					if x.Tok == token.BREAK || x.Tok == token.GOTO {
						early = true
					}
				case *ast.ReturnStmt:
					early = true
				}
				return true
			})
			return sends && !early
		}
		requeuesAll := func(pkg *packages.Package, rs *ast.RangeStmt) []flow.Tag {
			if pkg == h.Pkg && rangeRequeues(h, rs, batch) {
				return []flow.Tag{"requeued-all"}
			}
			return nil
		}
		// a requeue helper: a function of the package whose body is (only) a loop that puts every element of its
		// slice / variadic parameter back on the queue; returns the index of that parameter
		requeueHelper := func(callee *types.Func) (int, bool) {
			g := w.Info(callee)
			if g == nil || g.Decl.Body == nil || g.Pkg != h.Pkg || g == h {
				return 0, false
			}
			for i, p := range paramObjs(g) {
				if _, ok := p.Type().Underlying().(*types.Slice); !ok {
					continue
				}
				for _, st := range g.Decl.Body.List {
					rs, ok := st.(*ast.RangeStmt)
					if ok && rangeRequeues(g, rs, p) && everyPathReaches(g, rs) {
						return i, true
					}
				}
			}
			return 0, false
		}
		// variables holding the error of a delete call
		delErr := map[types.Object]bool{}
		ast.Inspect(h.Decl.Body, func(n ast.Node) bool {
			if as, ok := n.(*ast.AssignStmt); ok && len(as.Rhs) == 1 {
				if c, ok := ast.Unparen(as.Rhs[0]).(*ast.CallExpr); ok && isIfaceOrImpl(w, core.Callee(info, c), "pkg/datasource/sql/undo", "UndoLogManager", "BatchDeleteUndoLog") {
					if o := core.ObjOf(info, as.Lhs[len(as.Lhs)-1]); o != nil {
						delErr[o] = true
					}
				}
			}
			return true
		})
		// (the three ways of not getting at the undo log may be decided in a helper: the handler continues per outcome)
		sp := &flow.Spec{W: w, Depth: 0, LoopTags: requeuesAll, Fork: true, Split: []flow.Tag{"false:lookup", "fail:conn", "fail:mgr"},
			StmtTags: func(pkg *packages.Package, s ast.Stmt) []flow.Tag {
				if isQueueSend(pkg.TypesInfo, s) {
					return []flow.Tag{"requeued-one", "-owed", "-fail:delete"}
				}
				return nil
			},
			// the branch on which a delete is known to have failed owes that item to the queue (fail:delete is the
			// engine's own record of it, also when the delete is the tail call of a helper)
			CondTags: func(pkg *packages.Package, cond ast.Expr, branch bool) []flow.Tag {
				if pkg != h.Pkg {
					return nil
				}
				for o := range delErr {
					if condImpliesNil(pkg.TypesInfo, cond, branch, o, false) {
						return []flow.Tag{"owed"}
					}
				}
				return nil
			},
			Classify: func(pkg *packages.Package, call *ast.CallExpr, callee *types.Func) []flow.Tag {
				if pi, ok := requeueHelper(callee); ok && pkg == h.Pkg {
					sig := callee.Type().(*types.Signature)
					if pi < len(call.Args) {
						a := call.Args[pi]
						whole := !sig.Variadic() || pi != sig.Params().Len()-1 || call.Ellipsis.IsValid()
						if whole {
							if batch != nil && isObj(pkg.TypesInfo, a, batch) {
								return []flow.Tag{"requeued-all", "-owed", "-fail:delete"}
							}
							return nil
						}
						if len(call.Args) == sig.Params().Len() {
							return []flow.Tag{"requeued-one", "-owed", "-fail:delete"}
						}
					}
					return nil
				}
				switch {
				case stdMethod(callee, "sync", "Map", "Load"):
					return []flow.Tag{"lookup"}
				case stdMethod(callee, pSQL, "DB", "Conn"):
					return []flow.Tag{"conn"}
				case core.IsPkgFunc(callee, pUndo, "GetUndoLogManager"):
					return []flow.Tag{"mgr"}
				case isIfaceOrImpl(w, callee, "pkg/datasource/sql/undo", "UndoLogManager", "BatchDeleteUndoLog"):
					return []flow.Tag{"delete"}
				case stdMethod(callee, pSQL, "Conn", "Close"):
					return []flow.Tag{"close"}
				}
				return nil
			}}
		res := sp.Analyze(h)
		key := core.ShortKey(h.Obj)
		nDel := 0
		for _, cp := range res.Calls {
			switch {
			case inSet("delete", cp.Tags...):
				nDel++
				r.Sites++
				r.Check(cp.Before.Has("true:lookup") && cp.Before.Has("ok:conn") && cp.Before.Has("ok:mgr"), "C11.requeue", key+" -> BatchDeleteUndoLog only with resource, connection and manager", w.Pos(cp.Call.Pos()),
					"the delete runs only after the resource lookup, the connection and the manager lookup succeeded", "the delete can run although the resource lookup, the connection acquisition or the manager lookup failed (e.g. on a nil connection: the panic abandons the rest of the batch)")
				c11Key(r, h, cp.Call)
			case inSet("close", cp.Tags...):
				r.Sites++
				r.Check(cp.Before.Has("ok:conn"), "C11.requeue", key+" -> Conn.Close only on an obtained connection", w.Pos(cp.Call.Pos()), "Close is deferred only after the connection was obtained", "Close is deferred on a connection that may not have been obtained (nil)")
			}
		}
		if nDel == 0 {
			r.Bad("C11.requeue", key+" -> BatchDeleteUndoLog", w.Pos(h.Decl.Pos()), "no delete call")
		}
		for _, ex := range res.Exits {
			for _, f := range []struct{ tag, what string }{{"false:lookup", "resource not cached"}, {"fail:conn", "connection not obtained"}, {"fail:mgr", "undo-log manager missing"}} {
				if ex.St.Has(f.tag) {
					r.Sites++
					r.Check(ex.St.Has("requeued-all") && !ex.St.Maybe("delete"), "C11.requeue", key+" return after "+f.what, w.Pos(ex.Pos), "all items of the group are put back on the queue", "after '"+f.what+"' the handler returns without putting every item of the group back on the queue: their undo logs are never deleted")
				}
			}
		}
		// every item of the group reaches its delete: in the loop that holds the delete call nothing before it can
		// skip the item (continue), leave the loop (break, goto) or the function (return) — an item skipped here was
		// already answered 'committed', its undo log would stay for ever (e.g. a "seen" set keyed by branch id alone
		// drops the same branch id of another xid)
		{
			skip := ""
			ast.Inspect(h.Decl.Body, func(n ast.Node) bool {
				var body *ast.BlockStmt
				switch l := n.(type) {
				case *ast.RangeStmt:
					body = l.Body
				case *ast.ForStmt:
					body = l.Body
				default:
					return true
				}
				// the top-level statement of this loop body that contains the delete call
				idx := -1
				for i, st := range body.List {
					has := false
					ast.Inspect(st, func(m ast.Node) bool {
						if _, isLoop := m.(*ast.RangeStmt); isLoop && m != ast.Node(st) {
							return false
						}
						if c, ok := m.(*ast.CallExpr); ok && isIfaceOrImpl(w, core.Callee(info, c), "pkg/datasource/sql/undo", "UndoLogManager", "BatchDeleteUndoLog") {
							has = true
						}
						return !has
					})
					if has {
						idx = i
						break
					}
				}
				if idx < 0 {
					return true
				}
				for _, st := range body.List[:idx] {
					ast.Inspect(st, func(m ast.Node) bool {
						switch y := m.(type) {
						case *ast.FuncLit:
							return false
						case *ast.BranchStmt:
							skip = w.Pos(y.Pos()) + ": '" + y.Tok.String() + "' before the delete"
						case *ast.ReturnStmt:
							skip = w.Pos(y.Pos()) + ": return before the delete"
						}
						return true
					})
				}
				return true
			})
			r.Sites++
			r.Check(skip == "", "C11.requeue", key+" every item of the group reaches its delete", w.Pos(h.Decl.Pos()), "nothing before the delete call can skip an item",
				skip+": an accepted branch commit can be dropped from the batch without its undo log being deleted or the item being put back — it was already answered 'committed', so nobody retries it")
		}
		// a failed delete requeues that item: no path from the branch that knows the delete failed reaches the next
		// delete or a return without a send on the queue (directly or through a requeue helper)
		perItem := nDel > 0
		for _, cp := range res.Calls {
			if inSet("delete", cp.Tags...) && (cp.Before.Maybe("owed") || cp.Before.Maybe("fail:delete")) {
				perItem = false
			}
		}
		for _, ex := range res.Exits {
			if ex.St.Maybe("owed") || ex.St.Maybe("fail:delete") {
				perItem = false
			}
		}
		r.Sites++
		r.Check(perItem, "C11.requeue", key+" failed delete requeues the item", w.Pos(h.Decl.Pos()), "the item whose delete failed is put back on the queue", "an item whose delete failed is not put back on the queue")
	}
	// the delete statement: both parameters reach the statement's arguments, both columns are mentioned
	for _, f := range w.SortedFuncs() {
		if f.Obj.Name() != "BatchDeleteUndoLog" || f.Pkg.PkgPath != pUndoBase || w.IsTestFile(f.Decl.Pos()) {
			continue
		}
		r.Fn(f)
		info := f.Pkg.TypesInfo
		ps := paramObjs(f)
		reach := map[types.Object]bool{}
		// (the statement may be executed by a helper of the package that is handed the identifiers)
		execRes := (&flow.Spec{W: w, Inline: 3, Classify: func(pkg *packages.Package, call *ast.CallExpr, callee *types.Func) []flow.Tag {
			if stdMethod(callee, pSQL, "Stmt", "ExecContext") || stdMethod(callee, pSQL, "Stmt", "Exec") {
				return []flow.Tag{"exec"}
			}
			return nil
		}}).Analyze(f)
		for _, cp := range execRes.Calls {
			if !inSet("exec", cp.Tags...) {
				continue
			}
			for _, a := range cp.Call.Args {
				o := originVia(f, cp.Fn, a, 4)
				for _, p := range ps {
					if replaceToken(o, "param:"+p.Name(), "\x00") != o {
						reach[p] = true
					}
				}
			}
		}
		_ = info
		r.Sites++
		r.Check(len(ps) >= 2 && reach[ps[0]] && reach[ps[1]], "C11.key", core.ShortKey(f.Obj)+" : xid and branch id both bound", w.Pos(f.Decl.Pos()), "both identifiers reach the statement's arguments", "the delete statement is not bound with both the xid and the branch id")
		cols := map[string]bool{}
		for _, g := range reachFrom(w, []*core.FuncInfo{f}, pUndoBase) {
			for _, s := range stringConstsIn(g) {
				ls := strings.ToLower(s)
				if strings.Contains(ls, "branch_id") {
					cols["branch_id"] = true
				}
				if strings.Contains(ls, "xid") {
					cols["xid"] = true
				}
			}
		}
		r.Check(cols["branch_id"] && cols["xid"], "C11.key", core.ShortKey(f.Obj)+" : statement constrains branch_id and xid", w.Pos(f.Decl.Pos()), "WHERE mentions both columns", "the delete statement does not constrain both branch_id and xid: other branches' undo logs could be deleted")
		errDiscipline(r, "C11.key", reachFrom(w, []*core.FuncInfo{f}, pUndoBase), nil)
	}
	// ---- C11.alive
	ctor := w.Func("pkg/datasource/sql", "", "NewAsyncWorker")
	if r.Anchor("C11.alive", ctor, "NewAsyncWorker") != nil {
		var loopFn *core.FuncInfo
		ast.Inspect(ctor.Decl.Body, func(n ast.Node) bool {
			if g, ok := n.(*ast.GoStmt); ok {
				if f := w.Info(core.Callee(ctor.Pkg.TypesInfo, g.Call)); f != nil {
					loopFn = f
				}
			}
			return true
		})
		r.Sites++
		if r.Check(loopFn != nil, "C11.alive", "pkg/datasource/sql.NewAsyncWorker starts the consumer", w.Pos(ctor.Decl.Pos()), "go run()", "the constructor does not start the consumer goroutine") {
			r.Fn(loopFn)
			info := loopFn.Pkg.TypesInfo
			endless, exits, consumes := false, false, false
			ast.Inspect(loopFn.Decl.Body, func(n ast.Node) bool {
				switch x := n.(type) {
				case *ast.ForStmt:
					if x.Cond == nil && x.Init == nil && x.Post == nil {
						endless = true
					}
				case *ast.ReturnStmt:
					exits = true
				case *ast.BranchStmt:
					if x.Tok == token.GOTO || (x.Tok == token.BREAK && x.Label != nil) {
						exits = true
					}
				case *ast.UnaryExpr:
					if x.Op == token.ARROW {
						if sel, ok := ast.Unparen(x.X).(*ast.SelectorExpr); ok && info.Uses[sel.Sel] == queue {
							consumes = true
						}
					}
				case *ast.CallExpr:
					if id, ok := x.Fun.(*ast.Ident); ok && id.Name == "panic" {
						exits = true
					}
				}
				return true
			})
			r.Check(endless && !exits && consumes, "C11.alive", core.ShortKey(loopFn.Obj)+" : endless loop receiving from the queue", w.Pos(loopFn.Decl.Pos()), "for { select { <-queue ... } } without exit", "the consumer loop can terminate (return/labelled break/panic) or does not receive from the commit queue")
		}
	}
	// the resource manager answers 'committed' only after it handed the request to the worker
	if mgr := managerFor(r, "BranchTypeAT"); mgr != nil {
		if mf := methodInfo(w, mgr, "BranchCommit"); r.Anchor("C11.accept", mf, "AT resource manager BranchCommit") != nil {
			res := (&flow.Spec{W: w, Depth: 0, Classify: func(pkg *packages.Package, call *ast.CallExpr, callee *types.Func) []flow.Tag {
				if callee == bc.Obj {
					return []flow.Tag{"handed"}
				}
				return nil
			}}).Analyze(mf)
			for _, ex := range res.Exits {
				c := ex.ResultConst(mf.Pkg.TypesInfo, 0)
				if c == nil || c.Name() != "BranchStatusPhasetwoCommitted" {
					continue
				}
				r.Sites++
				r.Check(ex.St.Has("handed"), "C11.accept", core.ShortKey(mf.Obj)+" "+exitRole(ex, nil)+" answers committed only after handing the request to the async worker", w.Pos(ex.Pos),
					"handed over on every path to this answer", "'committed' is answered on a path that never hands the request to the async worker: the undo log of that branch is never deleted (a resource that is unknown right now is the worker's business: it puts the request back until the resource is known)")
			}
		}
	}
	c11Batch(r, aw)
	r.Floor("C11.batch", 1)
	c11Handoff(r, aw)
	r.Floor("C11.handoff", 3)
	r.Floor("C11.accept", 2)
	r.Floor("C11.requeue", 6)
	r.Floor("C11.key", 4)
	r.Floor("C11.alive", 2)
}

func exprOfStmt(s ast.Stmt) string {
	switch x := s.(type) {
	case *ast.ExprStmt:
		return core.ExprString(x.X)
	case *ast.AssignStmt:
		if len(x.Rhs) == 1 {
			return core.ExprString(x.Rhs[0])
		}
	case *ast.SendStmt:
		return core.ExprString(x.Chan) + " <- " + core.ExprString(x.Value)
	}
	return "?"
}

// c11Key: BatchDeleteUndoLog([]string{e.Xid}, []int64{e.BranchID}, conn) with one element e.
func c11Key(r *core.Run, h *core.FuncInfo, call *ast.CallExpr) {
	w := r.W
	key := core.ShortKey(h.Obj) + " -> BatchDeleteUndoLog keyed by both ids of one element"
	r.Sites++
	if len(call.Args) < 2 {
		r.Bad("C11.key", key, w.Pos(call.Pos()), "unexpected arguments")
		return
	}
	elem := func(e ast.Expr) (string, string, bool) {
		// (the one-element list may be named first: xids := []string{e.Xid})
		if id, isID := ast.Unparen(e).(*ast.Ident); isID {
			if v, isVar := h.Pkg.TypesInfo.Uses[id].(*types.Var); isVar && !v.IsField() {
				if defs := localDefs(h, v); len(defs) == 1 && defs[0].idx < 0 && !defs[0].rng {
					e = defs[0].rhs
				}
			}
		}
		cl, ok := ast.Unparen(e).(*ast.CompositeLit)
		if !ok || len(cl.Elts) != 1 {
			return "", "", false
		}
		sel, ok := ast.Unparen(cl.Elts[0]).(*ast.SelectorExpr)
		if !ok {
			return "", "", false
		}
		return origin(h, sel.X, 3), sel.Sel.Name, true
	}
	b0, f0, ok0 := elem(call.Args[0])
	b1, f1, ok1 := elem(call.Args[1])
	r.Check(ok0 && ok1 && b0 == b1 && f0 == "Xid" && f1 == "BranchID", "C11.key", key, w.Pos(call.Pos()),
		"one-element lists built from the same element's Xid and BranchID", "the delete is not keyed by the xid and branch id of one and the same queued element (got "+b0+"."+f0+" / "+b1+"."+f1+"): another branch's undo log could be deleted")
}

// c11Batch: slices captured by closures that leave the goroutine do not alias a buffer that lives on.
func c11Batch(r *core.Run, aw *types.Named) {
	w := r.W
	if aw == nil {
		return
	}
	for _, f := range w.SortedFuncs() {
		if core.RecvNamed(f.Obj) != aw || w.IsTestFile(f.Decl.Pos()) || f.Decl.Body == nil {
			continue
		}
		info := f.Pkg.TypesInfo
		// closures that escape: argument of a call, or body of a go statement; idents bound to a literal are followed
		litOf := func(e ast.Expr) *ast.FuncLit {
			switch x := ast.Unparen(e).(type) {
			case *ast.FuncLit:
				return x
			case *ast.Ident:
				if v, ok := info.Uses[x].(*types.Var); ok {
					for _, d := range localDefs(f, v) {
						if l, ok := ast.Unparen(d.rhs).(*ast.FuncLit); ok {
							return l
						}
					}
				}
			}
			return nil
		}
		type esc struct {
			lit *ast.FuncLit
			how string
		}
		var escs []esc
		ast.Inspect(f.Decl.Body, func(n ast.Node) bool {
			switch x := n.(type) {
			case *ast.GoStmt:
				if l := litOf(x.Call.Fun); l != nil {
					escs = append(escs, esc{l, "go statement"})
				}
				for _, a := range x.Call.Args {
					if l := litOf(a); l != nil {
						escs = append(escs, esc{l, "go statement"})
					}
				}
			case *ast.CallExpr:
				for _, a := range x.Args {
					if l := litOf(a); l != nil {
						escs = append(escs, esc{l, "call of " + core.ExprString(x.Fun)})
					}
				}
			}
			return true
		})
		// the batch is a private copy or handed over: none of the definitions shares its backing array with a
		// slice the function keeps using
		aliasBad := func(name string, defs []ast.Expr) string {
			bad := ""
			for _, rhs := range defs {
				src := aliasSource(rhs)
				if src == nil {
					continue
				}
				// handed over: the function drops its own reference afterwards
				given := false
				srcText := core.ExprString(src)
				ast.Inspect(f.Decl.Body, func(m ast.Node) bool {
					as, ok := m.(*ast.AssignStmt)
					if !ok || len(as.Lhs) != 1 || len(as.Rhs) != 1 || core.ExprString(as.Lhs[0]) != srcText || as.Pos() < rhs.End() {
						return true
					}
					switch rh := ast.Unparen(as.Rhs[0]).(type) {
					case *ast.Ident:
						given = given || rh.Name == "nil"
					case *ast.CallExpr:
						if fid, ok := rh.Fun.(*ast.Ident); ok && fid.Name == "make" {
							given = true
						}
					case *ast.CompositeLit:
						given = true
					}
					return true
				})
				if !given {
					bad = "'" + name + "' is defined as '" + core.ExprString(rhs) + "', which shares its backing array with '" + srcText + "', and the function keeps using '" + srcText + "'"
				}
			}
			return bad
		}
		// a method value of a local object handed to another goroutine (pool.Do(ctx, batch.commit), go batch.run()):
		// the slice fields of the object that the method reads are the batch
		ast.Inspect(f.Decl.Body, func(n ast.Node) bool {
			var cands []ast.Expr
			how := ""
			switch x := n.(type) {
			case *ast.GoStmt:
				cands, how = append(cands, x.Call.Fun), "go statement"
			case *ast.CallExpr:
				cands, how = append(cands, x.Args...), "call of "+core.ExprString(x.Fun)
			default:
				return true
			}
			for _, c := range cands {
				sel, ok := ast.Unparen(c).(*ast.SelectorExpr)
				if !ok {
					continue
				}
				selInfo := info.Selections[sel]
				if selInfo == nil || selInfo.Kind() != types.MethodVal {
					continue
				}
				if _, isGo := n.(*ast.GoStmt); !isGo {
					// as an argument the selector must be a value, not the callee
					if call, ok := n.(*ast.CallExpr); ok && ast.Unparen(call.Fun) == ast.Expr(sel) {
						continue
					}
				}
				recvVar, _ := core.ObjOf(info, sel.X).(*types.Var)
				m := w.Info(selInfo.Obj().(*types.Func))
				if recvVar == nil || m == nil || m.Decl.Body == nil || isParam(f, recvVar) || recvVar.IsField() || recvVar.Pkg() == nil || recvVar.Parent() == recvVar.Pkg().Scope() {
					continue
				}
				mrecv := recvVarOf(m)
				// slice fields the method reads through its receiver
				fields := map[string]bool{}
				ast.Inspect(m.Decl.Body, func(y ast.Node) bool {
					fs, ok := y.(*ast.SelectorExpr)
					if !ok || mrecv == nil || core.ObjOf(m.Pkg.TypesInfo, fs.X) != mrecv {
						return true
					}
					if fv, ok := m.Pkg.TypesInfo.Uses[fs.Sel].(*types.Var); ok && fv.IsField() {
						if _, isSlice := fv.Type().Underlying().(*types.Slice); isSlice {
							fields[fv.Name()] = true
						}
					}
					return true
				})
				for fld := range fields {
					var defs []ast.Expr
					for _, d := range localDefs(f, recvVar) {
						if cl := findCompositeLit(f, d.rhs); cl != nil {
							if v := litField(cl, fld); v != nil {
								defs = append(defs, v)
							}
						}
					}
					ast.Inspect(f.Decl.Body, func(y ast.Node) bool {
						if as, ok := y.(*ast.AssignStmt); ok {
							for i, l := range as.Lhs {
								if ls, ok := ast.Unparen(l).(*ast.SelectorExpr); ok && ls.Sel.Name == fld && core.ObjOf(info, ls.X) == types.Object(recvVar) && i < len(as.Rhs) {
									defs = append(defs, as.Rhs[i])
								}
							}
						}
						return true
					})
					r.Fn(f)
					r.Fn(m)
					r.Sites++
					key := core.ShortKey(f.Obj) + " method value " + core.ExprString(sel) + " handed to " + how + " reads '" + recvVar.Name() + "." + fld + "'"
					bad := aliasBad(recvVar.Name()+"."+fld, defs)
					r.Check(bad == "", "C11.batch", key, w.Pos(sel.Pos()), "the batch is a private copy (or ownership is handed over)", bad+": requests buffered after the hand-over overwrite the batch before the worker reads it, so acknowledged branch commits are lost (their undo logs are never deleted)")
				}
			}
			return true
		})
		for _, e := range escs {
			r.Fn(f)
			// free slice variables of the literal
			seen := map[*types.Var]bool{}
			ast.Inspect(e.lit.Body, func(n ast.Node) bool {
				id, ok := n.(*ast.Ident)
				if !ok {
					return true
				}
				v, ok := info.Uses[id].(*types.Var)
				if !ok || v.IsField() || seen[v] || v.Pos() >= e.lit.Pos() && v.Pos() < e.lit.End() || v.Pkg() == nil || v.Parent() == v.Pkg().Scope() {
					return true
				}
				t := v.Type()
				if p, ok := t.Underlying().(*types.Pointer); ok {
					t = p.Elem()
				}
				if _, isSlice := t.Underlying().(*types.Slice); !isSlice {
					return true
				}
				seen[v] = true
				r.Sites++
				key := core.ShortKey(f.Obj) + " closure handed to " + e.how + " reads '" + v.Name() + "'"
				pos := w.Pos(e.lit.Pos())
				if isParam(f, v) {
					r.Bad("C11.batch", key, pos, "the closure runs on another goroutine but reads the caller's slice '"+v.Name()+"' directly")
					return true
				}
				var rhss []ast.Expr
				for _, d := range localDefs(f, v) {
					rhss = append(rhss, d.rhs)
				}
				bad := aliasBad(v.Name(), rhss)
				r.Check(bad == "", "C11.batch", key, pos, "the batch is a private copy (or ownership is handed over)", bad+": requests buffered after the hand-over overwrite the batch before the worker reads it, so acknowledged branch commits are lost (their undo logs are never deleted)")
				return true
			})
		}
	}
}

// aliasSource returns the expression whose backing array e shares (slicing, plain copy of the header), nil when e
// allocates (make, literal, append onto nil / a fresh slice, any other call).
func aliasSource(e ast.Expr) ast.Expr {
	switch x := ast.Unparen(e).(type) {
	case *ast.SliceExpr:
		return x.X
	case *ast.StarExpr, *ast.SelectorExpr, *ast.Ident:
		if id, ok := x.(*ast.Ident); ok && id.Name == "nil" {
			return nil
		}
		return x
	case *ast.CallExpr:
		if id, ok := x.Fun.(*ast.Ident); ok && id.Name == "append" && len(x.Args) > 0 {
			return aliasSource(x.Args[0])
		}
	}
	return nil
}

// c11Handoff: handing a batch to the worker pool blocks rather than fails.
func c11Handoff(r *core.Run, aw *types.Named) {
	w := r.W
	if aw == nil {
		return
	}
	var do *core.FuncInfo
	for _, f := range w.SortedFuncs() {
		if core.RecvNamed(f.Obj) != aw || w.IsTestFile(f.Decl.Pos()) {
			continue
		}
		info := f.Pkg.TypesInfo
		for _, cs := range w.Calls(f) {
			g := w.Info(cs.Static)
			if g == nil || g.Obj.Name() != "Do" || !strings.HasSuffix(g.Pkg.PkgPath, "/pkg/util/fanout") {
				continue
			}
			do = g
			r.Fn(f)
			r.Sites++
			o := ""
			if len(cs.Call.Args) > 0 {
				o = origin(f, cs.Call.Args[0], 4)
			}
			// the error of Do must either be impossible (never-done context) or be handled by putting the batch back
			requeues := false
			ast.Inspect(f.Decl.Body, func(n ast.Node) bool {
				if ss, ok := n.(*ast.SendStmt); ok {
					if sel, ok := ast.Unparen(ss.Chan).(*ast.SelectorExpr); ok {
						if v, ok := info.Uses[sel.Sel].(*types.Var); ok && v.IsField() {
							requeues = true
						}
					}
				}
				return true
			})
			r.Check(strings.Contains(o, "context.Background(") || strings.Contains(o, "context.TODO(") || requeues, "C11.handoff", core.ShortKey(f.Obj)+" hands the batch over with a context that is never done", w.Pos(cs.Call.Pos()),
				"context "+o, "the batch is handed to the worker pool with a context ("+o+") that can end, and the failure branch does not put the batch back: acknowledged branch commits are dropped")
		}
	}
	if do == nil {
		r.Anchor("C11.handoff", nil, "call of fanout.(*Fanout).Do from the async worker")
		return
	}
	r.Fn(do)
	info := do.Pkg.TypesInfo
	var isCtxErr func(e ast.Expr) bool
	isCtxErr = func(e ast.Expr) bool {
		// (`if err := ctx.Err(); err != nil { return err }`: a variable all of whose definitions are such calls)
		if id, isID := ast.Unparen(e).(*ast.Ident); isID {
			v, isVar := info.Uses[id].(*types.Var)
			if !isVar || v.IsField() {
				return false
			}
			defs := localDefs(do, v)
			for _, d := range defs {
				if d.rng || d.idx >= 0 || !isCtxErr(d.rhs) {
					return false
				}
			}
			return len(defs) > 0
		}
		c, ok := ast.Unparen(e).(*ast.CallExpr)
		if !ok || len(c.Args) != 0 {
			return false
		}
		sel, ok := ast.Unparen(c.Fun).(*ast.SelectorExpr)
		if !ok || sel.Sel.Name != "Err" {
			return false
		}
		t := info.TypeOf(sel.X)
		return t != nil && t.String() == "context.Context"
	}
	ast.Inspect(do.Decl.Body, func(n ast.Node) bool {
		switch x := n.(type) {
		case *ast.FuncLit:
			return false
		case *ast.ReturnStmt:
			if len(x.Results) != 1 || isNilIdent(info, x.Results[0]) {
				return true
			}
			r.Sites++
			r.Check(isCtxErr(x.Results[0]), "C11.handoff", core.ShortKey(do.Obj)+" fails only with the Err() of a context: return "+core.ExprString(x.Results[0]), w.Pos(x.Pos()), "context error",
				"Do can fail for a reason other than a finished context ("+core.ExprString(x.Results[0])+"): the async worker only logs that failure, so the whole batch of acknowledged branch commits is dropped and their undo logs are never deleted")
		case *ast.SelectStmt:
			sends, hasDefault := false, false
			for _, c := range x.Body.List {
				cc := c.(*ast.CommClause)
				if cc.Comm == nil {
					hasDefault = true
				} else if _, ok := cc.Comm.(*ast.SendStmt); ok {
					sends = true
				}
			}
			if sends {
				r.Sites++
				r.Check(!hasDefault, "C11.handoff", core.ShortKey(do.Obj)+" waits for room in the queue", w.Pos(x.Pos()), "select without default", "the queue send has a default arm: when every worker is busy and the buffer is full the callback is not queued")
			}
		}
		return true
	})
}

// everyPathReaches: the statement is a top-level statement of the function's body and nothing before it can
// leave the function (no return, goto or panic call textually before it).
func everyPathReaches(g *core.FuncInfo, st ast.Stmt) bool {
	top := false
	for _, s := range g.Decl.Body.List {
		if s == st {
			top = true
		}
	}
	if !top {
		return false
	}
	ok := true
	ast.Inspect(g.Decl.Body, func(n ast.Node) bool {
		if n == nil || n.Pos() >= st.Pos() {
			return n != nil && n.Pos() < st.Pos()
		}
		switch x := n.(type) {
		case *ast.ReturnStmt:
			ok = false
		case *ast.BranchStmt:
			if x.Tok == token.GOTO {
				ok = false
			}
		case *ast.CallExpr:
			if id, isID := ast.Unparen(x.Fun).(*ast.Ident); isID && id.Name == "panic" {
				ok = false
			}
		}
		return true
	})
	return ok
}
