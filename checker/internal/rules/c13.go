package rules

import (
	"go/ast"
	"go/constant"
	"go/token"
	"go/types"
	"strings"

	"golang.org/x/tools/go/packages"

	"seatalint/internal/core"
	"seatalint/internal/flow"
)

func init() { register("C13", checkC13) }

// quantity names an operand of a length comparison in the frame reader.
// c13Data: the frame reader's data parameter and the parameters of package helpers it is handed to unchanged.
type c13Data map[types.Object]bool

func (d c13Data) is(info *types.Info, e ast.Expr) bool {
	o := core.ObjOf(info, e)
	return o != nil && d[o]
}

func c13Quantity(info *types.Info, e ast.Expr, dataParam c13Data) string {
	e = ast.Unparen(e)
	if v := core.ConstVal(info, e); v != nil && v.Kind() == constant.Int {
		return "#" + v.ExactString()
	}
	switch x := e.(type) {
	case *ast.CallExpr:
		if tv, ok := info.Types[x.Fun]; ok && tv.IsType() && len(x.Args) == 1 {
			return c13Quantity(info, x.Args[0], dataParam)
		}
		if id, ok := x.Fun.(*ast.Ident); ok && id.Name == "len" && len(x.Args) == 1 && dataParam.is(info, x.Args[0]) {
			return "len"
		}
	case *ast.SelectorExpr:
		switch x.Sel.Name {
		case "TotalLength":
			return "Total"
		case "HeadLength":
			return "Head"
		}
	}
	return ""
}

// c13CondTags turns a comparison into ">=" facts on the branch where they hold.
func c13CondTags(dataParam c13Data, hdrLen string) func(pkg *packages.Package, cond ast.Expr, branch bool) []flow.Tag {
	return func(pkg *packages.Package, cond ast.Expr, branch bool) []flow.Tag {
		be, ok := ast.Unparen(cond).(*ast.BinaryExpr)
		if !ok {
			return nil
		}
		a, b := c13Quantity(pkg.TypesInfo, be.X, dataParam), c13Quantity(pkg.TypesInfo, be.Y, dataParam)
		if a == "" || b == "" {
			return nil
		}
		norm := func(q string) string {
			if q == "#"+hdrLen {
				return "16"
			}
			return q
		}
		a, b = norm(a), norm(b)
		// relation that holds on this branch
		op := be.Op
		if !branch {
			switch op {
			case token.LSS:
				op = token.GEQ
			case token.LEQ:
				op = token.GTR
			case token.GTR:
				op = token.LEQ
			case token.GEQ:
				op = token.LSS
			default:
				return nil
			}
		}
		switch op {
		case token.GEQ, token.GTR:
			return []flow.Tag{a + ">=" + b}
		case token.LEQ, token.LSS:
			return []flow.Tag{b + ">=" + a}
		}
		return nil
	}
}

func checkC13(r *core.Run) {
	r.Explain = "Decided statically on every CFG path of RpcPackageHandler.Read: (C13.header) every read from the buffer is dominated by len(data) >= 16 whose failing edge answers (nil, _, nil); (C13.total) body decoding and the success return are dominated by len(data) >= TotalLength, the consumed length returned is TotalLength, the incomplete edge answers a nil package with nil error; (C13.progress) a non-nil package is never returned unless TotalLength >= HeadLength >= 16 was established (consumed length cannot be 0); (C13.underflow) the unsigned subtractions HeadLength-16 and TotalLength-HeadLength and the slice data[HeadLength:] are dominated by the corresponding comparisons; (C13.mirror) the 16-byte header written by Write and read by Read have the same field widths and order and the fields map back onto the RpcMessage they came from, the header constant equals the sum of the widths, Write's lengths are the sums of the parts it emits, and in the head-map decoder the branch for an empty k-th string assigns only the k-th slot. (C13.copy) the length-prefixed string readers the body codecs use allocate a fresh buffer of the prefixed size and return a copy, and pkg/util/bytes does not import unsafe, so a returned message does not alias the session's receive buffer that later frames overwrite. NOT decided: behaviour over all partitions of a stream and the transport loop's reaction (getty) — dynamic."
	r.Trusted = []string{"go/types, go/cfg", "getty: a nil package with nil error means 'need more data' and consumes nothing", "bytes helpers return zero on short input"}
	w := r.W
	h := w.NamedType("pkg/remoting/getty", "RpcPackageHandler")
	rd, wr := methodInfo(w, h, "Read"), methodInfo(w, h, "Write")
	if r.Anchor("C13.anchor", rd, "RpcPackageHandler.Read") == nil || r.Anchor("C13.anchor", wr, "RpcPackageHandler.Write") == nil {
		return
	}
	info := rd.Pkg.TypesInfo
	dataParam := c13Data{}
	for _, p := range paramObjs(rd) {
		if p.Type().String() == "[]byte" {
			dataParam[p] = true
		}
	}
	// helpers of the package that receive the data slice as it is (two levels)
	for round, fns := 0, []*core.FuncInfo{rd}; round < 2; round++ {
		var next []*core.FuncInfo
		for _, f := range fns {
			ast.Inspect(f.Decl.Body, func(n ast.Node) bool {
				c, ok := n.(*ast.CallExpr)
				if !ok {
					return true
				}
				g := w.Info(core.Callee(f.Pkg.TypesInfo, c))
				if g == nil || g.Pkg != rd.Pkg || g.Decl.Body == nil {
					return true
				}
				ps := paramObjs(g)
				for i, a := range c.Args {
					if i < len(ps) && dataParam.is(f.Pkg.TypesInfo, a) {
						dataParam[ps[i]] = true
						next = append(next, g)
					}
				}
				return true
			})
		}
		fns = next
	}
	hdrConst := w.Lookup("pkg/remoting/getty", "Seatav1HeaderLength")
	hdrLen := "16"
	if c, ok := hdrConst.(*types.Const); ok {
		hdrLen = c.Val().ExactString()
	}
	isBufRead := func(f *types.Func) bool { return readKind(f) != "" }
	isBodyDecode := func(f *types.Func) bool { return core.IsMethod(f, pCodec, "CodecManager", "Decode") }
	sp := &flow.Spec{W: w, Depth: 0, CondTags: c13CondTags(dataParam, hdrLen),
		Classify: func(pkg *packages.Package, call *ast.CallExpr, callee *types.Func) []flow.Tag {
			switch {
			case isBufRead(callee):
				return []flow.Tag{"read"}
			case isBodyDecode(callee):
				return []flow.Tag{"bodydecode"}
			}
			// helpers of the package taking the buffer (fixed header, head map) are analysed in Read's context
			return nil
		}}
	key := core.ShortKey(rd.Obj)
	sp.Visit = func(pkg *packages.Package, n ast.Node, st *flow.State) {
		ast.Inspect(n, func(m ast.Node) bool {
			switch x := m.(type) {
			case *ast.FuncLit:
				return false
			case *ast.BinaryExpr:
				if x.Op != token.SUB {
					return true
				}
				a, b := c13Quantity(info, x.X, dataParam), c13Quantity(info, x.Y, dataParam)
				if a == "#"+hdrLen {
					a = "16"
				}
				if b == "#"+hdrLen {
					b = "16"
				}
				if (a == "Head" || a == "Total" || a == "len") && (b == "16" || b == "Head" || b == "Total") {
					r.Sites++
					r.Check(st.Has(a+">="+b), "C13.underflow", key+" : "+a+" - "+b+" cannot underflow", w.Pos(x.Pos()), "dominated by "+a+" >= "+b,
						"the unsigned subtraction "+core.ExprString(x)+" is not dominated by a check that "+a+" >= "+b+": on non-frame bytes it wraps to a huge length")
				}
			case *ast.SliceExpr:
				if dataParam.is(info, x.X) && x.Low != nil && c13Quantity(info, x.Low, dataParam) == "Head" {
					r.Sites++
					r.Check(st.Has("len>=Total") && st.Has("Total>=Head"), "C13.underflow", key+" : data[HeadLength:] within bounds", w.Pos(x.Pos()), "len(data) >= TotalLength >= HeadLength",
						"the slice data[HeadLength:] is not dominated by len(data) >= TotalLength >= HeadLength: a HeadLength beyond the available bytes panics (slice bounds out of range)")
				}
			}
			return true
		})
	}
	res := sp.Analyze(rd)
	nRead := 0
	for _, cp := range res.Calls {
		switch {
		case inSet("read", cp.Tags...):
			nRead++
			r.Sites++
			r.Check(cp.Before.Has("len>=16"), "C13.header", key+" -> "+core.ShortKey(cp.Callee)+" after the header-length guard", w.Pos(cp.Call.Pos()), "read only with a complete header",
				"header bytes are read without having checked that "+hdrLen+" bytes are available: with 3..15 bytes buffered the fields read as zero and a frame is fabricated with consumed length 0")
		case inSet("bodydecode", cp.Tags...):
			r.Sites++
			r.Check(cp.Before.Has("len>=Total"), "C13.total", key+" -> CodecManager.Decode only on a complete frame", w.Pos(cp.Call.Pos()), "body decoded only when the whole frame is buffered", "the body is decoded although the frame may be incomplete")
		}
	}
	if nRead < 9 {
		r.Bad("C13.header", key+" : header reads found", w.Pos(rd.Decl.Pos()), "fewer than nine header reads found")
	}
	for _, ex := range res.Exits {
		r.Sites++
		pkgNil := len(ex.Results) == 3 && isNilIdent(info, ex.Results[0])
		role := exitRole(ex, func(t string) bool { return strings.Contains(t, ">=") })
		k := key + " " + role
		switch {
		case ex.Class == flow.ExitErr:
			r.Check(pkgNil, "C13.total", k+" error", w.Pos(ex.Pos), "errors carry no package", "an error is returned together with a package")
		case pkgNil:
			// need more data: nothing read beyond what is there, nil error
			r.Check(ex.Class == flow.ExitOK && !ex.St.Maybe("bodydecode"), "C13.total", k+" need-more-data", w.Pos(ex.Pos), "incomplete: nil package, nil error, nothing decoded", "the need-more-data answer decodes a body or carries an error")
		default:
			cons := ""
			if len(ex.Results) == 3 {
				cons = origin(rd, ex.Results[1], 4)
			}
			ok := ex.St.Has("len>=16") && ex.St.Has("len>=Total")
			r.Check(ok, "C13.total", k+" message returned only for a complete frame", w.Pos(ex.Pos), "dominated by len >= 16 and len >= TotalLength", "a message is returned although the buffered bytes are not known to contain the whole frame")
			r.Check(strings.HasSuffix(cons, ".TotalLength"), "C13.total", key+" consumed length is TotalLength", w.Pos(ex.Pos), "consumed = TotalLength", "the consumed length returned with a message derives from "+cons+", not from the frame's TotalLength")
			r.Check(ex.St.Has("Total>=Head") && ex.St.Has("Head>=16"), "C13.progress", key+" message only with TotalLength >= HeadLength >= 16", w.Pos(ex.Pos), "consumed length is at least 16",
				"a message can be returned without TotalLength >= HeadLength >= 16 having been established: the consumed length may be 0 and the transport re-reads the same bytes forever")
		}
	}
	c13Mirror(r, rd, wr)
	// messages returned by Read must not alias the transport's receive buffer: the string readers copy
	c12Helpers(r, "C13.copy")
	c12Pure(r, "C13.pure")
	r.Floor("C13.copy", 8)
	r.Floor("C13.header", 4)
	r.Floor("C13.total", 4)
	r.Floor("C13.underflow", 3)
	r.Floor("C13.mirror", 6)
}

func c13Mirror(r *core.Run, rd, wr *core.FuncInfo) {
	w := r.W
	eo, eu := extractLayout(w, wr, "enc", 1)
	do, du := extractLayout(w, rd, "dec", 1)
	_ = eu
	_ = du
	kinds := func(ops []wireOp, n int) string {
		var k []string
		for i := 0; i < len(ops) && i < n; i++ {
			k = append(k, ops[i].Kind)
		}
		return strings.Join(k, " ")
	}
	r.Sites++
	ek, dk := kinds(eo, 9), kinds(do, 9)
	r.Check(ek == dk && len(eo) >= 9 && len(do) >= 9, "C13.mirror", "header written by Write == header read by Read (widths, order)", w.Pos(rd.Decl.Pos()), ek, "Write emits the header as {"+ek+"} but Read consumes {"+dk+"}")
	// sum of widths equals the header constants
	width := map[string]int{"u8": 1, "u16": 2, "u32": 4, "u64": 8}
	sum := 0
	for i := 0; i < 9 && i < len(eo); i++ {
		sum += width[eo[i].Kind]
	}
	hc := 0
	if c, ok := w.Lookup("pkg/remoting/getty", "Seatav1HeaderLength").(*types.Const); ok {
		v, _ := constant.Int64Val(c.Val())
		hc = int(v)
	}
	mc := 0
	if c, ok := w.Lookup("pkg/protocol/message", "V1HeadLength").(*types.Const); ok {
		v, _ := constant.Int64Val(c.Val())
		mc = int(v)
	}
	r.Sites++
	r.Check(sum == hc && hc == mc && sum > 0, "C13.mirror", "fixed header width == Seatav1HeaderLength == message.V1HeadLength", w.Pos(rd.Decl.Pos()), "16 bytes", "the fixed header fields add up to "+itoa(sum)+" bytes, the reader's constant is "+itoa(hc)+", the writer's "+itoa(mc))
	// field correspondence through the RpcMessage literal in Read
	var lit *ast.CompositeLit
	ast.Inspect(rd.Decl.Body, func(n ast.Node) bool {
		if cl, ok := n.(*ast.CompositeLit); ok {
			if t := rd.Pkg.TypesInfo.TypeOf(cl); t != nil && strings.HasSuffix(t.String(), "message.RpcMessage") {
				lit = cl
			}
		}
		return true
	})
	if lit != nil && len(eo) >= 9 && len(do) >= 9 {
		for i := 5; i < 9; i++ {
			wf := eo[i].Field // field of RpcMessage written at position i
			v := litField(lit, wf)
			r.Sites++
			got := ""
			if v != nil {
				got = leafField(stripConv(rd.Pkg.TypesInfo, v))
			}
			r.Check(got == do[i].Field && got != "", "C13.mirror", "header position "+itoa(i+1)+" ("+eo[i].Kind+") carries RpcMessage."+wf+" both ways", w.Pos(rd.Decl.Pos()), "Read fills "+wf+" from the field it read at this position",
				"Write puts RpcMessage."+wf+" at header position "+itoa(i+1)+" but Read fills "+wf+" from header."+got+", which it read at another position (position "+itoa(i+1)+" went into header."+do[i].Field+")")
		}
	} else {
		r.Bad("C13.mirror", "RpcMessage literal in Read", w.Pos(rd.Decl.Pos()), "cannot find the RpcMessage literal / header operations")
	}
	// Write's lengths are the sums of the parts
	tl, hl := "", ""
	for _, o := range eo {
		_ = o
	}
	ast.Inspect(wr.Decl.Body, func(n ast.Node) bool {
		c, ok := n.(*ast.CallExpr)
		if !ok || len(c.Args) != 1 {
			return true
		}
		f := core.Callee(wr.Pkg.TypesInfo, c)
		if writeKind(f) == "u32" && tl == "" {
			tl = origin(wr, c.Args[0], 5)
		}
		if writeKind(f) == "u16" && hl == "" {
			hl = origin(wr, c.Args[0], 5)
		}
		return true
	})
	r.Sites++
	// the head-map term: the length the head-map encoder hands back, or a length function of the package over the
	// same map, verified to add per entry exactly what the encoder writes per entry (two 16-bit prefixes, key, value)
	hmTerm := "encodeHeapMap"
	for _, cs := range w.Calls(wr) {
		g := w.Info(cs.Static)
		if g == nil || g.Pkg != wr.Pkg || g.Decl.Body == nil || len(cs.Call.Args) != 1 {
			continue
		}
		if !strings.Contains(tl, "call:"+core.ShortKey(g.Obj)+"(") || !headMapLengthFn(g) {
			continue
		}
		// the same map as the one that is encoded
		arg := origin(wr, cs.Call.Args[0], 3)
		same := false
		for _, cs2 := range w.Calls(wr) {
			if cs2.Static != nil && cs2.Static.Name() == "encodeHeapMap" {
				for _, a := range cs2.Call.Args {
					if origin(wr, a, 3) == arg {
						same = true
					}
				}
			}
		}
		if same {
			hmTerm = "call:" + core.ShortKey(g.Obj) + "("
			r.Fn(g)
		}
	}
	okT := strings.Contains(tl, "const:V1HeadLength") && strings.Contains(tl, hmTerm) && strings.Contains(tl, "builtin:len(")
	okH := strings.Contains(hl, "const:V1HeadLength") && strings.Contains(hl, hmTerm) && !strings.Contains(hl, "builtin:len(call:pkg/protocol/codec")
	r.Check(okT && okH, "C13.mirror", "Write: total = header + head map + body, head = header + head map", w.Pos(wr.Decl.Pos()), "lengths are the sums of the emitted parts", "Write's TotalLength derives from {"+tl+"} and HeadLength from {"+hl+"}: not the sums of the parts it emits")
	// head map decoder slot isolation
	dm := w.Func("pkg/remoting/getty", "", "decodeHeapMap")
	if r.Anchor("C13.mirror", dm, "decodeHeapMap") == nil {
		return
	}
	dinfo := dm.Pkg.TypesInfo
	n := 0
	// (one entry read by a helper of the package — buffer in, (key, value, ..) out: the slots are looked for there,
	// and the decoder must store (first result, second result))
	slotFn := dm
	var entryCall *ast.AssignStmt
	ast.Inspect(dm.Decl.Body, func(x ast.Node) bool {
		as, ok := x.(*ast.AssignStmt)
		if !ok || len(as.Rhs) != 1 || len(as.Lhs) < 2 {
			return true
		}
		c, ok := ast.Unparen(as.Rhs[0]).(*ast.CallExpr)
		if !ok {
			return true
		}
		g := w.Info(core.Callee(dinfo, c))
		if g == nil || g.Pkg != dm.Pkg || g.Decl.Body == nil {
			return true
		}
		sig := g.Obj.Type().(*types.Signature)
		if sig.Results().Len() < 2 {
			return true
		}
		for i := 0; i < 2; i++ {
			if b, ok := sig.Results().At(i).Type().(*types.Basic); !ok || b.Kind() != types.String {
				return true
			}
		}
		for _, a := range c.Args {
			if t := dinfo.TypeOf(a); t != nil && strings.HasSuffix(t.String(), "bytes.ByteBuffer") {
				slotFn, entryCall = g, as
				r.Fn(g)
			}
		}
		return true
	})
	var slots []types.Object
	ast.Inspect(slotFn.Decl.Body, func(x ast.Node) bool {
		ifs, ok := x.(*ast.IfStmt)
		if !ok {
			return true
		}
		be, ok := ifs.Cond.(*ast.BinaryExpr)
		if !ok {
			return true
		}
		if v := core.ConstVal(dinfo, be.Y); v == nil || v.ExactString() != "0" {
			return true
		}
		// the branch taken for a non-empty string (`if n == 0 {..} else {filled}` or `if n > 0 {filled}`) and the
		// one for an empty string (which may be absent: the slot keeps its zero value)
		var filled, empty ast.Node
		switch be.Op {
		case token.EQL:
			if ifs.Else == nil {
				return true
			}
			filled, empty = ifs.Else, ifs.Body
		case token.GTR, token.NEQ:
			filled = ifs.Body
			if ifs.Else != nil {
				empty = ifs.Else
			}
		default:
			return true
		}
		outside := func(o types.Object) bool { return o != nil && (o.Pos() < ifs.Pos() || o.Pos() >= ifs.End()) }
		// slot: the string variable (declared outside the test) assigned in the filled branch
		var slot types.Object
		ast.Inspect(filled, func(m ast.Node) bool {
			if as, ok := m.(*ast.AssignStmt); ok && as.Tok == token.ASSIGN {
				for _, l := range as.Lhs {
					if o := core.ObjOf(dinfo, l); outside(o) {
						if b, ok := o.Type().(*types.Basic); ok && b.Kind() == types.String {
							slot = o
						}
					}
				}
			}
			return true
		})
		if slot == nil {
			return true
		}
		n++
		r.Sites++
		slots = append(slots, slot)
		okSlot := true
		wrong := ""
		for _, br := range []ast.Node{filled, empty} {
			if br == nil {
				continue
			}
			ast.Inspect(br, func(m ast.Node) bool {
				if as, ok := m.(*ast.AssignStmt); ok {
					for _, l := range as.Lhs {
						if o := core.ObjOf(dinfo, l); outside(o) && o != slot {
							if b, ok := o.Type().(*types.Basic); ok && b.Kind() == types.String {
								okSlot = false
								wrong = o.Name()
							}
						}
					}
				}
				return true
			})
		}
		r.Check(okSlot, "C13.mirror", "decodeHeapMap: empty "+slot.Name()+" assigns only "+slot.Name(), w.Pos(ifs.Pos()), "slot isolation", "the branch for an empty "+slot.Name()+" assigns '"+wrong+"' instead: an entry with an empty "+slot.Name()+" loses its other half")
		return true
	})
	if entryCall != nil && len(slots) >= 2 {
		// the helper hands back (first slot, second slot, ..) and the decoder stores (first result, second result)
		okRet := true
		ast.Inspect(slotFn.Decl.Body, func(x ast.Node) bool {
			switch y := x.(type) {
			case *ast.FuncLit:
				return false
			case *ast.ReturnStmt:
				if len(y.Results) == 0 {
					res := slotFn.Obj.Type().(*types.Signature).Results()
					if res.At(0) != slots[0] || res.At(1) != slots[1] {
						okRet = false
					}
				} else if len(y.Results) < 2 || core.ObjOf(dinfo, y.Results[0]) != slots[0] || core.ObjOf(dinfo, y.Results[1]) != slots[1] {
					okRet = false
				}
			}
			return true
		})
		r.Sites++
		r.Check(okRet, "C13.mirror", "decodeHeapMap: the entry reader hands back (first string read, second string read)", w.Pos(slotFn.Decl.Pos()), "results in reading order",
			core.ShortKey(slotFn.Obj)+" does not return the two strings in the order it read them: keys and values are mixed up")
		stored := false
		ast.Inspect(dm.Decl.Body, func(x ast.Node) bool {
			as, ok := x.(*ast.AssignStmt)
			if !ok || len(as.Lhs) != 1 || len(as.Rhs) != 1 {
				return true
			}
			ix, ok := ast.Unparen(as.Lhs[0]).(*ast.IndexExpr)
			if !ok {
				return true
			}
			if _, isMap := dinfo.TypeOf(ix.X).Underlying().(*types.Map); !isMap {
				return true
			}
			stored = true
			k, v := core.ObjOf(dinfo, ix.Index), core.ObjOf(dinfo, as.Rhs[0])
			r.Check(k != nil && v != nil && k == core.ObjOf(dinfo, entryCall.Lhs[0]) && v == core.ObjOf(dinfo, entryCall.Lhs[1]), "C13.mirror", "decodeHeapMap: entry stored as (first string read, second string read)", w.Pos(as.Pos()), "key = first result, value = second result",
				"the head-map entry is stored as ("+core.ExprString(ix.Index)+", "+core.ExprString(as.Rhs[0])+"), not (first string read, second string read): keys and values are mixed up")
			return true
		})
		if !stored {
			r.Bad("C13.mirror", "decodeHeapMap: entry stored", w.Pos(dm.Decl.Pos()), "no store into the result map found")
		}
	}
	// a slot read through a helper of the package (buffer in, string out): one call per slot, nothing to mix up
	var slotVars []types.Object
	ast.Inspect(dm.Decl.Body, func(x ast.Node) bool {
		as, ok := x.(*ast.AssignStmt)
		if !ok || len(as.Rhs) != 1 {
			return true
		}
		c, ok := ast.Unparen(as.Rhs[0]).(*ast.CallExpr)
		if !ok {
			return true
		}
		g := w.Info(core.Callee(dinfo, c))
		if g == nil || g.Pkg != dm.Pkg || g.Decl.Body == nil {
			return true
		}
		sig := g.Obj.Type().(*types.Signature)
		if sig.Results().Len() == 0 {
			return true
		}
		if b, ok := sig.Results().At(0).Type().(*types.Basic); !ok || b.Kind() != types.String {
			return true
		}
		takesBuf := false
		for _, a := range c.Args {
			if t := dinfo.TypeOf(a); t != nil && strings.HasSuffix(t.String(), "bytes.ByteBuffer") {
				takesBuf = true
			}
		}
		if takesBuf {
			n++
			r.Sites++
			if o := core.ObjOf(dinfo, as.Lhs[0]); o != nil {
				slotVars = append(slotVars, o)
			}
		}
		return true
	})
	if len(slotVars) >= 2 {
		// the entry stored is (first slot, second slot)
		stored := false
		ast.Inspect(dm.Decl.Body, func(x ast.Node) bool {
			as, ok := x.(*ast.AssignStmt)
			if !ok || len(as.Lhs) != 1 || len(as.Rhs) != 1 {
				return true
			}
			ix, ok := ast.Unparen(as.Lhs[0]).(*ast.IndexExpr)
			if !ok {
				return true
			}
			if _, isMap := dinfo.TypeOf(ix.X).Underlying().(*types.Map); !isMap {
				return true
			}
			stored = true
			k, v := core.ObjOf(dinfo, ix.Index), core.ObjOf(dinfo, as.Rhs[0])
			r.Check(k == slotVars[0] && v == slotVars[1], "C13.mirror", "decodeHeapMap: entry stored as (first string read, second string read)", w.Pos(as.Pos()), "key = first slot, value = second slot",
				"the head-map entry is stored as ("+core.ExprString(ix.Index)+", "+core.ExprString(as.Rhs[0])+"), not (first string read, second string read): keys and values are mixed up")
			return true
		})
		if !stored {
			r.Bad("C13.mirror", "decodeHeapMap: entry stored", w.Pos(dm.Decl.Pos()), "no store into the result map found")
		}
	}
	if n < 2 {
		r.Bad("C13.mirror", "decodeHeapMap: key and value slots", w.Pos(dm.Decl.Pos()), "expected two length-tested slots (key, value)")
	}
	// head map mirror: u16 len + raw, twice per entry, both sides
	em := w.Func("pkg/remoting/getty", "", "encodeHeapMap")
	if em != nil {
		var cnt func(f *core.FuncInfo, kind func(*types.Func) string, depth int) string
		cnt = func(f *core.FuncInfo, kind func(*types.Func) string, depth int) string {
			var ks []string
			ast.Inspect(f.Decl.Body, func(x ast.Node) bool {
				if c, ok := x.(*ast.CallExpr); ok {
					callee := core.Callee(f.Pkg.TypesInfo, c)
					if k := kind(callee); k != "" {
						ks = append(ks, k)
					} else if g := w.Info(callee); g != nil && g.Pkg == f.Pkg && g.Decl.Body != nil && g != f && depth > 0 {
						// a helper of the package: its operations, once per call site
						if sub := cnt(g, kind, depth-1); sub != "" {
							ks = append(ks, sub)
						}
					}
				}
				return true
			})
			return strings.Join(ks, " ")
		}
		e := cnt(em, writeKind, 1)
		d := cnt(dm, readKind, 1)
		r.Sites++
		// per string: encoder (u16 | u16 raw) or the 16-bit string writer; decoder u16 raw or the 16-bit string reader
		units := func(s string, inline string) int {
			n := 0
			for s != "" {
				switch {
				case strings.HasPrefix(s, inline):
					s = strings.TrimPrefix(s[len(inline):], " ")
				case strings.HasPrefix(s, "str16"):
					s = strings.TrimPrefix(s[len("str16"):], " ")
				default:
					return -1
				}
				n++
			}
			return n
		}
		okM := units(e, "u16 u16 raw") == 2 && units(d, "u16 raw") == 2
		r.Check(okM, "C13.mirror", "head map entries: 16-bit length + bytes for key and value on both sides", w.Pos(em.Decl.Pos()), "enc {"+e+"} dec {"+d+"}", "head-map encoder {"+e+"} and decoder {"+d+"} do not both use a 16-bit length followed by the bytes for key and value")
	}
}

func stripConv(info *types.Info, e ast.Expr) ast.Expr {
	e = ast.Unparen(e)
	for {
		c, ok := e.(*ast.CallExpr)
		if !ok || len(c.Args) != 1 {
			return e
		}
		if tv, ok := info.Types[c.Fun]; ok && tv.IsType() {
			e = ast.Unparen(c.Args[0])
			continue
		}
		return e
	}
}

// headMapLengthFn: g(data map[string]string) int is `n := 0; for k, v := range data { n += 4 + len(k) + len(v) }; return n`
// — per entry two 16-bit prefixes plus the bytes of key and value, the terms in any order.
func headMapLengthFn(g *core.FuncInfo) bool {
	info := g.Pkg.TypesInfo
	ps := paramObjs(g)
	if len(ps) != 1 {
		return false
	}
	var loop *ast.RangeStmt
	var acc types.Object
	for _, st := range g.Decl.Body.List {
		switch x := st.(type) {
		case *ast.AssignStmt:
			if len(x.Lhs) == 1 && len(x.Rhs) == 1 {
				if v := core.ConstVal(info, x.Rhs[0]); v != nil && v.String() == "0" {
					acc = core.ObjOf(info, x.Lhs[0])
					continue
				}
			}
			return false
		case *ast.RangeStmt:
			if loop != nil || !isObj(info, x.X, ps[0]) {
				return false
			}
			loop = x
		case *ast.ReturnStmt:
			if len(x.Results) != 1 || acc == nil || !isObj(info, x.Results[0], acc) {
				return false
			}
		default:
			return false
		}
	}
	if loop == nil || acc == nil || loop.Key == nil || loop.Value == nil || len(loop.Body.List) != 1 {
		return false
	}
	as, ok := loop.Body.List[0].(*ast.AssignStmt)
	if !ok || as.Tok != token.ADD_ASSIGN || len(as.Lhs) != 1 || !isObj(info, as.Lhs[0], acc) {
		return false
	}
	k, v := core.ObjOf(info, loop.Key), core.ObjOf(info, loop.Value)
	konst, nk, nv, okAll := int64(0), 0, 0, true
	var walk func(e ast.Expr)
	walk = func(e ast.Expr) {
		e = ast.Unparen(e)
		if be, ok := e.(*ast.BinaryExpr); ok && be.Op == token.ADD {
			walk(be.X)
			walk(be.Y)
			return
		}
		if c := core.ConstVal(info, e); c != nil {
			if i, exact := constant.Int64Val(c); exact {
				konst += i
				return
			}
		}
		if c, ok := e.(*ast.CallExpr); ok && len(c.Args) == 1 {
			if id, ok := ast.Unparen(c.Fun).(*ast.Ident); ok && id.Name == "len" {
				switch core.ObjOf(info, c.Args[0]) {
				case k:
					nk++
					return
				case v:
					nv++
					return
				}
			}
		}
		okAll = false
	}
	walk(as.Rhs[0])
	return okAll && konst == 4 && nk == 1 && nv == 1
}
