package rules

import (
	"go/ast"
	"go/constant"
	"go/token"
	"go/types"
	"reflect"
	"strings"

	"golang.org/x/tools/go/packages"

	"seatalint/internal/core"
	"seatalint/internal/flow"
)

func init() { register("C05", checkC05) }

const pTCC = core.Module + "/pkg/rm/tcc"

func isTPA(f *types.Func, name string) bool { return core.IsMethod(f, pRM, "TwoPhaseAction", name) }

func checkC05(r *core.Run) {
	r.Explain = "Decided statically: (C05.before) in the TCC proxy's Prepare the user's try (TwoPhaseAction.Prepare -> reflective call of the prepare method) is reached inside a global transaction only through the nil-error edge of the step that reaches RMRemoting.BranchRegister; one register call site, not in a loop; (C05.param) BranchRegisterParam: BranchType=BranchTypeTCC, ResourceId from GetActionName(), Xid from tm.GetXID(ctx), ApplicationData = JSON of a map whose ActionContext entry is built from the tagged parameters of params; (C05.wiring) TCC BranchCommit reaches TwoPhaseAction.Commit only, BranchRollback reaches Rollback only; each TwoPhaseAction method calls its own method field; the parser stores the function tagged commit/rollback/prepare into the homonymous field; each phase sets its own fence phase constant; (C05.unknown) a failed resource lookup returns an error without reaching user code; (C05.once) one user-method call site per request, not in a loop; (C05.status) committed/rollbacked only on the nil-error path of the user call, a retryable failure status on its error path; (C05.ctx) Xid/BranchId/ActionName of the reconstructed action context come from the request, the action context is read under the key constant it was written under. (C05.ctx, also) no package-level variable is among the values a reference-typed field of the reconstructed action context can hold (each request gets its own map). NOT decided: JSON equivalence for arbitrary parameter structs, reflection over all struct shapes."
	r.Explain += " Round 8: (C05.param, also) the loop that collects tagged parameters of a struct never continues past a field under a condition on its reflected value — zero-valued parameters are recorded like any other."
	r.Trusted = []string{"go/types, go/cfg", "reflect.Value.Call invokes the function stored in the field", "encoding/json"}
	w := r.W
	mgr := managerFor(r, "BranchTypeTCC")
	if mgr == nil {
		r.Anchor("C05.anchor", nil, "rm.ResourceManager implementation with branch type TCC")
		return
	}
	// ---------------- proxy Prepare
	reg := newReach(w, 3, func(f *types.Func) bool { return isBranchRegister(w, f) })
	var prep *core.FuncInfo
	for _, f := range w.SortedFuncs() {
		if f.Pkg.PkgPath != pTCC || w.IsTestFile(f.Decl.Pos()) || core.RecvNamed(f.Obj) == nil {
			continue
		}
		callsTry := false
		for _, cs := range w.Calls(f) {
			if isTPA(cs.Static, "Prepare") {
				callsTry = true
			}
		}
		if callsTry && reg.Hits(f.Obj) {
			prep = f
		}
	}
	if r.Anchor("C05.before", prep, "method in pkg/rm/tcc that calls TwoPhaseAction.Prepare and reaches BranchRegister") == nil {
		return
	}
	var regFn *core.FuncInfo
	{
		sp := &flow.Spec{W: w, Depth: 0, Split: []flow.Tag{"true:isglobal"}, Classify: func(pkg *packages.Package, call *ast.CallExpr, callee *types.Func) []flow.Tag {
			switch {
			case isTPA(callee, "Prepare"):
				return []flow.Tag{"try"}
			case core.IsPkgFunc(callee, pTM, "IsGlobalTx"):
				return []flow.Tag{"isglobal"}
			case callee != nil && w.Info(callee) != nil && reg.Hits(callee):
				return []flow.Tag{"regstep"}
			}
			return nil
		}}
		res := sp.Analyze(prep)
		nTry, nReg := map[*ast.CallExpr]bool{}, map[*ast.CallExpr]bool{}
		for _, cp := range res.Calls {
			r.Sites++
			key := core.ShortKey(prep.Obj) + " -> "
			switch {
			case inSet("try", cp.Tags...):
				nTry[cp.Call] = true
				inGlobal := cp.Before.Has("true:isglobal")
				part := "outside a global transaction"
				if inGlobal {
					part = "inside a global transaction"
				}
				cond := !cp.InLoop && (cp.Before.Has("ok:regstep") || cp.Before.Has("false:isglobal"))
				r.Check(cond, "C05.before", key+"try "+part, w.Pos(cp.Call.Pos()),
					"try runs only after the branch was registered (nil-error edge) or outside a global transaction",
					"the user's try can run inside a global transaction without a successful branch registration before it (or in a loop)")
			case inSet("regstep", cp.Tags...):
				nReg[cp.Call] = true
				regFn = w.Info(cp.Callee)
				r.Check(!cp.InLoop && !cp.Before.Maybe("try") && !cp.Before.Maybe("regstep"), "C05.before", key+"register step", w.Pos(cp.Call.Pos()),
					"exactly one registration per prepare, before try", "the registration step can run after try, twice, or in a loop")
			}
		}
		if len(nTry) != 1 || len(nReg) != 1 {
			r.Bad("C05.before", core.ShortKey(prep.Obj)+" : one try site and one register site", w.Pos(prep.Decl.Pos()), "expected exactly one call of the user's try and one registration step")
		}
		for _, ex := range res.Exits {
			if ex.St.Has("fail:regstep") {
				r.Sites++
				r.Check(ex.Class != flow.ExitOK && !ex.St.Maybe("try"), "C05.before", core.ShortKey(prep.Obj)+" return after failed registration", w.Pos(ex.Pos), "registration failure is returned and try does not run", "after a failed registration try may run or nil is returned")
			}
		}
		c05FencePhase(r, prep, "FencePhasePrepare")
	}
	// ---------------- register step: every nil return registered a branch (down to RMRemoting.BranchRegister)
	for fn, depth := regFn, 0; fn != nil && depth < 4; depth++ {
		r.Fn(fn)
		sp := &flow.Spec{W: w, Depth: 0, Classify: func(pkg *packages.Package, call *ast.CallExpr, callee *types.Func) []flow.Tag {
			if callee != nil && (isBranchRegister(w, callee) || w.Info(callee) != nil && reg.Hits(callee)) {
				return []flow.Tag{"regstep"}
			}
			return nil
		}}
		res := sp.Analyze(fn)
		var next *core.FuncInfo
		direct := false
		for _, cp := range res.Calls {
			if inSet("regstep", cp.Tags...) {
				if isBranchRegister(w, cp.Callee) {
					direct = true
				} else {
					next = w.Info(cp.Callee)
				}
			}
		}
		for _, ex := range res.Exits {
			if ex.Class == flow.ExitErr {
				continue
			}
			r.Sites++
			r.Check(ex.St.Has("ok:regstep"), "C05.before", core.ShortKey(fn.Obj)+" "+exitRole(ex, func(t string) bool { return strings.HasSuffix(t, "regstep") })+" : success only after a successful BranchRegister", w.Pos(ex.Pos),
				"the step reports success only on the nil-error edge of the registration", "the registration step can return nil without having registered a branch (a path skips BranchRegister): try then runs in a global transaction the coordinator knows nothing about, and neither commit nor rollback is ever dispatched for it")
		}
		if direct {
			break
		}
		fn = next
	}
	rmReplyChecked(r, "C05.before")
	// the table phase two looks its action up in is filled whatever the announcement to the coordinator answers:
	// the proxy stays usable after a failed announcement (sync.Once makes the retry a no-op) and registers
	// branches under that resource id, which phase two then must find
	if reg := methodInfo(w, mgr, "RegisterResource"); r.Anchor("C05.unknown", reg, "TCC resource manager RegisterResource") != nil {
		res := (&flow.Spec{W: w, Depth: 0, Classify: func(pkg *packages.Package, call *ast.CallExpr, callee *types.Func) []flow.Tag {
			if callee != nil && callee.Pkg() != nil && callee.Pkg().Path() == "sync" && callee.Name() == "Store" {
				return []flow.Tag{"cached"}
			}
			return nil
		}, AssignTags: func(pkg *packages.Package, as *ast.AssignStmt) []flow.Tag {
			for _, l := range as.Lhs {
				if _, ok := ast.Unparen(l).(*ast.IndexExpr); ok {
					return []flow.Tag{"cached"}
				}
			}
			return nil
		}}).Analyze(reg)
		for _, ex := range res.Exits {
			r.Sites++
			r.Check(ex.St.Has("cached"), "C05.unknown", core.ShortKey(reg.Obj)+" "+exitRole(ex, nil)+" has stored the resource in the table phase two reads", w.Pos(ex.Pos), "stored on every path",
				"the resource is not in the local table on this exit (e.g. when the announcement failed): branches registered through the still usable proxy cannot be committed or rolled back later — phase two answers 'resource is not exist' and never calls the user's method")
		}
	}
	// ---------------- register step: parameters
	if regFn == nil {
		r.Anchor("C05.param", nil, "registration step of the TCC proxy")
	} else {
		c05Param(r, regFn)
		c05EveryTagged(r)
		ids := []idiom{{Fn: core.ShortKey(regFn.Obj), Callee: "encoding/json.Marshal", Kind: "dropped", Reason: "see known finding candidates: marshal error of the action context"}}
		_ = ids
		errDiscipline(r, "C05.before", []*core.FuncInfo{regFn, prep}, nil)
	}
	// ---------------- phase two
	for _, ph := range []struct{ method, action, other, okStatus, failStatus, fence string }{
		{"BranchCommit", "Commit", "Rollback", "BranchStatusPhasetwoCommitted", "BranchStatusPhasetwoCommitFailedRetryable", "FencePhaseCommit"},
		{"BranchRollback", "Rollback", "Commit", "BranchStatusPhasetwoRollbacked", "BranchStatusPhasetwoRollbackFailedRetryable", "FencePhaseRollback"},
	} {
		fn := r.Anchor("C05.wiring", methodInfo(w, mgr, ph.method), "TCC manager "+ph.method)
		if fn == nil {
			continue
		}
		info := fn.Pkg.TypesInfo
		key := core.ShortKey(fn.Obj)
		// (paths that differ in the outcome of the user method are kept apart where they meet again — a status
		// assigned per outcome to a named result and returned by one return statement — and the closures deferred
		// for logging run at the exits)
		sp := &flow.Spec{W: w, Depth: 0, Split: []flow.Tag{"ok:action", "fail:action"}, Classify: func(pkg *packages.Package, call *ast.CallExpr, callee *types.Func) []flow.Tag {
			switch {
			case isTPA(callee, ph.action):
				return []flow.Tag{"action"}
			case isTPA(callee, ph.other), isTPA(callee, "Prepare"):
				return []flow.Tag{"wrongaction"}
			case stdMethod(callee, "sync", "Map", "Load"):
				return []flow.Tag{"lookup"}
			}
			return nil
		}}
		res := sp.Analyze(fn)
		sites := map[*ast.CallExpr]bool{}
		for _, cp := range res.Calls {
			switch {
			case inSet("action", cp.Tags...):
				sites[cp.Call] = true
				r.Sites++
				r.Check(!cp.InLoop && !cp.Before.Maybe("action") && cp.Before.Has("true:lookup"), "C05.once", key+" -> TwoPhaseAction."+ph.action, w.Pos(cp.Call.Pos()),
					"the user method is called once, outside loops, after the resource lookup succeeded", "the user method can be called repeatedly, in a loop, or without a successful resource lookup")
				// arguments: ctx derived from the request context, the reconstructed action context
			case inSet("wrongaction", cp.Tags...):
				r.Bad("C05.wiring", key+" -> "+core.ShortKey(cp.Callee), w.Pos(cp.Call.Pos()), ph.method+" must dispatch to the user's "+ph.action+" only, but calls "+cp.Callee.Name())
			}
		}
		r.Check(len(sites) == 1, "C05.wiring", key+" dispatches to TwoPhaseAction."+ph.action, w.Pos(fn.Decl.Pos()), "one dispatch site to the matching user method", "expected exactly one call of TwoPhaseAction."+ph.action)
		for _, ex := range res.Exits {
			r.Sites++
			c := ex.ResultConst(info, 0)
			name := constName(c)
			if c == nil && len(ex.Results) > 0 {
				if v := core.ConstVal(info, ex.Results[0]); v != nil && v.Kind() == constant.Int {
					if i, _ := constant.Int64Val(v); i == 0 {
						name = "BranchStatusUnknown"
					}
				}
			}
			role := exitRole(ex, func(t string) bool { return inSet(t, "ok:action", "fail:action", "false:lookup", "true:lookup") })
			k := key + " " + role + " status=" + name
			switch {
			case ex.St.Has("false:lookup"):
				r.Check(ex.Class == flow.ExitErr && !ex.St.Maybe("action") && name != ph.okStatus, "C05.unknown", k, w.Pos(ex.Pos), "unknown resource: error, no user code", "an unknown resource must return an error without running user code")
			case ex.St.Has("ok:action"):
				r.Check(name == ph.okStatus, "C05.status", k, w.Pos(ex.Pos), "success status after the user method returned nil", "after a successful user "+ph.action+" the status must be "+ph.okStatus+", got "+name)
			case ex.St.Has("fail:action"):
				r.Check(name == ph.failStatus, "C05.status", k, w.Pos(ex.Pos), "retryable failure status after the user method failed", "after a failed user "+ph.action+" the status must be "+ph.failStatus+", got "+name)
			default:
				r.Check(name != ph.okStatus && !strings.Contains(name, "non-constant"), "C05.status", k, w.Pos(ex.Pos), "no success status on a path where the user method is not known to have succeeded", "status "+name+" is returned on a path where the user "+ph.action+" is not known to have returned nil")
			}
		}
		c05FencePhase(r, fn, ph.fence)
		c05Ctx(r, fn, ph.action)
	}
	c05Fields(r)
	// a user method that panics part-way must not be taken for one that succeeded: whoever on the way from the TCC
	// manager to the reflective call recovers from the panic has to hand it on as an error
	{
		var fns []*core.FuncInfo
		for _, m := range []string{"BranchCommit", "BranchRollback"} {
			fns = append(fns, methodInfo(w, mgr, m))
		}
		if tpa := w.NamedType("pkg/rm", "TwoPhaseAction"); tpa != nil {
			for _, m := range []string{"Prepare", "Commit", "Rollback"} {
				fns = append(fns, methodInfo(w, tpa, m))
			}
		}
		var keep []*core.FuncInfo
		for _, f := range fns {
			if f != nil {
				keep = append(keep, f)
			}
		}
		keep = append(keep, reachFrom(w, keep, pRM, pTCC)...)
		recoverSurfaces(r, "C05.status", keep)
		// what is registered for a branch (resource id, application data = the tagged parameters) and what phase
		// two rebuilds from it depend on this request only: no memo keyed by less than the parameter type, no
		// remembered answer (C05.pure).
		var chain []*core.FuncInfo
		if prep != nil {
			chain = append(chain, prep)
		}
		chain = append(chain, keep...)
		chain = append(chain, reachFrom(w, chain, pRM, pTCC)...)
		pureOfRuntimeState(r, "C05.pure", "the registration data / action context of a TCC branch", chain, nil)
		r.Floor("C05.pure", 10)
	}
	r.Floor("C05.before", 4)
	r.Floor("C05.param", 4)
	r.Floor("C05.wiring", 8)
	r.Floor("C05.status", 4)
	r.Floor("C05.ctx", 5)
}

// c05FencePhase: fn sets the given fence phase constant through tm.SetFencePhase.
func c05FencePhase(r *core.Run, fn *core.FuncInfo, want string) {
	info := fn.Pkg.TypesInfo
	var got []string
	// the phase may be set by a set-up helper that receives it as a parameter: the helper is analysed in the
	// caller's context, where the parameter is known to equal the constant the caller passed
	res := (&flow.Spec{W: r.W, Depth: 0, Classify: func(pkg *packages.Package, call *ast.CallExpr, callee *types.Func) []flow.Tag {
		if core.IsPkgFunc(callee, pTM, "SetFencePhase") && len(call.Args) == 2 {
			return []flow.Tag{"setphase"}
		}
		return nil
	}}).Analyze(fn)
	for _, cp := range res.Calls {
		if !inSet("setphase", cp.Tags...) {
			continue
		}
		c := core.ConstObj(info, cp.Call.Args[1])
		if c == nil {
			if o := core.ObjOf(info, cp.Call.Args[1]); o != nil {
				c = cp.Before.Eq[o]
			}
		}
		name := constName(c)
		if cp.InLoop {
			name += "(in a loop)"
		}
		got = append(got, name)
	}
	r.Sites++
	r.Check(len(got) == 1 && got[0] == want, "C05.wiring", core.ShortKey(fn.Obj)+" : fence phase", r.W.Pos(fn.Decl.Pos()), "sets "+want, "expected the fence phase "+want+" to be set once, got ["+strings.Join(got, ",")+"]")
}

// c05Param: BranchRegisterParam literal handed to BranchRegister.
func c05Param(r *core.Run, fn *core.FuncInfo) {
	w := r.W
	info := fn.Pkg.TypesInfo
	key := core.ShortKey(fn.Obj) + " BranchRegisterParam."
	var call *ast.CallExpr
	n := 0
	inLoop := false
	ast.Inspect(fn.Decl.Body, func(x ast.Node) bool {
		if c, ok := x.(*ast.CallExpr); ok && isBranchRegister(w, core.Callee(info, c)) {
			call = c
			n++
			for _, e := range enclosing(fn.Decl.Body, c) {
				switch e.(type) {
				case *ast.ForStmt, *ast.RangeStmt:
					inLoop = true
				}
			}
		}
		return true
	})
	if call == nil || len(call.Args) == 0 {
		r.Anchor("C05.param", nil, "BranchRegister call in the registration step")
		return
	}
	r.Sites++
	r.Check(n == 1 && !inLoop, "C05.before", core.ShortKey(fn.Obj)+" -> BranchRegister once", w.Pos(call.Pos()), "one BranchRegister call, not in a loop", "BranchRegister is called more than once or in a loop: more than one branch per prepare")
	cl, owner := findLitDeep(fn, call.Args[len(call.Args)-1], 4)
	if cl == nil {
		r.Undecided("C05.param", key+"literal", w.Pos(call.Pos()), "the request is not a composite literal (or a variable / helper result / field initialised by one)")
		return
	}
	r.Fn(owner)
	// origins are computed where the literal is written and expressed in the registration step's terms
	fieldOrigin := func(name string, depth int) string {
		return originViaStr(fn, owner, origin(owner, litField(cl, name), depth), depth)
	}
	pos := w.Pos(cl.Pos())
	bt := fieldOrigin("BranchType", 4)
	r.Check(bt == "const:BranchTypeTCC", "C05.param", key+"BranchType", pos, "BranchType = BranchTypeTCC", "BranchType is "+bt+", not the constant BranchTypeTCC")
	rid := fieldOrigin("ResourceId", 4)
	r.Check(strings.HasPrefix(rid, "call:pkg/rm.(TwoPhaseAction).GetActionName("), "C05.param", key+"ResourceId", pos, "ResourceId = GetActionName()", "ResourceId derives from "+rid+", not from the action name")
	xid := fieldOrigin("Xid", 4)
	r.Check(xid == "call:pkg/tm.GetXID(param:ctx)", "C05.param", key+"Xid", pos, "Xid = tm.GetXID(ctx)", "Xid derives from "+xid+", not from tm.GetXID of the caller's context")
	// ApplicationData = JSON of an object whose one key is the ActionContext constant: a map literal keyed by it, or
	// a struct whose field carries that json name; the marshal may sit in a helper
	originFollowSingle = true
	ad := origin(owner, litField(cl, "ApplicationData"), 6)
	if owner != fn && strings.Contains(ad, "param:") {
		// the literal is written by a constructor that is handed the encoded text: in the registration step's terms
		originFollowHelpers = true
		ad = originViaStr(fn, owner, ad, 6)
		originFollowHelpers = false
	}
	originFollowSingle = false
	acName := ""
	if c, ok := w.Lookup("pkg/constant", "ActionContext").(*types.Const); ok && c.Val().Kind() == constant.String {
		acName = constant.StringVal(c.Val())
	}
	okAD := false
	var acValue ast.Expr // the expression stored under the ActionContext key
	var acFn *core.FuncInfo
	scan := []*core.FuncInfo{owner}
	for _, top := range []*core.FuncInfo{owner, fn} {
		if top != owner {
			scan = append(scan, top)
		}
		for _, cs := range w.Calls(top) {
			if h := w.Info(cs.Static); h != nil && h.Pkg == owner.Pkg && h != owner {
				scan = append(scan, h)
			}
		}
	}
	for _, g := range dedupFns(scan) {
		ginfo := g.Pkg.TypesInfo
		ast.Inspect(g.Decl.Body, func(x ast.Node) bool {
			c, ok := x.(*ast.CallExpr)
			if !ok || len(c.Args) != 1 {
				return true
			}
			if f := core.Callee(ginfo, c); f == nil || f.Pkg() == nil || !strings.HasSuffix(f.Pkg().Path(), "json") || f.Name() != "Marshal" {
				return true
			}
			lit, lowner := findLitDeep(g, c.Args[0], 3)
			if lit == nil {
				return true
			}
			t := lowner.Pkg.TypesInfo.TypeOf(lit)
			if t == nil {
				return true
			}
			switch u := t.Underlying().(type) {
			case *types.Map:
				for _, el := range lit.Elts {
					if kv, ok := el.(*ast.KeyValueExpr); ok {
						if kc := core.ConstObj(lowner.Pkg.TypesInfo, kv.Key); kc != nil && kc.Name() == "ActionContext" {
							okAD, acValue, acFn = len(lit.Elts) == 1, kv.Value, lowner
						}
					}
				}
			case *types.Struct:
				for i := 0; i < u.NumFields(); i++ {
					tag := reflect.StructTag(u.Tag(i)).Get("json")
					if j := strings.Index(tag, ","); j >= 0 {
						tag = tag[:j]
					}
					if tag == acName && acName != "" && u.NumFields() == 1 {
						if fv := litField(lit, u.Field(i).Name()); fv != nil {
							okAD, acValue, acFn = true, fv, lowner
						} else if len(lit.Elts) == 1 {
							if _, isKV := lit.Elts[0].(*ast.KeyValueExpr); !isKV {
								okAD, acValue, acFn = true, lit.Elts[0], lowner
							}
						}
					}
				}
			}
			return true
		})
	}
	okAD = okAD && strings.Contains(ad, "json.Marshal(")
	r.Check(okAD, "C05.param", key+"ApplicationData", pos, "ApplicationData = JSON of {ActionContext: ...}", "ApplicationData derives from "+ad+", not from json.Marshal of an object whose only key is constant.ActionContext")
	// the ActionContext entry is built from the tagged parameters: the producing callee reaches a function that reads the tag constant
	tagged := false
	if okAD && acValue != nil {
		avo := originViaStr(owner, acFn, origin(acFn, acValue, 5), 5)
		if owner != fn {
			// (the marshal helper is called by the registration step itself, not by the request's constructor)
			avo += " | " + originViaStr(fn, acFn, origin(acFn, acValue, 5), 5)
		}
		for _, g := range dedupFns(append([]*core.FuncInfo{fn, owner}, scan...)) {
			ginfo := g.Pkg.TypesInfo
			ast.Inspect(g.Decl.Body, func(x ast.Node) bool {
				c, ok := x.(*ast.CallExpr)
				if !ok {
					return true
				}
				callee := w.Info(core.Callee(ginfo, c))
				if callee == nil || callee.Pkg.PkgPath != pTCC || len(c.Args) == 0 {
					return true
				}
				if !strings.Contains(avo, "call:"+core.ShortKey(callee.Obj)+"(") && !strings.Contains(ad, "call:"+core.ShortKey(callee.Obj)+"(") {
					// the value may reach the entry through a merge into a context object: accept a producer whose
					// result is assigned into something the entry mentions
					if !mentionsResultOf(g, acFn, acValue, c) {
						return true
					}
				}
				if o := originViaStr(fn, g, origin(g, c.Args[len(c.Args)-1], 3), 3); o != "param:params" {
					return true
				}
				for _, h := range reachFrom(w, []*core.FuncInfo{callee}, pTCC) {
					ast.Inspect(h.Decl.Body, func(y ast.Node) bool {
						if e, ok := y.(ast.Expr); ok {
							if co := core.ConstObj(h.Pkg.TypesInfo, e); co != nil && co.Name() == "TccBusinessActionContextParameter" {
								tagged = true
							}
						}
						return true
					})
				}
				return true
			})
		}
	}
	r.Check(tagged, "C05.param", key+"ApplicationData from tagged parameters", pos, "the action context is built from params' fields tagged with TccBusinessActionContextParameter", "the action context sent as application data is not built from the tagged fields of params")
}

// c05EveryTagged (C05.param): which fields of the parameter struct go into the action context depends on their
// declaration — exported, tagged, tag not "-" — never on the value a field holds at prepare: in the function that
// collects the tagged fields no `continue` / skip is under a test that looks at a reflect.Value of the parameters
// (a zero, nil or empty value is a value the commit / rollback method is entitled to see again).
func c05EveryTagged(r *core.Run) {
	w := r.W
	n := 0
	for _, f := range w.SortedFuncs() {
		if f.Pkg.PkgPath != pTCC || w.IsTestFile(f.Decl.Pos()) || f.Decl.Body == nil {
			continue
		}
		info := f.Pkg.TypesInfo
		reads := false
		ast.Inspect(f.Decl.Body, func(n ast.Node) bool {
			if e, ok := n.(ast.Expr); ok {
				if c := core.ConstObj(info, e); c != nil && c.Name() == "TccBusinessActionContextParameter" {
					reads = true
				}
			}
			return !reads
		})
		// the collecting loop may use a predicate on the StructField for the tag: the loop is where the map is filled
		fills := false
		ast.Inspect(f.Decl.Body, func(n ast.Node) bool {
			if as, ok := n.(*ast.AssignStmt); ok && len(as.Lhs) == 1 {
				if ix, ok := ast.Unparen(as.Lhs[0]).(*ast.IndexExpr); ok {
					if _, isMap := info.TypeOf(ix.X).Underlying().(*types.Map); isMap {
						if c, ok := ast.Unparen(as.Rhs[0]).(*ast.CallExpr); ok {
							if sel, ok := ast.Unparen(c.Fun).(*ast.SelectorExpr); ok && sel.Sel.Name == "Interface" {
								fills = true
							}
						}
					}
				}
			}
			return true
		})
		if !fills || (!reads && !func() bool {
			for _, cs := range w.Calls(f) {
				if h := w.Info(cs.Static); h != nil && h.Pkg == f.Pkg && h.Decl.Body != nil {
					hit := false
					ast.Inspect(h.Decl.Body, func(n ast.Node) bool {
						if e, ok := n.(ast.Expr); ok {
							if c := core.ConstObj(h.Pkg.TypesInfo, e); c != nil && c.Name() == "TccBusinessActionContextParameter" {
								hit = true
							}
						}
						return !hit
					})
					if hit {
						return true
					}
				}
			}
			return false
		}()) {
			continue
		}
		n++
		r.Sites++
		r.Fn(f)
		isValue := func(e ast.Expr) bool {
			t := info.TypeOf(e)
			return t != nil && t.String() == "reflect.Value"
		}
		bad := ""
		ast.Inspect(f.Decl.Body, func(nd ast.Node) bool {
			ifs, ok := nd.(*ast.IfStmt)
			if !ok {
				return true
			}
			skips := false
			for _, st := range ifs.Body.List {
				if b, ok := st.(*ast.BranchStmt); ok && b.Tok == token.CONTINUE {
					skips = true
				}
			}
			if !skips {
				return true
			}
			ast.Inspect(ifs.Cond, func(m ast.Node) bool {
				if e, ok := m.(ast.Expr); ok && isValue(e) {
					bad = w.Pos(ifs.Pos()) + ": " + core.ExprString(ifs.Cond)
				}
				return true
			})
			return true
		})
		r.Check(bad == "", "C05.param", core.ShortKey(f.Obj)+" : every tagged field is captured whatever value it holds", w.Pos(f.Decl.Pos()), "fields are skipped by declaration (unexported, untagged, tag '-') only",
			"a tagged field is left out of the action context depending on its value ("+bad+"): a parameter that legitimately holds 0, false, \"\" or nil at prepare is missing from the context the commit / rollback method receives")
	}
	if n == 0 {
		r.Undecided("C05.param", "function collecting the tagged parameter fields", "", "not found")
	}
}

// mentionsResultOf: the value expression (in function at) mentions a variable of g that was assigned from call c, or a
// variable that call's result was merged into (x[k] = v inside a loop over the result).
func mentionsResultOf(g, at *core.FuncInfo, value ast.Expr, c *ast.CallExpr) bool {
	if g != at {
		return false
	}
	info := g.Pkg.TypesInfo
	var res types.Object
	ast.Inspect(g.Decl.Body, func(n ast.Node) bool {
		if as, ok := n.(*ast.AssignStmt); ok && len(as.Rhs) == 1 && ast.Unparen(as.Rhs[0]) == ast.Expr(c) && len(as.Lhs) >= 1 {
			res = core.ObjOf(info, as.Lhs[0])
		}
		return true
	})
	if res == nil {
		return false
	}
	if mentions(info, value, res) {
		return true
	}
	// merged: for k, v := range res { X[k] = v }  with value mentioning X's root
	merged := false
	ast.Inspect(g.Decl.Body, func(n ast.Node) bool {
		rs, ok := n.(*ast.RangeStmt)
		if !ok || core.ObjOf(info, rs.X) != res {
			return true
		}
		ast.Inspect(rs.Body, func(m ast.Node) bool {
			if as, ok := m.(*ast.AssignStmt); ok {
				for _, l := range as.Lhs {
					if ix, ok := ast.Unparen(l).(*ast.IndexExpr); ok {
						root := ast.Unparen(ix.X)
						for {
							if s2, ok := root.(*ast.SelectorExpr); ok {
								root = ast.Unparen(s2.X)
								continue
							}
							break
						}
						if o := core.ObjOf(info, root); o != nil && mentions(info, value, o) {
							merged = true
						}
					}
				}
			}
			return true
		})
		return true
	})
	return merged
}

// c05Ctx: the action context handed to the user method is rebuilt from the request's ids.
func c05Ctx(r *core.Run, fn *core.FuncInfo, action string) {
	w := r.W
	info := fn.Pkg.TypesInfo
	key := core.ShortKey(fn.Obj)
	var actionCall *ast.CallExpr
	ast.Inspect(fn.Decl.Body, func(n ast.Node) bool {
		if c, ok := n.(*ast.CallExpr); ok && isTPA(core.Callee(info, c), action) {
			actionCall = c
		}
		return true
	})
	if actionCall == nil || len(actionCall.Args) != 2 {
		return
	}
	originFollowHelpers = true // the rebuilt context may come out of a phase-two set-up helper
	defer func() { originFollowHelpers = false }()
	bac := origin(fn, actionCall.Args[1], 4)
	r.Sites++
	// expected: call:<builder>(recv;  param.Xid, param.BranchId, param.ResourceId, param.ApplicationData)
	reqParam := ""
	for _, p := range paramObjs(fn) {
		if n, ok := p.Type().(*types.Named); ok && n.Obj().Name() == "BranchResource" {
			reqParam = "param:" + p.Name()
		}
	}
	want := reqParam + ".Xid, " + reqParam + ".BranchId, " + reqParam + ".ResourceId, " + reqParam + ".ApplicationData)"
	r.Check(strings.HasPrefix(bac, "call:") && strings.HasSuffix(bac, want), "C05.ctx", key+" : action context from the request", w.Pos(actionCall.Pos()),
		"the user method receives the context rebuilt from the request's xid, branch id, resource id and application data",
		"the action context handed to the user method derives from "+bac+", not from (Xid, BranchId, ResourceId, ApplicationData) of the request")
	// the builder maps its parameters onto Xid / BranchId / ActionName and reads constant.ActionContext
	var builder *core.FuncInfo
	for _, f := range w.SortedFuncs() {
		if f.Pkg.PkgPath == pTCC && !w.IsTestFile(f.Decl.Pos()) && strings.HasPrefix(bac, "call:"+core.ShortKey(f.Obj)+"(") {
			builder = f
		}
	}
	if builder == nil {
		r.Undecided("C05.ctx", key+" : context builder", w.Pos(actionCall.Pos()), "builder of the business action context not found")
		return
	}
	r.Fn(builder)
	ps := paramObjs(builder)
	var lit *ast.CompositeLit
	ast.Inspect(builder.Decl.Body, func(n ast.Node) bool {
		if cl, ok := n.(*ast.CompositeLit); ok {
			if t := builder.Pkg.TypesInfo.TypeOf(cl); t != nil && strings.HasSuffix(t.String(), "tm.BusinessActionContext") {
				lit = cl
			}
		}
		return true
	})
	bk := core.ShortKey(builder.Obj) + " BusinessActionContext."
	if lit == nil || len(ps) < 4 {
		r.Undecided("C05.ctx", bk+"literal", w.Pos(builder.Decl.Pos()), "no BusinessActionContext literal / unexpected parameters")
		return
	}
	for i, f := range []string{"Xid", "BranchId", "ActionName"} {
		o := origin(builder, litField(lit, f), 3)
		r.Check(o == "param:"+ps[i].Name(), "C05.ctx", bk+f, w.Pos(lit.Pos()), f+" = parameter "+ps[i].Name(), f+" derives from "+o+" instead of the request's value ("+ps[i].Name()+")")
	}
	// read key == written key
	readsKey := false
	// (the decoding may sit in a helper of the package the builder calls)
	scan := []*core.FuncInfo{builder}
	for _, cs := range w.Calls(builder) {
		if h := w.Info(cs.Static); h != nil && h.Pkg == builder.Pkg && h != builder && h.Decl.Body != nil {
			scan = append(scan, h)
		}
	}
	for _, g := range scan {
		ast.Inspect(g.Decl.Body, func(n ast.Node) bool {
			if ix, ok := n.(*ast.IndexExpr); ok {
				if c := core.ConstObj(g.Pkg.TypesInfo, ix.Index); c != nil && c.Name() == "ActionContext" {
					readsKey = true
				}
			}
			return true
		})
	}
	r.Check(readsKey, "C05.ctx", bk+"ActionContext key", w.Pos(builder.Decl.Pos()), "the action context is read under constant.ActionContext, the key it is written under", "the action context is not read under constant.ActionContext (the key used when registering)")
	originFollowHelpers, originFollowSingle = true, true
	ac := origin(builder, litField(lit, "ActionContext"), 5)
	originFollowHelpers, originFollowSingle = false, false
	if !strings.Contains(ac, "const:ActionContext") {
		// decoded by a helper of the package: what that helper returns
		for _, g := range scan[1:] {
			if !strings.HasPrefix(ac, "call:"+core.ShortKey(g.Obj)+"(") {
				continue
			}
			ast.Inspect(g.Decl.Body, func(n ast.Node) bool {
				if rs, ok := n.(*ast.ReturnStmt); ok && len(rs.Results) == 1 {
					if o := origin(g, rs.Results[0], 5); strings.Contains(o, "const:ActionContext") {
						ac = o
					}
				}
				return true
			})
		}
	}
	// (the literal may start with a fresh empty map and the decoded value be assigned to the field afterwards)
	if !strings.Contains(ac, "const:ActionContext") && (strings.HasPrefix(ac, "call:builtin:make(") || strings.HasPrefix(ac, "lit:")) {
		ast.Inspect(builder.Decl.Body, func(n ast.Node) bool {
			as, ok := n.(*ast.AssignStmt)
			if !ok || len(as.Lhs) != len(as.Rhs) {
				return true
			}
			for i, l := range as.Lhs {
				sel, ok := ast.Unparen(l).(*ast.SelectorExpr)
				if !ok || sel.Sel.Name != "ActionContext" {
					continue
				}
				if t := builder.Pkg.TypesInfo.TypeOf(sel.X); t == nil || !strings.HasSuffix(t.String(), "tm.BusinessActionContext") {
					continue
				}
				originFollowHelpers, originFollowSingle = true, true
				if o := origin(builder, as.Rhs[i], 5); strings.Contains(o, "const:ActionContext") {
					ac = o
				}
				originFollowHelpers, originFollowSingle = false, false
			}
			return true
		})
	}
	r.Check(strings.Contains(ac, "[const:ActionContext]") || strings.Contains(ac, "const:ActionContext"), "C05.ctx", bk+"ActionContext", w.Pos(lit.Pos()), "ActionContext derives from the decoded application data", "ActionContext derives from "+ac)
	// the object handed to the user's commit / rollback method belongs to that request: none of the values that can
	// end up in a reference-typed field of it is a package-level variable (the default for "no action context sent"
	// included) — the user method may write into it, and the next request would see those entries
	shared := ""
	for _, el := range lit.Elts {
		kv, ok := el.(*ast.KeyValueExpr)
		if !ok {
			continue
		}
		switch builder.Pkg.TypesInfo.TypeOf(kv.Value).Underlying().(type) {
		case *types.Map, *types.Slice, *types.Pointer, *types.Interface:
			if v := sharedVarIn(w, builder, kv.Value, 0, map[types.Object]bool{}); v != nil && shared == "" {
				shared = core.ExprString(kv.Key) + " can be the package-level variable " + v.Name()
			}
		}
	}
	ast.Inspect(builder.Decl.Body, func(n ast.Node) bool {
		as, ok := n.(*ast.AssignStmt)
		if !ok || len(as.Lhs) != len(as.Rhs) {
			return true
		}
		for i, l := range as.Lhs {
			sel, ok := ast.Unparen(l).(*ast.SelectorExpr)
			if !ok {
				continue
			}
			if t := builder.Pkg.TypesInfo.TypeOf(sel.X); t == nil || !strings.HasSuffix(t.String(), "tm.BusinessActionContext") {
				continue
			}
			if v := sharedVarIn(w, builder, as.Rhs[i], 0, map[types.Object]bool{}); v != nil && shared == "" {
				shared = sel.Sel.Name + " can be the package-level variable " + v.Name()
			}
		}
		return true
	})
	r.Sites++
	r.Check(shared == "", "C05.ctx", bk+"reference fields are this request's own", w.Pos(lit.Pos()), "fresh or decoded values only",
		shared+": every phase-two request that takes this path hands the same object to the user's method; what one commit / rollback writes into it is part of the action context the next one sees (and concurrent requests write one map)")
}

// sharedVarIn: a package-level variable among the values e can denote in f (through the definitions of local
// variables, type assertions, element / field reads and helpers of the package)
func sharedVarIn(w *core.World, f *core.FuncInfo, e ast.Expr, depth int, seen map[types.Object]bool) *types.Var {
	if depth > 4 || e == nil {
		return nil
	}
	info := f.Pkg.TypesInfo
	switch x := ast.Unparen(e).(type) {
	case *ast.Ident:
		v, ok := info.Uses[x].(*types.Var)
		if !ok {
			return nil
		}
		if v.Pkg() != nil && v.Parent() == v.Pkg().Scope() {
			return v
		}
		if seen[v] || v.IsField() {
			return nil
		}
		seen[v] = true
		for _, d := range localDefs(f, v) {
			if d.rng {
				continue
			}
			if s := sharedVarIn(w, f, d.rhs, depth+1, seen); s != nil {
				return s
			}
		}
	case *ast.UnaryExpr:
		if x.Op == token.AND {
			return sharedVarIn(w, f, x.X, depth+1, seen)
		}
	case *ast.TypeAssertExpr:
		return sharedVarIn(w, f, x.X, depth+1, seen)
	case *ast.IndexExpr:
		return sharedVarIn(w, f, x.X, depth+1, seen)
	case *ast.SelectorExpr:
		if v, ok := info.Uses[x.Sel].(*types.Var); ok && v.Pkg() != nil && v.Parent() == v.Pkg().Scope() {
			return v // pkg.Var
		}
		return sharedVarIn(w, f, x.X, depth+1, seen)
	case *ast.CallExpr:
		if h := w.Info(core.Callee(info, x)); h != nil && h.Pkg == f.Pkg && h.Decl.Body != nil {
			var found *types.Var
			ast.Inspect(h.Decl.Body, func(n ast.Node) bool {
				if _, isLit := n.(*ast.FuncLit); isLit {
					return false
				}
				if rs, ok := n.(*ast.ReturnStmt); ok && found == nil {
					for _, res := range rs.Results {
						if s := sharedVarIn(w, h, res, depth+1, seen); s != nil {
							found = s
						}
					}
				}
				return true
			})
			return found
		}
	}
	return nil
}

// c05Fields: TwoPhaseAction methods call their own field; the parser fills each field from the matching tag / method name.
func c05Fields(r *core.Run) {
	w := r.W
	tpa := w.NamedType("pkg/rm", "TwoPhaseAction")
	if tpa == nil {
		r.Anchor("C05.wiring", nil, "rm.TwoPhaseAction")
		return
	}
	fieldOf := map[string]string{}
	for _, m := range []string{"Prepare", "Commit", "Rollback"} {
		fn := methodInfo(w, tpa, m)
		if fn == nil {
			r.Anchor("C05.wiring", nil, "TwoPhaseAction."+m)
			continue
		}
		r.Fn(fn)
		info := fn.Pkg.TypesInfo
		var fields []string
		nCalls, inLoop := 0, false
		// the reflective call may sit in a helper shared by the phases (callX(ctx, t.commitMethod, ..)): the
		// helper is analysed in this method's context and the called value traced back to the receiver's field
		res := (&flow.Spec{W: w, Depth: 0, Classify: func(pkg *packages.Package, call *ast.CallExpr, callee *types.Func) []flow.Tag {
			if stdMethod(callee, "reflect", "Value", "Call") {
				return []flow.Tag{"rcall"}
			}
			return nil
		}}).Analyze(fn)
		for _, cp := range res.Calls {
			if !inSet("rcall", cp.Tags...) {
				continue
			}
			nCalls++
			if cp.InLoop || cp.Before.Maybe("rcall") {
				inLoop = true
			}
			if sel, ok := ast.Unparen(cp.Call.Fun).(*ast.SelectorExpr); ok {
				o := originVia(fn, cp.Fn, sel.X, 3)
				if i := strings.LastIndex(o, "."); i >= 0 && strings.HasPrefix(o, "param:") && !strings.ContainsAny(o[i+1:], "()| ") {
					fields = append(fields, o[i+1:])
				}
			}
		}
		_ = info
		r.Sites++
		okc := nCalls == 1 && !inLoop && len(fields) == 1
		if okc {
			fieldOf[m] = fields[0]
		}
		r.Check(okc, "C05.once", "pkg/rm.(TwoPhaseAction)."+m+" : one reflective call of one method field", w.Pos(fn.Decl.Pos()), "calls field "+strings.Join(fields, ","), "expected exactly one reflect Call on one method field outside loops")
	}
	// distinct fields
	r.Check(len(fieldOf) == 3 && fieldOf["Prepare"] != fieldOf["Commit"] && fieldOf["Commit"] != fieldOf["Rollback"] && fieldOf["Prepare"] != fieldOf["Rollback"], "C05.wiring", "pkg/rm.(TwoPhaseAction) : three distinct method fields", w.Pos(tpa.Obj().Pos()), "Prepare/Commit/Rollback call three distinct fields", "two phases call the same method field")
	// parser by tags: getter function <-> tag constant <-> field assigned from the getter
	tagOf := map[string]string{"Prepare": "TwoPhaseActionPrepareTagVal", "Commit": "TwoPhaseActionCommitTagVal", "Rollback": "TwoPhaseActionRollbackTagVal"}
	for _, f := range w.SortedFuncs() {
		if f.Pkg.PkgPath != pRM || w.IsTestFile(f.Decl.Pos()) {
			continue
		}
		info := f.Pkg.TypesInfo
		// (a) tag-driven parser: assignments result.<field> = m where m, at that point, holds the result of a
		// getter that references the tag constant (reaching definition from the path engine)
		hasFieldStore := false
		ast.Inspect(f.Decl.Body, func(n ast.Node) bool {
			if as, ok := n.(*ast.AssignStmt); ok && len(as.Lhs) == 1 {
				if sel, ok := as.Lhs[0].(*ast.SelectorExpr); ok {
					if v, ok := info.Uses[sel.Sel].(*types.Var); ok && v.IsField() {
						for _, fld := range fieldOf {
							if v.Name() == fld {
								hasFieldStore = true
							}
						}
					}
				}
			}
			return true
		})
		if hasFieldStore {
			fcopy := f
			sp := &flow.Spec{W: w, Depth: 0}
			sp.Visit = func(pkg *packages.Package, n ast.Node, st *flow.State) {
				as, ok := n.(*ast.AssignStmt)
				if !ok || len(as.Lhs) != 1 || len(as.Rhs) != 1 {
					return
				}
				sel, ok := as.Lhs[0].(*ast.SelectorExpr)
				if !ok {
					return
				}
				v, ok := info.Uses[sel.Sel].(*types.Var)
				if !ok || !v.IsField() {
					return
				}
				for ph, fld := range fieldOf {
					if v.Name() != fld {
						continue
					}
					getter := "<unknown>"
					if o := core.ObjOf(info, as.Rhs[0]); o != nil {
						if or := st.Def[o]; or != nil && w.Info(or.Callee) != nil {
							getter = "<no tag>"
							var hits []string
							for _, c := range constsReferenced(w.Info(or.Callee)) {
								for p2, t := range tagOf {
									if c == t {
										hits = append(hits, p2)
									}
								}
							}
							// a getter shared by several phases is told which tag to look for by the caller
							if len(hits) == 0 && or.Call != nil {
								for _, a := range or.Call.Args {
									if c := core.ConstObj(info, a); c != nil {
										for p2, t := range tagOf {
											if c.Name() == t {
												hits = append(hits, p2)
											}
										}
									}
								}
							}
							if hits = uniq(hits); len(hits) == 1 {
								getter = hits[0]
							} else if len(hits) > 1 {
								getter = "<several tags: " + strings.Join(hits, ",") + ">"
							}
						}
					}
					r.Sites++
					r.Check(getter == ph, "C05.wiring", core.ShortKey(fcopy.Obj)+" : field "+fld+" <- function tagged "+strings.ToLower(ph), w.Pos(as.Pos()),
						"the "+ph+" method field is filled from the struct field tagged "+strings.ToLower(ph), "the method field "+fld+" (called by TwoPhaseAction."+ph+") is filled from the function tagged '"+strings.ToLower(getter)+"'")
				}
			}
			sp.Analyze(f)
		}
		// (b) interface-driven parser: composite literal with &MethodByName("<Phase>")
		ast.Inspect(f.Decl.Body, func(n ast.Node) bool {
			cl, ok := n.(*ast.CompositeLit)
			if !ok {
				return true
			}
			if t := info.TypeOf(cl); t == nil || !strings.HasSuffix(t.String(), "rm.TwoPhaseAction") {
				return true
			}
			for ph, fld := range fieldOf {
				val := litField(cl, fld)
				if val == nil {
					continue
				}
				o := origin(f, val, 4)
				r.Sites++
				r.Check(strings.Contains(o, `MethodByName(`) && strings.Contains(o, `lit:"`+ph+`")`), "C05.wiring", core.ShortKey(f.Obj)+" : field "+fld+" <- method "+ph, w.Pos(cl.Pos()),
					"the "+ph+" method field is the service's "+ph+" method", "the method field "+fld+" (called by TwoPhaseAction."+ph+") derives from "+o)
			}
			return true
		})
	}
}

func constsReferenced(f *core.FuncInfo) []string {
	var out []string
	ast.Inspect(f.Decl.Body, func(n ast.Node) bool {
		if e, ok := n.(ast.Expr); ok {
			if c := core.ConstObj(f.Pkg.TypesInfo, e); c != nil {
				out = append(out, c.Name())
			}
		}
		return true
	})
	return out
}

// rmReplyChecked: RMRemoting.BranchRegister answers a nil error only when a response arrived (the value returned
// by the request is known non-nil on that path) — a request that completes with neither error nor response must
// not count as a registered branch.
func rmReplyChecked(r *core.Run, rule string) {
	w := r.W
	rt := w.NamedType("pkg/rm", "RMRemoting")
	f := methodInfo(w, rt, "BranchRegister")
	if r.Anchor(rule, f, "rm.RMRemoting.BranchRegister") == nil {
		return
	}
	info := f.Pkg.TypesInfo
	// the variable holding the reply of the request
	var resp *ast.Ident
	ast.Inspect(f.Decl.Body, func(n ast.Node) bool {
		as, ok := n.(*ast.AssignStmt)
		if !ok || len(as.Lhs) != 2 || len(as.Rhs) != 1 {
			return true
		}
		if c, ok := ast.Unparen(as.Rhs[0]).(*ast.CallExpr); ok && isSendSync(core.Callee(info, c)) {
			if id, ok := as.Lhs[0].(*ast.Ident); ok {
				resp = id
			}
		}
		return true
	})
	if resp != nil {
		// facts are looked up through a using occurrence of the variable
		def := info.Defs[resp]
		resp = nil
		ast.Inspect(f.Decl.Body, func(n ast.Node) bool {
			if id, ok := n.(*ast.Ident); ok && resp == nil && def != nil && info.Uses[id] == def {
				resp = id
			}
			return true
		})
	}
	if resp == nil {
		r.Undecided(rule, core.ShortKey(f.Obj)+" reply variable", w.Pos(f.Decl.Pos()), "no `reply, err := SendSyncRequest(...)` found")
		return
	}
	res := (&flow.Spec{W: w, Depth: 0}).Analyze(f)
	for _, ex := range res.Exits {
		if ex.Class == flow.ExitErr {
			continue
		}
		r.Sites++
		r.Check(ex.St.ExprNil(info, resp) == 2, rule, core.ShortKey(f.Obj)+" "+exitRole(ex, nil)+" : a nil error only with a reply in hand", w.Pos(ex.Pos),
			"the reply is known non-nil", "this return may carry a nil error although no reply arrived (the reply is not known to be non-nil on this path): the caller takes the branch for registered, runs the business step, and the coordinator knows nothing about it")
	}
}
