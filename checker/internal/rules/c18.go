package rules

import (
	"go/ast"
	"go/constant"
	"go/token"
	"go/types"
	"sort"
	"strconv"
	"strings"

	"golang.org/x/tools/go/packages"

	"seatalint/internal/core"
	"seatalint/internal/flow"
)

func init() { register("C18", checkC18) }

const pParserAST = "github.com/arana-db/parser/ast"

func checkC18(r *core.Run) {
	r.Explain = "The property itself (recorded image == rows the statement changed) ranges over database contents and is NOT decidable statically. Three structural necessary conditions are decided: (C18.derive) the before-image SELECT of update/delete (and their multi-statement variants) takes From/Where/OrderBy/Limit from the business statement's own AST nodes and locks FOR UPDATE, and the argument selection traverses exactly the expression-bearing clauses that were copied; (C18.markers) the parameter-marker collector is complete: it walks the expression with the parser's visitor, or its type switch covers every expression node type of the parser that has expression children and recurses into all of them; (C18.scan) the scan-type table and the JDBC code table agree for every MySQL data type (no integer scan type for a binary/text code and the like); (C18.rows) every loop over a result set in the executors asks Err() before reporting success, so a read that failed mid-way is not taken for the complete image; (C18.case) a column name in folded form (CIStr.L, strings.ToLower/ToUpper) is compared with or looked up among metadata names only when these are folded the same way (a small qualifier analysis over value origins: lower / upper / metadata spelling); (C18.sticky) where one image query covers several statements, the flag that keeps the WHERE clause in that query can only be lowered inside the loop over the statements (once a statement without WHERE was seen the whole table is selected, whatever follows); (C18.clause) an optional clause of the parsed statement (Where, Limit, Order/OrderBy — nil when the statement has none) is used as a method receiver only where it was tested non-nil on every path, so a statement without that clause is handled or rejected instead of crashing the executor; (C18.recorded) an executor adds a before/after image to the transaction's round images only on the nil-error edge of the business statement (the callback) and only after both images were built without error — an image recorded for a statement the database refused describes rows that were not changed; (C18.fresh) util.ScanRows.Scan leaves a destination untouched when the source column is NULL, so every call to it inside a row loop gets destinations created inside that loop iteration (a destination slice built once per result set makes a NULL column of a later row keep the previous row's value). (C18.derive, also) the upsert's after-image query has one origin on every path, the builder derived from the statement's key values; (C18.scan, also) ColumnMeta.ColumnDef is set from COLUMN_DEFAULT unconditionally or under a NULL test only; (C18.pkrows) the primary-key values recovered from the VALUES lists of an INSERT name every row: a slice taken out of a map, appended to and kept in that map is stored back on every path before it is taken out again or the function leaves (path rule), and the tests that count VALUES elements as parameter markers and as non-markers — from which the index of a marker's bound argument is computed — together cover the marker, other strings and non-strings (truth table over the marker test and the string type test, through predicate helpers of the package). Both were violated on the pinned tree (reproduced, repaired in /repo);"
	r.Trusted = []string{"go/types", "github.com/arana-db/parser: Accept visits every child node", "MySQL information_schema DATA_TYPE spellings (reference list)"}
	w := r.W
	_, live := liveATExecutors(w)
	var roots []*core.FuncInfo
	for _, t := range live {
		roots = append(roots, methodInfo(w, t, "ExecContext"))
	}
	liveFns := reachFrom(w, roots, pExecAT)
	// ---- C18.derive
	nDerive := 0
	var argSel *core.FuncInfo
	for _, f := range liveFns {
		info := f.Pkg.TypesInfo
		ast.Inspect(f.Decl.Body, func(n ast.Node) bool {
			cl, ok := n.(*ast.CompositeLit)
			if !ok {
				return true
			}
			t := info.TypeOf(cl)
			if t == nil || t.String() != pParserAST+".SelectStmt" {
				return true
			}
			if litField(cl, "From") == nil {
				return true // a partial statement used only to select arguments, not restored into SQL
			}
			if litField(cl, "LockInfo") == nil && !strings.Contains(strings.ToLower(f.Obj.Name()), "before") {
				return true // after-image / pk queries: not locking reads
			}
			// which statement does it copy from?
			from := origin(f, litField(cl, "Where"), 4)
			if !strings.HasSuffix(from, ".Where") {
				return true
			}
			base := strings.TrimSuffix(from, ".Where")
			if !(strings.Contains(base, "UpdateStmt") || strings.Contains(base, "DeleteStmt") || strings.Contains(base, "param:") || strings.Contains(base, "range(")) {
				return true
			}
			nDerive++
			r.Fn(f)
			key := core.ShortKey(f.Obj) + " before-image SELECT"
			pos := w.Pos(cl.Pos())
			want := map[string][]string{"From": {".TableRefs", ".From"}, "OrderBy": {".Order", ".OrderBy"}, "Limit": {".Limit"}}
			for _, fld := range []string{"From", "OrderBy", "Limit"} {
				r.Sites++
				o := origin(f, litField(cl, fld), 4)
				okc := false
				for _, suf := range want[fld] {
					if o == base+suf {
						okc = true
					}
				}
				r.Check(okc, "C18.derive", key+" "+fld+" is the business statement's", pos, o, "the before-image query's "+fld+" derives from "+o+", not from the same statement its WHERE comes from ("+base+"): it would select other rows than the statement changes")
			}
			r.Sites++
			lock := origin(f, litField(cl, "LockInfo"), 4)
			r.Check(strings.Contains(lock, "const:SelectLockForUpdate"), "C18.derive", key+" locks FOR UPDATE", pos, "FOR UPDATE", "the before-image query does not lock the rows FOR UPDATE ("+lock+"): they can change between the image and the statement")
			return true
		})
		// the argument selector: takes a *SelectStmt and the statement's args
		sig := f.Obj.Type().(*types.Signature)
		if sig.Params().Len() == 2 && sig.Params().At(0).Type().String() == "*"+pParserAST+".SelectStmt" && sig.Params().At(1).Type().String() == "[]database/sql/driver.NamedValue" {
			argSel = f
		}
	}
	// before-image queries assembled as text must lock as well
	for _, f := range liveFns {
		if !strings.Contains(strings.ToLower(f.Obj.Name()), "beforeimagesql") {
			continue
		}
		hasLit := false
		ast.Inspect(f.Decl.Body, func(n ast.Node) bool {
			if cl, ok := n.(*ast.CompositeLit); ok {
				if t := f.Pkg.TypesInfo.TypeOf(cl); t != nil && t.String() == pParserAST+".SelectStmt" && litField(cl, "From") != nil {
					hasLit = true
				}
			}
			return true
		})
		usesDML := false
		ast.Inspect(f.Decl.Body, func(n ast.Node) bool {
			if sel, ok := n.(*ast.SelectorExpr); ok && (sel.Sel.Name == "DeleteStmt" || sel.Sel.Name == "UpdateStmt") {
				usesDML = true
			}
			return true
		})
		if hasLit || !usesDML {
			continue // insert / upsert before images are not locking reads of rows the statement is about to change
		}
		locks := false
		for _, sc := range stringConstsIn(f) {
			if strings.Contains(strings.ToUpper(sc), "FOR UPDATE") {
				locks = true
			}
		}
		r.Sites++
		r.Fn(f)
		r.Check(locks, "C18.derive", core.ShortKey(f.Obj)+" (text-built) locks FOR UPDATE", w.Pos(f.Decl.Pos()), "FOR UPDATE appended", "the text-built before-image query does not end in FOR UPDATE")
	}
	if nDerive < 2 {
		r.Bad("C18.derive", "INSTANCE-FLOOR before-image SELECT literals", "", "fewer before-image SELECT constructions than confirmed by hand (update, delete, multi-update, multi-delete)")
	}
	var collector *core.FuncInfo
	if r.Anchor("C18.derive", argSel, "argument selector (SelectStmt, args) of the AT executors") != nil {
		info := argSel.Pkg.TypesInfo
		stmtParam := paramObjs(argSel)[0]
		clauses := map[string]bool{}
		for _, cs := range w.Calls(argSel) {
			g := w.Info(cs.Static)
			if g == nil || len(cs.Call.Args) < 1 {
				continue
			}
			o := origin(argSel, cs.Call.Args[0], 4)
			if strings.Contains(o, "param:"+stmtParam.Name()+".") {
				collector = g
				rest := strings.SplitN(o, "param:"+stmtParam.Name()+".", 2)[1]
				clauses[strings.FieldsFunc(rest, func(c rune) bool { return c == '.' || c == ')' || c == '[' })[0]] = true
				continue
			}
			// the nodes may be listed by a helper of the package that is handed the statement
			// (`for _, node := range selectArgNodes(stmt) { collect(node, ..) }`): what it appends to its list
			for _, cs2 := range w.Calls(argSel) {
				h := w.Info(cs2.Static)
				if h == nil || h.Pkg != argSel.Pkg || h == argSel || h == g || h.Decl.Body == nil || !strings.Contains(o, "call:"+core.ShortKey(h.Obj)+"(") {
					continue
				}
				var hp types.Object
				for i, a := range cs2.Call.Args {
					if isObj(argSel.Pkg.TypesInfo, a, stmtParam) && i < len(paramObjs(h)) {
						hp = paramObjs(h)[i]
					}
				}
				if hp == nil {
					continue
				}
				ast.Inspect(h.Decl.Body, func(n ast.Node) bool {
					c, ok := n.(*ast.CallExpr)
					if !ok || len(c.Args) < 2 {
						return true
					}
					if id, ok := ast.Unparen(c.Fun).(*ast.Ident); !ok || id.Name != "append" {
						return true
					}
					for _, a := range c.Args[1:] {
						ho := origin(h, a, 4)
						if strings.Contains(ho, "param:"+hp.Name()+".") {
							collector = g
							rest := strings.SplitN(ho, "param:"+hp.Name()+".", 2)[1]
							clauses[strings.FieldsFunc(rest, func(c rune) bool { return c == '.' || c == ')' || c == '[' })[0]] = true
						}
					}
					return true
				})
			}
		}
		_ = info
		var got []string
		for c := range clauses {
			got = append(got, c)
		}
		sort.Strings(got)
		r.Sites++
		r.Check(strings.Join(got, ",") == "Limit,OrderBy,Where", "C18.derive", core.ShortKey(argSel.Obj)+" traverses Where, OrderBy and Limit", w.Pos(argSel.Decl.Pos()), strings.Join(got, ","),
			"the argument selection traverses {"+strings.Join(got, ",")+"} but the before-image query carries Where, OrderBy and Limit of the statement: placeholders in an untraversed clause get no argument (or the wrong one)")
		// the selected arguments are the caller's, picked by marker order
		picks := false
		ast.Inspect(argSel.Decl.Body, func(n ast.Node) bool {
			if ix, ok := n.(*ast.IndexExpr); ok && len(paramObjs(argSel)) == 2 && isObj(argSel.Pkg.TypesInfo, ix.X, paramObjs(argSel)[1]) {
				picks = true
			}
			return true
		})
		r.Sites++
		r.Check(picks, "C18.derive", core.ShortKey(argSel.Obj)+" picks the statement's own arguments by marker order", w.Pos(argSel.Decl.Pos()), "args[order]", "the selected arguments are not taken from the statement's argument list by marker order")
	}
	// ---- C18.markers
	if r.Anchor("C18.markers", collector, "parameter-marker collector called by the argument selector") != nil {
		c18Markers(r, collector)
	}
	// ---- C18.scan
	jd, ok := jdbcOf(w)
	sk, skDefault, sfn := scanKinds(w)
	if !ok || sk == nil {
		r.Anchor("C18.scan", nil, "scan-type table and JDBC code table")
		return
	}
	r.Fn(sfn)
	compatible := map[string][]string{
		"int64":   {"JDBCTypeBit", "JDBCTypeTinyInt", "JDBCTypeSmallInt", "JDBCTypeInteger", "JDBCTypeBigInt"},
		"float64": {"JDBCTypeReal", "JDBCTypeDouble", "JDBCTypeDecimal", "JDBCTypeFloat", "JDBCTypeNumeric"},
		"time":    {"JDBCTypeDate", "JDBCTypeTime", "JDBCTypeTimestamp"},
		"string":  {"JDBCTypeChar", "JDBCTypeVarchar", "JDBCTypeLongVarchar"},
	}
	numericOrTime := map[string]bool{}
	for _, k := range []string{"int64", "float64", "time"} {
		for _, c := range compatible[k] {
			numericOrTime[c] = true
		}
	}
	for _, s := range []string{"BIT", "TINYINT", "SMALLINT", "MEDIUMINT", "INT", "BIGINT", "FLOAT", "DOUBLE", "DECIMAL", "CHAR", "VARCHAR", "TINYTEXT", "TEXT", "MEDIUMTEXT", "LONGTEXT",
		"BINARY", "VARBINARY", "TINYBLOB", "BLOB", "MEDIUMBLOB", "LONGBLOB", "DATE", "TIME", "YEAR", "DATETIME", "TIMESTAMP", "ENUM", "SET", "JSON", "GEOMETRY"} {
		code := jd[s]
		kind, known := sk[s]
		if !known {
			kind = skDefault
		}
		r.Sites++
		key := "type " + s + ": scanned as " + kind + ", coded " + code
		okc := true
		for _, k := range strings.Split(kind, "|") {
			switch k {
			case "bytes":
				// raw bytes can carry text and binary data; a numeric or temporal code is read back through float64/time.Parse
				if numericOrTime[code] {
					okc = false
				}
			default:
				if !inSet(code, compatible[k]...) {
					okc = false
				}
			}
		}
		r.Check(okc, "C18.scan", key, w.Pos(sfn.Decl.Pos()), "scan type and JDBC code agree", "the row scanner reads "+s+" columns into "+kind+" but the image is labelled "+code+": scanning fails or the undo log restores a value of the wrong kind")
	}
	c18UpsertAfter(r)
	c18ColumnDefault(r)
	c18PkRows(r, liveFns)
	c18ArgIndex(r, liveFns)
	r.Floor("C18.derive", 10)
	r.Floor("C18.markers", 1)
	r.Floor("C18.scan", 28)
	c18Fresh(r)
	r.Floor("C18.fresh", 2)
	c18Recorded(r, live)
	r.Floor("C18.recorded", 10)
	c18Clause(r, live)
	r.Floor("C18.clause", 2)
	{
		var ex []*core.FuncInfo
		for _, t := range live {
			if m := methodInfo(w, t, "ExecContext"); m != nil {
				ex = append(ex, m)
			}
		}
		if rowsErrChecked(r, "C18.rows", append(ex, reachFrom(w, ex, pExecAT)...)) == 0 {
			r.Bad("C18.rows", "image-building loops over result sets", "", "no loop over a result set found in the live executors")
		}
	}
	c18Case(r, live)
	r.Floor("C18.case", 8)
	c18Sticky(r, live, "C18.sticky")
	r.Floor("C18.sticky", 1)
}

// c18Markers: visitor-based, or a total type switch.
func c18Markers(r *core.Run, col *core.FuncInfo) {
	w := r.W
	r.Fn(col)
	info := col.Pkg.TypesInfo
	key := core.ShortKey(col.Obj)
	// (a) visitor: calls Accept with a value whose Enter records ParamMarkerExpr
	usesVisitor := false
	var visitorT *types.Named
	ast.Inspect(col.Decl.Body, func(n ast.Node) bool {
		c, ok := n.(*ast.CallExpr)
		if !ok || len(c.Args) != 1 {
			return true
		}
		if sel, ok := ast.Unparen(c.Fun).(*ast.SelectorExpr); ok && sel.Sel.Name == "Accept" {
			t := info.TypeOf(c.Args[0])
			if p, ok := t.(*types.Pointer); ok {
				t = p.Elem()
			}
			if nt, ok := t.(*types.Named); ok {
				usesVisitor = true
				visitorT = nt
			}
		}
		return true
	})
	if usesVisitor {
		enter := methodInfo(w, visitorT, "Enter")
		leave := methodInfo(w, visitorT, "Leave")
		r.Sites++
		okEnter, skips, stops := false, false, false
		if enter != nil {
			r.Fn(enter)
			ast.Inspect(enter.Decl.Body, func(n ast.Node) bool {
				switch x := n.(type) {
				case *ast.TypeAssertExpr:
					if x.Type != nil && strings.HasSuffix(core.ExprString(x.Type), "ParamMarkerExpr") {
						okEnter = true
					}
				case *ast.CaseClause:
					for _, e := range x.List {
						if strings.HasSuffix(core.ExprString(e), "ParamMarkerExpr") {
							okEnter = true
						}
					}
				case *ast.ReturnStmt:
					if len(x.Results) == 2 {
						if v := core.ConstVal(enter.Pkg.TypesInfo, x.Results[1]); v == nil || v.String() != "false" {
							skips = true // may skip children
						}
					}
				}
				return true
			})
		}
		if leave != nil {
			ast.Inspect(leave.Decl.Body, func(n ast.Node) bool {
				if rs, ok := n.(*ast.ReturnStmt); ok && len(rs.Results) == 2 {
					if v := core.ConstVal(leave.Pkg.TypesInfo, rs.Results[1]); v == nil || v.String() != "true" {
						stops = true
					}
				}
				return true
			})
		}
		r.Check(okEnter && !skips && !stops && leave != nil, "C18.markers", key+" collects markers with the parser's visitor over the whole expression", w.Pos(col.Decl.Pos()), "Accept(visitor): Enter records ParamMarkerExpr, never skips children, Leave never stops",
			"the visitor does not record ParamMarkerExpr in Enter, can skip children, or stops the walk in Leave: markers in some sub-expressions are not collected")
		return
	}
	// (b) type switch: total over expression nodes with expression children
	var astPkg *types.Package
	for _, imp := range col.Pkg.Types.Imports() {
		if imp.Path() == pParserAST {
			astPkg = imp
		}
	}
	if astPkg == nil {
		r.Undecided("C18.markers", key+" parser ast package", w.Pos(col.Decl.Pos()), "cannot find the parser's ast package")
		return
	}
	exprNode, _ := astPkg.Scope().Lookup("ExprNode").Type().Underlying().(*types.Interface)
	covered := map[string]map[string]bool{} // type -> fields visited
	ast.Inspect(col.Decl.Body, func(n ast.Node) bool {
		cc, ok := n.(*ast.CaseClause)
		if !ok {
			return true
		}
		for _, e := range cc.List {
			t := info.TypeOf(e)
			if p, ok := t.(*types.Pointer); ok {
				t = p.Elem()
			}
			nt, ok := t.(*types.Named)
			if !ok {
				continue
			}
			fs := map[string]bool{}
			ast.Inspect(cc, func(m ast.Node) bool {
				if sel, ok := m.(*ast.SelectorExpr); ok {
					if v, ok := info.Uses[sel.Sel].(*types.Var); ok && v.IsField() {
						fs[v.Name()] = true
					}
				}
				return true
			})
			covered[nt.Obj().Name()] = fs
		}
		return true
	})
	var missing []string
	for _, name := range astPkg.Scope().Names() {
		tn, ok := astPkg.Scope().Lookup(name).(*types.TypeName)
		if !ok {
			continue
		}
		nt, ok := tn.Type().(*types.Named)
		if !ok || exprNode == nil || !types.Implements(types.NewPointer(nt), exprNode) {
			continue
		}
		st, ok := nt.Underlying().(*types.Struct)
		if !ok {
			continue
		}
		var kids []string
		for i := 0; i < st.NumFields(); i++ {
			ft := st.Field(i).Type()
			if sl, ok := ft.(*types.Slice); ok {
				ft = sl.Elem()
			}
			if types.Implements(ft, exprNode) || strings.HasSuffix(ft.String(), "ast.ExprNode") {
				kids = append(kids, st.Field(i).Name())
			}
		}
		if len(kids) == 0 {
			continue
		}
		fs, has := covered[name]
		if !has {
			missing = append(missing, name)
			continue
		}
		for _, k := range kids {
			if !fs[k] {
				missing = append(missing, name+"."+k)
			}
		}
	}
	sort.Strings(missing)
	r.Sites++
	r.Check(len(missing) == 0, "C18.markers", key+" covers every expression node that has expression children", w.Pos(col.Decl.Pos()), "total type switch",
		"the marker collector's type switch neither uses the parser's visitor nor covers: "+strings.Join(missing, ", ")+" — parameter markers inside those expressions are not collected, so the before-image query is executed with fewer arguments than placeholders")
}

// c18Fresh: destinations handed to (*util.ScanRows).Scan inside a loop are created in that loop's body.
func c18Fresh(r *core.Run) {
	w := r.W
	sr := w.NamedType("pkg/datasource/sql/util", "ScanRows")
	if sr == nil {
		r.Anchor("C18.fresh", nil, "util.ScanRows")
		return
	}
	scan := w.MethodOf(sr, "Scan")
	if scan == nil {
		r.Anchor("C18.fresh", nil, "util.ScanRows.Scan")
		return
	}
	for _, f := range w.SortedFuncs() {
		if w.IsTestFile(f.Decl.Pos()) || f.Decl.Body == nil {
			continue
		}
		info := f.Pkg.TypesInfo
		var stack []ast.Node
		ast.Inspect(f.Decl.Body, func(n ast.Node) bool {
			if n == nil {
				stack = stack[:len(stack)-1]
				return true
			}
			stack = append(stack, n)
			call, ok := n.(*ast.CallExpr)
			if !ok || core.Callee(info, call) != scan {
				return true
			}
			var loop ast.Node
			var body *ast.BlockStmt
			for i := len(stack) - 1; i >= 0 && loop == nil; i-- {
				switch l := stack[i].(type) {
				case *ast.ForStmt:
					loop, body = l, l.Body
				case *ast.RangeStmt:
					loop, body = l, l.Body
				case *ast.FuncLit:
					i = -1
				}
			}
			if loop == nil {
				return true // a single row is read: nothing to carry over
			}
			r.Fn(f)
			r.Sites++
			key := core.ShortKey(f.Obj) + " scan destinations are created per row"
			pos := w.Pos(call.Pos())
			bad := ""
			for _, a := range call.Args {
				var v types.Object
				switch x := ast.Unparen(a).(type) {
				case *ast.Ident:
					v = core.ObjOf(info, x)
				case *ast.UnaryExpr:
					v = core.ObjOf(info, x.X)
				}
				if v == nil {
					bad = "destination '" + core.ExprString(a) + "' is not a plain variable"
					break
				}
				if v.Pos() >= body.Pos() && v.Pos() < body.End() {
					// declared in the loop body; every assignment must be a fresh value (a call or literal), not an outer slice
					if lv, ok := v.(*types.Var); ok {
						for _, d := range localDefs(f, lv) {
							switch ast.Unparen(d.rhs).(type) {
							case *ast.CallExpr, *ast.CompositeLit:
							default:
								bad = "destination '" + v.Name() + "' is assigned from '" + core.ExprString(d.rhs) + "', which may outlive the row"
							}
						}
					}
					continue
				}
				bad = "destination '" + v.Name() + "' is created outside the row loop and reused for every row"
			}
			r.Check(bad == "", "C18.fresh", key, pos, "fresh destinations for each row", bad+": ScanRows.Scan skips NULL source columns, so a NULL in a later row keeps the value scanned from an earlier row and the recorded image contains values the row never had")
			return true
		})
	}
}

// c18Recorded: images reach TxCtx.RoundImages only after the business statement and both image queries succeeded.
func c18Recorded(r *core.Run, live []*types.Named) {
	w := r.W
	isRecord := func(f *types.Func) bool {
		if f == nil {
			return false
		}
		rn := core.RecvNamed(f)
		return rn != nil && rn.Obj().Name() == "RoundRecordImage" && strings.HasPrefix(f.Name(), "Append")
	}
	for _, t := range live {
		for _, f := range w.SortedFuncs() {
			if core.RecvNamed(f.Obj) != t || w.IsTestFile(f.Decl.Pos()) {
				continue
			}
			has := false
			for _, cs := range w.Calls(f) {
				if isRecord(cs.Static) {
					has = true
				}
			}
			if !has {
				continue
			}
			r.Fn(f)
			info := f.Pkg.TypesInfo
			var cbs []types.Object
			for _, p := range paramObjs(f) {
				if _, ok := p.Type().Underlying().(*types.Signature); ok {
					cbs = append(cbs, p)
				}
			}
			sp := &flow.Spec{W: w, Depth: 0, Classify: func(pkg *packages.Package, call *ast.CallExpr, callee *types.Func) []flow.Tag {
				if isRecord(callee) {
					return []flow.Tag{"record"}
				}
				if id, ok := ast.Unparen(call.Fun).(*ast.Ident); ok {
					for _, cb := range cbs {
						if info.Uses[id] == cb {
							return []flow.Tag{"business"}
						}
					}
				}
				if callee != nil && core.RecvNamed(callee) == t && hasErr(callee) && strings.Contains(strings.ToLower(callee.Name()), "image") {
					return []flow.Tag{"image"}
				}
				return nil
			}}
			res := sp.Analyze(f)
			for _, cp := range res.Calls {
				if !inSet("record", cp.Tags...) {
					continue
				}
				r.Sites++
				okc := cp.Before.Has("ok:business") && !cp.Before.Maybe("fail:image") && !cp.InLoop || cp.Before.Has("ok:business") && !cp.Before.Maybe("fail:image")
				r.Check(okc, "C18.recorded", core.ShortKey(f.Obj)+" -> "+cp.Callee.Name()+" after the statement succeeded", w.Pos(cp.Call.Pos()), "recorded on the nil-error edge of the business statement",
					"an image is added to the round images although the business statement has not (yet) succeeded on this path: if the database refuses the statement the image stays in the transaction and the undo log describes rows that were never changed")
			}
		}
	}
}

func hasErr(f *types.Func) bool {
	_, ok := core.HasErrorResult(f.Type().(*types.Signature))
	return ok
}

// c18Clause: optional clauses of the parser's statement nodes are dereferenced only under a nil test.
func c18Clause(r *core.Run, live []*types.Named) {
	w := r.W
	optional := map[string]bool{"Where": true, "Limit": true, "Order": true, "OrderBy": true}
	clauseExpr := func(info *types.Info, e ast.Expr) (string, bool) {
		sel, ok := ast.Unparen(e).(*ast.SelectorExpr)
		if !ok || !optional[sel.Sel.Name] {
			return "", false
		}
		fv, ok := info.Uses[sel.Sel].(*types.Var)
		if !ok || !fv.IsField() || fv.Pkg() == nil || !strings.Contains(fv.Pkg().Path(), "/parser/ast") {
			return "", false
		}
		return core.ExprString(sel), true
	}
	var fns []*core.FuncInfo
	for _, t := range live {
		if m := methodInfo(w, t, "ExecContext"); m != nil {
			fns = append(fns, m)
		}
	}
	fns = dedupFns(append(fns, reachFrom(w, fns, pExecAT)...))
	for _, f := range fns {
		if w.IsTestFile(f.Decl.Pos()) || f.Decl.Body == nil {
			continue
		}
		info := f.Pkg.TypesInfo
		uses := false
		ast.Inspect(f.Decl.Body, func(n ast.Node) bool {
			if c, ok := n.(*ast.CallExpr); ok {
				if sel, ok := ast.Unparen(c.Fun).(*ast.SelectorExpr); ok {
					if _, ok := clauseExpr(info, sel.X); ok {
						uses = true
					}
				}
			}
			return !uses
		})
		if !uses {
			continue
		}
		r.Fn(f)
		sp := &flow.Spec{W: w, Depth: 0,
			Classify: func(pkg *packages.Package, call *ast.CallExpr, callee *types.Func) []flow.Tag {
				if sel, ok := ast.Unparen(call.Fun).(*ast.SelectorExpr); ok {
					if txt, ok := clauseExpr(pkg.TypesInfo, sel.X); ok {
						return []flow.Tag{"use:" + txt}
					}
				}
				return nil
			},
			CondTags: func(pkg *packages.Package, cond ast.Expr, branch bool) []flow.Tag {
				be, ok := ast.Unparen(cond).(*ast.BinaryExpr)
				if !ok || (be.Op != token.EQL && be.Op != token.NEQ) || !isNilIdent(pkg.TypesInfo, be.Y) {
					return nil
				}
				txt, ok := clauseExpr(pkg.TypesInfo, be.X)
				if !ok {
					return nil
				}
				if (be.Op == token.NEQ) == branch {
					return []flow.Tag{"nonnil:" + txt}
				}
				return nil
			}}
		res := sp.Analyze(f)
		for _, cp := range res.Calls {
			for _, t := range cp.Tags {
				if !strings.HasPrefix(t, "use:") {
					continue
				}
				txt := strings.TrimPrefix(t, "use:")
				r.Sites++
				r.Check(cp.Before.Has("nonnil:"+txt), "C18.clause", core.ShortKey(f.Obj)+" uses "+txt+" only when the statement has that clause", w.Pos(cp.Call.Pos()), "dominated by "+txt+" != nil",
					txt+" is nil for a statement without that clause and is used as a method receiver here without a nil test on every path: such a statement crashes the executor (nil dereference) instead of being handled or rejected")
			}
		}
	}
}

// c18Sticky: a boolean that is true before a loop over the statements, decides after the loop whether the
// image query gets a WHERE clause, and is assigned inside the loop, is only ever assigned the constant false there.
func c18Sticky(r *core.Run, live []*types.Named, rule string) {
	w := r.W
	var fns []*core.FuncInfo
	for _, t := range live {
		if m := methodInfo(w, t, "ExecContext"); m != nil {
			fns = append(fns, m)
		}
	}
	fns = dedupFns(append(fns, reachFrom(w, fns, pExecAT)...))
	for _, f := range fns {
		if w.IsTestFile(f.Decl.Pos()) || f.Decl.Body == nil {
			continue
		}
		info := f.Pkg.TypesInfo
		ast.Inspect(f.Decl.Body, func(n ast.Node) bool {
			blk, ok := n.(*ast.BlockStmt)
			if !ok {
				return true
			}
			for i, st := range blk.List {
				loop, ok := st.(*ast.RangeStmt)
				if !ok {
					continue
				}
				// if statements after the loop, in the same block, whose branches mention WHERE
				for _, after := range blk.List[i+1:] {
					ifs, ok := after.(*ast.IfStmt)
					if !ok {
						continue
					}
					id, ok := ast.Unparen(ifs.Cond).(*ast.Ident)
					if !ok {
						if ue, isNot := ast.Unparen(ifs.Cond).(*ast.UnaryExpr); isNot && ue.Op == token.NOT {
							id, ok = ast.Unparen(ue.X).(*ast.Ident)
						}
					}
					if !ok || id == nil {
						continue
					}
					flag, ok := info.Uses[id].(*types.Var)
					if !ok {
						continue
					}
					mentionsWhere := false
					ast.Inspect(ifs, func(m ast.Node) bool {
						if e, ok := m.(ast.Expr); ok {
							if v := core.ConstVal(info, e); v != nil && v.Kind() == constant.String && strings.Contains(strings.ToUpper(constant.StringVal(v)), "WHERE") {
								mentionsWhere = true
							}
						}
						return true
					})
					if !mentionsWhere {
						continue
					}
					// assignments to the flag inside the loop
					bad, n := "", 0
					ast.Inspect(loop.Body, func(m ast.Node) bool {
						as, ok := m.(*ast.AssignStmt)
						if !ok {
							return true
						}
						for k, l := range as.Lhs {
							if core.ObjOf(info, l) != flag || k >= len(as.Rhs) {
								continue
							}
							n++
							v := core.ConstVal(info, as.Rhs[k])
							if v == nil || v.Kind() != constant.Bool || constant.BoolVal(v) {
								bad = w.Pos(as.Pos()) + ": " + flag.Name() + " = " + core.ExprString(as.Rhs[k])
							}
						}
						return true
					})
					if n == 0 {
						continue
					}
					r.Fn(f)
					r.Sites++
					r.Check(bad == "", rule, core.ShortKey(f.Obj)+" : "+flag.Name()+" can only be lowered inside the loop over the statements", w.Pos(loop.Pos()), "assigned the constant false only",
						"the flag that keeps the WHERE clause of the combined image query is assigned a computed value inside the loop ("+bad+"): a statement without WHERE followed by one with WHERE raises it again, the query selects only the later statement's rows, and image and lock keys miss rows the first statement changes")
				}
			}
			return true
		})
	}
}

// c18UpsertAfter (C18.derive): INSERT ... ON DUPLICATE KEY UPDATE writes rows that existed (found by a unique key of
// the statement's values) and rows that did not. Its after image — from which the lock keys of the statement are
// built — is read back with the query derived from the statement's own key values (the before-image query extended
// by the keys found), on every path: a query narrowed to the rows of the before image leaves the rows the
// statement inserted out of the image and without a lock key.
func c18UpsertAfter(r *core.Run) {
	w := r.W
	ex := w.NamedType("pkg/datasource/sql/exec/at", "insertOnUpdateExecutor")
	after := methodInfo(w, ex, "afterImage")
	if r.Anchor("C18.derive", after, "insertOnUpdateExecutor.afterImage") == nil {
		return
	}
	r.Fn(after)
	info := after.Pkg.TypesInfo
	n := 0
	ast.Inspect(after.Decl.Body, func(nd ast.Node) bool {
		c, ok := nd.(*ast.CallExpr)
		if !ok {
			return true
		}
		callee := core.Callee(info, c)
		if callee == nil || !(strings.Contains(callee.Name(), "Query") && len(c.Args) >= 2) {
			return true
		}
		// the statement text argument: the first string-typed argument
		for _, a := range c.Args {
			t := info.TypeOf(a)
			if t == nil {
				continue
			}
			if b, ok := t.Underlying().(*types.Basic); !ok || b.Kind() != types.String {
				continue
			}
			n++
			r.Sites++
			o := origin(after, a, 4)
			// one origin on every path: the result of a builder method of this executor (whatever its name)
			okc := strings.HasPrefix(o, "call:pkg/datasource/sql/exec/at.(insertOnUpdateExecutor).") && !strings.Contains(o, "phi(")
			r.Check(okc, "C18.derive", core.ShortKey(after.Obj)+" reads the after image with the query built from the statement's key values", w.Pos(c.Pos()), o,
				"the after-image query of the upsert is "+o+": on some path it is not the query derived from the statement's own key values, so rows the statement inserted (no before image) are missing from the after image and get no lock key")
			break
		}
		return true
	})
	if n == 0 {
		r.Bad("C18.derive", core.ShortKey(after.Obj)+" reads the after image with the query built from the statement's key values", w.Pos(after.Decl.Pos()), "no image query found")
	}
}

// c18ColumnDefault (C18.scan): the executors tell "column left out of the INSERT takes its default" from "column left
// out is NULL" by ColumnMeta.ColumnDef being nil. The table-meta loader therefore sets ColumnDef from the scanned
// COLUMN_DEFAULT whenever that is not NULL — an empty string is a default (DEFAULT ”): the assignment may depend on
// the NULL-ness of the scanned value (x != nil, x.Valid) but not on its content.
func c18ColumnDefault(r *core.Run) {
	w := r.W
	n := 0
	for _, f := range w.SortedFuncs() {
		if !strings.HasSuffix(f.Pkg.PkgPath, "/pkg/datasource/sql/datasource/mysql") || w.IsTestFile(f.Decl.Pos()) || f.Decl.Body == nil {
			continue
		}
		info := f.Pkg.TypesInfo
		ast.Inspect(f.Decl.Body, func(nd ast.Node) bool {
			as, ok := nd.(*ast.AssignStmt)
			if !ok {
				return true
			}
			for i, l := range as.Lhs {
				sel, ok := ast.Unparen(l).(*ast.SelectorExpr)
				if !ok || sel.Sel.Name != "ColumnDef" || i >= len(as.Rhs) {
					continue
				}
				if v, ok := info.Uses[sel.Sel].(*types.Var); !ok || !v.IsField() {
					continue
				}
				n++
				r.Sites++
				r.Fn(f)
				// the scanned variable the value comes from
				var src types.Object
				ast.Inspect(as.Rhs[i], func(m ast.Node) bool {
					if id, ok := m.(*ast.Ident); ok && src == nil {
						if v, ok := info.Uses[id].(*types.Var); ok && !v.IsField() {
							src = v
						}
					}
					return true
				})
				bad := ""
				for _, e := range enclosing(f.Decl.Body, as) {
					is, ok := e.(*ast.IfStmt)
					if !ok || src == nil || !mentions(info, is.Cond, src) {
						continue
					}
					okCond := false
					switch c := ast.Unparen(is.Cond).(type) {
					case *ast.SelectorExpr:
						okCond = c.Sel.Name == "Valid"
					case *ast.BinaryExpr:
						okCond = (c.Op == token.NEQ || c.Op == token.EQL) && (isNilIdent(info, c.Y) || isNilIdent(info, c.X))
					}
					if !okCond {
						bad = core.ExprString(is.Cond)
					}
				}
				r.Check(bad == "", "C18.scan", core.ShortKey(f.Obj)+" records a column default whenever COLUMN_DEFAULT is not NULL", w.Pos(as.Pos()), "set unconditionally or under a NULL test only",
					"ColumnDef is set only when '"+bad+"' holds: a column declared with an empty-string default is recorded as having none, so an INSERT ... ON DUPLICATE KEY UPDATE that leaves it out is taken to write NULL into its unique index and the index is dropped from the image query — the row the statement updates through that index is missing from both images")
			}
			return true
		})
	}
	if n == 0 {
		r.Bad("C18.scan", "table-meta loader records column defaults", "", "no assignment to ColumnMeta.ColumnDef found in the MySQL table-meta loader")
	}
}

// c18PkRows (C18.pkrows): the primary-key values recovered from the VALUES lists of an INSERT — from which the after
// image is selected and the lock keys are built — name every row of the statement. Two structural necessary
// conditions on the functions the live executors reach:
//
//   - write-back: a slice taken out of a map (`v = m[k]`), grown (`v = append(v, ..)`) and kept in the map is stored
//     back (`m[k] = v`) on every path before v is taken out again or the function leaves; a store under "only if the
//     key is new" keeps the first row's value and drops the others.
//   - one classification of VALUES elements: where elements are counted as parameter markers and as non-markers (the
//     index of a marker's bound argument is computed from both counts), every element falls in one of the two classes.
//     A non-marker test that asks "a string other than the marker" leaves numbers, NULL and DEFAULT in neither.
func c18PkRows(r *core.Run, liveFns []*core.FuncInfo) {
	w := r.W
	nBack := 0
	for _, f := range liveFns {
		if w.IsTestFile(f.Decl.Pos()) || f.Decl.Body == nil {
			continue
		}
		info := f.Pkg.TypesInfo
		// slices taken out of a map and appended to
		loaded, grown := map[types.Object]bool{}, map[types.Object]bool{}
		mapRead := func(e ast.Expr) bool {
			ix, ok := ast.Unparen(e).(*ast.IndexExpr)
			if !ok {
				return false
			}
			t := info.TypeOf(ix.X)
			if t == nil {
				return false
			}
			m, ok := t.Underlying().(*types.Map)
			if !ok {
				return false
			}
			_, isSlice := m.Elem().Underlying().(*types.Slice)
			return isSlice
		}
		appendTo := func(e ast.Expr) types.Object {
			c, ok := ast.Unparen(e).(*ast.CallExpr)
			if !ok || len(c.Args) == 0 {
				return nil
			}
			if id, ok := ast.Unparen(c.Fun).(*ast.Ident); !ok || id.Name != "append" || info.Uses[id] != types.Universe.Lookup("append") {
				return nil
			}
			return core.ObjOf(info, c.Args[0])
		}
		ast.Inspect(f.Decl.Body, func(n ast.Node) bool {
			as, ok := n.(*ast.AssignStmt)
			if !ok || len(as.Lhs) != len(as.Rhs) {
				return true
			}
			for i, l := range as.Lhs {
				id, ok := ast.Unparen(l).(*ast.Ident)
				if !ok {
					continue
				}
				o := core.ObjOf(info, id)
				if o == nil {
					continue
				}
				if mapRead(as.Rhs[i]) {
					loaded[o] = true
				}
				if appendTo(as.Rhs[i]) == o {
					grown[o] = true
				}
			}
			return true
		})
		var vars []types.Object
		for o := range loaded {
			if grown[o] {
				vars = append(vars, o)
			}
		}
		if len(vars) == 0 {
			continue
		}
		sort.Slice(vars, func(i, j int) bool { return vars[i].Pos() < vars[j].Pos() })
		tagOf := func(o types.Object) string { return "grown:" + o.Name() + "@" + strconv.Itoa(int(o.Pos())) }
		isVar := func(o types.Object) bool {
			for _, v := range vars {
				if v == o {
					return true
				}
			}
			return false
		}
		sp := &flow.Spec{W: w, Depth: 0,
			AssignTags: func(pkg *packages.Package, as *ast.AssignStmt) []flow.Tag {
				if len(as.Lhs) != len(as.Rhs) {
					return nil
				}
				var out []flow.Tag
				for i, l := range as.Lhs {
					if id, ok := ast.Unparen(l).(*ast.Ident); ok {
						o := core.ObjOf(info, id)
						if o == nil || !isVar(o) {
							continue
						}
						switch {
						case appendTo(as.Rhs[i]) == o:
							out = append(out, tagOf(o))
						case mapRead(as.Rhs[i]):
							out = append(out, "take:"+tagOf(o), "-"+tagOf(o))
						default:
							out = append(out, "-"+tagOf(o)) // another value altogether
						}
						continue
					}
					// m[k] = v
					if mapRead(l) {
						if o := core.ObjOf(info, as.Rhs[i]); o != nil && isVar(o) {
							out = append(out, "-"+tagOf(o))
						}
					}
				}
				return out
			}}
		res := sp.Analyze(f)
		r.Fn(f)
		for _, v := range vars {
			nBack++
			r.Sites++
			bad := ""
			for _, ap := range res.Assigns {
				if inSet("take:"+tagOf(v), ap.Tags...) && ap.Before.Maybe(tagOf(v)) {
					bad = w.Pos(ap.Stmt.Pos()) + ": " + v.Name() + " is taken out of the map again while a value appended to it may not have been stored"
				}
			}
			for _, ex := range res.Exits {
				returned := false
				for _, e := range ex.Results {
					if core.ObjOf(info, e) == v {
						returned = true
					}
				}
				if !returned && ex.St.Maybe(tagOf(v)) && bad == "" {
					bad = w.Pos(ex.Pos) + ": the function leaves while a value appended to " + v.Name() + " may not have been stored"
				}
			}
			r.Check(bad == "", "C18.pkrows", core.ShortKey(f.Obj)+" : what is appended to "+v.Name()+" is stored back into the map it was taken from", w.Pos(v.Pos()), "stored back on every path",
				bad+": the collection keeps the value of the first VALUES row only — the after image and the lock keys of a multi-row INSERT miss every other row, and a rollback leaves those rows in the table")
		}
	}
	if nBack < 1 {
		r.Undecided("C18.pkrows", "INSTANCE-FLOOR C18.pkrows write-back", "", "no slice taken out of a map and appended to in the functions the executors reach (the pk values of a prepared INSERT are collected that way)")
	}
	// ---- one classification of VALUES elements
	type counting struct {
		f    *core.FuncInfo
		cond ast.Expr
		form c18Form
	}
	var cs []counting
	for _, f := range liveFns {
		if w.IsTestFile(f.Decl.Pos()) || f.Decl.Body == nil {
			continue
		}
		ast.Inspect(f.Decl.Body, func(n ast.Node) bool {
			ifs, ok := n.(*ast.IfStmt)
			if !ok || len(ifs.Body.List) == 0 {
				return true
			}
			for _, st := range ifs.Body.List {
				switch x := st.(type) {
				case *ast.IncDecStmt:
				case *ast.AssignStmt:
					if x.Tok != token.ADD_ASSIGN {
						return true
					}
				default:
					return true
				}
			}
			fm, marker := c18Formula(w, f, ifs.Cond, 0)
			if marker {
				cs = append(cs, counting{f, ifs.Cond, fm})
			}
			return true
		})
	}
	if len(cs) < 2 {
		r.Undecided("C18.pkrows", "INSTANCE-FLOOR C18.pkrows classification", "", "fewer than two places count VALUES elements by the parameter-marker test (markers and non-markers are both counted to find a marker's bound argument)")
		return
	}
	// the possible elements: the marker string, another string, not a string
	type elem struct {
		name string
		s, m bool
	}
	hole := ""
	for _, e := range []elem{{"the parameter marker", true, true}, {"a string literal", true, false}, {"a value that is not a string (number, NULL, DEFAULT, function call)", false, false}} {
		covered := 0
		for _, c := range cs {
			if c.form(e.s, e.m) {
				covered++
			}
		}
		if covered == 0 {
			hole = e.name
		}
	}
	var where []string
	for _, c := range cs {
		r.Fn(c.f)
		where = append(where, w.Pos(c.cond.Pos())+" "+core.ExprString(c.cond))
	}
	r.Sites += len(cs)
	r.Check(hole == "", "C18.pkrows", "every VALUES element is counted as a parameter marker or as a non-marker", w.Pos(cs[0].cond.Pos()), "the counting tests cover the marker, other strings and non-strings",
		hole+" is counted neither as a marker nor as a non-marker ("+strings.Join(where, "; ")+"): the index of the bound argument of a key placed after such an element is off by one — another argument's value (or a crash of the executor) stands for the inserted row's key")
}

// c18ArgIndex (C18.pkrows): inside a loop over the rows of a VALUES list, the position of a marker's bound argument
// is a running count of the markers met so far — a counter that lives across the rows — and does not depend on the
// row's position: rows may bind different numbers of parameters (a literal, NULL or DEFAULT in one row only), so
// "row index times markers per row" points at another row's argument.
func c18ArgIndex(r *core.Run, liveFns []*core.FuncInfo) {
	w := r.W
	n := 0
	for _, f := range liveFns {
		if w.IsTestFile(f.Decl.Pos()) || f.Decl.Body == nil {
			continue
		}
		info := f.Pkg.TypesInfo
		isRows := func(t types.Type) bool {
			if t == nil {
				return false
			}
			s, ok := t.Underlying().(*types.Slice)
			if !ok {
				return false
			}
			_, ok = s.Elem().Underlying().(*types.Slice)
			return ok
		}
		isArgs := func(t types.Type) bool {
			if t == nil {
				return false
			}
			s, ok := t.Underlying().(*types.Slice)
			if !ok {
				return false
			}
			nt, ok := s.Elem().(*types.Named)
			return ok && nt.Obj().Name() == "NamedValue" && nt.Obj().Pkg() != nil && nt.Obj().Pkg().Path() == "database/sql/driver"
		}
		var stack []ast.Node
		ast.Inspect(f.Decl.Body, func(nd ast.Node) bool {
			if nd == nil {
				stack = stack[:len(stack)-1]
				return true
			}
			stack = append(stack, nd)
			ix, ok := nd.(*ast.IndexExpr)
			if !ok || !isArgs(info.TypeOf(ix.X)) || core.ConstVal(info, ix.Index) != nil {
				return true
			}
			// the innermost enclosing loop over rows
			var rows *ast.RangeStmt
			for i := len(stack) - 1; i >= 0; i-- {
				if rs, ok := stack[i].(*ast.RangeStmt); ok && isRows(info.TypeOf(rs.X)) {
					rows = rs
					break
				}
			}
			if rows == nil {
				return true
			}
			// what the index depends on
			deps := map[types.Object]bool{}
			var walk func(e ast.Expr, depth int)
			walk = func(e ast.Expr, depth int) {
				if e == nil || depth > 6 {
					return
				}
				ast.Inspect(e, func(m ast.Node) bool {
					id, ok := m.(*ast.Ident)
					if !ok {
						return true
					}
					v, ok := info.Uses[id].(*types.Var)
					if !ok || v.IsField() || deps[v] {
						return true
					}
					deps[v] = true
					for _, d := range localDefs(f, v) {
						if !d.rng {
							walk(d.rhs, depth+1)
						}
					}
					return true
				})
			}
			walk(ix.Index, 0)
			n++
			r.Sites++
			r.Fn(f)
			why := ""
			if k := core.ObjOf(info, rows.Key); rows.Key != nil && k != nil && deps[k] {
				why = "the index depends on the row's position (" + k.Name() + ")"
			} else {
				running := false
				for o := range deps {
					if o.Pos() < rows.Pos() || o.Pos() >= rows.End() {
						// declared outside the loop over the rows: is it advanced inside it?
						ast.Inspect(rows.Body, func(m ast.Node) bool {
							switch x := m.(type) {
							case *ast.IncDecStmt:
								if core.ObjOf(info, x.X) == o {
									running = true
								}
							case *ast.AssignStmt:
								for _, l := range x.Lhs {
									if core.ObjOf(info, l) == o {
										running = true
									}
								}
							}
							return true
						})
					}
				}
				if !running {
					why = "the index does not depend on a count carried across the rows"
				}
			}
			r.Check(why == "", "C18.pkrows", core.ShortKey(f.Obj)+" : a marker's argument is found by a running count over the rows", w.Pos(ix.Pos()), "a counter declared outside the loop over the rows and advanced inside it; not the row index",
				why+": rows of one VALUES list may bind different numbers of parameters, so the key of a later row is read from another argument — the after image (and the lock keys) name a row the statement did not insert and miss one it did")
			return true
		})
	}
	if n < 2 {
		r.Undecided("C18.pkrows", "INSTANCE-FLOOR C18.pkrows argument index", "", "fewer than the two places confirmed by hand where a bound argument is picked inside a loop over VALUES rows (insert, insert on duplicate key update)")
	}
}

// c18Form: the truth of a counting test for an element that is / is not a string and is / is not the marker text
type c18Form func(isString, isMarker bool) bool

// c18Formula reads a condition over the marker test (EqualFold / == with the marker constant "?"), the comma-ok of a
// string type assertion and helpers of the package returning such a test; anything else (a position test) holds.
func c18Formula(w *core.World, f *core.FuncInfo, e ast.Expr, depth int) (c18Form, bool) {
	fm, marker, _ := c18FormulaRel(w, f, e, depth)
	return fm, marker
}

// (third result: the expression speaks about the element's class at all — marker test or string test)
func c18FormulaRel(w *core.World, f *core.FuncInfo, e ast.Expr, depth int) (c18Form, bool, bool) {
	info := f.Pkg.TypesInfo
	tru := func(bool, bool) bool { return true }
	switch x := ast.Unparen(e).(type) {
	case *ast.Ident:
		if c18StringOK(f, x) {
			return func(s, k bool) bool { return s }, false, true
		}
	case *ast.UnaryExpr:
		if x.Op == token.NOT {
			g, m, rel := c18FormulaRel(w, f, x.X, depth)
			if !rel {
				return tru, false, false
			}
			return func(s, k bool) bool { return !g(s, k) }, m, true
		}
	case *ast.BinaryExpr:
		switch x.Op {
		case token.LAND, token.LOR:
			a, ma, ra := c18FormulaRel(w, f, x.X, depth)
			b, mb, rb := c18FormulaRel(w, f, x.Y, depth)
			if !ra && !rb {
				return tru, false, false
			}
			if x.Op == token.LAND {
				return func(s, k bool) bool { return a(s, k) && b(s, k) }, ma || mb, true
			}
			return func(s, k bool) bool { return a(s, k) || b(s, k) }, ma || mb, true
		case token.EQL, token.NEQ:
			if c18IsMarkerConst(info, x.X) || c18IsMarkerConst(info, x.Y) {
				if x.Op == token.EQL {
					return func(s, k bool) bool { return k }, true, true
				}
				return func(s, k bool) bool { return !k }, true, true
			}
		}
	case *ast.CallExpr:
		g := core.Callee(info, x)
		if g == nil {
			break
		}
		if g.Pkg() != nil && g.Pkg().Path() == "strings" && g.Name() == "EqualFold" && len(x.Args) == 2 && (c18IsMarkerConst(info, x.Args[0]) || c18IsMarkerConst(info, x.Args[1])) {
			return func(s, k bool) bool { return k }, true, true
		}
		// a predicate of the package: what it returns
		if h := w.Info(g); h != nil && h.Pkg == f.Pkg && h.Decl.Body != nil && depth < 2 {
			var rets []*ast.ReturnStmt
			ast.Inspect(h.Decl.Body, func(n ast.Node) bool {
				if _, isLit := n.(*ast.FuncLit); isLit {
					return false
				}
				if rs, ok := n.(*ast.ReturnStmt); ok {
					rets = append(rets, rs)
				}
				return true
			})
			if len(rets) == 1 && len(rets[0].Results) == 1 {
				return c18FormulaRel(w, h, rets[0].Results[0], depth+1)
			}
		}
	}
	return tru, false, false
}

func c18IsMarkerConst(info *types.Info, e ast.Expr) bool {
	v := core.ConstVal(info, e)
	return v != nil && v.Kind() == constant.String && constant.StringVal(v) == "?"
}

// c18StringOK: id is the bool of `s, ok := v.(string)` in f
func c18StringOK(f *core.FuncInfo, id *ast.Ident) bool {
	info := f.Pkg.TypesInfo
	o := info.Uses[id]
	if o == nil {
		return false
	}
	found := false
	ast.Inspect(f.Decl.Body, func(n ast.Node) bool {
		as, ok := n.(*ast.AssignStmt)
		if !ok || len(as.Lhs) != 2 || len(as.Rhs) != 1 {
			return true
		}
		ta, ok := ast.Unparen(as.Rhs[0]).(*ast.TypeAssertExpr)
		if !ok || ta.Type == nil || core.ObjOf(info, as.Lhs[1]) != o {
			return true
		}
		if b, ok := info.TypeOf(ta.Type).(*types.Basic); ok && b.Kind() == types.String {
			found = true
		}
		return true
	})
	return found
}
