package rules

import (
	"go/ast"
	"go/constant"
	"go/token"
	"go/types"
	"sort"
	"strings"

	"golang.org/x/tools/go/packages"

	"seatalint/internal/core"
	"seatalint/internal/flow"
)

func init() { register("C20", checkC20) }

// guardedField is one row of the frozen guarded-by table (DESIGN §1.4 E): discovered by looking at how the
// writers synchronise, confirmed by reading, one line of reason each.
type guardedField struct {
	pkgRel, typ, field string
	lock               string // field name of the mutex, "" = embedded sync.RWMutex, "@atomic" = sync/atomic only, "@pkg:<name>" = package-level mutex
	reason             string
}

var guardedTable = []guardedField{
	{"pkg/datasource/sql/datasource/base", "BaseTableMetaCache", "cache", "lock", "GetTableMeta and scanExpire write the map under lock; refresh runs in its own goroutine"},
	{"pkg/datasource/sql/datasource/base", "entry", "lastAccess", "lock", "the entries are shared through the cache map: GetTableMeta stamps them, scanExpire reads the stamp, both under the cache's lock"},
	{"pkg/datasource/sql/datasource/base", "entry", "value", "lock", "replaced by refresh and read by GetTableMeta under the cache's lock"},
	{"pkg/remoting/loadbalance", "Consistent", "hashCircle", "", "put and firstKey lock the embedded RWMutex; refreshHashCircle runs in a goroutine started by pick"},
	{"pkg/remoting/loadbalance", "Consistent", "sortedHashNodes", "", "replaced together with hashCircle by refreshHashCircle"},
	{"pkg/remoting/getty", "SessionManager", "sessionSize", "@atomic", "registerSession/releaseSession use atomic.AddInt32"},
	{"pkg/datasource/sql", "", "txHooks", "@pkg:hl", "RegisterTxHook/CleanTxHooks replace the slice under hl"},
}

// lockEvents classifies Lock/RLock/Unlock/RUnlock on the named mutex.
func lockClassifier(w *core.World, owner *types.Named, g guardedField) func(pkg *packages.Package, call *ast.CallExpr, callee *types.Func) []flow.Tag {
	return func(pkg *packages.Package, call *ast.CallExpr, callee *types.Func) []flow.Tag {
		if callee == nil || callee.Pkg() == nil || callee.Pkg().Path() != "sync" {
			return nil
		}
		sel, ok := ast.Unparen(call.Fun).(*ast.SelectorExpr)
		if !ok {
			return nil
		}
		onLock := false
		switch {
		case strings.HasPrefix(g.lock, "@pkg:"):
			if o := core.ObjOf(pkg.TypesInfo, sel.X); o != nil && o.Name() == strings.TrimPrefix(g.lock, "@pkg:") {
				onLock = true
			}
		case g.lock == "":
			// embedded mutex: the call is made on a value of the owner type
			t := pkg.TypesInfo.TypeOf(sel.X)
			if p, ok := t.(*types.Pointer); ok {
				t = p.Elem()
			}
			onLock = t == types.Type(owner)
		default:
			if fs, ok := ast.Unparen(sel.X).(*ast.SelectorExpr); ok && fs.Sel.Name == g.lock {
				onLock = true
			}
		}
		if !onLock {
			return nil
		}
		switch callee.Name() {
		case "Lock":
			return []flow.Tag{"held", "heldW"}
		case "RLock":
			return []flow.Tag{"held"}
		case "Unlock":
			return []flow.Tag{"-held", "-heldW"}
		case "RUnlock":
			return []flow.Tag{"-held"}
		}
		return nil
	}
}

func checkC20(r *core.Run) {
	r.Explain = "Decided statically: (C20.guarded) for the frozen guarded-by table (meta-cache map <-> its RWMutex, hash ring map and index <-> the ring's RWMutex, transaction hooks <-> hl, session counter <-> sync/atomic) every access outside constructors and once.Do initialisers holds the lock / is atomic; package-level variables written by functions reachable from request entry points are written under a mutex, atomically or inside sync.Once; (C20.release) acquire/release pairing on every path for *sql.DB.Conn <-> Close, Prepare <-> Close, Query <-> rows.Close, with ownership transfer to a callee that closes its parameter summarised; (C20.block) channel sends outside a select cannot target an unbuffered channel. (C20.block, also) no connection is requested from the database/sql pool, directly or through callees, while a sync mutex may be held (the lookup path takes the cache lock while holding a pooled connection); (C20.guarded, also) a method call on a package variable of a standard type documented as not goroutine-safe (rand.Rand, bytes.Buffer, strings.Builder, bufio, list) counts as a write; NOT decided: absence of races on state outside the table, scheduler-dependent lock-ups, goroutine counts — a static lockset is neither sound nor complete for 'no data race' in general; the claim is limited to the table and the rules above."
	r.Trusted = []string{"go/types, go/cfg", "sync, sync/atomic, database/sql"}
	w := r.W
	// ---- C20.guarded: frozen table
	for _, g := range guardedTable {
		c20Field(r, g)
	}
	c20Globals(r)
	c20Release(r)
	c20Block(r)
	c20Reentry(r)
	c20Alias(r)
	r.Floor("C20.reentry", 3)
	r.Floor("C20.guarded", 15)
	r.Floor("C20.release", 10)
	r.Floor("C20.block", 2) // the two deliveries may share one send (a completing method of the future)
	_ = w
}

func c20Field(r *core.Run, g guardedField) {
	w := r.W
	var owner *types.Named
	var fld *types.Var
	if g.typ != "" {
		owner = w.NamedType(g.pkgRel, g.typ)
		if owner != nil {
			if st, ok := owner.Underlying().(*types.Struct); ok {
				for i := 0; i < st.NumFields(); i++ {
					if st.Field(i).Name() == g.field {
						fld = st.Field(i)
					}
				}
			}
		}
	} else if v, ok := w.Lookup(g.pkgRel, g.field).(*types.Var); ok {
		fld = v
	}
	name := g.pkgRel + "." + g.typ + "." + g.field
	if fld == nil {
		r.Anchor("C20.guarded", nil, "guarded variable "+name)
		return
	}
	p := w.Pkg(g.pkgRel)
	n := 0
	for _, f := range w.SortedFuncs() {
		if f.Pkg != p || w.IsTestFile(f.Decl.Pos()) {
			continue
		}
		info := f.Pkg.TypesInfo
		// does f touch the variable?
		touches := false
		ast.Inspect(f.Decl.Body, func(x ast.Node) bool {
			if id, ok := x.(*ast.Ident); ok && info.Uses[id] == fld {
				touches = true
			}
			return !touches
		})
		if !touches {
			continue
		}
		r.Fn(f)
		key := core.ShortKey(f.Obj) + " accesses " + name
		// constructors: the value is not shared yet (function returns the owner type it builds)
		if owner != nil {
			isCtor := false
			for _, t := range returnedTypes(f) {
				if t == owner && core.RecvNamed(f.Obj) != owner {
					isCtor = true
				}
			}
			if isCtor {
				continue
			}
		}
		n++
		r.Sites++
		if g.lock == "@atomic" {
			bad := ""
			var stack []ast.Node
			ast.Inspect(f.Decl.Body, func(x ast.Node) bool {
				if x == nil {
					stack = stack[:len(stack)-1]
					return true
				}
				stack = append(stack, x)
				sel, ok := x.(*ast.SelectorExpr)
				if !ok || info.Uses[sel.Sel] != fld {
					return true
				}
				okAtomic := false
				if len(stack) >= 3 {
					if ue, ok := stack[len(stack)-2].(*ast.UnaryExpr); ok && ue.Op == token.AND {
						if c, ok := stack[len(stack)-3].(*ast.CallExpr); ok {
							if cf := core.Callee(info, c); cf != nil && cf.Pkg() != nil && cf.Pkg().Path() == "sync/atomic" {
								okAtomic = true
							}
						}
					}
				}
				if !okAtomic {
					bad = w.Pos(sel.Pos())
				}
				return true
			})
			r.Check(bad == "", "C20.guarded", key, w.Pos(f.Decl.Pos()), "only through sync/atomic", "plain access at "+bad+" to a counter that other goroutines update with sync/atomic ("+g.reason+")")
			continue
		}
		sp := &flow.Spec{W: w, Depth: 0, Classify: lockClassifier(w, owner, g)}
		bad := ""
		// closures that run later (go / defer / stored in a variable) are analysed on their own; a literal passed
		// directly as a call argument (sort.Search, sync.Map.Range, ...) runs synchronously inside that call and
		// inherits the lock state of the call site
		async := map[*ast.FuncLit]bool{}
		ast.Inspect(f.Decl.Body, func(x ast.Node) bool {
			switch s := x.(type) {
			case *ast.GoStmt:
				if lit, ok := ast.Unparen(s.Call.Fun).(*ast.FuncLit); ok {
					async[lit] = true
				}
			case *ast.DeferStmt:
				if lit, ok := ast.Unparen(s.Call.Fun).(*ast.FuncLit); ok {
					async[lit] = true
				}
			case *ast.AssignStmt:
				for _, e := range s.Rhs {
					if lit, ok := ast.Unparen(e).(*ast.FuncLit); ok {
						async[lit] = true
					}
				}
			case *ast.CallExpr:
				if stdMethod(core.Callee(info, s), "sync", "Once", "Do") && len(s.Args) == 1 {
					if lit, ok := ast.Unparen(s.Args[0]).(*ast.FuncLit); ok {
						async[lit] = true // initialiser: exempt below
					}
				}
			}
			return true
		})
		// identifiers of the variable that are written: assignment targets (x.f = , x.f[k] = , x.f++), delete(x.f, k)
		written := map[*ast.Ident]bool{}
		markW := func(e ast.Expr) {
			ast.Inspect(e, func(m ast.Node) bool {
				if id, ok := m.(*ast.Ident); ok && info.Uses[id] == fld {
					written[id] = true
				}
				return true
			})
		}
		ast.Inspect(f.Decl.Body, func(x ast.Node) bool {
			switch s := x.(type) {
			case *ast.AssignStmt:
				for _, l := range s.Lhs {
					l = ast.Unparen(l)
					if ix, ok := l.(*ast.IndexExpr); ok {
						l = ix.X
					}
					markW(l)
				}
			case *ast.IncDecStmt:
				markW(s.X)
			case *ast.CallExpr:
				if id, ok := ast.Unparen(s.Fun).(*ast.Ident); ok && id.Name == "delete" && len(s.Args) == 2 {
					markW(s.Args[0])
				}
			}
			return true
		})
		badW := ""
		visit := func(pkg *packages.Package, x ast.Node, st *flow.State) {
			ast.Inspect(x, func(m ast.Node) bool {
				if lit, isLit := m.(*ast.FuncLit); isLit && async[lit] {
					return false
				}
				if id, ok := m.(*ast.Ident); ok && info.Uses[id] == fld {
					if !st.Has("held") {
						bad = w.Pos(id.Pos())
					} else if written[id] && !st.Has("heldW") {
						badW = w.Pos(id.Pos())
					}
				}
				return true
			})
		}
		sp.Visit = visit
		// a helper that never takes the lock itself and is only ever called with it held (loadEntry called by the
		// lookup between Lock and Unlock) starts with what all its callers hold
		switch lockedEntry(w, owner, g, f, 0) {
		case "W":
			sp.AnalyzeSeed(f, func(st *flow.State) { st.SetTag("held"); st.SetTag("heldW") })
		case "R":
			sp.AnalyzeSeed(f, func(st *flow.State) { st.SetTag("held") })
		default:
			sp.Analyze(f)
		}
		ast.Inspect(f.Decl.Body, func(x ast.Node) bool {
			c, ok := x.(*ast.CallExpr)
			if ok && stdMethod(core.Callee(info, c), "sync", "Once", "Do") {
				return false
			}
			if lit, ok := x.(*ast.FuncLit); ok && async[lit] {
				sp.AnalyzeLitSeed(f.Pkg, lit, nil)
			}
			return true
		})
		if bad == "" && badW != "" {
			r.Bad("C20.guarded", key, w.Pos(f.Decl.Pos()), "write at "+badW+" while only the read lock is held ("+g.reason+"): readers run concurrently, two of them write the same memory — a data race")
			continue
		}
		r.Check(bad == "", "C20.guarded", key, w.Pos(f.Decl.Pos()), "every access holds the lock", "access at "+bad+" without holding the lock that guards it ("+g.reason+"): data race with the writers")
	}
	if n == 0 {
		r.Bad("C20.guarded", "accessors of "+name, "", "no accessor found")
	}
}

// lockedEntry: "W" / "R" when f is called (statically, not through `go`, `defer` of a later time or as a value) only
// from functions of its package and every one of those calls is made with the guarding lock held for writing /
// at least for reading; "" otherwise. Callers that are such helpers themselves are followed two levels up.
func lockedEntry(w *core.World, owner *types.Named, g guardedField, f *core.FuncInfo, depth int) string {
	if depth > 2 || f.Obj.Exported() && core.RecvNamed(f.Obj) == nil {
		return ""
	}
	cs := w.Callers(f.Obj)
	if len(cs) == 0 || len(w.ValueCallers(f.Obj)) > 0 {
		return ""
	}
	level := "W"
	byCaller := map[*core.FuncInfo][]*ast.CallExpr{}
	for _, c := range cs {
		if c.Caller.Pkg != f.Pkg || c.InGo || c.Iface || c.Table {
			return ""
		}
		if w.IsTestFile(c.Caller.Decl.Pos()) {
			continue
		}
		byCaller[c.Caller] = append(byCaller[c.Caller], c.Call)
	}
	if len(byCaller) == 0 {
		return ""
	}
	for caller, calls := range byCaller {
		if caller == f {
			continue
		}
		lc := lockClassifier(w, owner, g)
		sp := &flow.Spec{W: w, Depth: 0, Classify: func(pkg *packages.Package, call *ast.CallExpr, callee *types.Func) []flow.Tag {
			for _, c := range calls {
				if c == call {
					return []flow.Tag{"tohelper"}
				}
			}
			return lc(pkg, call, callee)
		}}
		var res *flow.Result
		switch lockedEntry(w, owner, g, caller, depth+1) {
		case "W":
			res = sp.AnalyzeSeed(caller, func(st *flow.State) { st.SetTag("held"); st.SetTag("heldW") })
		case "R":
			res = sp.AnalyzeSeed(caller, func(st *flow.State) { st.SetTag("held") })
		default:
			res = sp.Analyze(caller)
		}
		points := append([]*flow.CallPoint{}, res.Calls...)
		ast.Inspect(caller.Decl.Body, func(n ast.Node) bool {
			if lit, ok := n.(*ast.FuncLit); ok {
				// a literal is analysed from nothing: the lock has to be taken inside it
				points = append(points, sp.AnalyzeLit(caller.Pkg, lit).Calls...)
			}
			return true
		})
		seen := map[*ast.CallExpr]bool{}
		for _, cp := range points {
			if !inSet("tohelper", cp.Tags...) {
				continue
			}
			if cp.Defer {
				return ""
			}
			seen[cp.Call] = true
			switch {
			case cp.Before.Has("heldW"):
			case cp.Before.Has("held"):
				level = "R"
			default:
				return ""
			}
		}
		for _, c := range calls {
			if !seen[c] {
				return ""
			}
		}
	}
	return level
}

// requestRoots: entry points that run concurrently after initialisation.
func requestRoots(w *core.World) []*core.FuncInfo {
	var roots []*core.FuncInfo
	for _, f := range w.SortedFuncs() {
		if w.IsTestFile(f.Decl.Pos()) || strings.Contains(f.Pkg.PkgPath, "/mock") {
			continue
		}
		rn := core.RecvNamed(f.Obj)
		switch {
		case f.Pkg.PkgPath == pDSSQL && rn != nil && driverMethodNames[f.Obj.Name()] && (implementsDriver(w, f.Obj, "Conn") || implementsDriver(w, f.Obj, "Stmt") || implementsDriver(w, f.Obj, "Tx") ||
			implementsDriver(w, f.Obj, "ConnBeginTx") || implementsDriver(w, f.Obj, "ExecerContext") || implementsDriver(w, f.Obj, "QueryerContext") || implementsDriver(w, f.Obj, "ConnPrepareContext") ||
			implementsDriver(w, f.Obj, "StmtExecContext") || implementsDriver(w, f.Obj, "StmtQueryContext")):
			roots = append(roots, f)
		case f.Pkg.PkgPath == pTM && f.Obj.Name() == "WithGlobalTx":
			roots = append(roots, f)
		case strings.HasSuffix(f.Pkg.PkgPath, "/processor/client") && f.Obj.Name() == "Process":
			roots = append(roots, f)
		case f.Pkg.PkgPath == pGetty && rn != nil && inSet(f.Obj.Name(), "OnMessage", "OnOpen", "OnClose", "OnError", "OnCron", "Read", "Write"):
			roots = append(roots, f)
		case f.Pkg.PkgPath == pTCC && rn != nil && inSet(f.Obj.Name(), "Prepare"):
			roots = append(roots, f)
		case f.Pkg.PkgPath == pFence && inSet(f.Obj.Name(), "WithFence", "DoFence"):
			roots = append(roots, f)
		case f.Pkg.PkgPath == pDSSQL && rn != nil && rn.Obj().Name() == "AsyncWorker" && f.Obj.Name() == "run":
			roots = append(roots, f)
		case strings.Contains(f.Pkg.PkgPath, "/pkg/integration/") && ast.IsExported(f.Obj.Name()) && !strings.HasPrefix(f.Obj.Name(), "Init"):
			roots = append(roots, f)
		}
	}
	return roots
}

// unsafeStdTypes: standard-library types whose documentation says an instance must not be used by several goroutines
// at once (every method counts as a write of the instance).
var unsafeStdTypes = map[string]bool{
	"math/rand.Rand": true, "math/rand/v2.Rand": true, "bytes.Buffer": true, "strings.Builder": true,
	"bufio.Reader": true, "bufio.Writer": true, "bufio.Scanner": true, "container/list.List": true, "container/ring.Ring": true,
}

// c20Globals: package-level variables written on request paths.
func c20Globals(r *core.Run) {
	w := r.W
	roots := requestRoots(w)
	if len(roots) < 20 {
		r.Bad("C20.guarded", "request entry points", "", "fewer request entry points than confirmed by hand")
		return
	}
	reach := w.Reach(roots, nil)
	var fs []*core.FuncInfo
	for f := range reach {
		if !w.IsTestFile(f.Decl.Pos()) && !strings.Contains(f.Pkg.PkgPath, "/mock") && !strings.HasPrefix(f.Pkg.PkgPath, core.Module+"/pkg/util/log") {
			fs = append(fs, f)
		}
	}
	sort.Slice(fs, func(i, j int) bool { return fs[i].String() < fs[j].String() })
	nWrites := 0
	for _, f := range fs {
		info := f.Pkg.TypesInfo
		type wr struct {
			v   *types.Var
			pos token.Pos
			n   ast.Node
		}
		var writes []wr
		note := func(e ast.Expr, n ast.Node) {
			e = ast.Unparen(e)
			if ix, ok := e.(*ast.IndexExpr); ok {
				e = ast.Unparen(ix.X)
			}
			if v, ok := core.ObjOf(info, e).(*types.Var); ok && v.Pkg() != nil && v.Parent() == v.Pkg().Scope() && strings.HasPrefix(v.Pkg().Path(), core.Module) {
				writes = append(writes, wr{v, e.Pos(), n})
			}
		}
		ast.Inspect(f.Decl.Body, func(n ast.Node) bool {
			switch x := n.(type) {
			case *ast.AssignStmt:
				for _, l := range x.Lhs {
					note(l, n)
				}
			case *ast.IncDecStmt:
				note(x.X, n)
			case *ast.CallExpr:
				if id, ok := x.Fun.(*ast.Ident); ok && id.Name == "delete" && len(x.Args) == 2 {
					note(x.Args[0], n)
				}
				// a method of a standard type that is documented as not safe for concurrent use, called on a package
				// variable (a shared *rand.Rand, bytes.Buffer, strings.Builder, bufio reader / writer, list): every
				// such call changes the object's state
				if callee := core.Callee(info, x); callee != nil {
					if rn := core.RecvNamed(callee); rn != nil && rn.Obj().Pkg() != nil && unsafeStdTypes[rn.Obj().Pkg().Path()+"."+rn.Obj().Name()] {
						if sel, ok := ast.Unparen(x.Fun).(*ast.SelectorExpr); ok {
							note(sel.X, n)
						}
					}
				}
			}
			return true
		})
		if len(writes) == 0 {
			continue
		}
		// guardedness: inside once.Do literal, or some mutex held at the statement, or the variable is itself a sync type
		sp := &flow.Spec{W: w, Depth: 0, Classify: func(pkg *packages.Package, call *ast.CallExpr, callee *types.Func) []flow.Tag {
			if callee != nil && callee.Pkg() != nil && callee.Pkg().Path() == "sync" {
				switch callee.Name() {
				case "Lock", "RLock":
					return []flow.Tag{"held"}
				case "Unlock", "RUnlock":
					return []flow.Tag{"-held"}
				}
			}
			return nil
		}}
		held := map[ast.Node]bool{}
		sp.Visit = func(pkg *packages.Package, n ast.Node, st *flow.State) {
			if st.Has("held") {
				ast.Inspect(n, func(m ast.Node) bool {
					held[m] = true
					return true
				})
			}
		}
		sp.Analyze(f)
		inOnce := map[ast.Node]bool{}
		ast.Inspect(f.Decl.Body, func(n ast.Node) bool {
			if c, ok := n.(*ast.CallExpr); ok && stdMethod(core.Callee(info, c), "sync", "Once", "Do") && len(c.Args) == 1 {
				ast.Inspect(c.Args[0], func(m ast.Node) bool {
					inOnce[m] = true
					return true
				})
			}
			if lit, ok := n.(*ast.FuncLit); ok {
				sp.AnalyzeLitSeed(f.Pkg, lit, nil)
			}
			return true
		})
		onceOnly := calledOnlyThroughOnce(w, f)
		seen := map[*types.Var]bool{}
		for _, x := range writes {
			if seen[x.v] {
				continue
			}
			seen[x.v] = true
			nWrites++
			r.Sites++
			r.Fn(f)
			key := core.ShortKey(f.Obj) + " writes package variable " + x.v.Pkg().Name() + "." + x.v.Name()
			ok := held[x.n] || inOnce[x.n] || onceOnly
			r.Check(ok, "C20.guarded", key, w.Pos(x.pos), "written under a mutex or inside sync.Once", "a package-level variable is written on a request path without a mutex, sync/atomic or sync.Once: concurrent transactions race on it")
		}
	}
	if nWrites == 0 {
		r.OK("C20.guarded", "no package-level variable is written on a request path", "", "searched "+itoa(len(fs))+" functions reachable from "+itoa(len(roots))+" request entry points")
	}
}

// ---- C20.release

type acqKind struct{ what, release string }

func acquireKind(f *types.Func) *acqKind {
	switch {
	case stdMethod(f, pSQL, "DB", "Conn"):
		return &acqKind{"*sql.Conn from DB.Conn", "Close"}
	case stdMethod(f, pSQL, "Conn", "PrepareContext"), stdMethod(f, pSQL, "DB", "PrepareContext"), stdMethod(f, pSQL, "Tx", "PrepareContext"), stdMethod(f, pSQL, "DB", "Prepare"), stdMethod(f, pSQL, "Tx", "Prepare"):
		return &acqKind{"*sql.Stmt", "Close"}
	case stdMethod(f, pSQL, "Conn", "QueryContext"), stdMethod(f, pSQL, "DB", "QueryContext"), stdMethod(f, pSQL, "Tx", "QueryContext"), stdMethod(f, pSQL, "Stmt", "Query"), stdMethod(f, pSQL, "Stmt", "QueryContext"), stdMethod(f, pSQL, "DB", "Query"):
		return &acqKind{"*sql.Rows", "Close"}
	}
	return nil
}

// closesParam: indexes of parameters the function closes on every path (directly or deferred).
func closesParams(w *core.World, f *core.FuncInfo) map[int]bool {
	out := map[int]bool{}
	ps := paramObjs(f)
	for i, p := range ps {
		// a database/sql handle, or an interface with a Close method (io.Closer) the handle is passed as
		isCloser := strings.HasPrefix(p.Type().String(), "*database/sql.")
		if it, ok := p.Type().Underlying().(*types.Interface); ok {
			for j := 0; j < it.NumMethods(); j++ {
				if it.Method(j).Name() == "Close" {
					isCloser = true
				}
			}
		}
		if !isCloser {
			continue
		}
		sp := &flow.Spec{W: w, Classify: func(pkg *packages.Package, call *ast.CallExpr, callee *types.Func) []flow.Tag {
			if callee != nil && callee.Name() == "Close" && recvObj(pkg.TypesInfo, call) == p {
				return []flow.Tag{"closed"}
			}
			return nil
		}}
		res := sp.Analyze(f)
		all := len(res.Exits) > 0
		for _, ex := range res.Exits {
			if !ex.St.Has("closed") && !ex.St.Has("defer:closed") {
				all = false
			}
		}
		if all {
			out[i] = true
		}
	}
	return out
}

func c20Release(r *core.Run) {
	w := r.W
	closers := map[*types.Func]map[int]bool{}
	closerOf := func(fn *types.Func) map[int]bool {
		if m, ok := closers[fn]; ok {
			return m
		}
		closers[fn] = map[int]bool{}
		var targets []*types.Func
		if core.IsIfaceMethod(fn) {
			targets = w.Impls(fn)
		} else {
			targets = []*types.Func{fn}
		}
		var res map[int]bool
		for _, t := range targets {
			fi := w.Info(t)
			if fi == nil || strings.Contains(fi.Pkg.PkgPath, "/mock") {
				continue
			}
			m := closesParams(w, fi)
			if res == nil {
				res = m
			} else {
				for k := range res {
					if !m[k] {
						delete(res, k)
					}
				}
			}
		}
		if res == nil {
			res = map[int]bool{}
		}
		closers[fn] = res
		return res
	}
	n := 0
	live := w.Reach(append(requestRoots(w), initRoots(w)...), nil)
	onRequest := w.Reach(requestRoots(w), nil)
	// physical connections opened with driver.Connector.Connect outside the proxy's own Connect/Open: the function
	// that stores one into a wrapper it returns hands ownership to its caller; callers that pass the wrapper on
	// by returning it do the same; whoever finally keeps it must release it (ownedRet: function -> what it returns)
	ownedRet := map[*types.Func]*acqKind{}
	isConnect := func(f *types.Func) bool { return stdMethod(f, pDriver, "Connector", "Connect") }
	for _, f := range w.SortedFuncs() {
		if w.IsTestFile(f.Decl.Pos()) || strings.Contains(f.Pkg.PkgPath, "/mock") || !onRequest[f] || f.Decl.Body == nil {
			continue
		}
		if implementsDriver(w, f.Obj, "Connector") || implementsDriver(w, f.Obj, "Driver") || implementsDriver(w, f.Obj, "DriverContext") {
			continue // ownership goes to database/sql
		}
		info := f.Pkg.TypesInfo
		var connVar types.Object
		ast.Inspect(f.Decl.Body, func(x ast.Node) bool {
			if as, ok := x.(*ast.AssignStmt); ok && len(as.Rhs) == 1 && len(as.Lhs) >= 1 {
				if c, ok := ast.Unparen(as.Rhs[0]).(*ast.CallExpr); ok && isConnect(core.Callee(info, c)) {
					connVar = core.ObjOf(info, as.Lhs[0])
				}
			}
			return true
		})
		if connVar == nil {
			continue
		}
		stored := false
		ast.Inspect(f.Decl.Body, func(x ast.Node) bool {
			if kv, ok := x.(*ast.KeyValueExpr); ok && isObj(info, kv.Value, connVar) {
				stored = true
			}
			return true
		})
		for _, t := range returnedTypes(f) {
			hasClose := false
			ms := types.NewMethodSet(types.NewPointer(t))
			for _, m := range []string{"Close", "CloseForce"} {
				if ms.Lookup(t.Obj().Pkg(), m) != nil {
					hasClose = true
				}
			}
			if stored && hasClose {
				ownedRet[f.Obj] = &acqKind{"*" + t.Obj().Name() + " wrapping a physical connection opened for this request by " + core.ShortKey(f.Obj), "Close"}
			}
		}
	}
	for round := 0; round < 3; round++ {
		for _, f := range w.SortedFuncs() {
			if w.IsTestFile(f.Decl.Pos()) || ownedRet[f.Obj] != nil || f.Decl.Body == nil {
				continue
			}
			info := f.Pkg.TypesInfo
			// returns the variable that received an owned value
			ast.Inspect(f.Decl.Body, func(x ast.Node) bool {
				as, ok := x.(*ast.AssignStmt)
				if !ok || len(as.Rhs) != 1 || len(as.Lhs) == 0 {
					return true
				}
				c, ok := ast.Unparen(as.Rhs[0]).(*ast.CallExpr)
				if !ok {
					return true
				}
				k := ownedRet[core.Callee(info, c)]
				if k == nil {
					return true
				}
				v := core.ObjOf(info, as.Lhs[0])
				ast.Inspect(f.Decl.Body, func(y ast.Node) bool {
					if rs, ok := y.(*ast.ReturnStmt); ok {
						for _, e := range rs.Results {
							if v != nil && isObj(info, e, v) {
								ownedRet[f.Obj] = k
							}
						}
					}
					return true
				})
				return true
			})
		}
	}
	for _, f := range w.SortedFuncs() {
		if w.IsTestFile(f.Decl.Pos()) || strings.Contains(f.Pkg.PkgPath, "/mock") || strings.HasPrefix(f.Pkg.PkgPath, pUndo+"/builder") {
			continue
		}
		if !live[f] {
			continue // dead code (e.g. HasUndoLogTable has no caller)
		}
		info := f.Pkg.TypesInfo
		// acquisitions bound to a local variable
		type acq struct {
			v    types.Object
			call *ast.CallExpr
			kind *acqKind
		}
		var acqs []acq
		ast.Inspect(f.Decl.Body, func(x ast.Node) bool {
			as, ok := x.(*ast.AssignStmt)
			if !ok || len(as.Rhs) != 1 {
				return true
			}
			c, ok := ast.Unparen(as.Rhs[0]).(*ast.CallExpr)
			if !ok {
				return true
			}
			k := acquireKind(core.Callee(info, c))
			if k == nil {
				k = ownedRet[core.Callee(info, c)]
			}
			if k == nil || len(as.Lhs) == 0 {
				return true
			}
			if id, ok := as.Lhs[0].(*ast.Ident); ok && id.Name != "_" {
				acqs = append(acqs, acq{core.ObjOf(info, id), c, k})
			} else if ok {
				acqs = append(acqs, acq{nil, c, k})
			}
			return true
		})
		for _, a := range acqs {
			n++
			r.Sites++
			r.Fn(f)
			// an unexported helper is part of the function(s) it is called from: the obligation (and a recorded
			// finding) stays with the same construct(s) when a body is split into helpers, merged back, or shared by
			// two entry points
			for _, root := range callerRoots(w, f) {
				key := core.ShortKey(root.Obj) + " releases the " + a.kind.what
				if a.v == nil {
					r.Bad("C20.release", key, w.Pos(a.call.Pos()), "the acquired "+a.kind.what+" is discarded (assigned to _): it can never be released")
					continue
				}
				// escapes: returned, stored into a field/map/slice, sent on a channel
				escapes := false
				ast.Inspect(f.Decl.Body, func(x ast.Node) bool {
					switch s := x.(type) {
					case *ast.ReturnStmt:
						for _, e := range s.Results {
							if mentions(info, e, a.v) {
								if c, ok := ast.Unparen(e).(*ast.CallExpr); !ok || isObj(info, c.Fun, a.v) {
									escapes = true
								}
								if isObj(info, e, a.v) {
									escapes = true
								}
							}
						}
					case *ast.AssignStmt:
						for i, l := range s.Lhs {
							if _, isIdent := ast.Unparen(l).(*ast.Ident); !isIdent && i < len(s.Rhs) && isObj(info, s.Rhs[i], a.v) {
								escapes = true
							}
						}
					case *ast.KeyValueExpr:
						if isObj(info, s.Value, a.v) {
							escapes = true
						}
					case *ast.SendStmt:
						if isObj(info, s.Value, a.v) {
							escapes = true
						}
					}
					return true
				})
				if escapes {
					r.OK("C20.release", key, w.Pos(a.call.Pos()), "ownership leaves the function (returned or stored)")
					continue
				}
				av := a
				sp := &flow.Spec{W: w, Depth: 0, Classify: func(pkg *packages.Package, call *ast.CallExpr, callee *types.Func) []flow.Tag {
					if call == av.call {
						return []flow.Tag{"acq"}
					}
					if callee != nil && (callee.Name() == av.kind.release || av.kind.release == "Close" && callee.Name() == "CloseForce") && recvObj(pkg.TypesInfo, call) == av.v {
						return []flow.Tag{"rel", "-ok:acq"}
					}
					// ownership handed to a callee that closes that parameter
					if callee != nil {
						for i, arg := range call.Args {
							if isObj(pkg.TypesInfo, arg, av.v) && closerOf(callee)[i] {
								return []flow.Tag{"rel", "-ok:acq"}
							}
						}
					}
					return nil
				}}
				res := sp.Analyze(f)
				leak := ""
				for _, ex := range res.Exits {
					if ex.St.Maybe("ok:acq") && !ex.St.Has("defer:rel") {
						leak = w.Pos(ex.Pos)
					}
				}
				// deferred closures calling Close on the variable
				if leak != "" {
					ast.Inspect(f.Decl.Body, func(x ast.Node) bool {
						ds, ok := x.(*ast.DeferStmt)
						if !ok {
							return true
						}
						if lit, ok := ast.Unparen(ds.Call.Fun).(*ast.FuncLit); ok {
							mentionsRel := false
							ast.Inspect(lit.Body, func(m ast.Node) bool {
								if c, ok := m.(*ast.CallExpr); ok {
									if cf := core.Callee(info, c); cf != nil && cf.Name() == av.kind.release && recvObj(info, c) == av.v {
										mentionsRel = true
									}
								}
								return true
							})
							if !mentionsRel {
								return true
							}
							// a deferred closure that releases under a nil test (`if rows != nil { rows.Close() }`): every
							// exit of the closure has released, or knows the variable to be nil
							lres := sp.AnalyzeLit(f.Pkg, lit)
							allPaths := len(lres.Exits) > 0
							var someUse *ast.Ident
							ast.Inspect(lit.Body, func(m ast.Node) bool {
								if id, ok := m.(*ast.Ident); ok && someUse == nil && info.Uses[id] == av.v {
									someUse = id
								}
								return true
							})
							for _, lex := range lres.Exits {
								if !lex.St.Has("rel") && !(someUse != nil && lex.St.ExprNil(info, someUse) == 1) {
									allPaths = false
								}
							}
							if allPaths {
								leak = ""
							} else {
								leak += " (the deferred closure does not release it on each of its own paths)"
							}
						}
						return true
					})
				}
				r.Check(leak == "", "C20.release", key, w.Pos(a.call.Pos()), "released on every path after the acquisition succeeded", "the "+a.kind.what+" acquired here is not released on the path to the return at "+leak+": one pooled connection / statement / cursor is lost per call")
			}
		}
	}
	if n == 0 {
		r.Bad("C20.release", "acquisitions", "", "no database/sql acquisition found")
	}
}

// ---- C20.block
func c20Block(r *core.Run) {
	w := r.W
	// capacity of every channel-typed field / variable from its make sites
	caps := map[types.Object][]string{}
	noteMake := func(info *types.Info, target ast.Expr, val ast.Expr) {
		c, ok := ast.Unparen(val).(*ast.CallExpr)
		if !ok {
			return
		}
		id, ok := c.Fun.(*ast.Ident)
		if !ok || id.Name != "make" || len(c.Args) == 0 {
			return
		}
		if _, isChan := info.TypeOf(c.Args[0]).Underlying().(*types.Chan); !isChan {
			return
		}
		o := core.ObjOf(info, target)
		if o == nil {
			return
		}
		capv := "0"
		if len(c.Args) == 2 {
			if v := core.ConstVal(info, c.Args[1]); v != nil && v.Kind() == constant.Int {
				capv = v.ExactString()
			} else {
				capv = "dynamic"
			}
		}
		caps[o] = append(caps[o], capv)
	}
	for _, f := range w.SortedFuncs() {
		if w.IsTestFile(f.Decl.Pos()) {
			continue
		}
		info := f.Pkg.TypesInfo
		ast.Inspect(f.Decl.Body, func(n ast.Node) bool {
			switch x := n.(type) {
			case *ast.AssignStmt:
				for i, l := range x.Lhs {
					if i < len(x.Rhs) {
						noteMake(info, l, x.Rhs[i])
					}
				}
			case *ast.KeyValueExpr:
				if k, ok := x.Key.(*ast.Ident); ok {
					if o := info.Uses[k]; o != nil {
						c, ok := ast.Unparen(x.Value).(*ast.CallExpr)
						if ok {
							if id, ok := c.Fun.(*ast.Ident); ok && id.Name == "make" && len(c.Args) > 0 {
								if _, isChan := info.TypeOf(c.Args[0]).Underlying().(*types.Chan); isChan {
									capv := "0"
									if len(c.Args) == 2 {
										if v := core.ConstVal(info, c.Args[1]); v != nil && v.Kind() == constant.Int {
											capv = v.ExactString()
										} else {
											capv = "dynamic"
										}
									}
									caps[o] = append(caps[o], capv)
								}
							}
						}
					}
				}
			}
			return true
		})
	}
	n := 0
	for _, f := range w.SortedFuncs() {
		if w.IsTestFile(f.Decl.Pos()) || strings.Contains(f.Pkg.PkgPath, "/mock") {
			continue
		}
		// the client's transaction path; service discovery (etcd/file registries) is outside the property's scope
		if !hasPrefixAny(f.Pkg.PkgPath, core.Module+"/pkg/datasource", core.Module+"/pkg/remoting", core.Module+"/pkg/rm", core.Module+"/pkg/tm", core.Module+"/pkg/protocol", core.Module+"/pkg/integration") {
			continue
		}
		info := f.Pkg.TypesInfo
		selectComm := map[ast.Stmt]bool{}
		ast.Inspect(f.Decl.Body, func(x ast.Node) bool {
			if s, ok := x.(*ast.SelectStmt); ok {
				for _, c := range s.Body.List {
					if cc := c.(*ast.CommClause); cc.Comm != nil && len(s.Body.List) > 1 {
						selectComm[cc.Comm] = true
					}
				}
			}
			return true
		})
		ast.Inspect(f.Decl.Body, func(x ast.Node) bool {
			ss, ok := x.(*ast.SendStmt)
			if !ok || selectComm[ss] {
				return true
			}
			o := core.ObjOf(info, ss.Chan)
			n++
			r.Sites++
			r.Fn(f)
			cs := caps[o]
			unbuffered := false
			for _, c := range cs {
				if c == "0" {
					unbuffered = true
				}
			}
			name := core.ExprString(ss.Chan)
			r.Check(!unbuffered && len(cs) > 0, "C20.block", core.ShortKey(f.Obj)+" : bare send on "+name, w.Pos(ss.Pos()), "the channel is created with capacity "+strings.Join(cs, "/"),
				"a send outside any select on '"+name+"', a channel created without capacity (or whose creation was not found): the sender blocks until somebody receives — forever if the receiver has gone")
			return true
		})
	}
	if n == 0 {
		r.Bad("C20.block", "bare channel sends", "", "no bare send found")
	}
}

// calledOnlyThroughOnce: every reference to f in the repository is the argument of sync.Once.Do.
func calledOnlyThroughOnce(w *core.World, f *core.FuncInfo) bool {
	refs, onceRefs := 0, 0
	for _, g := range w.SortedFuncs() {
		if g.Pkg != f.Pkg {
			continue
		}
		info := g.Pkg.TypesInfo
		onceArgs := map[*ast.Ident]bool{}
		ast.Inspect(g.Decl.Body, func(n ast.Node) bool {
			if c, ok := n.(*ast.CallExpr); ok && stdMethod(core.Callee(info, c), "sync", "Once", "Do") && len(c.Args) == 1 {
				if id, ok := ast.Unparen(c.Args[0]).(*ast.Ident); ok {
					onceArgs[id] = true
				}
			}
			return true
		})
		ast.Inspect(g.Decl.Body, func(n ast.Node) bool {
			if id, ok := n.(*ast.Ident); ok && info.Uses[id] == types.Object(f.Obj) {
				refs++
				if onceArgs[id] {
					onceRefs++
				}
			}
			return true
		})
	}
	return refs > 0 && refs == onceRefs
}

// initRoots: initialisation entry points (client.Init*, package init functions, exported constructors).
func initRoots(w *core.World) []*core.FuncInfo {
	var out []*core.FuncInfo
	for _, f := range w.SortedFuncs() {
		if w.IsTestFile(f.Decl.Pos()) || strings.Contains(f.Pkg.PkgPath, "/mock") {
			continue
		}
		name := f.Obj.Name()
		switch {
		case name == "init" || strings.HasPrefix(name, "Init") || strings.HasPrefix(name, "init"):
			out = append(out, f)
		case f.Pkg.PkgPath == pDSSQL && (name == "OpenConnector" || name == "Open" || name == "Connect"):
			out = append(out, f)
		case strings.HasPrefix(name, "New") && ast.IsExported(name):
			out = append(out, f)
		}
	}
	return out
}

// callerRoots: the functions an obligation found in f is attributed to: f itself when it is exported, a goroutine
// entry, used as a value, or without a visible caller; otherwise the roots of its calling functions of the package
// (up to three levels). With one caller per level this is the sole calling function.
func callerRoots(w *core.World, f *core.FuncInfo) []*core.FuncInfo {
	var out []*core.FuncInfo
	seen := map[*core.FuncInfo]bool{}
	var walk func(g *core.FuncInfo, d int)
	walk = func(g *core.FuncInfo, d int) {
		if seen[g] {
			return
		}
		seen[g] = true
		stop := g.Obj.Exported() || d == 0 || cs0HasValueUse(w, g)
		var callers []*core.FuncInfo
		if !stop {
			for _, cs := range w.Callers(g.Obj) {
				if w.IsTestFile(cs.Call.Pos()) || cs.Caller == nil || cs.Caller == g {
					continue
				}
				if cs.InGo || cs.Caller.Pkg != g.Pkg {
					stop = true
				}
				callers = append(callers, cs.Caller)
			}
		}
		if stop || len(callers) == 0 {
			out = append(out, g)
			return
		}
		for _, c := range dedupFns(callers) {
			walk(c, d-1)
		}
	}
	walk(f, 3)
	sort.Slice(out, func(i, j int) bool { return core.ShortKey(out[i].Obj) < core.ShortKey(out[j].Obj) })
	return out
}

// soleCallerRoot walks up from an unexported function to its only calling function (same package, static calls),
// up to three levels; a function with several callers, an exported one, one started with `go`, or one whose address
// is taken stays itself.
func soleCallerRoot(w *core.World, f *core.FuncInfo) *core.FuncInfo {
	for i := 0; i < 3; i++ {
		if f.Obj.Exported() {
			return f
		}
		var caller *core.FuncInfo
		n := 0
		for _, cs := range w.Callers(f.Obj) {
			if w.IsTestFile(cs.Call.Pos()) || cs.Caller == nil {
				continue
			}
			if cs.Caller == f {
				continue
			}
			if cs.InGo {
				return f // a goroutine's entry function is a construct of its own
			}
			if caller != cs.Caller {
				caller = cs.Caller
				n++
			}
		}
		if n != 1 || caller.Pkg != f.Pkg || cs0HasValueUse(w, f) {
			return f
		}
		f = caller
	}
	return f
}

// cs0HasValueUse: the function is used as a value somewhere (method value, passed as callback, go statement target
// through a variable): its callers are then not all visible as static calls.
func cs0HasValueUse(w *core.World, f *core.FuncInfo) bool {
	used := false
	for _, g := range w.SortedFuncs() {
		if g.Pkg != f.Pkg || g.Decl.Body == nil {
			continue
		}
		info := g.Pkg.TypesInfo
		calls := map[*ast.Ident]bool{}
		ast.Inspect(g.Decl.Body, func(n ast.Node) bool {
			if c, ok := n.(*ast.CallExpr); ok {
				switch fx := ast.Unparen(c.Fun).(type) {
				case *ast.Ident:
					calls[fx] = true
				case *ast.SelectorExpr:
					calls[fx.Sel] = true
				}
			}
			return true
		})
		ast.Inspect(g.Decl.Body, func(n ast.Node) bool {
			if id, ok := n.(*ast.Ident); ok && info.Uses[id] == types.Object(f.Obj) && !calls[id] {
				used = true
			}
			return !used
		})
		if used {
			return true
		}
	}
	return false
}

// c20Alias: `x := append(shared, ...)` with the result kept in another variable writes — whenever the shared slice
// has spare capacity — into the shared backing array without changing the shared header: every caller gets a slice
// over the same cells, two goroutines overwrite each other's elements (a data race), and a later call replaces what
// an earlier caller still uses. shared = a package-level slice variable (the result must be assigned back to that
// very variable, which the registration functions do under their own rules), on paths requests reach.
func c20Alias(r *core.Run) {
	w := r.W
	onRequest := w.Reach(requestRoots(w), nil)
	n := 0
	for _, f := range w.SortedFuncs() {
		if w.IsTestFile(f.Decl.Pos()) || f.Decl.Body == nil || strings.Contains(f.Pkg.PkgPath, "/mock") || !onRequest[f] {
			continue
		}
		info := f.Pkg.TypesInfo
		global := func(e ast.Expr) *types.Var {
			var id *ast.Ident
			switch x := ast.Unparen(e).(type) {
			case *ast.Ident:
				id = x
			case *ast.SelectorExpr:
				id = x.Sel
			}
			if id == nil {
				return nil
			}
			v, ok := info.Uses[id].(*types.Var)
			if !ok || v.IsField() || v.Pkg() == nil || v.Parent() != v.Pkg().Scope() || !strings.HasPrefix(v.Pkg().Path(), core.Module) {
				return nil
			}
			if _, isSlice := v.Type().Underlying().(*types.Slice); !isSlice {
				return nil
			}
			return v
		}
		check := func(lhs ast.Expr, rhs ast.Expr, pos token.Pos) {
			c, ok := ast.Unparen(rhs).(*ast.CallExpr)
			if !ok || len(c.Args) < 1 {
				return
			}
			id, ok := ast.Unparen(c.Fun).(*ast.Ident)
			if !ok || id.Name != "append" || info.Uses[id] != types.Universe.Lookup("append") {
				return
			}
			g := global(c.Args[0])
			if g == nil {
				return
			}
			n++
			r.Sites++
			r.Fn(f)
			back := lhs != nil && global(lhs) == g
			r.Check(back, "C20.alias", core.ShortKey(f.Obj)+" appends onto the shared slice "+g.Pkg().Name()+"."+g.Name()+" only to assign it back", w.Pos(pos), "result assigned to the same variable",
				"the result of append("+g.Pkg().Name()+"."+g.Name()+", ...) is kept in another variable: with spare capacity in the shared slice the appended elements are written into the shared backing array, which every other caller's slice also covers — concurrent calls race on those cells and a later call overwrites what an earlier caller is still using")
		}
		ast.Inspect(f.Decl.Body, func(x ast.Node) bool {
			switch s := x.(type) {
			case *ast.AssignStmt:
				for i, rh := range s.Rhs {
					if len(s.Lhs) == len(s.Rhs) {
						check(s.Lhs[i], rh, s.Pos())
					}
				}
			case *ast.ValueSpec:
				for _, v := range s.Values {
					check(nil, v, s.Pos())
				}
			case *ast.ReturnStmt:
				for _, v := range s.Results {
					check(nil, v, s.Pos())
				}
			case *ast.CallExpr:
				for _, a := range s.Args {
					check(nil, a, s.Pos())
				}
			}
			return true
		})
	}
	if n == 0 {
		r.OK("C20.alias", "no append onto a package-level slice on request paths", "", "nothing to alias")
	}
}
