package rules

import (
	"go/ast"
	"go/types"
	"sort"
	"strings"

	"golang.org/x/tools/go/packages"

	"seatalint/internal/core"
	"seatalint/internal/flow"
)

// C20.reentry: no function is called while a sync.Mutex / sync.RWMutex is held that acquires the same mutex of the
// same object again. sync mutexes are not re-entrant: Lock under Lock, Lock under RLock and RLock under Lock
// block forever; RLock under RLock blocks as soon as a writer waits in between. A goroutine started with `go`
// does not count (it blocks on its own, the holder goes on and releases).
//
// Lock identities:  T.f   mutex field f of named type T, taken through a value rooted at some variable
//                   T.    mutex embedded in T
//                   pkg:v package-level mutex v
// A lock taken on the method receiver is tracked across calls on the same receiver.

type lockRef struct {
	id   string
	base types.Object // root variable of the expression the mutex is reached through (nil for package-level)
}

func syncLockCall(info *types.Info, call *ast.CallExpr) (ref lockRef, op string, ok bool) {
	callee := core.Callee(info, call)
	if callee == nil || callee.Pkg() == nil || callee.Pkg().Path() != "sync" {
		return
	}
	switch callee.Name() {
	case "Lock", "RLock", "Unlock", "RUnlock":
	default:
		return
	}
	rn := core.RecvNamed(callee)
	if rn == nil || (rn.Obj().Name() != "Mutex" && rn.Obj().Name() != "RWMutex") {
		return
	}
	sel, isSel := ast.Unparen(call.Fun).(*ast.SelectorExpr)
	if !isSel {
		return
	}
	x := ast.Unparen(sel.X)
	root := func(e ast.Expr) types.Object {
		for {
			switch v := ast.Unparen(e).(type) {
			case *ast.SelectorExpr:
				e = v.X
			case *ast.StarExpr:
				e = v.X
			case *ast.Ident:
				return core.ObjOf(info, v)
			default:
				return nil
			}
		}
	}
	named := func(t types.Type) *types.Named {
		if p, ok := t.(*types.Pointer); ok {
			t = p.Elem()
		}
		n, _ := t.(*types.Named)
		return n
	}
	t := info.TypeOf(x)
	if t == nil {
		return
	}
	isMutexType := func(t types.Type) bool {
		n := named(t)
		return n != nil && n.Obj().Pkg() != nil && n.Obj().Pkg().Path() == "sync"
	}
	switch v := x.(type) {
	case *ast.Ident:
		o := core.ObjOf(info, v)
		if o == nil {
			return
		}
		if isMutexType(t) {
			if o.Parent() == o.Pkg().Scope() {
				return lockRef{id: "pkg:" + strings.TrimPrefix(o.Pkg().Path(), core.Module+"/") + "." + o.Name()}, callee.Name(), true
			}
			return lockRef{id: "local:" + o.Name(), base: o}, callee.Name(), true
		}
		if n := named(t); n != nil {
			return lockRef{id: strings.TrimPrefix(n.Obj().Pkg().Path(), core.Module+"/") + "." + n.Obj().Name() + ".", base: o}, callee.Name(), true
		}
	case *ast.SelectorExpr:
		if isMutexType(t) {
			if n := named(info.TypeOf(v.X)); n != nil {
				return lockRef{id: strings.TrimPrefix(n.Obj().Pkg().Path(), core.Module+"/") + "." + n.Obj().Name() + "." + v.Sel.Name, base: root(v.X)}, callee.Name(), true
			}
			// package-qualified var
			if o := core.ObjOf(info, v.Sel); o != nil && o.Pkg() != nil && o.Parent() == o.Pkg().Scope() {
				return lockRef{id: "pkg:" + strings.TrimPrefix(o.Pkg().Path(), core.Module+"/") + "." + o.Name()}, callee.Name(), true
			}
		} else if n := named(t); n != nil {
			return lockRef{id: strings.TrimPrefix(n.Obj().Pkg().Path(), core.Module+"/") + "." + n.Obj().Name() + ".", base: root(v)}, callee.Name(), true
		}
	}
	return
}

// poolAcquire: a call that may wait for a connection of the database/sql pool
func poolAcquire(f *types.Func) bool {
	if f == nil || f.Pkg() == nil || f.Pkg().Path() != "database/sql" {
		return false
	}
	rn := core.RecvNamed(f)
	if rn == nil || rn.Obj().Name() != "DB" {
		return false
	}
	switch f.Name() {
	case "Conn", "Begin", "BeginTx", "Query", "QueryContext", "QueryRow", "QueryRowContext", "Exec", "ExecContext", "Prepare", "PrepareContext", "Ping", "PingContext":
		return true
	}
	return false
}

func recvVarOf(f *core.FuncInfo) types.Object {
	if f.Decl.Recv == nil || len(f.Decl.Recv.List) == 0 || len(f.Decl.Recv.List[0].Names) == 0 {
		return nil
	}
	return f.Pkg.TypesInfo.Defs[f.Decl.Recv.List[0].Names[0]]
}

// acquired: lock ids a function takes (blocking, i.e. outside go statements), split into those taken on its own
// receiver and package-level ones; closed over static calls (calls on the own receiver keep receiver identity).
type acqSet struct {
	onRecv map[string]string // id -> where
	global map[string]string
}

func c20Reentry(r *core.Run) {
	w := r.W
	direct := map[*core.FuncInfo]*acqSet{}
	type edge struct {
		to     *core.FuncInfo
		onRecv bool
	}
	edges := map[*core.FuncInfo][]edge{}
	var fns []*core.FuncInfo
	for _, f := range w.SortedFuncs() {
		if w.IsTestFile(f.Decl.Pos()) || f.Decl.Body == nil || strings.Contains(f.Pkg.PkgPath, "/mock") {
			continue
		}
		fns = append(fns, f)
		info := f.Pkg.TypesInfo
		rv := recvVarOf(f)
		a := &acqSet{onRecv: map[string]string{}, global: map[string]string{}}
		direct[f] = a
		var visit func(n ast.Node) bool
		visit = func(n ast.Node) bool {
			switch x := n.(type) {
			case *ast.GoStmt:
				// arguments are evaluated by the caller, the call itself is not
				for _, arg := range x.Call.Args {
					ast.Inspect(arg, visit)
				}
				return false
			case *ast.CallExpr:
				if ref, op, ok := syncLockCall(info, x); ok {
					if op == "Lock" || op == "RLock" {
						switch {
						case ref.base == nil:
							a.global[ref.id] = w.Pos(x.Pos())
						case rv != nil && ref.base == rv:
							a.onRecv[ref.id] = w.Pos(x.Pos())
						}
					}
					return true
				}
				callee := core.Callee(info, x)
				if fi := w.Info(callee); fi != nil {
					on := false
					if sel, ok := ast.Unparen(x.Fun).(*ast.SelectorExpr); ok && rv != nil {
						if id, ok := ast.Unparen(sel.X).(*ast.Ident); ok && core.ObjOf(info, id) == rv {
							on = true
						}
					}
					edges[f] = append(edges[f], edge{fi, on})
				}
			}
			return true
		}
		ast.Inspect(f.Decl.Body, visit)
	}
	// closure (bounded fixpoint)
	total := map[*core.FuncInfo]*acqSet{}
	for _, f := range fns {
		t := &acqSet{onRecv: map[string]string{}, global: map[string]string{}}
		for k, v := range direct[f].onRecv {
			t.onRecv[k] = v
		}
		for k, v := range direct[f].global {
			t.global[k] = v
		}
		total[f] = t
	}
	for changed, round := true, 0; changed && round < 8; round++ {
		changed = false
		for _, f := range fns {
			for _, e := range edges[f] {
				te := total[e.to]
				if te == nil {
					continue
				}
				for k, v := range te.global {
					if _, ok := total[f].global[k]; !ok {
						total[f].global[k] = v
						changed = true
					}
				}
				if e.onRecv {
					for k, v := range te.onRecv {
						if _, ok := total[f].onRecv[k]; !ok {
							total[f].onRecv[k] = v
							changed = true
						}
					}
				}
			}
		}
	}
	// per function: locks held at call sites
	poolReach := newReach(w, 4, poolAcquire)
	for _, f := range fns {
		info := f.Pkg.TypesInfo
		hasLock := false
		ast.Inspect(f.Decl.Body, func(n ast.Node) bool {
			if c, ok := n.(*ast.CallExpr); ok {
				if _, op, ok := syncLockCall(info, c); ok && (op == "Lock" || op == "RLock") {
					hasLock = true
				}
			}
			return !hasLock
		})
		if !hasLock {
			continue
		}
		r.Fn(f)
		bases := map[string]types.Object{}
		sp := &flow.Spec{W: w, Depth: 0, Classify: func(pkg *packages.Package, call *ast.CallExpr, callee *types.Func) []flow.Tag {
			if ref, op, ok := syncLockCall(pkg.TypesInfo, call); ok {
				key := ref.id
				if ref.base != nil {
					key += "@" + ref.base.Name()
					bases[key] = ref.base
				}
				if op == "Lock" || op == "RLock" {
					return []flow.Tag{"held:" + key, "acq:" + key}
				}
				return []flow.Tag{"-held:" + key}
			}
			if poolAcquire(callee) {
				return []flow.Tag{"poolacq"}
			}
			if w.Info(callee) != nil {
				if poolReach.Hits(callee) {
					return []flow.Tag{"call", "poolacq"}
				}
				return []flow.Tag{"call"}
			}
			return nil
		}}
		res := sp.Analyze(f)
		calls := append([]*flow.CallPoint{}, res.Calls...)
		// (critical sections written inside function literals: the refresh closure of the meta cache)
		ast.Inspect(f.Decl.Body, func(n ast.Node) bool {
			if lit, ok := n.(*ast.FuncLit); ok {
				calls = append(calls, sp.AnalyzeLit(f.Pkg, lit).Calls...)
				return false
			}
			return true
		})
		seenAcq := map[*ast.CallExpr]bool{}
		for _, cp := range calls {
			if cp.Defer || !inSet("poolacq", cp.Tags...) || seenAcq[cp.Call] {
				continue
			}
			seenAcq[cp.Call] = true
			var held []string
			for _, t := range cp.Before.MayTags() {
				if strings.HasPrefix(t, "held:") {
					held = append(held, strings.TrimPrefix(t, "held:"))
				}
			}
			sort.Strings(held)
			r.Sites++
			r.Check(len(held) == 0, "C20.block", core.ShortKey(f.Obj)+" takes a pooled connection ("+core.ShortKey(cp.Callee)+") with no mutex held", w.Pos(cp.Call.Pos()), "no sync mutex held at the acquisition",
				"a connection is requested from the database/sql pool while "+strings.Join(held, ", ")+" may be held: the lookup path takes that lock while it holds a pooled connection, so with the pool at its limit each side waits for what the other holds — every transaction on the data source stops and the held connections are never returned")
		}
		for _, cp := range res.Calls {
			if cp.Defer {
				continue
			}
			var held []string
			for _, t := range cp.Before.MayTags() {
				if strings.HasPrefix(t, "held:") {
					held = append(held, strings.TrimPrefix(t, "held:"))
				}
			}
			if len(held) == 0 {
				continue
			}
			sort.Strings(held)
			for _, h := range held {
				id := h
				var base types.Object
				if i := strings.Index(h, "@"); i >= 0 {
					id, base = h[:i], bases[h]
				}
				if inSet("acq:"+h, cp.Tags...) {
					r.Sites++
					r.Bad("C20.reentry", core.ShortKey(f.Obj)+" does not take "+id+" twice", w.Pos(cp.Call.Pos()), "the mutex "+id+" is locked again while it may still be held: sync mutexes are not re-entrant, the goroutine blocks forever and so does every later locker")
					continue
				}
				if !inSet("call", cp.Tags...) {
					continue
				}
				callee := w.Info(cp.Callee)
				t := total[callee]
				if t == nil {
					continue
				}
				r.Sites++
				key := core.ShortKey(f.Obj) + " holds " + id + " while calling " + core.ShortKey(cp.Callee)
				where := ""
				if base == nil {
					where = t.global[id]
				} else if sel, ok := ast.Unparen(cp.Call.Fun).(*ast.SelectorExpr); ok {
					if idn, ok := ast.Unparen(sel.X).(*ast.Ident); ok && core.ObjOf(info, idn) == base {
						where = t.onRecv[id]
					}
				}
				r.Check(where == "", "C20.reentry", key, w.Pos(cp.Call.Pos()), "the callee does not take the held mutex",
					"the callee (re)acquires the mutex the caller still holds (at "+where+"): sync mutexes are not re-entrant, so this goroutine blocks forever, and with a writer waiting every later reader blocks too — no further request is served")
			}
		}
	}
}
