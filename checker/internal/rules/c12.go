package rules

import (
	"encoding/json"
	"fmt"
	"go/ast"
	"go/constant"
	"go/token"
	"go/types"
	"os"
	"path/filepath"
	"sort"
	"strings"

	"seatalint/internal/core"
)

func init() { register("C12", checkC12) }

const pCodec = core.Module + "/pkg/protocol/codec"

type layoutSpec struct {
	Comment  string              `json:"_comment"`
	Messages map[string][]string `json:"messages"` // message type constant -> ordered "kind Field [guard]" entries
}

func loadLayoutSpec(verif string) (*layoutSpec, error) {
	b, err := os.ReadFile(filepath.Join(verif, "spec", "seata_v1_layout.json"))
	if err != nil {
		return nil, err
	}
	var s layoutSpec
	if err := json.Unmarshal(b, &s); err != nil {
		return nil, err
	}
	return &s, nil
}

// retConst returns the constant returned by a single-return method.
func retConst(fn *core.FuncInfo) *types.Const {
	var out *types.Const
	if fn == nil {
		return nil
	}
	ast.Inspect(fn.Decl.Body, func(n ast.Node) bool {
		if rs, ok := n.(*ast.ReturnStmt); ok && len(rs.Results) == 1 {
			out = core.ConstObj(fn.Pkg.TypesInfo, rs.Results[0])
		}
		return true
	})
	return out
}

// assertedMsgType: the message type an Encode asserts `in.(message.T)` / a Decode constructs.
func codecMsgTypes(fn *core.FuncInfo) []*types.Named {
	var out []*types.Named
	info := fn.Pkg.TypesInfo
	add := func(t types.Type) {
		if nt, ok := t.(*types.Named); ok && nt.Obj().Pkg() != nil && nt.Obj().Pkg().Path() == pMessage {
			for _, o := range out {
				if o == nt {
					return
				}
			}
			out = append(out, nt)
		}
	}
	ast.Inspect(fn.Decl.Body, func(n ast.Node) bool {
		switch x := n.(type) {
		case *ast.TypeAssertExpr:
			if x.Type != nil {
				if id, ok := ast.Unparen(x.X).(*ast.Ident); ok && isParam(fn, objVar(info, id)) {
					add(info.TypeOf(x.Type))
				}
			}
		case *ast.ReturnStmt:
			for _, e := range x.Results {
				add(info.TypeOf(e))
			}
		}
		return true
	})
	return out
}

func objVar(info *types.Info, id *ast.Ident) *types.Var {
	v, _ := info.Uses[id].(*types.Var)
	return v
}

func checkC12(r *core.Run) {
	r.Explain = "Decided statically, every obligation exact: (C12.registry) every type implementing codec.Codec's three methods is registered in codec.Init, its GetMessageType constant equals GetTypeCode of the message type its Encode asserts and its Decode returns, and every message type the client constructs or asserts outside the codec package has a codec; (C12.mirror) for each codec the extracted encode layout (wire kind, field, guard, scale) equals the decode layout, with inverse scaling; (C12.layout) the extracted layout equals the hand-written Seata v1 field table in spec/seata_v1_layout.json; (C12.bound) a string written with an N-bit length prefix after a truncation is truncated to a constant <= 2^(N-1)-1; (C12.frame) CodecManager.Encode prepends the 16-bit type code of the message and Decode dispatches on it and hands in[2:] to the codec. (C12.pure) codecs, codec manager, frame reader/writer and byte helpers consult no package-level state that request paths mutate; (C12.helpers) each length-prefixed string writer of pkg/util/bytes writes, as its prefix, the byte length len(value) of the string it then writes in full, and each reader allocates a fresh buffer of exactly the prefix it read, fills it from the frame and returns a copy (string(p)); the package does not import unsafe. NOT decided: field values beyond the prefix limits other than the truncated message text."
	r.Explain += " Round 8: (C12.helpers, also) a length-prefixed read copies its bytes under no other condition than 'the prefix is not zero' — no cap silently shortens a field."
	r.Trusted = []string{"go/types", "pkg/util/bytes integer helpers (big endian) and dubbogo/gost ByteBuffer Read/Write", "spec/seata_v1_layout.json (hand-written field table)"}
	w := r.W
	ci := w.Interface("pkg/protocol/codec", "Codec")
	initFn := r.Anchor("C12.registry", w.Func("pkg/protocol/codec", "", "Init"), "codec.Init")
	if ci == nil || initFn == nil {
		r.Anchor("C12.registry", nil, "codec.Codec interface")
		return
	}
	spec, serr := loadLayoutSpec(r.VerifDir)
	if serr != nil {
		r.Undecided("C12.layout", "spec/seata_v1_layout.json", "", "cannot read the layout table: "+serr.Error())
	}
	// registered codec types
	registered := map[*types.Named]bool{}
	for _, cs := range w.Calls(initFn) {
		if cs.Static != nil && cs.Static.Name() == "RegisterCodec" && len(cs.Call.Args) == 2 {
			var ts []types.Type
			t := initFn.Pkg.TypesInfo.TypeOf(cs.Call.Args[1])
			if _, isIface := t.Underlying().(*types.Interface); isIface {
				// the element variable of a range over a list of codecs (a literal, or a function / variable of the
				// package that yields one): every element is registered
				ts = rangedElemTypes(w, initFn, cs.Call.Args[1])
			} else {
				ts = []types.Type{t}
			}
			for _, t := range ts {
				if p, ok := t.(*types.Pointer); ok {
					t = p.Elem()
				}
				if nt, ok := t.(*types.Named); ok {
					registered[nt] = true
				}
			}
		}
	}
	typeCodeOf := func(msg *types.Named) *types.Const {
		return retConst(methodInfo(w, msg, "GetTypeCode"))
	}
	dump := os.Getenv("SEATALINT_DUMP") != ""
	codecFor := map[string]bool{} // message type names that have a registered codec
	var impls []*types.Named
	for _, n := range w.Implementers(ci) {
		if n.Obj().Pkg().Path() == pCodec && !w.IsTestFile(n.Obj().Pos()) {
			impls = append(impls, n)
		}
	}
	for _, n := range impls {
		enc, dec, gmt := methodInfo(w, n, "Encode"), methodInfo(w, n, "Decode"), methodInfo(w, n, "GetMessageType")
		if enc == nil || dec == nil || gmt == nil {
			continue
		}
		// abstract helper codecs have no GetMessageType of their own (promoted only): skip those not declaring it
		if core.RecvNamed(gmt.Obj) != n {
			continue
		}
		r.Fn(enc)
		r.Fn(dec)
		name := "pkg/protocol/codec." + n.Obj().Name()
		mt := retConst(gmt)
		r.Sites++
		r.Check(registered[n], "C12.registry", name+" is registered", w.Pos(n.Obj().Pos()), "registered in codec.Init", "this codec is not registered in codec.Init: messages of its type can neither be sent nor received (Encode returns nil)")
		// message types
		em, dm := codecMsgTypes(enc), codecMsgTypes(dec)
		var msgT *types.Named
		if len(em) >= 1 {
			msgT = em[0]
		}
		okTypes := msgT != nil && len(dm) >= 1 && dm[len(dm)-1] == msgT
		r.Check(okTypes, "C12.registry", name+" encodes and decodes one message type", w.Pos(enc.Decl.Pos()), "Encode asserts and Decode returns the same message type", "Encode asserts "+typeNames(em)+" but Decode returns "+typeNames(dm))
		if msgT != nil {
			tc := typeCodeOf(msgT)
			r.Check(mt != nil && tc != nil && mt == tc, "C12.registry", name+" type code equals the message's own", w.Pos(gmt.Decl.Pos()), "GetMessageType == "+constName(tc),
				"the codec reports "+constName(mt)+" but "+msgT.Obj().Name()+".GetTypeCode() is "+constName(tc)+": the manager looks codecs up by the message's own code, so this message has no codec")
			if registered[n] && mt != nil && tc != nil && mt == tc {
				codecFor[msgT.Obj().Name()] = true
			}
		}
		// layouts
		eo, eu := extractLayout(w, enc, "enc", 3)
		do, du := extractLayout(w, dec, "dec", 3)
		if dump {
			fmt.Printf("DUMP %s %s\n   enc: %s\n   dec: %s\n", n.Obj().Name(), constName(mt), layoutString(eo), layoutString(do))
		}
		for _, u := range append(eu, du...) {
			r.Undecided("C12.mirror", name+" : "+u[strings.Index(u, ": ")+2:], "", u)
		}
		r.Sites++
		mirror := len(eo) == len(do)
		why := ""
		if !mirror {
			why = fmt.Sprintf("encode writes %d fields, decode reads %d", len(eo), len(do))
		}
		for i := 0; mirror && i < len(eo); i++ {
			a, b := eo[i], do[i]
			if a.Kind != b.Kind || a.Field != b.Field || a.Guard != b.Guard {
				mirror = false
				why = fmt.Sprintf("position %d: encode writes {%s}, decode reads {%s}", i+1, a.String(), b.String())
			} else if !inverseScale(a.Scale, b.Scale) {
				mirror = false
				why = fmt.Sprintf("position %d (%s): encode scales by '%s', decode by '%s' (not inverse)", i+1, a.Field, a.Scale, b.Scale)
			}
		}
		r.Check(mirror, "C12.mirror", name+" encode layout == decode layout", w.Pos(enc.Decl.Pos()), layoutString(eo), "encode and decode disagree: "+why+" — decoding what was encoded yields a different message")
		// spec table
		if spec != nil && mt != nil {
			want, ok := spec.Messages[mt.Name()]
			r.Sites++
			if !ok {
				r.Undecided("C12.layout", name+" layout equals the Seata v1 table", w.Pos(enc.Decl.Pos()), "no entry for "+mt.Name()+" in spec/seata_v1_layout.json")
			} else {
				var got []string
				for _, o := range eo {
					e := o.Kind + " " + o.Field
					if o.Guard != "" {
						e += " [" + o.Guard + "]"
					}
					if o.Scale != "" {
						e += " scale" + o.Scale
					}
					got = append(got, e)
				}
				r.Check(strings.Join(got, "; ") == strings.Join(want, "; "), "C12.layout", name+" layout equals the Seata v1 table", w.Pos(enc.Decl.Pos()), "matches "+mt.Name(),
					"the encoder's layout {"+strings.Join(got, "; ")+"} differs from the Seata v1 layout of "+mt.Name()+" {"+strings.Join(want, "; ")+"}")
			}
		}
		// bounds
		for _, o := range eo {
			if o.Trunc == "" || !strings.HasPrefix(o.Kind, "str") {
				continue
			}
			r.Sites++
			bits := map[string]int{"str8": 8, "str16": 16, "str32": 32, "str64": 64}[o.Kind]
			limit := constant.MakeInt64((int64(1) << (bits - 1)) - 1)
			ok, why := byteBounded(o.Fn, o.Arg, o.Pos, limit)
			r.Check(ok, "C12.bound", name+" "+o.Field+" truncated within its "+fmt.Sprint(bits)+"-bit prefix", w.Pos(o.Pos), why,
				"the text written with a "+fmt.Sprint(bits)+"-bit length prefix (max "+limit.String()+" bytes) is not bounded to that many bytes on every path ("+why+"): a longer text wraps the length and every following field is decoded from the wrong offset")
		}
	}
	// every message type used by non-codec code has a codec
	c12Used(r, codecFor)
	c12Frame(r)
	c12Helpers(r, "C12.helpers")
	c12Pure(r, "C12.pure")
	r.Floor("C12.pure", 60)
	r.Floor("C12.helpers", 8)
	r.Floor("C12.registry", 60)
	r.Floor("C12.mirror", 22)
	r.Floor("C12.layout", 22)
	r.Floor("C12.bound", 6)
	r.Floor("C12.frame", 3)
}

func typeNames(ts []*types.Named) string {
	var s []string
	for _, t := range ts {
		s = append(s, t.Obj().Name())
	}
	return "[" + strings.Join(s, ",") + "]"
}

func inverseScale(a, b string) bool {
	if a == "" && b == "" {
		return true
	}
	inv := strings.NewReplacer("/", "*", "*", "/").Replace(a)
	return inv == b
}

// c12Used: message types (implementing MessageTypeAware) constructed or asserted in live non-codec, non-test code.
func c12Used(r *core.Run, codecFor map[string]bool) {
	w := r.W
	mta := w.Interface("pkg/protocol/message", "MessageTypeAware")
	if mta == nil {
		r.Anchor("C12.registry", nil, "message.MessageTypeAware")
		return
	}
	used := map[string]string{}
	for _, f := range w.SortedFuncs() {
		if w.IsTestFile(f.Decl.Pos()) || f.Pkg.PkgPath == pCodec || f.Pkg.PkgPath == pMessage || strings.Contains(f.Pkg.PkgPath, "/mock") {
			continue
		}
		info := f.Pkg.TypesInfo
		ast.Inspect(f.Decl.Body, func(n ast.Node) bool {
			var t types.Type
			switch x := n.(type) {
			case *ast.CompositeLit:
				t = info.TypeOf(x)
			case *ast.TypeAssertExpr:
				if x.Type != nil {
					t = info.TypeOf(x.Type)
				}
			}
			if nt, ok := t.(*types.Named); ok && nt.Obj().Pkg() != nil && nt.Obj().Pkg().Path() == pMessage && !types.IsInterface(nt) {
				if types.Implements(nt, mta) || types.Implements(types.NewPointer(nt), mta) {
					if _, seen := used[nt.Obj().Name()]; !seen {
						used[nt.Obj().Name()] = w.Pos(n.Pos())
					}
				}
			}
			return true
		})
	}
	var names []string
	for n := range used {
		names = append(names, n)
	}
	sort.Strings(names)
	for _, n := range names {
		// heartbeat and merged messages travel outside the codec manager
		if n == "HeartBeatMessage" || strings.HasPrefix(n, "Merge") {
			continue
		}
		r.Sites++
		r.Check(codecFor[n], "C12.registry", "message "+n+" used by the client has a registered codec with its own type code", used[n], "codec present", "the client constructs or expects "+n+" (first at "+used[n]+") but no registered codec carries its type code")
	}
}

// c12Frame: manager prepends / dispatches on the 16-bit type code.
func c12Frame(r *core.Run) {
	w := r.W
	cm := w.NamedType("pkg/protocol/codec", "CodecManager")
	enc, dec := methodInfo(w, cm, "Encode"), methodInfo(w, cm, "Decode")
	if enc == nil || dec == nil {
		r.Anchor("C12.frame", nil, "CodecManager.Encode/Decode")
		return
	}
	r.Fn(enc)
	r.Fn(dec)
	// Encode: codec looked up by msg.GetTypeCode(); two bytes (hi, lo) of that code appended before the body
	einfo := enc.Pkg.TypesInfo
	var lookupArg, hiLo, be16 string
	ast.Inspect(enc.Decl.Body, func(n ast.Node) bool {
		switch x := n.(type) {
		case *ast.CallExpr:
			if f := core.Callee(einfo, x); f != nil && f.Name() == "GetCodec" && len(x.Args) == 2 {
				lookupArg = origin(enc, x.Args[1], 4)
			}
			// binary.BigEndian.AppendUint16(dst, code) / PutUint16(dst, code): the standard library's big-endian writer
			if f := core.Callee(einfo, x); f != nil && f.Pkg() != nil && f.Pkg().Path() == "encoding/binary" && (f.Name() == "AppendUint16" || f.Name() == "PutUint16") && len(x.Args) == 2 {
				if rn := core.RecvNamed(f); rn != nil && rn.Obj().Name() == "bigEndian" {
					be16 = origin(enc, x.Args[1], 5)
				}
			}
		case *ast.CompositeLit:
			if t := einfo.TypeOf(x); t != nil && t.String() == "[]byte" && len(x.Elts) == 2 {
				hiLo = origin(enc, x.Elts[0], 5) + " , " + origin(enc, x.Elts[1], 5)
			}
		}
		return true
	})
	r.Sites++
	r.Check(strings.Contains(lookupArg, "GetTypeCode("), "C12.frame", "pkg/protocol/codec.(CodecManager).Encode looks the codec up by the message's own type code", w.Pos(enc.Decl.Pos()), lookupArg, "the codec is looked up by "+lookupArg+", not by the message's GetTypeCode()")
	okHL := strings.Contains(hiLo, ">> lit:8") && strings.Count(hiLo, "GetTypeCode(") >= 2 && strings.Index(hiLo, ">> lit:8") < strings.Index(hiLo, " , ")
	if hiLo == "" && strings.Contains(be16, "GetTypeCode(") {
		okHL, hiLo = true, "big-endian 16 bits of "+be16
	}
	r.Check(okHL, "C12.frame", "pkg/protocol/codec.(CodecManager).Encode prepends the type code big-endian", w.Pos(enc.Decl.Pos()), "[code>>8, code]", "the two bytes prepended to the body are {"+hiLo+"}, not the big-endian type code of the message")
	// Decode: reads int16, dispatches, passes in[2:]
	dinfo := dec.Pkg.TypesInfo
	reads16, passes2, dispatch := false, false, ""
	var readHelpers []string
	ast.Inspect(dec.Decl.Body, func(n ast.Node) bool {
		switch x := n.(type) {
		case *ast.CallExpr:
			f := core.Callee(dinfo, x)
			if f != nil && (strings.Contains(f.Name(), "Int16") || strings.Contains(f.Name(), "Uint16")) && bigEndianReader(f) && lengthGuarded(dec, x, f) {
				reads16 = true
			}
			// (the read may sit in a helper of the package that is handed the frame: readTypeCode(in))
			if h := w.Info(f); h != nil && h.Pkg == dec.Pkg && h != dec && h.Decl.Body != nil {
				ast.Inspect(h.Decl.Body, func(m ast.Node) bool {
					if c, ok := m.(*ast.CallExpr); ok {
						if g := core.Callee(h.Pkg.TypesInfo, c); g != nil && (strings.Contains(g.Name(), "Int16") || strings.Contains(g.Name(), "Uint16")) && bigEndianReader(g) && lengthGuarded(h, c, g) {
							reads16 = true
							readHelpers = append(readHelpers, "call:"+core.ShortKey(h.Obj)+"(")
						}
					}
					return true
				})
			}
			if f != nil && f.Name() == "GetCodec" && len(x.Args) == 2 {
				dispatch = origin(dec, x.Args[1], 4)
			}
			if f != nil && f.Name() == "Decode" && len(x.Args) == 1 {
				if se, ok := x.Args[0].(*ast.SliceExpr); ok && se.High == nil {
					if v := core.ConstVal(dinfo, se.Low); v != nil && v.ExactString() == "2" {
						passes2 = true
					}
				}
			}
		}
		return true
	})
	r.Sites++
	byCode := strings.Contains(dispatch, "Int16") || strings.Contains(dispatch, "Uint16")
	for _, h := range readHelpers {
		if strings.Contains(dispatch, h) {
			byCode = true
		}
	}
	r.Check(reads16 && passes2 && byCode, "C12.frame", "pkg/protocol/codec.(CodecManager).Decode dispatches on the 16-bit code and passes in[2:]", w.Pos(dec.Decl.Pos()), "type code read, codec chosen by it, body = in[2:]", "Decode does not (read a 16-bit code, choose the codec by it, pass in[2:])")
}

// byteBounded decides whether the value written at call position `at` has a byte length <= limit on every
// path. Accepted idiom (the only one the codecs use, confirmed by reading all seven sites):
//
//	v := E; if len(E) > K { v = E[:K2] }; Write(v)        K, K2 <= limit, E a string or []byte
//
// and the direct forms E[:K] and E[:min(len(E), K)]. Lengths must be byte lengths: a slice or len of a
// []rune (or any non-byte sequence) bounds characters, not bytes.
func byteBounded(fn *core.FuncInfo, arg ast.Expr, at token.Pos, limit constant.Value) (bool, string) {
	info := fn.Pkg.TypesInfo
	isBytes := func(e ast.Expr) bool { return isBytesExpr(info, e) }
	constLE := func(e ast.Expr, minus int64) (string, bool) { return constWithin(info, e, minus, limit) }
	sliceBound := func(e ast.Expr) (bool, string) { return sliceBoundWithin(info, e, limit) }
	// a bounding helper of the package: f(text) returning text cut to a constant within the limit
	if c, ok := ast.Unparen(arg).(*ast.CallExpr); ok && len(c.Args) == 1 && curWorld != nil {
		if g := curWorld.Info(core.Callee(info, c)); g != nil && g.Pkg == fn.Pkg && g.Decl.Body != nil {
			return boundingHelper(g, limit)
		}
	}
	if ok, why := sliceBound(arg); ok {
		return true, why
	}
	id, ok := ast.Unparen(arg).(*ast.Ident)
	if !ok {
		return false, "the written value '" + core.ExprString(arg) + "' is neither a bounded slice nor a local holding one"
	}
	v, _ := info.Uses[id].(*types.Var)
	if v == nil || v.IsField() || isParam(fn, v) {
		return false, "the written value '" + id.Name + "' is not a local variable"
	}
	// collect the definitions of v before the write with their enclosing statements
	type def struct {
		rhs   ast.Expr
		stack []ast.Node
	}
	var defs []def
	var stack []ast.Node
	ast.Inspect(fn.Decl.Body, func(n ast.Node) bool {
		if n == nil {
			stack = stack[:len(stack)-1]
			return true
		}
		stack = append(stack, n)
		rec := func(rhs ast.Expr) {
			defs = append(defs, def{rhs, append([]ast.Node(nil), stack...)})
		}
		switch x := n.(type) {
		case *ast.AssignStmt:
			for i, l := range x.Lhs {
				if core.ObjOf(info, l) == v {
					if len(x.Rhs) == len(x.Lhs) && (x.Tok == token.ASSIGN || x.Tok == token.DEFINE) {
						rec(x.Rhs[i])
					} else {
						rec(nil)
					}
				}
			}
		case *ast.ValueSpec:
			for i, nm := range x.Names {
				if info.Defs[nm] == v {
					if len(x.Values) == len(x.Names) {
						rec(x.Values[i])
					} else {
						rec(nil)
					}
				}
			}
		case *ast.UnaryExpr:
			if x.Op == token.AND && core.ObjOf(info, x.X) == v {
				rec(nil) // address taken: writes through the pointer are not tracked
			}
		}
		return true
	})
	var base *def
	var notes []string
	for i := range defs {
		d := &defs[i]
		if d.rhs == nil {
			return false, "'" + id.Name + "' is assigned in a form the rule does not follow"
		}
		if d.rhs.Pos() > at {
			continue
		}
		if ok, why := sliceBound(d.rhs); ok {
			notes = append(notes, why)
			continue
		} else if _, isSlice := ast.Unparen(d.rhs).(*ast.SliceExpr); isSlice {
			return false, why
		}
		if base != nil {
			return false, "'" + id.Name + "' has more than one unbounded definition"
		}
		base = d
	}
	if base == nil {
		if len(notes) == 0 {
			return false, "no definition of '" + id.Name + "' found"
		}
		return true, strings.Join(notes, ", ")
	}
	if !isBytes(base.rhs) {
		return false, "'" + id.Name + "' starts as a value of type " + info.TypeOf(base.rhs).String()
	}
	// the statement list holding the base definition must continue with `if len(E) > K { v = E[:K2] }`
	baseText := core.ExprString(base.rhs)
	var list []ast.Stmt
	var baseStmt ast.Node
	for i := len(base.stack) - 1; i >= 0; i-- {
		if b, ok := base.stack[i].(*ast.BlockStmt); ok {
			list = b.List
			baseStmt = base.stack[i+1]
			break
		}
	}
	seen := false
	for _, st := range list {
		if st == baseStmt {
			seen = true
			continue
		}
		if !seen || st.Pos() > at {
			continue
		}
		ifs, ok := st.(*ast.IfStmt)
		if !ok || ifs.Else != nil {
			continue
		}
		be, ok := ast.Unparen(ifs.Cond).(*ast.BinaryExpr)
		if !ok || (be.Op != token.GTR && be.Op != token.GEQ) {
			continue
		}
		call, ok := ast.Unparen(be.X).(*ast.CallExpr)
		if !ok || len(call.Args) != 1 {
			continue
		}
		if fid, ok := call.Fun.(*ast.Ident); !ok || info.Uses[fid] != types.Universe.Lookup("len") {
			continue
		}
		assigns := false
		for _, d := range defs {
			if d.rhs != nil && d.rhs.Pos() >= ifs.Body.Pos() && d.rhs.End() <= ifs.Body.End() {
				assigns = true
			}
		}
		if !assigns {
			continue
		}
		if core.ExprString(call.Args[0]) != baseText || !isBytes(call.Args[0]) {
			return false, "the guard measures len(" + core.ExprString(call.Args[0]) + ") (" + info.TypeOf(call.Args[0]).String() + "), not the byte length of the written text '" + baseText + "'"
		}
		minus := int64(0)
		if be.Op == token.GEQ {
			minus = 1
		}
		k, ok := constLE(be.Y, minus)
		if !ok {
			return false, "the untruncated text passes the guard with up to " + k + " bytes"
		}
		return true, "'" + baseText + "' kept when len <= " + k + ", otherwise " + strings.Join(notes, ", ")
	}
	return false, "'" + id.Name + "' holds the whole text '" + baseText + "' unless a truncation the rule can follow intervenes; none found"
}

// c12Helpers: byte-length prefixes on both sides of every length-prefixed string helper, strings copied out.
func c12Helpers(r *core.Run, rule string) {
	w := r.W
	p := w.Pkg("pkg/util/bytes")
	if p == nil {
		r.Anchor(rule, nil, "pkg/util/bytes")
		return
	}
	for _, imp := range p.Types.Imports() {
		if imp.Path() == "unsafe" {
			r.Bad(rule, "pkg/util/bytes does not import unsafe", "", "the byte helpers import unsafe: a string built over the receive buffer without a copy changes when the transport reuses the buffer for the next frame")
		}
	}
	r.OK(rule, "pkg/util/bytes does not import unsafe", "", "strings are copies")
	isLen := func(info *types.Info, e ast.Expr, v types.Object) bool {
		// conv(len(v))
		for {
			c, ok := ast.Unparen(e).(*ast.CallExpr)
			if !ok || len(c.Args) != 1 {
				return false
			}
			if id, ok := ast.Unparen(c.Fun).(*ast.Ident); ok && info.Uses[id] == types.Universe.Lookup("len") {
				return isObj(info, c.Args[0], v)
			}
			if tv, ok := info.Types[c.Fun]; ok && tv.IsType() {
				e = c.Args[0]
				continue
			}
			return false
		}
	}
	for _, f := range w.SortedFuncs() {
		if f.Pkg != p || w.IsTestFile(f.Decl.Pos()) || f.Decl.Recv != nil {
			continue
		}
		name := f.Obj.Name()
		info := p.TypesInfo
		switch {
		case (strings.HasPrefix(name, "WriteString") || strings.HasPrefix(name, "WriteBytes")) && strings.HasSuffix(name, "Length"):
			r.Fn(f)
			r.Sites++
			ps := paramObjs(f)
			var val types.Object
			for _, q := range ps {
				if b, ok := q.Type().Underlying().(*types.Basic); ok && b.Info()&types.IsString != 0 {
					val = q
				}
				if sl, ok := q.Type().Underlying().(*types.Slice); ok {
					if b, ok := sl.Elem().Underlying().(*types.Basic); ok && b.Kind() == types.Byte {
						val = q
					}
				}
			}
			key := "pkg/util/bytes." + name + " prefix is the byte length of the value written"
			if val == nil {
				r.Undecided(rule, key, w.Pos(f.Decl.Pos()), "no string parameter")
				continue
			}
			// every write of a non-constant integer is conv(len(value)); the value itself is written in full
			bad, wroteValue, wroteLen := "", false, false
			ast.Inspect(f.Decl.Body, func(n ast.Node) bool {
				c, ok := n.(*ast.CallExpr)
				if !ok {
					return true
				}
				if id, isId := ast.Unparen(c.Fun).(*ast.Ident); isId {
					// the payload handed to a helper of the package that writes it in full (skipping only the empty value)
					if g := w.Info(core.Callee(info, c)); g != nil && g.Pkg == p && g.Decl.Body != nil && id != nil {
						for i, a := range c.Args {
							if isObj(info, a, val) && i < len(paramObjs(g)) && c12WritesWhole(g, paramObjs(g)[i]) {
								wroteValue = true
							}
						}
					}
					return true
				}
				sel, ok := ast.Unparen(c.Fun).(*ast.SelectorExpr)
				if !ok || len(c.Args) != 1 {
					return true
				}
				switch {
				case sel.Sel.Name == "WriteString" || sel.Sel.Name == "Write":
					a := ast.Unparen(c.Args[0])
					if cv, ok := a.(*ast.CallExpr); ok && len(cv.Args) == 1 { // []byte(value)
						a = ast.Unparen(cv.Args[0])
					}
					if isObj(info, a, val) {
						wroteValue = true
					} else {
						bad = "writes '" + core.ExprString(c.Args[0]) + "' instead of the whole value"
					}
				case strings.HasPrefix(sel.Sel.Name, "Write"):
					if core.ConstVal(info, c.Args[0]) != nil {
						return true
					}
					if isLen(info, c.Args[0], val) {
						wroteLen = true
					} else {
						bad = "the prefix written is '" + core.ExprString(c.Args[0]) + "', not len(" + val.Name() + ")"
					}
				}
				return true
			})
			if bad == "" && (!wroteValue || !wroteLen) {
				bad = "no write of len(value) followed by the value found"
			}
			r.Check(bad == "", rule, key, w.Pos(f.Decl.Pos()), "prefix = len(value) in bytes, then the value", bad+": the reader takes the prefix as a byte count, so a value whose byte length differs (multi-byte text) shifts every following field")
		case strings.HasPrefix(name, "ReadBytes") && strings.HasSuffix(name, "Length"):
			r.Fn(f)
			r.Sites++
			key := "pkg/util/bytes." + name + " hands back exactly the prefixed number of bytes, freshly allocated"
			bad := readCopies(w, f, nil, 2, true)
			r.Check(bad == "", rule, key, w.Pos(f.Decl.Pos()), "make(prefix) + Read", bad+": the decoded bytes would have another length than the writer's prefix, or alias the transport's receive buffer")
		case strings.HasPrefix(name, "ReadString") && strings.HasSuffix(name, "Length"):
			r.Fn(f)
			r.Sites++
			key := "pkg/util/bytes." + name + " copies exactly the prefixed number of bytes"
			bad := readCopies(w, f, nil, 2)
			r.Check(bad == "", rule, key, w.Pos(f.Decl.Pos()), "make(prefix) + Read + string copy", bad+": the decoded string would have another length than the writer's prefix, or alias the transport's receive buffer")
		}
	}
}

// readCopies: fn reads a length (or takes it as parameter lengthP), allocates make([]byte, length), fills it with
// buf.Read and returns string(p); a return that delegates to a same-package function handing over the length is
// followed (depth bounded). Returns "" when the pattern holds, else what deviates.
func readCopies(w *core.World, f *core.FuncInfo, lengthP types.Object, depth int, bytesMode ...bool) string {
	wantBytes := len(bytesMode) > 0 && bytesMode[0]
	info := f.Pkg.TypesInfo
	lengthV := lengthP
	var bufV types.Object
	bad := ""
	okMake, okRead, okRet := false, false, false
	sameLen := func(e ast.Expr) bool {
		for {
			e = ast.Unparen(e)
			if lengthV != nil && isObj(info, e, lengthV) {
				return true
			}
			c, ok := e.(*ast.CallExpr)
			if !ok || len(c.Args) != 1 {
				return false
			}
			if tv, ok := info.Types[c.Fun]; !ok || !tv.IsType() {
				return false
			}
			e = c.Args[0]
		}
	}
	ast.Inspect(f.Decl.Body, func(n ast.Node) bool {
		switch x := n.(type) {
		case *ast.AssignStmt:
			if len(x.Rhs) != 1 {
				return true
			}
			c, ok := ast.Unparen(x.Rhs[0]).(*ast.CallExpr)
			if !ok {
				return true
			}
			if sel, ok := ast.Unparen(c.Fun).(*ast.SelectorExpr); ok && strings.HasPrefix(sel.Sel.Name, "Read") && len(c.Args) == 0 && lengthV == nil {
				lengthV = core.ObjOf(info, x.Lhs[0])
			}
			if id, ok := ast.Unparen(c.Fun).(*ast.Ident); ok && id.Name == "make" && len(c.Args) == 2 {
				if sameLen(c.Args[1]) {
					okMake = true
					bufV = core.ObjOf(info, x.Lhs[0])
					// the copy happens for every non-zero prefix: the test around it is `prefix > 0` / `!= 0` and
					// nothing else about the prefix (a cap refuses what the writer emits)
					for _, anc := range enclosing(f.Decl.Body, x) {
						ifs, isIf := anc.(*ast.IfStmt)
						if !isIf || x.Pos() < ifs.Body.Pos() || x.End() > ifs.Body.End() || lengthV == nil || !mentions(info, ifs.Cond, lengthV) {
							continue
						}
						be, isBin := ast.Unparen(ifs.Cond).(*ast.BinaryExpr)
						nonZero := isBin && (be.Op == token.GTR || be.Op == token.NEQ) && sameLen(be.X) && core.ConstVal(info, be.Y) != nil && core.ConstVal(info, be.Y).String() == "0"
						if !nonZero {
							bad = "copies the bytes only under '" + core.ExprString(ifs.Cond) + "', more than 'the prefix is not zero'"
						}
					}
				} else {
					bad = "the buffer is sized '" + core.ExprString(c.Args[1]) + "', not the prefix that was read"
				}
			}
		case *ast.CallExpr:
			if sel, ok := ast.Unparen(x.Fun).(*ast.SelectorExpr); ok && sel.Sel.Name == "Read" && len(x.Args) == 1 && bufV != nil && isObj(info, x.Args[0], bufV) {
				okRead = true
			}
		case *ast.ReturnStmt:
			if len(x.Results) != 1 {
				return true
			}
			if v := core.ConstVal(info, x.Results[0]); v != nil {
				// the empty answer belongs to the zero prefix only: under any other test of the prefix (a cap) the
				// reader refuses what the writer emits, and leaves the field's bytes for the next field
				for _, anc := range enclosing(f.Decl.Body, x) {
					ifs, isIf := anc.(*ast.IfStmt)
					if !isIf || x.Pos() < ifs.Body.Pos() || x.End() > ifs.Body.End() {
						continue
					}
					be, isBin := ast.Unparen(ifs.Cond).(*ast.BinaryExpr)
					zero := isBin && (be.Op == token.EQL || be.Op == token.LEQ) && sameLen(be.X) && core.ConstVal(info, be.Y) != nil && core.ConstVal(info, be.Y).String() == "0"
					if !zero && lengthV != nil && mentions(info, ifs.Cond, lengthV) {
						bad = "answers the constant " + core.ExprString(x.Results[0]) + " under '" + core.ExprString(ifs.Cond) + "', a test of the prefix other than == 0"
					}
				}
				return true
			}
			if wantBytes && bufV != nil && isObj(info, x.Results[0], bufV) {
				okRet = true // the freshly allocated buffer itself (the caller converts it)
				return true
			}
			if cl, isLit := ast.Unparen(x.Results[0]).(*ast.CompositeLit); wantBytes && isLit && len(cl.Elts) == 0 {
				return true // []byte{} for a zero prefix
			}
			c, ok := ast.Unparen(x.Results[0]).(*ast.CallExpr)
			if ok && len(c.Args) == 1 && bufV != nil && isObj(info, c.Args[0], bufV) {
				if tv, ok := info.Types[c.Fun]; ok && tv.IsType() {
					okRet = true
					return true
				}
			}
			// string(g(.. length ..)): g of the same package hands back a fresh buffer of exactly that length
			if ok && len(c.Args) == 1 && depth > 0 && !wantBytes {
				if tv, isConv := info.Types[c.Fun]; isConv && tv.IsType() {
					if inner, isCall := ast.Unparen(c.Args[0]).(*ast.CallExpr); isCall {
						if g := w.Info(core.Callee(info, inner)); g != nil && g.Pkg == f.Pkg {
							gp := paramObjs(g)
							if lengthV == nil {
								// g reads the prefix itself and hands back the fresh bytes: string(ReadBytesNLength(buf))
								if sub := readCopies(w, g, nil, depth-1, true); sub == "" {
									okMake, okRead, okRet = true, true, true
								} else {
									bad = core.ShortKey(g.Obj) + ": " + sub
								}
								return true
							}
							for i, a := range inner.Args {
								if sameLen(a) && i < len(gp) {
									if sub := readCopies(w, g, gp[i], depth-1, true); sub == "" {
										okMake, okRead, okRet = true, true, true
									} else {
										bad = core.ShortKey(g.Obj) + ": " + sub
									}
									return true
								}
							}
						}
					}
				}
			}
			// delegation: g(.. length ..) in the same package
			if ok && depth > 0 {
				if g := w.Info(core.Callee(info, c)); g != nil && g.Pkg == f.Pkg {
					gp := paramObjs(g)
					for i, a := range c.Args {
						if sameLen(a) && i < len(gp) {
							if sub := readCopies(w, g, gp[i], depth-1, wantBytes); sub == "" {
								okMake, okRead, okRet = true, true, true
							} else {
								bad = core.ShortKey(g.Obj) + ": " + sub
							}
							return true
						}
					}
				}
			}
			bad = "returns '" + core.ExprString(x.Results[0]) + "', not a copy string(p) of the bytes read"
		}
		return true
	})
	if bad == "" && !(okMake && okRead && okRet) {
		bad = "pattern length := Read..(); p := make([]byte, length); buf.Read(p); return string(p) not found"
	}
	return bad
}

// c12Pure: codecs, the codec manager and the byte helpers consult no package-level state that request paths mutate
// (an output buffer taken from a pool and put back while its bytes are still referenced, a shared scratch buffer).
func c12Pure(r *core.Run, rule string) {
	w := r.W
	var fs []*core.FuncInfo
	if ci := w.Interface("pkg/protocol/codec", "Codec"); ci != nil {
		for _, n := range w.Implementers(ci) {
			if n.Obj().Pkg().Path() == pCodec && !w.IsTestFile(n.Obj().Pos()) {
				fs = append(fs, methodInfo(w, n, "Encode"), methodInfo(w, n, "Decode"))
			}
		}
	}
	if cm := w.NamedType("pkg/protocol/codec", "CodecManager"); cm != nil {
		fs = append(fs, methodInfo(w, cm, "Encode"), methodInfo(w, cm, "Decode"))
	}
	if h := w.NamedType("pkg/remoting/getty", "RpcPackageHandler"); h != nil {
		fs = append(fs, methodInfo(w, h, "Read"), methodInfo(w, h, "Write"))
	}
	var keep []*core.FuncInfo
	for _, f := range fs {
		if f != nil {
			keep = append(keep, f)
		}
	}
	keep = append(keep, reachFrom(w, keep, pCodec, core.Module+"/pkg/util/bytes")...)
	pureOfRuntimeState(r, rule, "encoding / decoding of a message", keep, nil)
	noPooledResult(r, rule, keep)
	noSingletonState(r, rule, "encoding / decoding of a message", keep)
}

func isBytesExpr(info *types.Info, e ast.Expr) bool {
	t := info.TypeOf(e)
	if t == nil {
		return false
	}
	switch u := t.Underlying().(type) {
	case *types.Basic:
		return u.Info()&types.IsString != 0
	case *types.Slice:
		b, ok := u.Elem().Underlying().(*types.Basic)
		return ok && b.Kind() == types.Byte
	}
	return false
}
func constWithin(info *types.Info, e ast.Expr, minus int64, limit constant.Value) (string, bool) {
	c := core.ConstVal(info, e)
	if c == nil || c.Kind() != constant.Int {
		return "", false
	}
	c2 := constant.BinaryOp(c, token.SUB, constant.MakeInt64(minus))
	return c.ExactString(), constant.Compare(c2, token.LEQ, limit)
}

// sliceBoundWithin: e is X[:K] with byte-indexed X and K <= limit (or min(len(X), K)).
func sliceBoundWithin(info *types.Info, e ast.Expr, limit constant.Value) (bool, string) {
	se, ok := ast.Unparen(e).(*ast.SliceExpr)
	if !ok || se.High == nil {
		return false, ""
	}
	if se.Low != nil {
		if c := core.ConstVal(info, se.Low); c == nil || constant.Sign(c) < 0 {
			return false, "non-constant lower slice bound"
		}
	}
	if !isBytesExpr(info, se.X) {
		return false, "'" + core.ExprString(se.X) + "' is sliced by elements of type " + info.TypeOf(se.X).String() + ", not by bytes"
	}
	if k, ok := constWithin(info, se.High, 0, limit); ok {
		return true, "sliced to " + k + " bytes"
	} else if k != "" {
		return false, "sliced to " + k + " bytes, beyond the limit"
	}
	if c, ok := se.High.(*ast.CallExpr); ok {
		if id, ok := c.Fun.(*ast.Ident); ok && id.Name == "min" && info.Uses[id] == types.Universe.Lookup("min") {
			for _, a := range c.Args {
				if k, ok := constWithin(info, a, 0, limit); ok {
					return true, "sliced to min(.., " + k + ") bytes"
				}
			}
		}
	}
	return false, "slice bound is not a constant within the limit"
}

// boundingHelper: g(p) returns p cut to a constant number of bytes within the limit on every path:
// a sequence of `if len(p) > K { return p[:K2] }` guards and returns of bounded slices, closed by `return p`
// after a guard that lets only texts of at most K <= limit bytes through.
func boundingHelper(g *core.FuncInfo, limit constant.Value) (bool, string) {
	info := g.Pkg.TypesInfo
	ps := paramObjs(g)
	if len(ps) != 1 {
		return false, "helper " + g.Obj.Name() + " does not take the text alone"
	}
	p := ps[0]
	if sig := g.Obj.Type().(*types.Signature); sig.Results().Len() != 1 {
		return false, "helper " + g.Obj.Name() + " does not return one value"
	}
	guardK := ""
	for _, st := range g.Decl.Body.List {
		switch x := st.(type) {
		case *ast.IfStmt:
			be, ok := ast.Unparen(x.Cond).(*ast.BinaryExpr)
			if !ok || x.Else != nil || x.Init != nil || (be.Op != token.GTR && be.Op != token.GEQ) {
				return false, "helper " + g.Obj.Name() + ": a condition the rule does not follow"
			}
			call, ok := ast.Unparen(be.X).(*ast.CallExpr)
			if !ok || len(call.Args) != 1 || core.ObjOf(info, call.Args[0]) != p || !isBytesExpr(info, call.Args[0]) {
				return false, "helper " + g.Obj.Name() + ": the guard does not measure the byte length of its parameter"
			}
			if fid, ok := call.Fun.(*ast.Ident); !ok || info.Uses[fid] != types.Universe.Lookup("len") {
				return false, "helper " + g.Obj.Name() + ": the guard does not measure the byte length of its parameter"
			}
			minus := int64(0)
			if be.Op == token.GEQ {
				minus = 1
			}
			k, ok := constWithin(info, be.Y, minus, limit)
			if !ok {
				return false, "helper " + g.Obj.Name() + ": the untruncated text passes the guard with up to " + k + " bytes"
			}
			if len(x.Body.List) != 1 {
				return false, "helper " + g.Obj.Name() + ": guard body is not a single return"
			}
			rs, ok := x.Body.List[0].(*ast.ReturnStmt)
			if !ok || len(rs.Results) != 1 {
				return false, "helper " + g.Obj.Name() + ": guard body is not a single return"
			}
			se, isSlice := ast.Unparen(rs.Results[0]).(*ast.SliceExpr)
			if !isSlice || core.ObjOf(info, se.X) != p {
				return false, "helper " + g.Obj.Name() + ": the guarded return is not a slice of the parameter"
			}
			if ok, why := sliceBoundWithin(info, rs.Results[0], limit); !ok {
				return false, "helper " + g.Obj.Name() + ": " + why
			}
			guardK = k
		case *ast.ReturnStmt:
			if len(x.Results) != 1 {
				return false, "helper " + g.Obj.Name() + ": bare return"
			}
			if core.ObjOf(info, x.Results[0]) == p {
				if guardK == "" {
					return false, "helper " + g.Obj.Name() + " returns the whole text"
				}
				return true, "helper " + g.Obj.Name() + ": text kept when len <= " + guardK + ", otherwise sliced within the limit"
			}
			if se, isSlice := ast.Unparen(x.Results[0]).(*ast.SliceExpr); isSlice && core.ObjOf(info, se.X) == p {
				if ok, why := sliceBoundWithin(info, x.Results[0], limit); ok {
					return true, "helper " + g.Obj.Name() + ": " + why
				} else {
					return false, "helper " + g.Obj.Name() + ": " + why
				}
			}
			return false, "helper " + g.Obj.Name() + ": returns something other than its (cut) parameter"
		default:
			return false, "helper " + g.Obj.Name() + ": a statement the rule does not follow"
		}
	}
	return false, "helper " + g.Obj.Name() + ": no final return"
}

// rangedElemTypes: e is the element variable of a range over a list; the dynamic types of the list's elements when
// the list is a composite literal, the result of a function of the package whose single return is one, or a
// package-level variable initialised with one.
func rangedElemTypes(w *core.World, fn *core.FuncInfo, e ast.Expr) []types.Type {
	info := fn.Pkg.TypesInfo
	v, ok := core.ObjOf(info, e).(*types.Var)
	if !ok {
		return nil
	}
	defs := localDefs(fn, v)
	if len(defs) != 1 || !defs[0].rng {
		return nil
	}
	var lit *ast.CompositeLit
	litInfo := info
	src := ast.Unparen(defs[0].rhs)
	if id, isID := src.(*ast.Ident); isID {
		if lv, isVar := info.Uses[id].(*types.Var); isVar && !isParam(fn, lv) && lv.Parent() != lv.Pkg().Scope() {
			if ds := localDefs(fn, lv); len(ds) == 1 && !ds[0].rng {
				src = ast.Unparen(ds[0].rhs)
			}
		}
	}
	switch x := src.(type) {
	case *ast.CompositeLit:
		lit = x
	case *ast.CallExpr:
		if g := w.Info(core.Callee(info, x)); g != nil && g.Decl.Body != nil {
			var rets []*ast.ReturnStmt
			ast.Inspect(g.Decl.Body, func(n ast.Node) bool {
				if rs, ok := n.(*ast.ReturnStmt); ok {
					rets = append(rets, rs)
				}
				return true
			})
			if len(rets) == 1 && len(rets[0].Results) == 1 {
				lit = findCompositeLit(g, rets[0].Results[0])
				litInfo = g.Pkg.TypesInfo
			}
		}
	}
	if lit == nil {
		return nil
	}
	var out []types.Type
	for _, el := range lit.Elts {
		if t := litInfo.TypeOf(el); t != nil {
			out = append(out, t)
		}
	}
	return out
}

// bigEndianReader: a 16-bit reader of encoding/binary must be the big-endian one (other packages' readers are the
// big-endian byteio / ByteBuffer readers of the wire vocabulary)
func bigEndianReader(f *types.Func) bool {
	if f.Pkg() == nil || f.Pkg().Path() != "encoding/binary" {
		return true
	}
	rn := core.RecvNamed(f)
	return rn != nil && rn.Obj().Name() == "bigEndian"
}

// lengthGuarded: encoding/binary's ByteOrder.Uint16(b) indexes b[1] and panics on a shorter slice (the stream
// readers answer an error instead); such a read counts only behind `if len(b) < k { return .. }` (k >= 2) earlier
// in the same function. A body of one byte at the end of the buffer is a legal input of the frame reader.
func lengthGuarded(fn *core.FuncInfo, call *ast.CallExpr, callee *types.Func) bool {
	if callee.Pkg() == nil || callee.Pkg().Path() != "encoding/binary" || len(call.Args) != 1 {
		return true
	}
	info := fn.Pkg.TypesInfo
	buf := core.ObjOf(info, call.Args[0])
	if buf == nil {
		return false
	}
	ok := false
	ast.Inspect(fn.Decl.Body, func(n ast.Node) bool {
		ifs, isIf := n.(*ast.IfStmt)
		if !isIf || ifs.Pos() > call.Pos() || len(ifs.Body.List) == 0 {
			return true
		}
		if _, isRet := ifs.Body.List[len(ifs.Body.List)-1].(*ast.ReturnStmt); !isRet {
			return true
		}
		be, isBin := ast.Unparen(ifs.Cond).(*ast.BinaryExpr)
		if !isBin || be.Op != token.LSS {
			return true
		}
		lc, isCall := ast.Unparen(be.X).(*ast.CallExpr)
		if !isCall || len(lc.Args) != 1 || core.ObjOf(info, lc.Args[0]) != buf {
			return true
		}
		if id, isID := ast.Unparen(lc.Fun).(*ast.Ident); !isID || id.Name != "len" {
			return true
		}
		if v := core.ConstVal(info, be.Y); v != nil {
			if k, exact := constant.Int64Val(v); exact && k >= 2 {
				ok = true
			}
		}
		return true
	})
	return ok
}

// c12WritesWhole: g writes its parameter v with one WriteString / Write of the whole value, nothing else, and skips
// the write only for the empty value (`if v == "" { return }`, `if len(v) == 0 { return }`, or the write under the
// opposite test).
func c12WritesWhole(g *core.FuncInfo, v types.Object) bool {
	info := g.Pkg.TypesInfo
	emptyTest := func(e ast.Expr) (isEmpty, ok bool) {
		be, isBin := ast.Unparen(e).(*ast.BinaryExpr)
		if !isBin {
			return false, false
		}
		x, y := ast.Unparen(be.X), ast.Unparen(be.Y)
		cv := core.ConstVal(info, y)
		if cv == nil {
			return false, false
		}
		zero := (cv.Kind() == constant.String && constant.StringVal(cv) == "") || (cv.Kind() == constant.Int && constant.Sign(cv) == 0)
		if !zero {
			return false, false
		}
		onV := isObj(info, x, v)
		if c, isCall := x.(*ast.CallExpr); isCall && len(c.Args) == 1 {
			if id, isId := ast.Unparen(c.Fun).(*ast.Ident); isId && id.Name == "len" && isObj(info, c.Args[0], v) {
				onV = true
			}
		}
		if !onV {
			return false, false
		}
		switch be.Op {
		case token.EQL:
			return true, true
		case token.NEQ, token.GTR:
			return false, true
		}
		return false, false
	}
	writes, other := 0, false
	var walk func(list []ast.Stmt) bool
	walk = func(list []ast.Stmt) bool {
		for _, st := range list {
			switch x := st.(type) {
			case *ast.IfStmt:
				isEmpty, ok := emptyTest(x.Cond)
				if !ok || x.Init != nil || x.Else != nil {
					return false
				}
				if isEmpty {
					if len(x.Body.List) != 1 {
						return false
					}
					if rs, isRet := x.Body.List[0].(*ast.ReturnStmt); !isRet || len(rs.Results) != 0 {
						return false
					}
				} else if !walk(x.Body.List) {
					return false
				}
			case *ast.ExprStmt:
				c, isCall := ast.Unparen(x.X).(*ast.CallExpr)
				if !isCall {
					return false
				}
				sel, isSel := ast.Unparen(c.Fun).(*ast.SelectorExpr)
				if !isSel || len(c.Args) != 1 || (sel.Sel.Name != "WriteString" && sel.Sel.Name != "Write") {
					other = true
					continue
				}
				a := ast.Unparen(c.Args[0])
				if cvt, isCvt := a.(*ast.CallExpr); isCvt && len(cvt.Args) == 1 {
					a = ast.Unparen(cvt.Args[0])
				}
				if !isObj(info, a, v) {
					return false
				}
				writes++
			case *ast.ReturnStmt:
				if len(x.Results) != 0 {
					return false
				}
			default:
				return false
			}
		}
		return true
	}
	return walk(g.Decl.Body.List) && writes == 1 && !other
}
