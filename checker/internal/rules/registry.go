// Package rules holds the repository-specific rules, one file per property.
package rules

import "seatalint/internal/core"

// Registry maps a property id to its check.
var Registry = map[string]func(*core.Run){}

func register(id string, f func(*core.Run)) { Registry[id] = f }
