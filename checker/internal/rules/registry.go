// Package rules holds the repository-specific rules, one file per property.
package rules

import "seatalint/internal/core"

// Registry maps a property id to its check.
var Registry = map[string]func(*core.Run){}

// curWorld is the world of the run in progress (for helpers that have no Run at hand, e.g. origin).
var curWorld *core.World

func register(id string, f func(*core.Run)) {
	Registry[id] = func(r *core.Run) {
		curWorld = r.W
		f(r)
	}
}
