package rules

import (
	"fmt"
	"go/ast"
	"go/constant"
	"go/token"
	"go/types"
	"strings"

	"golang.org/x/tools/go/packages"

	"seatalint/internal/core"
	"seatalint/internal/flow"
)

func init() { register("C02", checkC02) }

// atWorld: anchors of the AT phase-one commit.
type atWorld struct {
	atTx      *types.Named   // driver.Tx implementation whose Commit reaches FlushUndoLog
	commit    *core.FuncInfo // its Commit
	steps     []*core.FuncInfo
	atConn    *types.Named // driver.ConnBeginTx implementation whose BeginTx returns atTx
	wrappers  []*core.FuncInfo
	reg, rep  *reachCache
	flush     func(*types.Func) bool
	reportFns []*core.FuncInfo
}

func isBranchRegister(w *core.World, f *types.Func) bool {
	return isIfaceOrImpl(w, f, "pkg/rm", "ResourceManagerOutbound", "BranchRegister") || core.IsMethod(f, pRM, "RMRemoting", "BranchRegister")
}
func isBranchReport(w *core.World, f *types.Func) bool {
	return isIfaceOrImpl(w, f, "pkg/rm", "ResourceManagerOutbound", "BranchReport") || core.IsMethod(f, pRM, "RMRemoting", "BranchReport")
}
func isLockQuery(w *core.World, f *types.Func) bool {
	return isIfaceOrImpl(w, f, "pkg/rm", "ResourceManagerOutbound", "LockQuery") || core.IsMethod(f, pRM, "RMRemoting", "LockQuery")
}
func isFlushUndo(w *core.World, f *types.Func) bool {
	return isIfaceOrImpl(w, f, "pkg/datasource/sql/undo", "UndoLogManager", "FlushUndoLog")
}

func resolveAT(r *core.Run, rule string) *atWorld {
	w := r.W
	a := &atWorld{}
	a.reg = newReach(w, 3, func(f *types.Func) bool { return isBranchRegister(w, f) })
	a.rep = newReach(w, 3, func(f *types.Func) bool { return isBranchReport(w, f) })
	a.flush = func(f *types.Func) bool { return isFlushUndo(w, f) }
	for _, n := range driverImplsIn(w, "pkg/datasource/sql", "Tx") {
		c := methodInfo(w, n, "Commit")
		if c == nil {
			continue
		}
		if w.CallPath(c, a.flush, 3) != nil {
			a.atTx, a.commit = n, c
		}
	}
	if a.atTx == nil {
		r.Anchor(rule, nil, "driver.Tx implementation in pkg/datasource/sql whose Commit reaches UndoLogManager.FlushUndoLog")
		return nil
	}
	r.Fn(a.commit)
	// the function that holds the protocol steps: under Commit, the deepest function of the package from which both
	// the registration and the flush are reached (helpers it calls are analysed in its context, so extracting the
	// flush or the failure handling into methods of their own does not move the anchor)
	// (.. and the commit of the target transaction: a part that only prepares — registers and flushes — is a
	// helper of the step function, not the step function)
	flushReach := newReach(w, 3, a.flush)
	commitReach := newReach(w, 4, isDriverTxCommit)
	var cands []*core.FuncInfo
	for _, f := range append(reachFrom(w, []*core.FuncInfo{a.commit}, pDSSQL), a.commit) {
		if f.Pkg.PkgPath != pDSSQL || w.IsTestFile(f.Decl.Pos()) {
			continue
		}
		if flushReach.Hits(f.Obj) && a.reg.Hits(f.Obj) && commitReach.Hits(f.Obj) && !a.flush(f.Obj) && !isBranchRegister(w, f.Obj) {
			cands = append(cands, f)
		}
	}
	for _, f := range dedupFns(cands) {
		deepest := true
		for _, g := range cands {
			if g != f && w.CallPath(f, func(x *types.Func) bool { return x == g.Obj }, 3) != nil {
				deepest = false // f only passes on to g
			}
		}
		if deepest {
			a.steps = append(a.steps, f)
		}
	}
	for _, n := range driverImplsIn(w, "pkg/datasource/sql", "ConnBeginTx") {
		b := methodInfo(w, n, "BeginTx")
		if b == nil || core.RecvNamed(b.Obj) != n {
			continue
		}
		for _, t := range returnedTypes(b) {
			if t == a.atTx {
				a.atConn = n
			}
		}
	}
	if a.atConn != nil {
		begin := w.MethodOf(a.atConn, "BeginTx")
		for _, f := range w.SortedFuncs() {
			if core.RecvNamed(f.Obj) != a.atConn || f.Obj == begin {
				continue
			}
			// the implicit-transaction wrapper: handed the statement as a function value, it begins a transaction
			// around it — itself, or through a helper of the connection that is not handed the statement
			hasFn := false
			for _, p := range paramObjs(f) {
				if _, ok := p.Type().Underlying().(*types.Signature); ok {
					hasFn = true
				}
			}
			var begins func(g *core.FuncInfo, d int) bool
			begins = func(g *core.FuncInfo, d int) bool {
				for _, cs := range w.Calls(g) {
					if cs.Static == begin && cs.InLit == nil {
						return true
					}
					if h := w.Info(cs.Static); h != nil && d > 0 && h != g && core.RecvNamed(h.Obj) == a.atConn && h.Obj != begin && cs.InLit == nil {
						if begins(h, d-1) {
							return true
						}
					}
				}
				return false
			}
			if hasFn && begins(f, 2) {
				a.wrappers = append(a.wrappers, f)
			}
		}
	}
	return a
}

var c02Idioms = []idiom{}

func checkC02(r *core.Run) {
	r.Explain = "Decided statically for every CFG path: (C02.order) in the AT driver.Tx.Commit implementation the step that reaches BranchRegister precedes, through its nil-error edge, the call of UndoLogManager.FlushUndoLog, which precedes through its nil-error edge the Commit of the target transaction; (C02.fail) after a failed register/flush/local commit the function returns a non-nil error, never commits afterwards and — once past register — passes a report of phase-one-failed; status table true->PhaseoneDone,false->PhaseoneFailed; (C02.txclosed) every exit of the AT Commit leaves the target transaction committed or rolled back, and the implicit-transaction wrapper of the AT connection ends every transaction it began; (C02.txclosed, also) no path leads from the target transaction's Commit to its Rollback (a finished transaction is not rolled back: what database/sql does with the bare driver, C16); (C02.retry) the report loop is bounded by a non-zero constant MaxRetries and waits between attempts. NOT decided: durability (database transaction semantics), crash points, coordinator behaviour."
	r.Trusted = []string{"go/types, go/cfg", "database/sql: a driver Tx is finished only by its own Commit/Rollback", "CHA over repository types"}
	w := r.W
	a := resolveAT(r, "C02.anchor")
	if a == nil {
		return
	}
	if len(a.steps) == 0 {
		r.Anchor("C02.order", nil, "function under the AT Commit that calls FlushUndoLog")
		return
	}
	var noDesc func(f *types.Func) bool
	stepFlush := newReach(w, 3, a.flush)
	stepCommit := newReach(w, 3, isDriverTxCommit)
	stepRollback := newReach(w, 3, isDriverTxRollback)
	classify := func(pkg *packages.Package, call *ast.CallExpr, callee *types.Func) []flow.Tag {
		switch {
		case isDriverTxCommit(callee):
			return []flow.Tag{"localcommit", "ended"}
		case isDriverTxRollback(callee):
			return []flow.Tag{"localrollback", "ended"}
		case a.flush(callee):
			return []flow.Tag{"flush"}
		}
		// a helper of this package that mixes several kinds of steps is not an event itself: it is analysed in the
		// caller's context and its own calls are the events
		if fi := w.Info(callee); fi != nil && fi.Pkg.PkgPath == pDSSQL {
			kinds := 0
			for _, rc := range []*reachCache{a.rep, a.reg, stepFlush, stepCommit, stepRollback} {
				if rc.Hits(callee) {
					kinds++
				}
			}
			if kinds > 1 {
				return nil
			}
		}
		switch {
		case a.rep.Hits(callee):
			if v, ok := boolArg(pkg.TypesInfo, call, 0); ok {
				if v {
					return []flow.Tag{"reportdone"}
				}
				return []flow.Tag{"reportfail"}
			}
			// a wrapper around the report step: its flavour is the boolean every report call below it passes
			switch reportFlavour(w, callee, a.rep, 2) {
			case "false":
				return []flow.Tag{"reportfail"}
			case "true":
				return []flow.Tag{"reportdone"}
			}
			return []flow.Tag{"report"}
		case a.reg.Hits(callee):
			return []flow.Tag{"regstep"}
		}
		return nil
	}
	// In AT mode sql.Tx always wraps a real target transaction; only the XA connection stores nil
	// (checked below: withOriginTx(nil) appears only under the XAMode test). The nil-target branches of
	// Tx.Rollback / commitOnLocal are therefore infeasible on the AT path.
	var atTargetNonNil func(pkg *packages.Package, cond ast.Expr, branch bool) []flow.Tag
	atTargetNonNil = func(pkg *packages.Package, cond ast.Expr, branch bool) []flow.Tag {
		// (the test written as a predicate of the type: `if !tx.hasLocalTx()` with `return tx.target != nil`)
		c0 := ast.Unparen(cond)
		if u, isNot := c0.(*ast.UnaryExpr); isNot && u.Op == token.NOT {
			return atTargetNonNil(pkg, u.X, !branch)
		}
		if call, isCall := c0.(*ast.CallExpr); isCall {
			if h := w.Info(core.Callee(pkg.TypesInfo, call)); h != nil && h.Pkg.PkgPath == pDSSQL && h.Decl.Body != nil && len(h.Decl.Body.List) == 1 {
				if rs, isRet := h.Decl.Body.List[0].(*ast.ReturnStmt); isRet && len(rs.Results) == 1 {
					return atTargetNonNil(h.Pkg, rs.Results[0], branch)
				}
			}
			return nil
		}
		be, ok := ast.Unparen(cond).(*ast.BinaryExpr)
		if !ok || (be.Op != token.EQL && be.Op != token.NEQ) || !isNilIdent(pkg.TypesInfo, be.Y) {
			return nil
		}
		if sel, ok := ast.Unparen(be.X).(*ast.SelectorExpr); ok && sel.Sel.Name == "target" {
			if (be.Op == token.EQL) == branch {
				return []flow.Tag{flow.Dead}
			}
		}
		return nil
	}
	for _, f := range w.SortedFuncs() {
		if f.Pkg.PkgPath != pDSSQL || w.IsTestFile(f.Decl.Pos()) {
			continue
		}
		hasNil := false
		for _, cs := range w.Calls(f) {
			if cs.Static != nil && cs.Static.Name() == "withOriginTx" && len(cs.Call.Args) == 1 && isNilIdent(f.Pkg.TypesInfo, cs.Call.Args[0]) {
				hasNil = true
			}
		}
		if !hasNil {
			continue
		}
		res := (&flow.Spec{W: w, CondTags: func(pkg *packages.Package, cond ast.Expr, branch bool) []flow.Tag {
			if be, ok := ast.Unparen(cond).(*ast.BinaryExpr); ok && be.Op == token.EQL && branch {
				if c := core.ConstObj(pkg.TypesInfo, be.Y); c != nil && c.Name() == "XAMode" {
					return []flow.Tag{"xamode"}
				}
			}
			return nil
		}, Classify: func(pkg *packages.Package, call *ast.CallExpr, callee *types.Func) []flow.Tag {
			if callee != nil && callee.Name() == "withOriginTx" && len(call.Args) == 1 && isNilIdent(pkg.TypesInfo, call.Args[0]) {
				return []flow.Tag{"niltarget"}
			}
			return nil
		}}).Analyze(f)
		for _, cp := range res.Calls {
			r.Sites++
			r.Check(cp.Before.Has("xamode"), "C02.txclosed", core.ShortKey(f.Obj)+" : a Tx without a target transaction is created only in XA mode", w.Pos(cp.Call.Pos()), "nil target only under the XAMode test",
				"a Tx without a target transaction can be created outside XA mode: the AT commit would then 'commit' nothing")
		}
	}
	for _, fn := range a.steps {
		r.Fn(fn)
		// (clean-up written as one deferred closure driven by flags and by the error being returned is followed per
		// exit: DeferAtExit)
		// (four frames: the step function may be split into parts that call Tx.commitOnLocal / Tx.Rollback, which may
		// share a helper that is handed the driver method to run)
		sp := &flow.Spec{W: w, Depth: 2, Inline: 4, Classify: classify, NoDescend: noDesc, CondTags: atTargetNonNil, DeferAtExit: true}
		res := sp.Analyze(fn)
		nFlush, nCommit := 0, 0
		for _, cp := range res.Calls {
			r.Sites++
			key := core.ShortKey(fn.Obj) + " -> "
			switch {
			case inSet("flush", cp.Tags...):
				nFlush++
				r.Check(cp.Before.Has("ok:regstep") && !cp.Before.Maybe("localcommit"), "C02.order", key+"FlushUndoLog", w.Pos(cp.Call.Pos()),
					"flush is reached only through the nil-error edge of the step that registers the branch, before any local commit",
					"the undo log can be flushed without the branch-register step having succeeded first (or after the local commit)")
			}
			// a transaction whose Commit was called is finished whatever Commit answered (database/sql issues nothing
			// after it): a rollback after that point is a second statement the bare driver would never see
			if inSet("localrollback", cp.Tags...) {
				r.Check(!cp.Before.Maybe("localcommit"), "C02.txclosed", key+"target Rollback only while the target Commit was not attempted", w.Pos(cp.Call.Pos()),
					"no path from the target transaction's Commit to its Rollback",
					"the target transaction can be rolled back after its Commit was called (a failed COMMIT): the driver sees ROLLBACK on a finished transaction — not what database/sql does with the bare driver (C16), and on a connection that already began the next transaction it rolls back someone else's work")
			}
			// the call that performs the local commit: either the driver call itself or a callee that must perform it
			if inSet("localcommit", cp.Tags...) {
				nCommit++
				r.Check(cp.Before.Has("ok:flush") && cp.Before.Has("ok:regstep"), "C02.order", key+"target Commit", w.Pos(cp.Call.Pos()),
					"local commit is reached only after register and flush succeeded", "the local commit can be reached without register and flush having succeeded")
			}
		}
		// calls whose callee summary must commit (commitOnLocal wrapper)
		nCommit += c02WrappedCommit(r, w, sp, fn, classify)
		if nFlush == 0 || nCommit == 0 {
			r.Bad("C02.order", core.ShortKey(fn.Obj)+" : steps present", w.Pos(fn.Decl.Pos()), "the AT commit no longer contains both the flush and the local commit step")
		}
		for _, ex := range res.Exits {
			r.Sites++
			role := exitRole(ex, func(t string) bool {
				return hasPrefixAny(t, "ok:", "fail:", "reportfail", "localrollback") && !strings.Contains(t, "report:") && !strings.HasPrefix(t, "defer:")
			})
			key := core.ShortKey(fn.Obj) + " " + role
			pos := w.Pos(ex.Pos)
			failed := ex.St.HasAny("fail:regstep", "fail:flush", "fail:localcommit")
			if failed {
				okc := ex.Class != flow.ExitOK
				if ex.St.HasAny("fail:flush", "fail:localcommit") {
					okc = okc && ex.St.Has("reportfail")
				}
				if ex.St.HasAny("fail:regstep", "fail:flush") {
					okc = okc && !ex.St.Maybe("localcommit")
				}
				r.Check(okc, "C02.fail", key, pos, "failure surfaces as an error, nothing is committed afterwards, a registered branch is reported phase-one-failed",
					"after a failed step this return either yields a nil error, commits anyway, or skips the phase-one-failed report")
			}
			// ("ended": one or the other on every path to here — committed on the paths where the commit was issued,
			// rolled back on the others)
			ended := ex.St.HasAny("localcommit", "localrollback", "ended")
			r.Check(ended, "C02.txclosed", key, pos, "the target transaction is committed or rolled back before returning",
				"the AT Commit returns without committing or rolling back the target transaction: database/sql hands the connection back to the pool inside an open transaction")
		}
	}
	// error discipline on the phase-one chain
	var chain []*core.FuncInfo
	chain = append(chain, a.commit)
	chain = append(chain, a.steps...)
	for _, f := range reachFrom(w, a.steps, pDSSQL) {
		if f.Pkg.PkgPath == pDSSQL && core.RecvNamed(f.Obj) != nil && core.RecvNamed(f.Obj).Obj().Name() == "Tx" && inSet(f.Obj.Name(), "register", "commitOnLocal") {
			chain = append(chain, f)
		}
	}
	for _, f := range w.SortedFuncs() {
		if (f.Obj.Name() == "FlushUndoLog" || f.Obj.Name() == "InsertUndoLog") && isIfaceOrImpl(w, f.Obj, "pkg/datasource/sql/undo", "UndoLogManager", f.Obj.Name()) && !w.IsTestFile(f.Decl.Pos()) && !strings.Contains(f.Pkg.PkgPath, "mock") {
			chain = append(chain, f)
		}
	}
	ids := append(c02Idioms, idiom{Callee: "pkg/datasource/sql.(Tx).report", Kind: "dropped", Reason: "report(true) after the local commit succeeded: the outcome is fixed, the report retries internally and is best effort"})
	errDiscipline(r, "C02.fail", dedupFns(chain), ids)
	c02StatusTable(r, a)
	c02Wrapper(r, a)
	c02Wrapped(r, a)
	c02ReportFailed(r)
	c02BranchIDWriters(r)
	c02Retry(r, a)
	r.Floor("C02.order", 2)
	r.Floor("C02.fail", 8)
	r.Floor("C02.txclosed", 4)
	r.Floor("C02.retry", 2)
}

func dedupFns(in []*core.FuncInfo) []*core.FuncInfo {
	seen := map[*core.FuncInfo]bool{}
	var out []*core.FuncInfo
	for _, f := range in {
		if f != nil && !seen[f] {
			seen[f] = true
			out = append(out, f)
		}
	}
	return out
}

// c02WrappedCommit handles a local commit performed through a repo wrapper (its summary must contain localcommit).
func c02WrappedCommit(r *core.Run, w *core.World, sp *flow.Spec, fn *core.FuncInfo, classify func(*packages.Package, *ast.CallExpr, *types.Func) []flow.Tag) int {
	n := 0
	wrap := map[*types.Func]bool{}
	for _, cs := range w.Calls(fn) {
		fi := w.Info(cs.Static)
		if fi == nil || cs.Iface || fi.Pkg.PkgPath != pDSSQL {
			continue
		}
		sub := (&flow.Spec{W: w, Depth: 1, Classify: classify, NoDescend: sp.NoDescend, CondTags: sp.CondTags}).Analyze(fi)
		if sub.Sum.MustAll["localcommit"] {
			wrap[cs.Static] = true
		}
	}
	if len(wrap) == 0 {
		return 0
	}
	sp2 := &flow.Spec{W: w, Depth: 2, NoDescend: sp.NoDescend, CondTags: sp.CondTags, DeferAtExit: true, Classify: func(pkg *packages.Package, call *ast.CallExpr, callee *types.Func) []flow.Tag {
		if wrap[callee] {
			return []flow.Tag{"commitstep"}
		}
		return classify(pkg, call, callee)
	}}
	res := sp2.Analyze(fn)
	for _, cp := range res.Calls {
		if !inSet("commitstep", cp.Tags...) {
			continue
		}
		n++
		r.Sites++
		r.Check(cp.Before.Has("ok:flush") && cp.Before.Has("ok:regstep"), "C02.order", core.ShortKey(fn.Obj)+" -> local commit step "+core.ShortKey(cp.Callee), w.Pos(cp.Call.Pos()),
			"local commit is reached only after register and flush succeeded", "the local commit can be reached without register and flush having succeeded")
	}
	// failure of the wrapped commit must be reported and surfaced
	for _, ex := range res.Exits {
		if !ex.St.Has("fail:commitstep") {
			continue
		}
		r.Sites++
		key := core.ShortKey(fn.Obj) + " return[" + ex.Class + "] after failed local commit step"
		r.Check(ex.Class != flow.ExitOK && ex.St.Has("reportfail"), "C02.fail", key, w.Pos(ex.Pos),
			"a failed local commit is reported phase-one-failed and returned as an error", "a failed local commit is not reported phase-one-failed or is returned as nil")
	}
	return n
}

// c02StatusTable: the boolean handed to the report function selects PhaseoneDone / PhaseoneFailed.
// The report function (bool parameter, builds a BranchReportParam, reaches BranchReport) is analysed twice, from
// the entry facts flag=true and flag=false: at every BranchReport call the Status last put into the request on
// that path is PhaseoneDone resp. PhaseoneFailed — whether it comes from a mapping helper, from a literal that a
// conditional assignment overrides, or from an if/else.
func c02StatusTable(r *core.Run, a *atWorld) {
	w := r.W
	for _, f := range w.SortedFuncs() {
		if f.Pkg.PkgPath != pDSSQL || w.IsTestFile(f.Decl.Pos()) || f.Decl.Body == nil || !a.rep.Hits(f.Obj) {
			continue
		}
		var flag types.Object
		for _, p := range paramObjs(f) {
			if b, ok := p.Type().Underlying().(*types.Basic); ok && b.Kind() == types.Bool {
				flag = p
			}
		}
		builds := false
		ast.Inspect(f.Decl.Body, func(n ast.Node) bool {
			if cl, ok := n.(*ast.CompositeLit); ok {
				if t := f.Pkg.TypesInfo.TypeOf(cl); t != nil && strings.HasSuffix(t.String(), "BranchReportParam") {
					builds = true
				}
			}
			return true
		})
		if flag == nil || !builds {
			continue
		}
		a.reportFns = append(a.reportFns, f)
	}
	if len(a.reportFns) == 0 {
		r.Anchor("C02.fail", nil, "function with a success flag that builds the BranchReportParam of the phase-one report")
		return
	}
	for _, rf := range dedupFns(a.reportFns) {
		r.Fn(rf)
		info := rf.Pkg.TypesInfo
		var flag types.Object
		for _, p := range paramObjs(rf) {
			if b, ok := p.Type().Underlying().(*types.Basic); ok && b.Kind() == types.Bool {
				flag = p
			}
		}
		for _, v := range []struct {
			val  bool
			want string
		}{{true, "BranchStatusPhaseoneDone"}, {false, "BranchStatusPhaseoneFailed"}} {
			sp := &flow.Spec{W: w, Depth: 0, Classify: func(pkg *packages.Package, call *ast.CallExpr, callee *types.Func) []flow.Tag {
				if isBranchReport(w, callee) {
					return []flow.Tag{"report"}
				}
				return nil
			}}
			// the status written into the request: `Status: X` in the literal, `req.Status = X` later
			setStatus := func(st *flow.State, x ast.Expr) {
				name := "?"
				if c := core.ConstObj(info, x); c != nil {
					name = c.Name()
				} else if o := core.ObjOf(info, x); o != nil {
					if c := st.Eq[o]; c != nil {
						name = c.Name()
					}
				} else if call, ok := ast.Unparen(x).(*ast.CallExpr); ok && len(call.Args) == 1 {
					// Status: statusOf(flag) — the mapping helper, run from the known value of the flag
					if g := w.Info(core.Callee(info, call)); g != nil && g.Decl.Body != nil && g.Pkg == rf.Pkg && len(paramObjs(g)) == 1 {
						if ao := core.ObjOf(info, call.Args[0]); ao != nil && (st.IsTrue(ao) || st.IsFalse(ao)) {
							known := st.IsTrue(ao)
							names := map[string]bool{}
							for _, ex := range (&flow.Spec{W: w, Depth: 0}).AnalyzeSeed(g, func(s0 *flow.State) { s0.SetBool(paramObjs(g)[0], known) }).Exits {
								if len(ex.Results) == 1 {
									if c := core.ConstObj(g.Pkg.TypesInfo, ex.Results[0]); c != nil {
										names[c.Name()] = true
										continue
									}
								}
								names["?"] = true
							}
							if len(names) == 1 {
								for k := range names {
									name = k
								}
							}
						}
					}
				}
				for t := range st.Must {
					if strings.HasPrefix(t, "status:") {
						delete(st.Must, t)
					}
				}
				st.Must["status:"+name] = true
				st.May["status:"+name] = true
			}
			sp.Effect = func(pkg *packages.Package, n ast.Node, st *flow.State) {
				if pkg != rf.Pkg {
					return
				}
				ast.Inspect(n, func(m ast.Node) bool {
					switch x := m.(type) {
					case *ast.FuncLit:
						return false
					case *ast.CompositeLit:
						if t := info.TypeOf(x); t != nil && strings.HasSuffix(t.String(), "BranchReportParam") {
							if sv := litField(x, "Status"); sv != nil {
								setStatus(st, sv)
							}
						}
					case *ast.AssignStmt:
						for i, l := range x.Lhs {
							if sel, ok := ast.Unparen(l).(*ast.SelectorExpr); ok && sel.Sel.Name == "Status" && i < len(x.Rhs) {
								if t := info.TypeOf(sel.X); t != nil && strings.HasSuffix(t.String(), "BranchReportParam") {
									setStatus(st, x.Rhs[i])
								}
							}
						}
					}
					return true
				})
			}
			val := v.val
			res := sp.AnalyzeSeed(rf, func(st *flow.State) { st.SetBool(flag, val) })
			n := 0
			for _, cp := range res.Calls {
				if !inSet("report", cp.Tags...) {
					continue
				}
				n++
				r.Sites++
				got := "nothing"
				for _, t := range cp.Before.MustTags() {
					if strings.HasPrefix(t, "status:") {
						got = strings.TrimPrefix(t, "status:")
					}
				}
				r.Check(cp.Before.Has("status:"+v.want), "C02.fail", core.ShortKey(rf.Obj)+" success="+fmt.Sprint(v.val)+" reports "+v.want, w.Pos(cp.Call.Pos()), "flag "+fmt.Sprint(v.val)+" -> "+v.want,
					"called with success="+fmt.Sprint(v.val)+" the report carries "+got+", not "+v.want+": the coordinator learns the wrong outcome of phase one")
			}
			if n == 0 {
				r.Bad("C02.fail", core.ShortKey(rf.Obj)+" success="+fmt.Sprint(v.val)+" reports "+v.want, w.Pos(rf.Decl.Pos()), "no BranchReport call is reached with success="+fmt.Sprint(v.val))
			}
		}
	}
}

// c02Wrapper: C02.txclosed (ii) — implicit transaction wrapper of the AT connection.
func c02Wrapper(r *core.Run, a *atWorld) {
	w := r.W
	if a.atConn == nil || len(a.wrappers) == 0 {
		r.Anchor("C02.txclosed", nil, "method of the AT connection that begins an implicit transaction around a statement")
		return
	}
	begin := w.MethodOf(a.atConn, "BeginTx")
	txIface := driverIface(w, "Tx")
	for _, fn := range a.wrappers {
		r.Fn(fn)
		sp := &flow.Spec{W: w, Depth: 0,
			Classify: func(pkg *packages.Package, call *ast.CallExpr, callee *types.Func) []flow.Tag {
				switch {
				case callee == begin:
					return []flow.Tag{"begin"}
				case isDriverTxCommit(callee), isDriverTxRollback(callee):
					return []flow.Tag{"end", "-ok:begin"}
				}
				return nil
			},
			CondTags: func(pkg *packages.Package, cond ast.Expr, branch bool) []flow.Tag {
				// `tx == nil` (the variable holding the begun transaction) means nothing was begun on this path
				be, ok := cond.(*ast.BinaryExpr)
				if !ok || (be.Op != token.EQL && be.Op != token.NEQ) {
					return nil
				}
				var x ast.Expr
				if isNilIdent(pkg.TypesInfo, be.Y) {
					x = be.X
				} else if isNilIdent(pkg.TypesInfo, be.X) {
					x = be.Y
				} else {
					return nil
				}
				t := pkg.TypesInfo.TypeOf(x)
				if t == nil || txIface == nil || !types.Identical(t.Underlying(), txIface) {
					return nil
				}
				if (be.Op == token.EQL) == branch {
					return []flow.Tag{"-ok:begin"}
				}
				return nil
			}}
		res := sp.Analyze(fn)
		for _, ex := range res.Exits {
			r.Sites++
			role := exitRole(ex, func(t string) bool { return t == "end" || t == "ok:begin" || t == "fail:begin" })
			key := core.ShortKey(fn.Obj) + " " + role
			r.Check(!ex.St.Maybe("ok:begin"), "C02.txclosed", key, w.Pos(ex.Pos), "no transaction begun by the wrapper is open at this return",
				"a transaction begun by the wrapper may still be open at this return (neither Commit nor Rollback on the path): the pooled connection is handed back inside an open transaction")
		}
	}
}

// c02Retry: bounded report loop.
func c02Retry(r *core.Run, a *atWorld) {
	w := r.W
	n := 0
	var loopFns []*core.FuncInfo
	for _, rf := range dedupFns(a.reportFns) {
		loopFns = append(loopFns, withCallees(w, rf, 2)...)
	}
	for _, rf := range dedupFns(loopFns) {
		info := rf.Pkg.TypesInfo
		ast.Inspect(rf.Decl.Body, func(x ast.Node) bool {
			fs, ok := x.(*ast.ForStmt)
			if !ok {
				return true
			}
			cc, ok := fs.Cond.(*ast.CallExpr)
			if !ok || !core.IsMethod(core.Callee(info, cc), core.Module+"/pkg/util/backoff", "Backoff", "Ongoing") {
				return true
			}
			n++
			r.Sites++
			bo := recvObj(info, cc)
			// Wait at the top level of the body, on the same object; no continue
			waits, cont := false, false
			for _, s := range fs.Body.List {
				if es, ok := s.(*ast.ExprStmt); ok {
					if c, ok := es.X.(*ast.CallExpr); ok && core.IsMethod(core.Callee(info, c), core.Module+"/pkg/util/backoff", "Backoff", "Wait") && recvObj(info, c) == bo {
						waits = true
					}
				}
			}
			ast.Inspect(fs.Body, func(y ast.Node) bool {
				if b, ok := y.(*ast.BranchStmt); ok && b.Tok == token.CONTINUE {
					cont = true
				}
				return true
			})
			r.Check(waits && !cont, "C02.retry", core.ShortKey(rf.Obj)+" : loop waits", w.Pos(fs.Pos()), "every continuing iteration passes Backoff.Wait (which counts the retry)", "the report loop can iterate without calling Wait on its backoff: the retry counter never advances")
			// MaxRetries of the Config literal handed to backoff.New for this object
			maxOK, msg := false, "no backoff.New with a constant non-zero MaxRetries found for the loop's backoff"
			ast.Inspect(rf.Decl.Body, func(y ast.Node) bool {
				c, ok := y.(*ast.CallExpr)
				if !ok || !core.IsPkgFunc(core.Callee(info, c), core.Module+"/pkg/util/backoff", "New") || len(c.Args) != 2 {
					return true
				}
				if cl, ok := c.Args[1].(*ast.CompositeLit); ok {
					for _, el := range cl.Elts {
						if kv, ok := el.(*ast.KeyValueExpr); ok {
							if k, ok := kv.Key.(*ast.Ident); ok && k.Name == "MaxRetries" {
								if v := core.ConstVal(info, kv.Value); v != nil && v.Kind() == constant.Int {
									if i, _ := constant.Int64Val(v); i > 0 {
										maxOK = true
									} else {
										msg = "MaxRetries is 0, which the backoff treats as retry forever"
									}
								}
							}
						}
					}
				}
				return true
			})
			r.Check(maxOK, "C02.retry", core.ShortKey(rf.Obj)+" : MaxRetries", w.Pos(fs.Pos()), "retry budget is a non-zero constant", msg)
			return true
		})
	}
	if n == 0 {
		r.Anchor("C02.retry", nil, "retry loop over Backoff.Ongoing in the phase-one report function")
	}
}

// c02Wrapped: every statement entry of the AT connection runs its executor inside the implicit-transaction
// wrapper (the closure handed to it): the executor is chosen by parsing the SQL, not by the entry point, so DML
// sent through Query needs BEGIN / register / undo log / COMMIT exactly like DML sent through Exec.
func c02Wrapped(r *core.Run, a *atWorld) {
	w := r.W
	if a.atConn == nil || len(a.wrappers) == 0 {
		return
	}
	isWrapper := map[*types.Func]bool{}
	for _, fn := range a.wrappers {
		isWrapper[fn.Obj] = true
	}
	sqlEx := w.Interface("pkg/datasource/sql/exec", "SQLExecutor")
	n := 0
	siteIn := map[*core.FuncInfo]bool{}
	for _, f := range w.SortedFuncs() {
		if core.RecvNamed(f.Obj) != a.atConn || w.IsTestFile(f.Decl.Pos()) || f.Decl.Body == nil {
			continue
		}
		info := f.Pkg.TypesInfo
		var stack []ast.Node
		ast.Inspect(f.Decl.Body, func(x ast.Node) bool {
			if x == nil {
				stack = stack[:len(stack)-1]
				return true
			}
			stack = append(stack, x)
			c, ok := x.(*ast.CallExpr)
			if !ok {
				return true
			}
			callee := core.Callee(info, c)
			if callee == nil || !strings.HasPrefix(callee.Name(), "ExecWith") || sqlEx == nil {
				return true
			}
			if rn := core.RecvNamed(callee); rn == nil || !(types.Identical(rn.Underlying(), sqlEx) || types.Implements(rn, sqlEx) || types.Implements(types.NewPointer(rn), sqlEx)) {
				if _, isIface := callee.Type().(*types.Signature).Recv().Type().Underlying().(*types.Interface); !isIface {
					return true
				}
			}
			n++
			siteIn[f] = true
			r.Sites++
			r.Fn(f)
			inside := false
			for i := len(stack) - 1; i >= 1; i-- {
				lit, ok := stack[i].(*ast.FuncLit)
				if !ok {
					continue
				}
				if outer, ok := stack[i-1].(*ast.CallExpr); ok && isWrapper[core.Callee(info, outer)] {
					for _, arg := range outer.Args {
						if ast.Unparen(arg) == ast.Expr(lit) {
							inside = true
						}
					}
				}
			}
			// (a helper of the connection that drives the executor: every call of it sits in such a closure)
			if !inside {
				cs := w.Callers(f.Obj)
				all := len(cs) > 0
				for _, site := range cs {
					if site.Caller.Pkg != f.Pkg || w.IsTestFile(site.Caller.Decl.Pos()) {
						continue
					}
					ok := false
					if site.InLit != nil {
						cinfo := site.Caller.Pkg.TypesInfo
						ast.Inspect(site.Caller.Decl.Body, func(y ast.Node) bool {
							if oc, isCall := y.(*ast.CallExpr); isCall && isWrapper[core.Callee(cinfo, oc)] {
								for _, arg := range oc.Args {
									if ast.Unparen(arg) == ast.Expr(site.InLit) {
										ok = true
									}
								}
							}
							return true
						})
					}
					if !ok {
						all = false
					}
				}
				inside = all
			}
			r.Check(inside, "C02.order", core.ShortKey(f.Obj)+" runs its executor inside the implicit-transaction wrapper", w.Pos(c.Pos()), "inside the closure handed to the wrapper",
				"the statement's executor is called outside the implicit-transaction wrapper: in autocommit mode inside a global transaction a DML statement arriving on this entry point is executed without BEGIN, branch registration, undo log and COMMIT ordering")
			return true
		})
	}
	// both statement entries of the connection (Exec and Query) reach such a site — their own, or one they share
	entries := 0
	for _, f := range w.SortedFuncs() {
		if core.RecvNamed(f.Obj) != a.atConn || w.IsTestFile(f.Decl.Pos()) || !inSet(f.Obj.Name(), "ExecContext", "QueryContext") {
			continue
		}
		for g := range w.Reach([]*core.FuncInfo{f}, func(h *core.FuncInfo) bool { return core.RecvNamed(h.Obj) != a.atConn }) {
			if siteIn[g] {
				entries++
				break
			}
		}
	}
	if n == 0 || entries < 2 {
		r.Bad("C02.order", "INSTANCE-FLOOR statement entries of the AT connection calling an executor", "", "fewer than the two entries (Exec, Query) confirmed by hand")
	}
}

// c02ReportFailed: the report step, asked to report a *failed* phase one (its boolean parameter false), returns nil
// only when the branch was never registered (branch id 0) or the report to the coordinator succeeded — whatever
// configuration switches the success report may depend on.
func c02ReportFailed(r *core.Run) {
	w := r.W
	tx := w.NamedType("pkg/datasource/sql", "Tx")
	f := methodInfo(w, tx, "report")
	if r.Anchor("C02.fail", f, "sql.Tx.report") == nil {
		return
	}
	var flag types.Object
	for _, p := range paramObjs(f) {
		if b, ok := p.Type().Underlying().(*types.Basic); ok && b.Kind() == types.Bool {
			flag = p
		}
	}
	if flag == nil {
		r.Undecided("C02.fail", core.ShortKey(f.Obj)+" success flag", w.Pos(f.Decl.Pos()), "no boolean parameter")
		return
	}
	// the retry loop is entered at least once: the backoff is created here with a context that is never done and
	// a positive constant retry budget, so its first Ongoing() answers true (premise checked below)
	premise := false
	// (the loop may sit in a helper of the type the report step hands the request to)
	for _, g := range withCallees(w, f, 2) {
		g := g
		ast.Inspect(g.Decl.Body, func(n ast.Node) bool {
			c, ok := n.(*ast.CallExpr)
			if !ok || !core.IsPkgFunc(core.Callee(g.Pkg.TypesInfo, c), pBackoff, "New") || len(c.Args) != 2 {
				return true
			}
			bg := strings.Contains(origin(g, c.Args[0], 3), "context.Background(")
			pos := false
			if cl := findCompositeLit(g, c.Args[1]); cl != nil {
				if v := core.ConstVal(g.Pkg.TypesInfo, litField(cl, "MaxRetries")); v != nil && v.Kind() == constant.Int && constant.Sign(v) > 0 {
					pos = true
				}
			}
			premise = bg && pos
			return true
		})
	}
	r.Sites++
	r.Check(premise, "C02.retry", core.ShortKey(f.Obj)+" : the report is attempted at least once", w.Pos(f.Decl.Pos()), "backoff over context.Background() with a positive constant MaxRetries", "the retry budget of the report is not a positive constant over a never-done context: the loop may not run at all and nil would be returned without any report")
	sp := &flow.Spec{W: w, Depth: 0, Split: []flow.Tag{"unregistered", "fresh"},
		Contradict: [][2]flow.Tag{{"fresh", "false:ongoing"}},
		Classify: func(pkg *packages.Package, call *ast.CallExpr, callee *types.Func) []flow.Tag {
			switch {
			case isBranchReport(w, callee):
				return []flow.Tag{"report", "-fresh"}
			case core.IsPkgFunc(callee, pBackoff, "New"):
				return []flow.Tag{"fresh"}
			case core.IsMethod(callee, pBackoff, "Backoff", "Ongoing"):
				return []flow.Tag{"ongoing"}
			}
			return nil
		},
		CondTags: func(pkg *packages.Package, cond ast.Expr, branch bool) []flow.Tag {
			be, ok := ast.Unparen(cond).(*ast.BinaryExpr)
			if !ok || (be.Op != token.EQL && be.Op != token.NEQ) {
				return nil
			}
			if sel, ok := ast.Unparen(be.X).(*ast.SelectorExpr); ok && sel.Sel.Name == "BranchID" {
				if v := core.ConstVal(pkg.TypesInfo, be.Y); v != nil && v.ExactString() == "0" && (be.Op == token.EQL) == branch {
					return []flow.Tag{"unregistered"}
				}
			}
			return nil
		}}
	res := sp.AnalyzeSeed(f, func(st *flow.State) { st.SetBool(flag, false) })
	n := 0
	for _, ex := range res.Exits {
		if ex.Class == flow.ExitErr {
			continue
		}
		n++
		r.Sites++
		via := ex.ErrOrigin != nil && inSet("report", ex.ErrOrigin.Tags...)
		r.Check(ex.St.Has("unregistered") || ex.St.Has("ok:report") || via, "C02.fail", core.ShortKey(f.Obj)+"(false) "+exitRole(ex, func(t string) bool { return strings.HasSuffix(t, "report") || t == "unregistered" })+" : a failed phase one of a registered branch is reported", w.Pos(ex.Pos),
			"nil only for an unregistered branch or after the report succeeded", "asked to report a failed phase one, the step can return nil without having told the coordinator (and without the branch being unregistered): the coordinator keeps the branch's global locks and believes phase one may still succeed")
	}
	if n == 0 {
		r.Undecided("C02.fail", core.ShortKey(f.Obj)+"(false) exits", w.Pos(f.Decl.Pos()), "no non-error exit found")
	}
}

// reportFlavour: the boolean literal(s) with which the functions below f (depth frames, same package) call a
// report step: "true", "false", or "" when mixed / unknown.
func reportFlavour(w *core.World, f *types.Func, rep *reachCache, depth int) string {
	seen := map[string]bool{}
	var walk func(g *types.Func, d int)
	walk = func(g *types.Func, d int) {
		fi := w.Info(g)
		if fi == nil || d < 0 {
			return
		}
		for _, cs := range w.Calls(fi) {
			if cs.Static == nil || !rep.Hits(cs.Static) {
				continue
			}
			if v, ok := boolArg(fi.Pkg.TypesInfo, cs.Call, 0); ok {
				if v {
					seen["true"] = true
				} else {
					seen["false"] = true
				}
				continue
			}
			if w.Info(cs.Static) != nil && w.Info(cs.Static).Pkg == fi.Pkg {
				walk(cs.Static, d-1)
			} else {
				seen["?"] = true
			}
		}
	}
	walk(f, depth)
	if len(seen) == 1 {
		for k := range seen {
			if k != "?" {
				return k
			}
		}
	}
	return ""
}

// c02BranchIDWriters: the branch id of the transaction context is what the phase-one report is addressed with (and
// what decides whether there is a branch to report at all). Between the registration and the report nothing may
// change it: the only assignments to TransactionContext.BranchID in the repository take the value from the reply
// of BranchRegister. (A "reset" of the context in the rollback step would make the phase-one-failed report skip a
// branch the coordinator has registered and holds locks for.)
func c02BranchIDWriters(r *core.Run) {
	w := r.W
	tc := w.NamedType("pkg/datasource/sql/types", "TransactionContext")
	if tc == nil {
		r.Anchor("C02.fail", nil, "types.TransactionContext")
		return
	}
	var fld *types.Var
	if st, ok := tc.Underlying().(*types.Struct); ok {
		for i := 0; i < st.NumFields(); i++ {
			if st.Field(i).Name() == "BranchID" {
				fld = st.Field(i)
			}
		}
	}
	if fld == nil {
		r.Anchor("C02.fail", nil, "TransactionContext.BranchID")
		return
	}
	n := 0
	for _, f := range w.SortedFuncs() {
		if w.IsTestFile(f.Decl.Pos()) || f.Decl.Body == nil || strings.Contains(f.Pkg.PkgPath, "/mock") {
			continue
		}
		info := f.Pkg.TypesInfo
		ast.Inspect(f.Decl.Body, func(x ast.Node) bool {
			switch s := x.(type) {
			case *ast.AssignStmt:
				for i, l := range s.Lhs {
					sel, ok := ast.Unparen(l).(*ast.SelectorExpr)
					if !ok || info.Uses[sel.Sel] != types.Object(fld) {
						continue
					}
					n++
					r.Sites++
					r.Fn(f)
					o := "<none>"
					if len(s.Lhs) == len(s.Rhs) {
						o = origin(f, s.Rhs[i], 4)
					}
					r.Check(strings.Contains(o, "BranchRegister("), "C02.fail", core.ShortKey(f.Obj)+" assigns TransactionContext.BranchID from the registration reply", w.Pos(s.Pos()), o,
						"TransactionContext.BranchID is assigned "+o+" here, not the branch id the coordinator answered: the phase-one report that follows is addressed with this field (and is skipped when it is 0), so a registered branch is never reported phase-one-failed and keeps its global locks")
				}
			case *ast.IncDecStmt:
				if sel, ok := ast.Unparen(s.X).(*ast.SelectorExpr); ok && info.Uses[sel.Sel] == types.Object(fld) {
					n++
					r.Sites++
					r.Bad("C02.fail", core.ShortKey(f.Obj)+" assigns TransactionContext.BranchID from the registration reply", w.Pos(s.Pos()), "TransactionContext.BranchID is changed in place")
				}
			case *ast.UnaryExpr:
				// *ctx = TransactionContext{} / address taken of the field
				if s.Op == token.AND {
					if sel, ok := ast.Unparen(s.X).(*ast.SelectorExpr); ok && info.Uses[sel.Sel] == types.Object(fld) {
						n++
						r.Sites++
						r.Bad("C02.fail", core.ShortKey(f.Obj)+" assigns TransactionContext.BranchID from the registration reply", w.Pos(s.Pos()), "the address of TransactionContext.BranchID is taken: writes through it are not followed")
					}
				}
			}
			return true
		})
		// whole-struct overwrite of an existing context through a pointer: *p = TransactionContext{...}
		ast.Inspect(f.Decl.Body, func(x ast.Node) bool {
			as, ok := x.(*ast.AssignStmt)
			if !ok {
				return true
			}
			for _, l := range as.Lhs {
				if se, ok := ast.Unparen(l).(*ast.StarExpr); ok {
					if t := info.TypeOf(se.X); t != nil {
						if p, ok := t.Underlying().(*types.Pointer); ok && p.Elem() == types.Type(tc) {
							n++
							r.Sites++
							r.Bad("C02.fail", core.ShortKey(f.Obj)+" assigns TransactionContext.BranchID from the registration reply", w.Pos(as.Pos()), "an existing TransactionContext is overwritten as a whole ("+core.ExprString(l)+" = ...): its BranchID no longer is the registered one")
						}
					}
				}
			}
			return true
		})
	}
	if n == 0 {
		r.Bad("C02.fail", "assignments to TransactionContext.BranchID", "", "no assignment of the registered branch id found")
	}
}
